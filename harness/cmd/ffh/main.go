// Command ffh is the verification harness for fastflow: it drives the real
// implementation (built from /repo with -tags verif) against an in-memory
// MongoDB wire server and records cases / journals for the Coq models.
package main

import (
	"flag"
	"os"
	"strconv"
)

type runCfg struct {
	seed  int64
	tier  string
	out   string // cases file
	meta  string // meta json
	n     int
	extra string
	only  int
}

var families = map[string]func(cfg *runCfg){}

func main() {
	if len(os.Args) < 2 {
		fatalf("usage: ffh <family> [flags]")
	}
	fam := os.Args[1]
	fs := flag.NewFlagSet(fam, flag.ExitOnError)
	cfg := &runCfg{}
	fs.Int64Var(&cfg.seed, "seed", 1, "PRNG seed")
	fs.StringVar(&cfg.tier, "tier", "quick", "quick|thorough")
	fs.StringVar(&cfg.out, "out", "cases.txt", "cases output file")
	fs.StringVar(&cfg.meta, "meta", "meta.json", "meta output file")
	fs.IntVar(&cfg.n, "n", 0, "number of generated cases (0 = tier default)")
	fs.StringVar(&cfg.extra, "x", "", "family-specific argument (e.g. replay file)")
	fs.IntVar(&cfg.only, "only", -1, "run only the scenario with this index (replay)")
	fs.Parse(os.Args[2:])
	if v := os.Getenv("VERIF_SEED"); v != "" && cfg.seed == 1 {
		if s, err := strconv.ParseInt(v, 10, 64); err == nil {
			cfg.seed = s
		}
	}
	f, ok := families[fam]
	if !ok {
		fatalf("unknown family %q", fam)
	}
	quietLogs()
	f(cfg)
}
