package main

import (
	"bytes"
	"errors"
	"fmt"
	"runtime"
	"sort"
	"strconv"
	"strings"
	"sync"
	"time"

	"context"

	"ffverif/memongo"

	"github.com/shiningrush/fastflow/pkg/entity"
	"github.com/shiningrush/fastflow/pkg/entity/run"
	"github.com/shiningrush/fastflow/pkg/event"
	"github.com/shiningrush/fastflow/pkg/mod"
	"github.com/shiningrush/goevent"
)

// gateBus replaces the process-wide event bus (goevent.SetEventBus is the library's documented hook): the
// TaskCompleted notification an executor worker publishes at the very end of workerDo - after the run was
// de-registered and its completion event handed to the parser - becomes a scheduling point, so that a
// worker can be held between that hand-over and its return.  No handler is subscribed; events are dropped.
type gateBus struct{ e *Engine }

func (b *gateBus) Subscribe(h goevent.EventHandler) error { return nil }
func (b *gateBus) Publish(ev goevent.Event) {
	if tc, ok := ev.(*event.TaskCompleted); ok && tc.TaskIns != nil {
		b.e.park("event", "event:TaskCompleted:"+tc.TaskIns.ID)
	}
}
func (b *gateBus) PublishSync(ctx context.Context, ev goevent.Event) { b.Publish(ev) }
func (b *gateBus) Close()                                            {}

// ---------------------------------------------------------------- goroutine identity / census

func curGid() uint64 {
	var buf [64]byte
	n := runtime.Stack(buf[:], false)
	// "goroutine 123 [running]:"
	f := bytes.Fields(buf[:n])
	id, _ := strconv.ParseUint(string(f[1]), 10, 64)
	return id
}

var parkedStates = []string{"chan receive", "chan send", "select", "semacquire", "sync.Mutex.Lock", "sync.RWMutex.RLock",
	"sync.RWMutex.Lock", "sync.WaitGroup.Wait", "sync.Cond.Wait"}

// census returns a description of every goroutine that runs fastflow or scripted-action code
// and is NOT parked on a Go synchronisation primitive directly from such code.
func census(self uint64) (busy []string, relevant int) {
	buf := make([]byte, 1<<20)
	for {
		n := runtime.Stack(buf, true)
		if n < len(buf) {
			buf = buf[:n]
			break
		}
		buf = make([]byte, 2*len(buf))
	}
	for _, blk := range strings.Split(string(buf), "\n\n") {
		lines := strings.Split(blk, "\n")
		if len(lines) < 2 || !strings.HasPrefix(lines[0], "goroutine ") {
			continue
		}
		hdr := lines[0]
		sp := strings.Index(hdr[10:], " ")
		id, _ := strconv.ParseUint(hdr[10:10+sp], 10, 64)
		if id == self {
			continue
		}
		lb, rb := strings.Index(hdr, "["), strings.LastIndex(hdr, "]")
		state := hdr[lb+1 : rb]
		if c := strings.Index(state, ","); c >= 0 {
			state = state[:c]
		}
		rel := false
		topUser := ""
		for i := 1; i < len(lines); i += 2 {
			fn := lines[i]
			if strings.Contains(fn, "shiningrush/fastflow") || strings.HasPrefix(fn, "main.(*scriptAct)") || strings.HasPrefix(fn, "main.(*Engine).spawn") || strings.HasPrefix(fn, "main.(*jstore)") || strings.HasPrefix(fn, "main.(*xrAct)") || strings.HasPrefix(fn, "main.runExecReg.") {
				rel = true
			}
			if topUser == "" && !strings.HasPrefix(fn, "runtime.") && !strings.HasPrefix(fn, "sync.") && !strings.HasPrefix(fn, "internal/") && !strings.HasPrefix(fn, "context.") && !strings.HasPrefix(fn, "time.") {
				topUser = fn
			}
		}
		if !rel {
			continue
		}
		relevant++
		parked := false
		for _, ps := range parkedStates {
			if strings.HasPrefix(state, ps) {
				parked = true
			}
		}
		own := strings.Contains(topUser, "shiningrush/fastflow") || strings.HasPrefix(topUser, "main.")
		if !(parked && own) {
			busy = append(busy, fmt.Sprintf("g%d [%s] %s", id, state, topUser))
		}
	}
	return
}

// ---------------------------------------------------------------- engine

type gate struct {
	id     int
	desc   string
	inc    int
	ch     chan string
	kind   string // store | act
	origin int
}

type faultSpec struct {
	match string // substring of the gate description
	nth   int    // 1-based occurrence among matching store calls
	mode  string // fail | lost
	seen  int
}

// Engine runs one worker (keeper worker-1) with the real executor, parser, commander,
// dispatcher and watchdog against the real store over memongo, under a controlled scheduler.
type Engine struct {
	w    *World
	js   *jstore
	nm   *Namer
	rng  *Rng
	scen *Scenario

	mu       sync.Mutex
	journal  sxList
	jtxt     []string
	gates    []*gate
	gateSeq  int
	inc      int
	mainGid  uint64
	origin   map[uint64]int
	spawned  int // harness goroutines in flight
	attempts map[string]int
	faults   []*faultSpec
	released []string // schedule, for the replay file

	snaps   []memongo.Snapshot // store after each write
	snapJix []int              // journal length at that moment

	exe *mod.DefExecutor
	par *mod.DefParser

	// memFault: one database-level failure inside a batch insert (the batch is then partially applied)
	memFaultNth  int // fail the n-th insert into task_instance (0 = none)
	memFaultSeen int
	memFaultIdx  int // index inside the batch where it hit (-1 = not yet)

	dirTarget  string // directed schedules: the task instance the race is about
	dirHeldIns string
	hold       func(g *gate) bool     // directed schedules: gates that are not released for now
	replyHold  func(desc string) bool // directed schedules: park the caller once more after the store applied the call

	hung        bool
	foreignDiff string
	panicked    []string
	alive       int // action phases currently executing in the live incarnation
	aliveInc    int
}

var errInjected = errors.New("injected store failure")

func newEngine(w *World, rng *Rng, scen *Scenario) *Engine {
	e := &Engine{w: w, nm: newNamer(), rng: rng, scen: scen, origin: map[uint64]int{}, attempts: map[string]int{}}
	e.mainGid = curGid()
	e.js = &jstore{e: e, real: w.Store}
	mod.SetStore(e.js)
	mod.SetCommander(&mod.DefCommander{})
	goevent.SetEventBus(&gateBus{e: e})
	return e
}

func (e *Engine) log(ev Sx, txt string) {
	e.mu.Lock()
	e.journal = append(e.journal, ev)
	e.jtxt = append(e.jtxt, txt)
	e.mu.Unlock()
}

// park blocks the calling goroutine at a gate until the scheduler releases it; calls made by the
// scheduler goroutine itself are never gated.  Returns the fault directive.
func (e *Engine) park(kind, desc string) string {
	if curGid() == e.mainGid {
		return ""
	}
	e.mu.Lock()
	e.gateSeq++
	g := &gate{id: e.gateSeq, desc: desc, inc: e.inc, ch: make(chan string), kind: kind, origin: e.origin[curGid()]}
	e.gates = append(e.gates, g)
	e.mu.Unlock()
	return <-g.ch
}

// startIncarnation creates fresh executor and parser objects (same worker key).
func (e *Engine) startIncarnation(execWorkers, parserWorkers int, timeout time.Duration) {
	e.exe = mod.NewDefExecutor(timeout, execWorkers)
	mod.SetExecutor(e.exe)
	e.par = mod.NewDefParser(parserWorkers, timeout)
	mod.SetParser(e.par)
	e.exe.Init()
	par := e.par
	e.spawn(7, "init", func() string {
		if err := par.VerifInit(); err != nil {
			return "err"
		}
		return "ok"
	})
}

// crash abandons the live incarnation: its parked goroutines are never released.
func (e *Engine) crash() {
	e.mu.Lock()
	e.inc++
	e.gates = nil
	e.spawned = 0
	e.alive = 0
	e.mu.Unlock()
	e.log(L(I(20)), "X crash")
}

// spawn runs a harness-level call in its own goroutine (it will park at store gates).
func (e *Engine) spawn(origin int, name string, f func() string) {
	e.mu.Lock()
	e.spawned++
	inc := e.inc
	e.mu.Unlock()
	e.log(L(I(8), I(origin)), "H call "+name)
	go e.spawnBody(origin, name, inc, f)
}

func (e *Engine) spawnBody(origin int, name string, inc int, f func() string) {
	gid := curGid()
	e.mu.Lock()
	e.origin[gid] = origin
	e.mu.Unlock()
	res := "panic"
	defer func() {
		if r := recover(); r != nil {
			e.mu.Lock()
			e.panicked = append(e.panicked, fmt.Sprintf("%s: %v", name, r))
			e.mu.Unlock()
		}
		code := map[string]int{"ok": 0, "err": 1, "panic": 2, "timeout": 3}[res]
		e.log(L(I(9), I(origin), I(code)), "H ret "+name+" "+res)
		e.mu.Lock()
		delete(e.origin, gid)
		if inc == e.inc {
			e.spawned--
		}
		e.mu.Unlock()
	}()
	res = f()
}

// callInFlight: a harness-level call of this origin has been spawned and has not returned yet.
func (e *Engine) callInFlight(origin int) bool {
	e.mu.Lock()
	defer e.mu.Unlock()
	for _, o := range e.origin {
		if o == origin {
			return true
		}
	}
	return false
}

func (e *Engine) originOf() int {
	gid := curGid()
	if gid == e.mainGid {
		return 9
	}
	e.mu.Lock()
	defer e.mu.Unlock()
	return e.origin[gid]
}

// settle waits until every fastflow / scripted goroutine is parked (two identical censuses).
func (e *Engine) settle() bool {
	stable := 0
	deadline := time.Now().Add(10 * time.Second)
	for time.Now().Before(deadline) {
		busy, _ := census(e.mainGid)
		if len(busy) == 0 {
			stable++
			if stable >= 2 {
				return true
			}
			runtime.Gosched()
			continue
		}
		stable = 0
		time.Sleep(100 * time.Microsecond)
	}
	busy, _ := census(e.mainGid)
	e.mu.Lock()
	e.hung = true
	e.mu.Unlock()
	e.log(L(I(29)), "NOT QUIESCENT: "+strings.Join(busy, " | "))
	return false
}

func (e *Engine) liveGates() []*gate {
	e.mu.Lock()
	defer e.mu.Unlock()
	var out []*gate
	for _, g := range e.gates {
		if g.inc == e.inc {
			out = append(out, g)
		}
	}
	sort.Slice(out, func(i, j int) bool {
		return out[i].desc < out[j].desc || out[i].desc == out[j].desc && out[i].id < out[j].id
	})
	return out
}

// release lets one parked goroutine continue (with an optional fault) and waits for quiescence.
func (e *Engine) release(g *gate) {
	fault := ""
	if g.kind == "store" {
		for _, f := range e.faults {
			hit := strings.Contains(g.desc, f.match)
			if strings.HasPrefix(f.match, "suffix=") {
				hit = strings.HasPrefix(g.desc, "PatchTaskIns:") && strings.HasSuffix(g.desc, strings.TrimPrefix(f.match, "suffix="))
			}
			if f.mode != "" && hit {
				f.seen++
				if f.seen == f.nth {
					fault = f.mode
				}
			}
		}
	}
	e.mu.Lock()
	for i, x := range e.gates {
		if x == g {
			e.gates = append(e.gates[:i], e.gates[i+1:]...)
			break
		}
	}
	e.released = append(e.released, g.desc)
	e.mu.Unlock()
	g.ch <- fault
	e.settle()
}

// step releases one random parked gate; pref (optional) restricts the choice when it matches something.
func (e *Engine) step(pref func(g *gate) bool) bool {
	gs := e.liveGates()
	if e.hold != nil {
		var free []*gate
		for _, g := range gs {
			if !e.hold(g) {
				free = append(free, g)
			}
		}
		gs = free
	}
	if len(gs) == 0 {
		return false
	}
	var cand []*gate
	if pref != nil {
		for _, g := range gs {
			if pref(g) {
				cand = append(cand, g)
			}
		}
	}
	if len(cand) == 0 {
		cand = gs
	}
	e.release(cand[e.rng.Intn(len(cand))])
	return true
}

// drive releases only the gates of harness calls of the given origin until none is parked and no
// such call is in flight any more (everything else stays parked): the call runs "instantly".
func (e *Engine) drive(origin int) {
	for i := 0; i < 200; i++ {
		progressed := e.step(func(g *gate) bool { return g.origin == origin && g.kind == "store" })
		has := false
		for _, g := range e.liveGates() {
			if g.origin == origin && g.kind == "store" {
				has = true
			}
		}
		if !has || !progressed {
			return
		}
	}
}

func (e *Engine) aliveRuns() int {
	e.mu.Lock()
	defer e.mu.Unlock()
	return e.alive
}

func (e *Engine) inFlight() int {
	e.mu.Lock()
	defer e.mu.Unlock()
	return e.spawned
}

// markQuiescent journals a quiescence point (nothing parked, no harness call in flight).
func (e *Engine) markQuiescent() {
	if len(e.liveGates()) == 0 && e.inFlight() == 0 {
		e.log(L(I(23)), "Q quiescent")
	}
}

// ---------------------------------------------------------------- journaled store

type jstore struct {
	e    *Engine
	real mod.Store
}

func (j *jstore) call(desc string, op Sx, write bool, do func() (Sx, error)) error {
	return j.callOp(desc, func() Sx { return op }, write, do)
}

// callOp: the operation is encoded after the real call (ids are generated inside it).
func (j *jstore) callOp(desc string, opf func() Sx, write bool, do func() (Sx, error)) error {
	e := j.e
	fault := e.park("store", desc)
	origin := e.originOf()
	now := time.Now().Unix()
	if fault == "fail" {
		e.log(L(I(1), I(int(now)), opf(), L(I(3)), I(origin), I(1)), fmt.Sprintf("D %s -> injected failure (not applied) o=%d", desc, origin))
		return errInjected
	}
	rep, err := do()
	op := opf()
	fl := 0
	if fault == "lost" {
		fl = 2
	}
	e.mu.Lock()
	e.journal = append(e.journal, L(I(1), I(int(now)), op, rep, I(origin), I(fl)))
	e.jtxt = append(e.jtxt, fmt.Sprintf("D %s -> %s o=%d%s", desc, sxString(rep)[:min(60, len(sxString(rep)))], origin, map[int]string{0: "", 2: " (reply lost)"}[fl]))
	if write {
		e.snaps = append(e.snaps, e.w.Srv.Snap())
		e.snapJix = append(e.snapJix, len(e.journal))
	}
	e.mu.Unlock()
	if fault == "lost" {
		return errInjected
	}
	if e.replyHold != nil && e.replyHold(desc) {
		// the store has applied the call; the caller has not seen the reply yet
		e.park("reply", "reply:"+desc)
	}
	return err
}

func min(a, b int) int {
	if a < b {
		return a
	}
	return b
}

func (j *jstore) Close() {}

func (j *jstore) CreateDag(dag *entity.Dag) error {
	return j.call("CreateDag:"+dag.ID, L(I(30), I(j.e.nm.Id(dag.ID))), true, func() (Sx, error) {
		err := j.real.CreateDag(dag)
		return errReplySx(err), err
	})
}

func (j *jstore) UpdateDag(dag *entity.Dag) error {
	return j.call("UpdateDag:"+dag.ID, L(I(31), I(j.e.nm.Id(dag.ID))), true, func() (Sx, error) {
		err := j.real.UpdateDag(dag)
		return errReplySx(err), err
	})
}

func (j *jstore) GetDag(id string) (*entity.Dag, error) {
	var out *entity.Dag
	err := j.call("GetDag:"+id, L(I(32), I(j.e.nm.Id(id))), false, func() (Sx, error) {
		d, err := j.real.GetDag(id)
		out = d
		return errReplySx(err), err
	})
	if err != nil {
		return nil, err
	}
	return out, nil
}

func (j *jstore) CreateDagIns(d *entity.DagInstance) error {
	nm := j.e.nm
	return j.callOp("CreateDagIns", func() Sx { return L(I(2), insSxR(d, nm)) }, true, func() (Sx, error) {
		err := j.real.CreateDagIns(d)
		return errReplySx(err), err
	})
}

func (j *jstore) BatchCreatTaskIns(ts []*entity.TaskInstance) error {
	nm := j.e.nm
	e := j.e
	failAt := -1
	if e.scen != nil && len(e.scen.twinSpecs) > 0 {
		// the parameters each record is created with (C05: the instance's variable values substituted)
		for _, t := range ts {
			var pt interface{}
			if len(t.Params) > 0 {
				pt = t.Params
			}
			e.log(L(I(36), I(nm.Id(t.ID)), I(nm.Id(t.TaskID)), I(nm.Id(t.DagInsID)), treeSx(pt)), "D record params "+t.TaskID)
		}
	}
	return j.callOp(fmt.Sprintf("BatchCreatTaskIns:%d", len(ts)), func() Sx {
		enc := sxList{}
		for _, t := range ts {
			enc = append(enc, taskSxR(t, nm))
		}
		if failAt >= 0 {
			return L(I(3), enc, L(I(failAt)))
		}
		return L(I(3), enc, L())
	}, true, func() (Sx, error) {
		e.mu.Lock()
		before := e.memFaultSeen
		e.mu.Unlock()
		err := j.real.BatchCreatTaskIns(ts)
		e.mu.Lock()
		if err != nil && e.memFaultNth > 0 && before < e.memFaultNth && e.memFaultSeen >= e.memFaultNth {
			failAt = e.memFaultNth - 1 - before
		}
		e.mu.Unlock()
		return errReplySx(err), err
	})
}

func (j *jstore) PatchTaskIns(t *entity.TaskInstance) error {
	nm := j.e.nm
	var traces []int
	for _, tr := range t.Traces {
		traces = append(traces, nm.Id(tr.Message))
	}
	op := L(I(4), I(nm.Id(t.ID)), I(tStatusCode(t.Status)), I(reasonCode(t.Reason)), Ints(traces))
	return j.call("PatchTaskIns:"+t.ID+":"+string(t.Status), op, true, func() (Sx, error) {
		err := j.real.PatchTaskIns(t)
		return errReplySx(err), err
	})
}

func (j *jstore) PatchDagIns(d *entity.DagInstance, musts ...string) error {
	nm := j.e.nm
	mc, mr := false, false
	for _, m := range musts {
		if m == "Cmd" {
			mc = true
		}
		if m == "Reason" {
			mr = true
		}
	}
	op := L(I(5), I(nm.Id(d.ID)), shareSx(d.ShareData, nm), I(iStatusCode(d.Status)), cmdSx(d.Cmd, nm), B(mc), I(nm.Id(d.Worker)), I(reasonCode(d.Reason)), B(mr))
	desc := "PatchDagIns:" + d.ID + ":" + string(d.Status)
	if d.ShareData != nil {
		desc += ":share"
	}
	if mc {
		desc += ":cmd"
	}
	return j.call(desc, op, true, func() (Sx, error) {
		err := j.real.PatchDagIns(d, musts...)
		return errReplySx(err), err
	})
}

func (j *jstore) UpdateDagIns(d *entity.DagInstance) error {
	nm := j.e.nm
	return j.call("UpdateDagIns:"+d.ID, L(I(7), insSxR(d, nm)), true, func() (Sx, error) {
		err := j.real.UpdateDagIns(d)
		return errReplySx(err), err
	})
}

func (j *jstore) UpdateTaskIns(t *entity.TaskInstance) error {
	nm := j.e.nm
	return j.call("UpdateTaskIns:"+t.ID+":"+string(t.Status), L(I(6), taskSxR(t, nm)), true, func() (Sx, error) {
		err := j.real.UpdateTaskIns(t)
		return errReplySx(err), err
	})
}

func (j *jstore) BatchUpdateDagIns(ds []*entity.DagInstance) error {
	nm := j.e.nm
	enc := sxList{}
	for _, d := range ds {
		enc = append(enc, insSxR(d, nm))
	}
	return j.call(fmt.Sprintf("BatchUpdateDagIns:%d", len(ds)), L(I(8), enc, L()), true, func() (Sx, error) {
		err := j.real.BatchUpdateDagIns(ds)
		return errReplySx(err), err
	})
}

func (j *jstore) BatchUpdateTaskIns(ts []*entity.TaskInstance) error {
	nm := j.e.nm
	enc := sxList{}
	for _, t := range ts {
		enc = append(enc, taskSxR(t, nm))
	}
	return j.call(fmt.Sprintf("BatchUpdateTaskIns:%d", len(ts)), L(I(9), enc, L()), true, func() (Sx, error) {
		err := j.real.BatchUpdateTaskIns(ts)
		return errReplySx(err), err
	})
}

func (j *jstore) GetTaskIns(id string) (*entity.TaskInstance, error) {
	var out *entity.TaskInstance
	nm := j.e.nm
	err := j.call("GetTaskIns:"+id, L(I(10), I(nm.Id(id))), false, func() (Sx, error) {
		t, err := j.real.GetTaskIns(id)
		out = t
		if err != nil {
			return errReplySx(err), err
		}
		return L(I(4), taskSxR(t, nm)), nil
	})
	if err != nil {
		return nil, err
	}
	return out, nil
}

func (j *jstore) GetDagInstance(id string) (*entity.DagInstance, error) {
	var out *entity.DagInstance
	nm := j.e.nm
	err := j.call("GetDagInstance:"+id, L(I(11), I(nm.Id(id))), false, func() (Sx, error) {
		d, err := j.real.GetDagInstance(id)
		out = d
		if err != nil {
			return errReplySx(err), err
		}
		return L(I(5), insSxR(d, nm)), nil
	})
	if err != nil {
		return nil, err
	}
	return out, nil
}

func (j *jstore) ListDagInstance(in *mod.ListDagInstanceInput) ([]*entity.DagInstance, error) {
	var out []*entity.DagInstance
	nm := j.e.nm
	var sts []int
	for _, s := range in.Status {
		sts = append(sts, iStatusCode(s))
	}
	op := L(I(12), L(I(nm.Id(in.Worker)), Ints(sts), I(int(in.UpdatedEnd)), B(in.HasCmd), I(int(in.Limit))))
	desc := fmt.Sprintf("ListDagInstance:w=%s:st=%v:cmd=%v", in.Worker, in.Status, in.HasCmd)
	err := j.call(desc, op, false, func() (Sx, error) {
		res, err := j.real.ListDagInstance(in)
		out = res
		if err != nil {
			return errReplySx(err), err
		}
		l := sxList{}
		for _, d := range res {
			l = append(l, insSxR(d, nm))
		}
		return L(I(7), l), nil
	})
	if err != nil {
		return nil, err
	}
	return out, nil
}

func (j *jstore) ListTaskInstance(in *mod.ListTaskInstanceInput) ([]*entity.TaskInstance, error) {
	var out []*entity.TaskInstance
	nm := j.e.nm
	var ids, sts []int
	for _, id := range in.IDs {
		ids = append(ids, nm.Id(id))
	}
	for _, s := range in.Status {
		sts = append(sts, tStatusCode(s))
	}
	op := L(I(13), L(Ints(ids), I(nm.Id(in.DagInsID)), Ints(sts), B(in.Expired)))
	desc := fmt.Sprintf("ListTaskInstance:ins=%s:ids=%v:st=%v:exp=%v", in.DagInsID, in.IDs, in.Status, in.Expired)
	err := j.call(desc, op, false, func() (Sx, error) {
		res, err := j.real.ListTaskInstance(in)
		out = res
		if err != nil {
			return errReplySx(err), err
		}
		l := sxList{}
		for _, t := range res {
			l = append(l, taskSxR(t, nm))
		}
		return L(I(6), l), nil
	})
	if err != nil {
		return nil, err
	}
	return out, nil
}

func (j *jstore) Marshal(obj interface{}) ([]byte, error)   { return j.real.Marshal(obj) }
func (j *jstore) Unmarshal(b []byte, ptr interface{}) error { return j.real.Unmarshal(b, ptr) }

// reasonCode: fixed codes of the reason classes (0 none, 1 watchdog, 2 success-after-canceled, 3 parent-cancel, 4 other)
func reasonCode(r string) int {
	return map[string]int{"": 0, "R:watchdog": 1, "R:success-after-canceled": 2, "R:parent-cancel": 3, "R:other": 4}[reasonClass(r)]
}

// reasonClass maps free-text reasons to a small set (reasons contain stack traces and ids).
func reasonClass(r string) string {
	switch {
	case r == "":
		return ""
	case r == mod.DefFailedReason:
		return "R:watchdog"
	case r == mod.ReasonSuccessAfterCanceled:
		return "R:success-after-canceled"
	case r == mod.ReasonParentCancel:
		return "R:parent-cancel"
	}
	return "R:other"
}

// the engine journal keeps records small: the opaque rest of a record is dropped, reasons are classed
func taskSxR(t *entity.TaskInstance, nm *Namer) Sx {
	var traces []int
	for _, tr := range t.Traces {
		traces = append(traces, nm.Id(tr.Message))
	}
	return L(I(nm.Id(t.ID)), I(nm.Id(t.DagInsID)), I(nm.Id(t.TaskID)), strIds(t.DependOn, nm), I(t.TimeoutSecs),
		I(tStatusCode(t.Status)), I(reasonCode(t.Reason)), Ints(traces), L())
}

func insSxR(d *entity.DagInstance, nm *Namer) Sx {
	return L(I(nm.Id(d.ID)), I(nm.Id(d.Worker)), I(iStatusCode(d.Status)), I(reasonCode(d.Reason)), cmdSx(d.Cmd, nm), shareSx(d.ShareData, nm), L())
}

// ---------------------------------------------------------------- scripted actions

type actOp struct {
	kind int // 0 share set, 1 share get, 2 trace (default priority), 3 trace (after-action priority)
	k, v string
}

type phaseScript struct {
	outcome    int // 0 ok, 1 error, 2 panic
	waitCancel bool
	ops        []actOp
}

type scriptAct struct {
	e    *Engine
	name string
}

func (a *scriptAct) Name() string { return a.name }

var phaseCode = map[string]int{"before": 0, "run": 1, "after": 2, "retry": 3}

func (a *scriptAct) phase(ctx run.ExecuteContext, ph string) error {
	e := a.e
	t, _ := entity.CtxRunningTaskIns(ctx.Context())
	key := t.ID + "/" + ph
	e.mu.Lock()
	att := e.attempts[key]
	e.attempts[key] = att + 1
	e.mu.Unlock()
	dl := -1
	if d, ok := ctx.Context().Deadline(); ok {
		dl = int(time.Until(d).Round(time.Second) / time.Second)
	}
	nm := e.nm
	e.mu.Lock()
	myInc := e.inc
	e.alive++
	e.mu.Unlock()
	defer func() {
		e.mu.Lock()
		if myInc == e.inc {
			e.alive--
		}
		e.mu.Unlock()
	}()
	e.log(L(I(2), I(nm.Id(t.ID)), I(nm.Id(t.TaskID)), I(phaseCode[ph]), I(att), I(dl), I(nm.Id(t.DagInsID))), fmt.Sprintf("A start %s(%s) %s #%d deadline=%ds", t.TaskID, t.ID, ph, att, dl))
	sc := e.scen.script(t.TaskID, ph, att)
	e.park("act", "act:"+t.TaskID+":"+ph)
	for _, op := range sc.ops {
		switch op.kind {
		case 0:
			bv, bok := ctx.ShareData().Get(op.k)
			ctx.ShareData().Set(op.k, op.v)
			av, aok := ctx.ShareData().Get(op.k)
			e.log(L(I(4), I(nm.Id(t.ID)), I(nm.Id(op.k)), I(nm.Id(op.v)), I(nm.Id(t.DagInsID)), B(bok), I(nm.Id(bv)), B(aok), I(nm.Id(av))),
				fmt.Sprintf("A set %s %s=%s before=(%v,%q) after=(%v,%q)", t.TaskID, op.k, op.v, bok, bv, aok, av))
		case 1:
			v, ok := ctx.ShareData().Get(op.k)
			e.log(L(I(5), I(nm.Id(t.ID)), I(nm.Id(op.k)), B(ok), I(nm.Id(v)), I(nm.Id(t.DagInsID))), fmt.Sprintf("A get %s %s -> %v %q", t.TaskID, op.k, ok, v))
		case 2:
			ctx.Trace(op.v)
			e.log(L(I(6), I(nm.Id(t.ID)), I(nm.Id(op.v)), I(0)), fmt.Sprintf("A trace %s %q", t.TaskID, op.v))
		case 3:
			ctx.Trace(op.v, run.TraceOpPersistAfterAction)
			e.log(L(I(6), I(nm.Id(t.ID)), I(nm.Id(op.v)), I(1)), fmt.Sprintf("A trace(buffered) %s %q", t.TaskID, op.v))
		}
		e.park("act", "act:"+t.TaskID+":"+ph+":op")
	}
	if sc.waitCancel {
		<-ctx.Context().Done()
		e.log(L(I(7), I(nm.Id(t.ID))), fmt.Sprintf("A ctx-done %s", t.TaskID))
		e.park("act", "act:"+t.TaskID+":"+ph+":after-cancel")
	}
	e.log(L(I(3), I(nm.Id(t.ID)), I(nm.Id(t.TaskID)), I(phaseCode[ph]), I(sc.outcome)), fmt.Sprintf("A end %s %s outcome=%d", t.TaskID, ph, sc.outcome))
	switch sc.outcome {
	case 1:
		return fmt.Errorf("scripted failure of %s %s", t.TaskID, ph)
	case 2:
		panic("scripted panic of " + t.TaskID + " " + ph)
	}
	return nil
}

func (a *scriptAct) Run(ctx run.ExecuteContext, p interface{}) error { return a.phase(ctx, "run") }

// scriptActFull additionally has before / after / retry hooks.
type scriptActFull struct{ scriptAct }

func (a *scriptActFull) RunBefore(ctx run.ExecuteContext, p interface{}) error {
	return a.phase(ctx, "before")
}
func (a *scriptActFull) RunAfter(ctx run.ExecuteContext, p interface{}) error {
	return a.phase(ctx, "after")
}
func (a *scriptActFull) RetryBefore(ctx run.ExecuteContext, p interface{}) error {
	return a.phase(ctx, "retry")
}

// scriptActParam additionally takes parameters (rendered by the executor); records what it received.
type scriptActParam struct{ scriptAct }

type actParams struct {
	P1 string                 `json:"p1"`
	P2 int                    `json:"p2"`
	P3 map[string]interface{} `json:"p3"`
	P4 []interface{}          `json:"p4"`
}

func (a *scriptActParam) ParameterNew() interface{} { return &actParams{} }
func (a *scriptActParam) Run(ctx run.ExecuteContext, p interface{}) error {
	t, _ := entity.CtxRunningTaskIns(ctx.Context())
	e := a.e
	if ap, ok := p.(*actParams); ok && ap != nil {
		// what the templates of the 'tmpl' scenarios must have been rendered to (see genScenario)
		v, _ := ctx.GetVar("v")
		wv, _ := ctx.GetVar("w")
		code := 0
		if strings.Contains(a.e.scen.tmplOf(t.TaskID), "shareData") {
			k0, has := ctx.ShareData().Get("k0")
			if !has {
				code = 1 // the action runs although its template could not be rendered
			} else if ap.P1 != v+"|"+k0 {
				code = 2
			}
		} else if ap.P1 != v+"|" {
			code = 2
		}
		if len(ap.P4) > 0 {
			if s, _ := ap.P4[0].(string); s != wv {
				code = 3 // template inside a list not rendered
			}
		}
		if code != 0 {
			e.log(L(I(34), I(e.nm.Id(t.ID)), I(code)), fmt.Sprintf("A params-wrong %s code=%d p1=%q p4=%v", t.TaskID, code, ap.P1, ap.P4))
		}
	}
	return a.phase(ctx, "run")
}

func (e *Engine) registerActions() {
	mod.ActionMap["A"] = &scriptAct{e: e, name: "A"}
	mod.ActionMap["AF"] = &scriptActFull{scriptAct{e: e, name: "AF"}}
	mod.ActionMap["AP"] = &scriptActParam{scriptAct{e: e, name: "AP"}}
}
