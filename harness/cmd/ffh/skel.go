package main

import (
	"go/ast"
	"go/parser"
	"go/token"
	"os"
	"path/filepath"
)

func init() { families["skel"] = runSkel }

// runSkel: C20.  Reads the synchronisation skeleton (lock, channel and wait-group operations in source
// order, with go/select/defer structure) of the functions the Shutdown model abstracts, straight from the
// current source text.  The Coq side compares each with the skeleton its transition system was written from.
//
// operation codes: 1 Lock 2 Unlock 3 RLock 4 RUnlock 5 defer 6 close 7 send 8 receive 9 Wait 10 Add 11 Done
// 12 go{ 13 } 14 select{ 15 case 16 default 17 range 18 return 19 call 20 for{
// object codes: 1 lock 2 closeCh 3 workerQueue/queue 4 workerWg 5 senderWg 6 initQueue 7 initWg 8 cancelMap
// 20 sendToChannel 21 EntryTaskIns 22 initWorkerTask 23 workerDo 24 executeNext 25 Push 26 DoPreCheck
// 27 PatchTaskIns 99 anything else that is synchronised on
func runSkel(cfg *runCfg) {
	meta := newMeta("skel", cfg.seed, cfg.tier)
	meta.Rule = "synchronisation skeletons of parser.go / executor.go functions, extracted from the source text with go/ast"
	cw := newCaseWriter(cfg.out)
	defer cw.Close()
	root := os.Getenv("FF_REPO")
	if root == "" {
		root = "/repo"
	}
	type fn struct {
		id         int
		file, recv string
		name       string
	}
	fns := []fn{
		{1, "pkg/mod/parser.go", "DefParser", "sendToChannel"},
		{2, "pkg/mod/parser.go", "DefParser", "Close"},
		{3, "pkg/mod/parser.go", "DefParser", "goWorker"},
		{4, "pkg/mod/parser.go", "DefParser", "EntryTaskIns"},
		{5, "pkg/mod/executor.go", "DefExecutor", "Push"},
		{6, "pkg/mod/executor.go", "DefExecutor", "Close"},
		{7, "pkg/mod/executor.go", "DefExecutor", "watchInitQueue"},
		{8, "pkg/mod/executor.go", "DefExecutor", "subWorkerQueue"},
		{9, "pkg/mod/executor.go", "DefExecutor", "initWorkerTask"},
		{10, "pkg/mod/executor.go", "DefExecutor", "workerDo"},
		{11, "pkg/mod/parser.go", "DefParser", "Init"},
		{12, "pkg/mod/executor.go", "DefExecutor", "Init"},
		{13, "pkg/entity/dag.go", "ShareData", "Set"},
		{14, "pkg/entity/dag.go", "ShareData", "Get"},
	}
	// -x shutdown: the functions of the Shutdown model (C20); -x sharedata: ShareData.Set / Get (C18)
	lo, hi := 1, 14
	switch cfg.extra {
	case "shutdown":
		hi = 12
	case "sharedata":
		lo = 13
	}
	fset := token.NewFileSet()
	files := map[string]*ast.File{}
	for _, f := range fns {
		if f.id < lo || f.id > hi {
			continue
		}
		af, ok := files[f.file]
		if !ok {
			var err error
			af, err = parser.ParseFile(fset, filepath.Join(root, f.file), nil, 0)
			if err != nil {
				fatalf("parse %s: %v", f.file, err)
			}
			files[f.file] = af
		}
		ops := skeleton(af, f.recv, f.name)
		cw.Comment(f.recv + "." + f.name)
		cw.Case(90, L(I(f.id), ops))
		meta.Count("functions", f.recv+"."+f.name)
		meta.Seen(f.recv+"."+f.name, true)
	}
	meta.Cases = cw.N
	meta.Write(cfg.meta)
}

var skelObjects = map[string]int{
	"lock": 1, "closeCh": 2, "workerQueue": 3, "queue": 3, "workerWg": 4, "senderWg": 5, "initQueue": 6, "initWg": 7, "cancelMap": 8, "mutex": 9,
}
var skelCalls = map[string]int{
	"sendToChannel": 20, "EntryTaskIns": 21, "initWorkerTask": 22, "workerDo": 23, "executeNext": 24, "Push": 25, "DoPreCheck": 26,
	"PatchTaskIns": 27, "goWorker": 28, "startWatcher": 29, "watchInitQueue": 30, "subWorkerQueue": 31, "initialRunningDagIns": 32, "Save": 40,
}
var skelMethods = map[string]int{"Lock": 1, "Unlock": 2, "RLock": 3, "RUnlock": 4, "Wait": 9, "Add": 10, "Done": 11}

func objName(e ast.Expr) string {
	switch x := e.(type) {
	case *ast.SelectorExpr:
		return x.Sel.Name
	case *ast.IndexExpr:
		return objName(x.X)
	case *ast.Ident:
		return x.Name
	case *ast.ParenExpr:
		return objName(x.X)
	}
	return ""
}

func objCode(e ast.Expr) int {
	if c, ok := skelObjects[objName(e)]; ok {
		return c
	}
	return 99
}

func skeleton(af *ast.File, recv, name string) Sx {
	var out sxList
	emit := func(op, obj int) { out = append(out, L(I(op), I(obj))) }
	var fd *ast.FuncDecl
	for _, d := range af.Decls {
		f, ok := d.(*ast.FuncDecl)
		if !ok || f.Name.Name != name || f.Recv == nil || len(f.Recv.List) != 1 {
			continue
		}
		t := f.Recv.List[0].Type
		if s, ok := t.(*ast.StarExpr); ok {
			t = s.X
		}
		if id, ok := t.(*ast.Ident); ok && id.Name == recv {
			fd = f
		}
	}
	if fd == nil || fd.Body == nil {
		return L(L(I(0), I(0))) // the function is gone
	}
	var walk func(n ast.Node)
	walkList := func(l []ast.Stmt) {
		for _, s := range l {
			walk(s)
		}
	}
	walk = func(n ast.Node) {
		switch x := n.(type) {
		case nil:
			return
		case *ast.DeferStmt:
			emit(5, 0)
			walk(x.Call)
		case *ast.GoStmt:
			emit(12, 0)
			walk(x.Call)
			emit(13, 0)
		case *ast.SelectStmt:
			emit(14, 0)
			for _, c := range x.Body.List {
				cc := c.(*ast.CommClause)
				if cc.Comm == nil {
					emit(16, 0)
				} else {
					emit(15, 0)
					walk(cc.Comm)
				}
				walkList(cc.Body)
			}
			emit(13, 0)
		case *ast.SendStmt:
			emit(7, objCode(x.Chan))
			walk(x.Value)
		case *ast.UnaryExpr:
			if x.Op == token.ARROW {
				emit(8, objCode(x.X))
				return
			}
			walk(x.X)
		case *ast.RangeStmt:
			emit(17, objCode(x.X))
			walkList(x.Body.List)
			emit(13, 0)
		case *ast.ForStmt:
			emit(20, 0)
			walk(x.Init)
			walk(x.Cond)
			walk(x.Post)
			walkList(x.Body.List)
			emit(13, 0)
		case *ast.ReturnStmt:
			for _, r := range x.Results {
				walk(r)
			}
			emit(18, 0)
		case *ast.CallExpr:
			if id, ok := x.Fun.(*ast.Ident); ok && id.Name == "close" && len(x.Args) == 1 {
				emit(6, objCode(x.Args[0]))
				return
			}
			if fl, ok := x.Fun.(*ast.FuncLit); ok {
				for _, a := range x.Args {
					walk(a)
				}
				walkList(fl.Body.List)
				return
			}
			if sel, ok := x.Fun.(*ast.SelectorExpr); ok {
				if op, ok := skelMethods[sel.Sel.Name]; ok {
					// a method of a lock or wait group (anything else named like one is reported as object 99)
					emit(op, objCode(sel.X))
					return
				}
				walk(sel.X)
				for _, a := range x.Args {
					walk(a)
				}
				if c, ok := skelCalls[sel.Sel.Name]; ok {
					emit(19, c)
				}
				return
			}
			for _, a := range x.Args {
				walk(a)
			}
		case *ast.FuncLit:
			walkList(x.Body.List)
		case *ast.BlockStmt:
			walkList(x.List)
		case *ast.ExprStmt:
			walk(x.X)
		case *ast.AssignStmt:
			for _, r := range x.Rhs {
				walk(r)
			}
		case *ast.DeclStmt:
			if gd, ok := x.Decl.(*ast.GenDecl); ok {
				for _, sp := range gd.Specs {
					if vs, ok := sp.(*ast.ValueSpec); ok {
						for _, v := range vs.Values {
							walk(v)
						}
					}
				}
			}
		case *ast.IfStmt:
			walk(x.Init)
			walk(x.Cond)
			emit(21, 0)
			walkList(x.Body.List)
			if x.Else != nil {
				emit(22, 0)
				walk(x.Else)
			}
			emit(13, 0)
		case *ast.SwitchStmt:
			walk(x.Init)
			walk(x.Tag)
			for _, c := range x.Body.List {
				cc := c.(*ast.CaseClause)
				emit(15, 0)
				walkList(cc.Body)
			}
		case *ast.BinaryExpr:
			walk(x.X)
			walk(x.Y)
		case *ast.ParenExpr:
			walk(x.X)
		case *ast.StarExpr:
			walk(x.X)
		case *ast.CompositeLit:
			for _, e := range x.Elts {
				walk(e)
			}
		case *ast.KeyValueExpr:
			walk(x.Value)
		case *ast.SelectorExpr:
			walk(x.X)
		case *ast.IndexExpr:
			walk(x.X)
			walk(x.Index)
		case *ast.LabeledStmt:
			walk(x.Stmt)
		case *ast.IncDecStmt, *ast.BranchStmt, *ast.Ident, *ast.BasicLit, *ast.EmptyStmt:
		}
	}
	walkList(fd.Body.List)
	// drop empty if-blocks (no synchronisation inside): "21 ... 13" with nothing between
	return pruneEmptyIf(out)
}

func pruneEmptyIf(l sxList) Sx {
	for {
		changed := false
		var out sxList
		for i := 0; i < len(l); i++ {
			if i+1 < len(l) && opOf(l[i]) == 21 && opOf(l[i+1]) == 13 {
				i++
				changed = true
				continue
			}
			if i+2 < len(l) && opOf(l[i]) == 21 && opOf(l[i+1]) == 22 && opOf(l[i+2]) == 13 {
				i += 2
				changed = true
				continue
			}
			if i+1 < len(l) && opOf(l[i]) == 22 && opOf(l[i+1]) == 13 && false {
				continue
			}
			out = append(out, l[i])
		}
		l = out
		if !changed {
			return l
		}
	}
}

func opOf(s Sx) int {
	if l, ok := s.(sxList); ok && len(l) == 2 {
		if i, ok := l[0].(sxInt); ok {
			return int(i)
		}
	}
	return -1
}
