package main

import (
	"context"
	"errors"
	"fmt"
	"strings"
	"sync"
	"time"

	"ffverif/memongo"

	mk "github.com/shiningrush/fastflow/keeper/mongo"
	"github.com/shiningrush/fastflow/pkg/mod"
	"github.com/shiningrush/fastflow/pkg/utils/data"
	"go.mongodb.org/mongo-driver/bson/primitive"
)

func init() { families["mutex"] = runMutex }

// mAgent is one lock handle (a MongoMutex created from its own keeper connection).
type mAgent struct {
	idx     int
	client  string
	mu      mod.DistributedMutex
	busy    bool // a Lock or Unlock call is executing
	inLock  bool // the executing call is Lock
	waiting bool // the Lock call sits in its retry loop (last spinLock returned without the lock)
	calls   int  // database operations issued by the current Lock call
	cancel  context.CancelFunc
	parked  chan *memongo.Op
	release chan string
	done    chan int // return code of the call
	holds   bool
}

type mWorld struct {
	srv    *memongo.Server
	agents []*mAgent
	byCli  map[string]*mAgent
	mu     sync.Mutex
	labels sxList
	txt    []string
	start  time.Time
	mnow   int64 // model time accounted so far (ms)

	relAt   map[int]time.Time // when the scheduler released the handle's parked operation
	maxLat  time.Duration     // longest release -> applied latency seen (scheduling jitter of this machine)
	settled time.Time         // when settleBoundary last found the expiry at a safe distance
}

// jitter samples how late a 5 ms timer fires: a loaded machine makes the real-time assumptions of this family
// (an operation is applied within the 150 ms margin after the scheduler decided on it) unreliable.
type jitter struct {
	mu     sync.Mutex
	spikes []time.Time
	stop   chan struct{}
}

func newJitter() *jitter {
	j := &jitter{stop: make(chan struct{})}
	go func() {
		for {
			select {
			case <-j.stop:
				return
			default:
			}
			t0 := time.Now()
			time.Sleep(5 * time.Millisecond)
			if over := time.Since(t0) - 5*time.Millisecond; over > 40*time.Millisecond {
				j.mu.Lock()
				j.spikes = append(j.spikes, time.Now())
				j.mu.Unlock()
			}
		}
	}()
	return j
}

func (j *jitter) spikeBetween(a, b time.Time) bool {
	j.mu.Lock()
	defer j.mu.Unlock()
	for _, t := range j.spikes {
		if t.After(a) && t.Before(b.Add(50*time.Millisecond)) {
			return true
		}
	}
	return false
}

// label appends a label after accounting the real time that has passed as a clock advance.
func (w *mWorld) label(s Sx, t string) {
	w.mu.Lock()
	el := time.Since(w.start).Milliseconds()
	if el > w.mnow {
		w.labels = append(w.labels, L(I(1), I(int(el-w.mnow))))
		w.txt = append(w.txt, fmt.Sprintf("+%dms", el-w.mnow))
		w.mnow = el
	}
	w.labels = append(w.labels, s)
	w.txt = append(w.txt, t)
	w.mu.Unlock()
}

func retCode(err error) int {
	switch {
	case err == nil:
		return 0
	case errors.Is(err, context.Canceled), errors.Is(err, context.DeadlineExceeded):
		return 2
	case errors.Is(err, data.ErrMutexAlreadyUnlock):
		return 3
	case strings.Contains(err.Error(), "not locked"):
		return 4
	}
	return 1
}

// docExpiry returns expiredAt - now (ms) of the lock document, ok=false when absent.
func (w *mWorld) docExpiry() (int64, bool) {
	for _, d := range w.srv.Dump("mutex") {
		if v, ok := memongo.Get(d, "expiredAt"); ok {
			if dt, ok := v.(primitive.DateTime); ok {
				return int64(dt) - time.Now().UnixNano()/1e6, true
			}
		}
	}
	return 0, false
}

// settleBoundary sleeps until the lock document's expiry is not within 150 ms of now
// (and its TTL-index deletion point, expiry + 1 s, neither).
func (w *mWorld) settleBoundary() {
	for i := 0; i < 10; i++ {
		e, ok := w.docExpiry()
		if !ok {
			return
		}
		near := func(x int64) bool { return x > -150 && x < 150 }
		if near(e) || near(e+1000) {
			time.Sleep(320 * time.Millisecond)
			continue
		}
		return
	}
}

func runMutexScenario(seed int64, it int) (labels sxList, txt []string, violations []Violation, nhandles int, maxLat time.Duration) {
	rng := newRng(seed*1000003 + int64(it))
	w := &mWorld{srv: memongo.New(), byCli: map[string]*mAgent{}, relAt: map[int]time.Time{}}
	nh := 2 + rng.Intn(3)
	nhandles = nh
	idents := []string{"", "", "idA", "idA", "idB"}
	for i := 0; i < nh; i++ {
		cli := fmt.Sprintf("h%d", i)
		k := mk.NewKeeper(&mk.KeeperOption{Key: fmt.Sprintf("w-%d", i+1), ConnStr: w.srv.Listen(cli), UnhealthyTime: 5 * time.Second, Timeout: 30 * time.Second})
		if err := k.VerifConnect(); err != nil {
			panic(err)
		}
		a := &mAgent{idx: i, client: cli, mu: k.NewMutex("the-key"), parked: make(chan *memongo.Op), release: make(chan string), done: make(chan int, 1)}
		w.agents = append(w.agents, a)
		w.byCli[cli] = a
	}
	w.start = time.Now()
	w.srv.PreApply = func(op *memongo.Op) string {
		a := w.byCli[op.Client]
		if a == nil || op.Coll != "mutex" {
			return ""
		}
		a.calls++
		a.parked <- op
		return <-a.release
	}
	w.srv.PostApply = func(op *memongo.Op) {
		a := w.byCli[op.Client]
		if a == nil || op.Coll != "mutex" {
			return
		}
		r := resCode(op.Fault)
		w.mu.Lock()
		if t0, ok := w.relAt[a.idx]; ok {
			if d := time.Since(t0); d > w.maxLat {
				w.maxLat = d
			}
			delete(w.relAt, a.idx)
		}
		w.mu.Unlock()
		switch op.Cmd {
		case "find":
			if a.inLock && a.calls > 1 {
				// every find of a Lock call after its first spinLock comes from the retry ticker
				w.label(L(I(7), I(a.idx)), fmt.Sprintf("SpinTick %d", a.idx))
			}
			w.label(L(I(4), I(a.idx), I(r)), fmt.Sprintf("Find %d r=%d n=%d", a.idx, r, op.N))
		case "insert":
			w.label(L(I(5), I(a.idx), I(r)), fmt.Sprintf("Insert %d r=%d n=%d dup=%v", a.idx, r, op.N, op.Dup))
		case "update":
			w.label(L(I(6), I(a.idx), I(r)), fmt.Sprintf("Cas %d r=%d mod=%d", a.idx, r, op.NModified))
		case "delete":
			w.label(L(I(10), I(a.idx), I(r)), fmt.Sprintf("UnlockOp %d r=%d n=%d", a.idx, r, op.N))
		}
	}
	identCode := map[string]int{"": 0, "idA": 1, "idB": 2}
	parkedOps := map[int]*memongo.Op{}
	// advance: after a release or a call start, wait for the handle's next parked op, its return, or
	// (Lock only) its retry-loop wait (nothing happens for a while: the ticker fires every 100 ms)
	advance := func(a *mAgent) {
		select {
		case op := <-a.parked:
			parkedOps[a.idx] = op
		case code := <-a.done:
			a.busy = false
			if a.inLock {
				w.label(L(I(9), I(a.idx), I(code)), fmt.Sprintf("LockRet %d %d", a.idx, code))
				a.holds = code == 0
			} else {
				w.label(L(I(11), I(a.idx), I(code)), fmt.Sprintf("UnlockRet %d %d", a.idx, code))
				if code == 0 {
					a.holds = false
				}
			}
			a.waiting = false
		case <-time.After(30 * time.Millisecond):
			if !a.inLock {
				// Unlock has no wait loop: its next operation or its return is imminent
				select {
				case op := <-a.parked:
					parkedOps[a.idx] = op
				case code := <-a.done:
					a.busy = false
					w.label(L(I(11), I(a.idx), I(code)), fmt.Sprintf("UnlockRet %d %d", a.idx, code))
					if code == 0 {
						a.holds = false
					}
				case <-time.After(20 * time.Second):
					panic("Unlock stuck")
				}
				return
			}
			// spinLock returned without the lock: the call waits for its ticker
			a.waiting = true
		}
	}
	faultBudget := rng.Intn(2)
	steps := 10 + rng.Intn(25)
	for s := 0; s < steps; s++ {
		// pick up finds issued by waiting handles (ticker)
		for _, a := range w.agents {
			if a.busy && a.waiting {
				if _, p := parkedOps[a.idx]; !p {
					select {
					case op := <-a.parked:
						parkedOps[a.idx] = op
					case code := <-a.done:
						a.busy = false
						w.label(L(I(9), I(a.idx), I(code)), fmt.Sprintf("LockRet %d %d", a.idx, code))
						a.holds = code == 0
						a.waiting = false
					default:
					}
				}
			}
		}
		var idle, parked, waiting []*mAgent
		for _, a := range w.agents {
			if _, p := parkedOps[a.idx]; p {
				parked = append(parked, a)
			} else if !a.busy {
				idle = append(idle, a)
			} else if a.waiting {
				waiting = append(waiting, a)
			}
		}
		switch choice := rng.Pick([]int{6, 8, 3, 3, 1, 1}); {
		case choice == 0 && len(idle) > 0: // Lock
			a := idle[rng.Intn(len(idle))]
			ttl := []int{400, 1200, 3000}[rng.Intn(3)]
			ident := idents[rng.Intn(len(idents))]
			ctx, cancel := context.WithCancel(context.Background())
			a.cancel = cancel
			a.busy, a.inLock, a.waiting, a.calls = true, true, false, 0
			w.label(L(I(3), I(a.idx), I(ttl), I(identCode[ident])), fmt.Sprintf("LockCall %d ttl=%d ident=%q", a.idx, ttl, ident))
			ag := a
			go func() {
				ag.done <- retCode(ag.mu.Lock(ctx, mod.LockTTL(time.Duration(ttl)*time.Millisecond), mod.Reentrant(ident)))
			}()
			advance(a)
		case choice == 1 && len(parked) > 0: // release one database operation
			a := parked[rng.Intn(len(parked))]
			w.settleBoundary()
			op := parkedOps[a.idx]
			delete(parkedOps, a.idx)
			fault := ""
			if faultBudget > 0 && rng.Chance(1, 5) {
				faultBudget--
				fault = []string{"fail", "lost"}[rng.Intn(2)]
				if op.Cmd == "find" {
					fault = "fail"
				}
			}
			a.waiting = false
			w.mu.Lock()
			w.relAt[a.idx] = time.Now()
			w.mu.Unlock()
			a.release <- fault
			advance(a)
		case choice == 2 && len(idle) > 0: // Unlock
			a := idle[rng.Intn(len(idle))]
			a.busy, a.inLock, a.calls = true, false, 0
			ag := a
			go func() { ag.done <- retCode(ag.mu.Unlock(context.Background())) }()
			advance(a)
		case choice == 3: // let time pass
			time.Sleep(time.Duration([]int{150, 500, 900, 1500}[rng.Intn(4)]) * time.Millisecond)
		case choice == 4 && len(waiting) > 0: // cancel a waiting Lock
			a := waiting[rng.Intn(len(waiting))]
			// only when its next find has not been issued yet
			select {
			case op := <-a.parked:
				parkedOps[a.idx] = op
			default:
				w.label(L(I(8), I(a.idx)), fmt.Sprintf("CtxDone %d", a.idx))
				a.cancel()
				select {
				case code := <-a.done:
					a.busy, a.waiting = false, false
					w.label(L(I(9), I(a.idx), I(code)), fmt.Sprintf("LockRet %d %d", a.idx, code))
					a.holds = code == 0
				case op := <-a.parked:
					// the ticker won the race: the find is issued with a cancelled context
					parkedOps[a.idx] = op
				case <-time.After(2 * time.Second):
				}
			}
		case choice == 5: // TTL sweep
			w.settleBoundary()
			if w.srv.SweepTTL(func(coll string, d bsonD) bool { return coll == "mutex" }) > 0 {
				w.label(L(I(2)), "Sweep")
			}
		}
	}
	// drain: release everything, cancel waiting locks
	for round := 0; round < 200; round++ {
		busy := false
		for _, a := range w.agents {
			if !a.busy {
				continue
			}
			busy = true
			if op, p := parkedOps[a.idx]; p {
				_ = op
				delete(parkedOps, a.idx)
				w.settleBoundary()
				a.waiting = false
				w.mu.Lock()
				w.relAt[a.idx] = time.Now()
				w.mu.Unlock()
				a.release <- ""
				advance(a)
				continue
			}
			select {
			case op := <-a.parked:
				parkedOps[a.idx] = op
			case code := <-a.done:
				a.busy, a.waiting = false, false
				if a.inLock {
					w.label(L(I(9), I(a.idx), I(code)), fmt.Sprintf("LockRet %d %d", a.idx, code))
				} else {
					w.label(L(I(11), I(a.idx), I(code)), fmt.Sprintf("UnlockRet %d %d", a.idx, code))
				}
			case <-time.After(150 * time.Millisecond):
				if a.inLock && a.waiting && round > 20 {
					w.label(L(I(8), I(a.idx)), fmt.Sprintf("CtxDone %d", a.idx))
					a.cancel()
				}
				a.waiting = true
			}
		}
		if !busy {
			break
		}
	}
	w.srv.PreApply, w.srv.PostApply = nil, nil
	w.srv.Close()
	return w.labels, w.txt, nil, nh, w.maxLat
}

func runMutex(cfg *runCfg) {
	meta := newMeta("mutex", cfg.seed, cfg.tier)
	meta.Rule = "2-4 lock handles (real MongoMutex objects, one connection each) on one key of an in-memory MongoDB, real time (TTL 0.4 / 1.2 / 3 s, the handles' 100 ms spin ticker runs), " +
		"every database operation of Lock / Unlock held at the server and released one at a time in a seeded order, never within 150 ms of an expiry; reentrant identities, context cancellation of waiting locks, TTL sweeps, at most one failed / lost-reply operation per scenario; " +
		"scenarios run 16 in parallel; non-trivial = at least two handles obtained the lock or contended; distinct by label sequence"
	cw := newCaseWriter(cfg.out)
	defer cw.Close()
	n := cfg.n
	if n == 0 {
		n = 64
		if cfg.tier == "thorough" {
			n = 1200
		}
	}
	type res struct {
		it       int
		labels   sxList
		txt      []string
		nh       int
		unstable bool
	}
	results := make([]res, n)
	jit := newJitter()
	defer close(jit.stop)
	sem := make(chan struct{}, 8)
	var wg sync.WaitGroup
	for it := 0; it < n; it++ {
		if cfg.only >= 0 && it != cfg.only {
			continue
		}
		wg.Add(1)
		sem <- struct{}{}
		go func(it int) {
			defer wg.Done()
			defer func() { <-sem }()
			// a scenario during which this machine was too slow for the family's real-time margins says nothing
			// about the code: it is run again (up to 3 times) and dropped if the machine stays slow
			for try := 0; try < 3; try++ {
				t0 := time.Now()
				l, t, _, nh, lat := runMutexScenario(cfg.seed, it)
				unstable := lat > 60*time.Millisecond || jit.spikeBetween(t0, time.Now())
				results[it] = res{it, l, t, nh, unstable}
				if !unstable {
					break
				}
			}
		}(it)
	}
	wg.Wait()
	for it := 0; it < n; it++ {
		r := results[it]
		if r.labels == nil {
			continue
		}
		if r.unstable {
			meta.Count("dropped-machine-too-slow", "1")
			continue
		}
		cw.Comment(fmt.Sprintf("scenario %d seed %d handles=%d :: replay: ffh mutex -seed %d -n %d -only %d :: %s", it, cfg.seed, r.nh, cfg.seed, n, it, strings.Join(r.txt, " ; ")))
		cw.Case(70, r.labels)
		locks := 0
		for _, t := range r.txt {
			if strings.HasPrefix(t, "LockRet") && strings.HasSuffix(t, " 0") {
				locks++
			}
		}
		meta.Seen(strings.Join(r.txt, ";"), locks >= 2)
		meta.Count("handles", fmt.Sprint(r.nh))
		meta.Count("labels", bucket(len(r.labels)))
		meta.Count("locks-obtained", bucket(locks))
		if it < 3 {
			meta.Sample(strings.Join(r.txt, " ; "))
		}
	}
	if cfg.only < 0 {
		stressTakeover(meta, map[string]int{"quick": 4000, "thorough": 40000}[cfg.tier])
	}
	meta.Cases = cw.N
	meta.Write(cfg.meta)
}

// stressTakeover: the expiry stored by a take-over must be the one the handle remembers, whatever the
// clock does between the two; the two readings of the clock are microseconds apart, so only volume
// exposes a difference: n ungated take-overs, each followed by the new holder's Unlock.
func stressTakeover(meta *Meta, n int) {
	srv := memongo.New()
	defer srv.Close()
	mk2 := func(i int) mod.DistributedMutex {
		k := mk.NewKeeper(&mk.KeeperOption{Key: fmt.Sprintf("w-%d", i), ConnStr: srv.Listen(fmt.Sprintf("s%d", i)), UnhealthyTime: 5 * time.Second, Timeout: 30 * time.Second})
		if err := k.VerifConnect(); err != nil {
			panic(err)
		}
		return k.NewMutex("stress-key")
	}
	a, b := mk2(1), mk2(2)
	misses := 0
	ctx := context.Background()
	for i := 0; i < n; i++ {
		x, y := a, b
		if i%2 == 1 {
			x, y = b, a
		}
		if err := x.Lock(ctx, mod.LockTTL(time.Millisecond)); err != nil {
			continue
		}
		time.Sleep(2500 * time.Microsecond) // x's lock expires; x never unlocks
		if err := y.Lock(ctx, mod.LockTTL(200*time.Millisecond)); err != nil {
			continue
		}
		if err := y.Unlock(ctx); err != nil {
			misses++
			if misses == 1 {
				meta.Violate("C10", "mon:4", fmt.Sprintf("take-over #%d: the new holder's own Unlock returned %v (stored expiry differs from the remembered one)", i, err),
					"stress: A.Lock(ttl 1ms); sleep 2.5ms; B.Lock (take-over); B.Unlock -> error; repeated "+fmt.Sprint(n)+" times")
			}
			srv.Clear()
		}
	}
	meta.Extra["stress_takeovers"] = n
	meta.Extra["stress_unlock_misses"] = misses
}
