package main

import (
	"fmt"
	"strings"
	"time"

	"github.com/shiningrush/fastflow/pkg/entity"
	"github.com/shiningrush/fastflow/pkg/mod"
)

func init() { families["commander"] = runCommander }

func classifyCmdErr(err error) int {
	if err == nil {
		return 0
	}
	s := err.Error()
	switch {
	case strings.Contains(s, "here is no any task"):
		return 1
	case strings.Contains(s, "does not found task instance"):
		return 2
	case strings.Contains(s, "is from different dag instance"):
		return 3
	case strings.Contains(s, "not found"):
		return 4
	case strings.Contains(s, "incomplete command"):
		return 5
	case strings.Contains(s, "only cancel a running"):
		return 6
	case strings.Contains(s, "not healthy, you can not cancel"):
		return 7
	case strings.Contains(s, "no alive worker"):
		return 8
	}
	return 99
}

// runCommander: C11 admission.  Real DefCommander over the real store and keeper membership.
func runCommander(cfg *runCfg) {
	rng := newRng(cfg.seed)
	meta := newMeta("commander", cfg.seed, cfg.tier)
	meta.Rule = "populations of 1-3 instances (every status, with / without a pending command, owner alive or dead) with 1-5 tasks each; retry / continue / cancel with id sets that are eligible, ineligible, mixed, " +
		"from another instance, unknown, duplicated or empty; alive sets of 0-3 workers built by real heartbeats and ageing; plus synchronous calls with the command watcher run concurrently; " +
		"non-trivial = the command was accepted or rejected for a reason other than an empty id list; distinct by full case"
	cw := newCaseWriter(cfg.out)
	defer cw.Close()
	w := newWorld()
	keys := []string{"worker-1", "worker-2", "worker-3"}
	for _, k := range keys {
		w.AddKeeper(k)
	}
	mod.SetKeeper(w.Keepers["worker-1"])
	mod.SetStore(w.Store)
	mod.SetCommander(&mod.DefCommander{})
	n := 400
	if cfg.tier == "thorough" {
		n = 10000
	}
	for it := 0; it < n; it++ {
		w.Srv.Clear()
		g := &storeGen{rng: rng, nm: newNamer(), w: w, meta: meta}
		nm := g.nm
		// alive set
		var alive []string
		for _, k := range keys {
			if rng.Chance(1, 2) {
				must(w.Keepers[k].VerifHeartBeat())
			}
		}
		w.Srv.Age(2*unhealthy + 3*time.Second)
		for _, d := range w.Srv.Dump("heartbeat") {
			k := docStr(d, "_id")
			if rng.Chance(1, 2) {
				must(w.Keepers[k].VerifHeartBeat())
				alive = append(alive, k)
			}
		}
		// instances and tasks
		ni := 1 + rng.Intn(3)
		var allTasks []string
		for i := 0; i < ni; i++ {
			d := g.genIns(g.newID("I"))
			d.Worker = keys[rng.Intn(3)]
			if rng.Chance(2, 3) {
				d.Cmd = nil
			}
			if rng.Chance(1, 2) {
				d.Status = entity.DagInstanceStatusRunning
			}
			must(w.Store.CreateDagIns(d))
			g.iids = append(g.iids, d.ID)
			for j := 1 + rng.Intn(5); j > 0; j-- {
				t := g.genTask(g.newID("T"))
				t.DagInsID = d.ID
				must(w.Store.CreateTaskIns(t))
				allTasks = append(allTasks, t.ID)
			}
		}
		// id set
		var ids []string
		switch rng.Intn(8) {
		case 0: // empty
		case 1: // unknown
			ids = []string{"nope"}
		case 2: // duplicate
			x := allTasks[rng.Intn(len(allTasks))]
			ids = []string{x, x}
		case 3: // mixed with unknown
			ids = []string{allTasks[rng.Intn(len(allTasks))], "nope2"}
		default: // random subset (may span instances)
			for _, t := range allTasks {
				if rng.Chance(1, 3) {
					ids = append(ids, t)
				}
			}
			if len(ids) == 0 {
				ids = []string{allTasks[rng.Intn(len(allTasks))]}
			}
		}
		kind := 1 + rng.Intn(3)
		// snapshot before
		var tsx, isx sxList
		tl, _ := w.Store.ListTaskInstance(&mod.ListTaskInstanceInput{})
		for _, t := range tl {
			tsx = append(tsx, taskSx(t, nm))
		}
		il, _ := w.Store.ListDagInstance(&mod.ListDagInstanceInput{})
		for _, d := range il {
			isx = append(isx, insSx(d, nm))
		}
		var err error
		panicked := false
		func() {
			defer func() {
				if r := recover(); r != nil {
					panicked = true
				}
			}()
			switch kind {
			case 1:
				err = mod.GetCommander().RetryTask(ids)
			case 2:
				err = mod.GetCommander().CancelTask(ids)
			case 3:
				err = mod.GetCommander().ContinueTask(ids)
			}
		}()
		code := classifyCmdErr(err)
		if panicked {
			code = 98
			meta.Violate("C11", "commander-panic", fmt.Sprintf("command %d on %v panicked (alive=%v)", kind, ids, alive), fmt.Sprint(ids))
		}
		// the instance the ids belong to (first found task in store order), after the call
		wk, cmd := 0, Sx(L())
		var target string
		for _, t := range tl {
			for _, id := range ids {
				if t.ID == id && target == "" {
					target = t.DagInsID
				}
			}
		}
		if target != "" {
			if d, e := w.Store.GetDagInstance(target); e == nil {
				wk = nm.Id(d.Worker)
				cmd = cmdSx(d.Cmd, nm)
			}
		}
		var idc, alc []int
		for _, id := range ids {
			idc = append(idc, nm.Id(id))
		}
		for _, a := range alive {
			alc = append(alc, nm.Id(a))
		}
		c := L(tsx, isx, I(kind), Ints(idc), Ints(alc), I(code), I(wk), cmd)
		cw.Case(80, c)
		meta.Count("result", fmt.Sprint(code))
		meta.Count("kind", fmt.Sprint(kind))
		meta.Seen(sxString(c), code != 1)
		if it < 3 {
			meta.Sample(sxString(c))
		}
		// a rejected command changes nothing
		if code != 0 {
			il2, _ := w.Store.ListDagInstance(&mod.ListDagInstanceInput{})
			var isx2 sxList
			for _, d := range il2 {
				isx2 = append(isx2, insSx(d, nm))
			}
			if sxString(isx) != sxString(isx2) {
				meta.Violate("C11", "rejected-but-changed", "a rejected command changed an instance", "80 "+sxString(c))
			}
		}
	}
	// synchronous mode: success only after the command has been executed and cleared
	ns := 3
	if cfg.tier == "thorough" {
		ns = 20
	}
	mod.SetExecutor(nopExecutor{})
	for i := 0; i < ns; i++ {
		w.Srv.Clear()
		must(w.Keepers["worker-1"].VerifHeartBeat())
		d := &entity.DagInstance{BaseInfo: entity.BaseInfo{ID: fmt.Sprintf("SI%d", i)}, DagID: "d", Worker: "worker-1", Status: entity.DagInstanceStatusFailed, ShareData: &entity.ShareData{}}
		must(w.Store.CreateDagIns(d))
		t := &entity.TaskInstance{BaseInfo: entity.BaseInfo{ID: fmt.Sprintf("ST%d", i)}, TaskID: "t1", DagInsID: d.ID, ActionName: "A", Status: entity.TaskInstanceStatusFailed}
		must(w.Store.CreateTaskIns(t))
		par := mod.NewDefParser(1, 30*time.Second)
		mod.SetParser(par)
		delay := time.Duration(80+60*i) * time.Millisecond
		go func() {
			time.Sleep(delay)
			par.VerifWatchCmd()
		}()
		start := time.Now()
		err := mod.GetCommander().RetryTask([]string{t.ID}, mod.CommSync(), mod.CommSyncInterval(15*time.Millisecond), mod.CommSyncTimeout(2*time.Second))
		el := time.Since(start)
		after, _ := w.Store.GetDagInstance(d.ID)
		if err == nil && after.Cmd != nil {
			meta.Violate("C11", "sync-returned-early", "a synchronous command returned success while the command is still pending", d.ID)
		}
		if err == nil && el < delay {
			meta.Violate("C11", "sync-returned-early", fmt.Sprintf("a synchronous command returned after %v, before the watcher ran (%v)", el, delay), d.ID)
		}
		meta.Count("sync", fmt.Sprintf("err=%v", err != nil))
	}
	meta.Cases = cw.N
	meta.Write(cfg.meta)
}
