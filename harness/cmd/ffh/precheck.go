package main

import (
	"fmt"
	"sort"

	"github.com/shiningrush/fastflow/pkg/entity"
)

func init() { families["precheck"] = runPreCheck }

func condSx(c entity.TaskCondition, nm *Namer) Sx {
	src := map[entity.TaskConditionSource]int{entity.TaskConditionSourceVars: 1, entity.TaskConditionSourceShareData: 2}[c.Source]
	op := map[entity.Operator]int{entity.OperatorIn: 1, entity.OperatorNotIn: 2}[c.Op]
	return L(I(src), I(nm.Id(c.Key)), strIds(c.Values, nm), I(op))
}

// checksSx encodes a task's pre-checks with fixed codes (act: 1 skip, 2 block, 3 other).
func checksSx(p entity.PreChecks, nm *Namer) Sx {
	keys := make([]string, 0, len(p))
	for k := range p {
		keys = append(keys, k)
	}
	sort.Strings(keys)
	out := sxList{}
	for _, k := range keys {
		c := p[k]
		if c == nil {
			continue
		}
		act := 3
		switch c.Act {
		case entity.ActiveActionSkip:
			act = 1
		case entity.ActiveActionBlock:
			act = 2
		}
		cs := sxList{}
		for _, cd := range c.Conditions {
			cs = append(cs, condSx(cd, nm))
		}
		out = append(out, L(I(act), cs))
	}
	return out
}

func kvSx(m map[string]string, nm *Namer) Sx {
	keys := make([]string, 0, len(m))
	for k := range m {
		keys = append(keys, k)
	}
	sort.Strings(keys)
	out := sxList{}
	for _, k := range keys {
		out = append(out, L(I(nm.Id(k)), I(nm.Id(m[k]))))
	}
	return out
}

// runPreCheck: TaskInstance.DoPreCheck against the model's outcome set, exhaustively over
// source x operator x key present/absent x value in/out x kind x status, for 1 and 2 checks.
func runPreCheck(cfg *runCfg) {
	meta := newMeta("precheck", cfg.seed, cfg.tier)
	meta.Exhaustive = true
	meta.Rule = "every combination of (status: all 10) x 1..2 checks x (act skip/block/invalid) x (source vars/share-data) x (op in/not-in) x (key present/absent) x (value in/out of the list), " +
		"conjunctions of two conditions; non-trivial = some check fires; distinct by full case"
	cw := newCaseWriter(cfg.out)
	defer cw.Close()
	vars := map[string]string{"v": "1"}
	share := map[string]string{"k": "a"}
	acts := []entity.ActiveAction{entity.ActiveActionSkip, entity.ActiveActionBlock, "bogus"}
	var conds []entity.TaskCondition
	for _, src := range []entity.TaskConditionSource{entity.TaskConditionSourceVars, entity.TaskConditionSourceShareData} {
		for _, op := range []entity.Operator{entity.OperatorIn, entity.OperatorNotIn} {
			for _, key := range []string{"v", "k", "absent"} {
				for _, vals := range [][]string{{"1"}, {"a"}, {"zz"}, {}} {
					conds = append(conds, entity.TaskCondition{Source: src, Key: key, Values: vals, Op: op})
				}
			}
		}
	}
	one := func(st int, checks entity.PreChecks) {
		nm := newNamer()
		dagIns := &entity.DagInstance{Vars: entity.DagInstanceVars{}, ShareData: &entity.ShareData{Dict: map[string]string{}}}
		for k, v := range vars {
			dagIns.Vars[k] = entity.DagInstanceVar{Value: v}
		}
		for k, v := range share {
			dagIns.ShareData.Dict[k] = v
		}
		t := &entity.TaskInstance{Status: taskStatusName[st], PreChecks: checks}
		active, err := t.DoPreCheck(dagIns)
		obs := 0
		switch {
		case err != nil:
			obs = -1
		case active:
			obs = tStatusCode(t.Status)
		}
		c := L(I(st+1), checksSx(checks, nm), kvSx(vars, nm), kvSx(share, nm), I(obs))
		cw.Case(40, c)
		meta.Count("observed", fmt.Sprint(obs))
		meta.Seen(sxString(c), obs != 0)
		if cw.N%3001 == 0 {
			meta.Sample(sxString(c))
		}
		// property monitor, independent of the model: terminal never active; continue never blocked
		if (st == 3 || st == 4 || st == 5 || st == 9) && obs != 0 {
			meta.Violate("C13", "precheck-on-terminal", "pre-check fired on a finished task", "40 "+sxString(c))
		}
		if st == 8 && obs == 8 {
			meta.Violate("C13", "continue-blocked", "a continued task was blocked again", "40 "+sxString(c))
		}
	}
	for st := 0; st < 10; st++ {
		one(st, nil)
		for _, a := range acts {
			for _, c1 := range conds {
				one(st, entity.PreChecks{"c1": {Act: a, Conditions: []entity.TaskCondition{c1}}})
			}
		}
		// two checks / two conditions: a sub-sample of pairs
		for i := 0; i < len(conds); i += 5 {
			for j := 1; j < len(conds); j += 7 {
				for _, a1 := range acts[:2] {
					for _, a2 := range acts[:2] {
						one(st, entity.PreChecks{"c1": {Act: a1, Conditions: []entity.TaskCondition{conds[i]}}, "c2": {Act: a2, Conditions: []entity.TaskCondition{conds[j]}}})
					}
				}
				one(st, entity.PreChecks{"c1": {Act: entity.ActiveActionSkip, Conditions: []entity.TaskCondition{conds[i], conds[j]}}})
			}
		}
	}
	meta.Cases = cw.N
	meta.Write(cfg.meta)
}
