package main

import (
	"encoding/json"
	"fmt"
	"io/ioutil"
	"log"
	"os"
	"sort"
	"time"

	"ffverif/memongo"

	mk "github.com/shiningrush/fastflow/keeper/mongo"
	"github.com/shiningrush/fastflow/pkg/entity"
	"github.com/shiningrush/fastflow/pkg/mod"
	ms "github.com/shiningrush/fastflow/store/mongo"
	"go.mongodb.org/mongo-driver/bson"
)

// World is one in-memory database plus the real store/keeper objects talking to it.
type World struct {
	Srv     *memongo.Server
	Store   *ms.Store
	Keepers map[string]*mk.Keeper
	Names   *Namer
}

const unhealthy = 5 * time.Second

func newWorld() *World {
	w := &World{Srv: memongo.New(), Keepers: map[string]*mk.Keeper{}, Names: newNamer()}
	st := ms.NewStore(&ms.StoreOption{ConnStr: w.Srv.Listen("store"), Timeout: 30 * time.Second})
	if err := st.Init(); err != nil {
		panic(err)
	}
	w.Store = st
	mod.SetStore(st)
	entity.StoreMarshal = st.Marshal
	entity.StoreUnmarshal = st.Unmarshal
	return w
}

// AddKeeper connects a real keeper (no ticker goroutines) on its own port.
func (w *World) AddKeeper(key string) *mk.Keeper {
	k := mk.NewKeeper(&mk.KeeperOption{Key: key, ConnStr: w.Srv.Listen(key), UnhealthyTime: unhealthy, Timeout: 30 * time.Second})
	if err := k.VerifConnect(); err != nil {
		panic(err)
	}
	w.Keepers[key] = k
	return k
}

func must(err error) {
	if err != nil {
		panic(err)
	}
}

func docStr(d bson.D, k string) string {
	v, _ := memongo.Get(d, k)
	s, _ := v.(string)
	return s
}

func docInt(d bson.D, k string) int64 {
	v, _ := memongo.Get(d, k)
	switch x := v.(type) {
	case int32:
		return int64(x)
	case int64:
		return x
	}
	return 0
}

// ---------------------------------------------------------------- status codes (shared with Coq)

var insStatusCode = map[string]int{"init": 0, "scheduled": 1, "running": 2, "blocked": 3, "failed": 4, "success": 5}
var insStatusName = []entity.DagInstanceStatus{"init", "scheduled", "running", "blocked", "failed", "success"}

var taskStatusCode = map[string]int{"init": 0, "running": 1, "ending": 2, "success": 3, "failed": 4, "canceled": 5,
	"retrying": 6, "blocked": 7, "continue": 8, "skipped": 9}
var taskStatusName = []entity.TaskInstanceStatus{"init", "running", "ending", "success", "failed", "canceled",
	"retrying", "blocked", "continue", "skipped"}

// ---------------------------------------------------------------- meta / evidence side channel

// Meta is what a harness sub-command reports about its own run.
type Meta struct {
	Family     string                    `json:"family"`
	Seed       int64                     `json:"seed"`
	Tier       string                    `json:"tier"`
	Cases      int                       `json:"cases"`
	Distinct   int                       `json:"distinct_nontrivial"`
	Rule       string                    `json:"rule"`
	Exhaustive bool                      `json:"exhaustive"`
	Hist       map[string]map[string]int `json:"hist"`
	Samples    []string                  `json:"samples"`
	Violations []Violation               `json:"violations"`
	Extra      map[string]interface{}    `json:"extra,omitempty"`
	distinct   map[string]bool
}

// Violation is a property monitor verdict on an implementation run.
type Violation struct {
	Property  string `json:"property"`
	Signature string `json:"signature"` // stable class of the failure (matched against known findings)
	Detail    string `json:"detail"`
	Replay    string `json:"replay"` // self-contained description to reproduce
}

func newMeta(family string, seed int64, tier string) *Meta {
	return &Meta{Family: family, Seed: seed, Tier: tier, Hist: map[string]map[string]int{}, distinct: map[string]bool{}, Extra: map[string]interface{}{}}
}

func (m *Meta) Count(hist, key string) {
	if m.Hist[hist] == nil {
		m.Hist[hist] = map[string]int{}
	}
	m.Hist[hist][key]++
}

// Seen records a case key; nontrivial cases with a new key count as distinct.
func (m *Meta) Seen(key string, nontrivial bool) {
	if nontrivial && !m.distinct[key] {
		m.distinct[key] = true
		m.Distinct++
	}
}

func (m *Meta) Sample(s string) {
	if len(m.Samples) < 6 {
		if len(s) > 600 {
			s = s[:600] + "..."
		}
		m.Samples = append(m.Samples, s)
	}
}

func (m *Meta) Violate(prop, sig, detail, replay string) {
	m.Violations = append(m.Violations, Violation{prop, sig, detail, replay})
}

func (m *Meta) Write(path string) {
	b, _ := json.MarshalIndent(m, "", " ")
	must(ioutil.WriteFile(path, b, 0644))
}

func sortedKeys(m map[string]bool) []string {
	var out []string
	for k := range m {
		out = append(out, k)
	}
	sort.Strings(out)
	return out
}

func quietLogs() {
	log.SetOutput(ioutil.Discard)
}

func fatalf(f string, a ...interface{}) {
	fmt.Fprintf(os.Stderr, f+"\n", a...)
	os.Exit(2)
}

type bsonD = bson.D
