package main

import (
	"fmt"
	"sort"
	"strings"
	"sync"
	"time"

	"ffverif/memongo"

	mk "github.com/shiningrush/fastflow/keeper/mongo"
	"go.mongodb.org/mongo-driver/bson/primitive"
)

func init() { families["keeper"] = runKeeper }

// kAgent is one keeper (real object) plus the activity it is currently performing.
type kAgent struct {
	idx     int
	key     string
	client  string // memongo listener name of the current incarnation
	k       *mk.Keeper
	busy    bool
	alive   bool // object usable (not closed / crashed)
	parked  chan *memongo.Op
	release chan string
	done    chan struct{}
}

type kWorld struct {
	srv    *memongo.Server
	agents []*kAgent
	byCli  map[string]*kAgent
	mu     sync.Mutex
	labels sxList
	txt    []string
	gen    int
}

const kU = 5000 // unhealthy period in ms (keepers are created with 5 s)

func (kw *kWorld) label(s Sx, t string) {
	kw.mu.Lock()
	kw.labels = append(kw.labels, s)
	kw.txt = append(kw.txt, t)
	kw.mu.Unlock()
}

func (kw *kWorld) connect(a *kAgent) {
	kw.gen++
	a.client = fmt.Sprintf("%s#%d", a.key, kw.gen)
	a.k = mk.NewKeeper(&mk.KeeperOption{Key: a.key, ConnStr: kw.srv.Listen(a.client), UnhealthyTime: 5 * time.Second, Timeout: 30 * time.Second})
	kw.mu.Lock()
	kw.byCli[a.client] = a
	kw.mu.Unlock()
	if err := a.k.VerifConnect(); err != nil {
		panic(err)
	}
	a.alive = true
}

func resCode(fault string) int { return map[string]int{"": 0, "fail": 1, "lost": 2}[fault] }

func newKWorld(n int) *kWorld {
	kw := &kWorld{srv: memongo.New(), byCli: map[string]*kAgent{}}
	for i := 0; i < n; i++ {
		a := &kAgent{idx: i, key: fmt.Sprintf("w-%d", i+1), parked: make(chan *memongo.Op), release: make(chan string), done: make(chan struct{}, 1)}
		kw.agents = append(kw.agents, a)
	}
	// connection set-up is not gated
	for _, a := range kw.agents {
		kw.connect(a)
	}
	kw.srv.PreApply = func(op *memongo.Op) string {
		kw.mu.Lock()
		a := kw.byCli[op.Client]
		kw.mu.Unlock()
		if a == nil || !a.busy || (op.Coll == "heartbeat" && op.Cmd == "find") {
			return ""
		}
		a.parked <- op
		return <-a.release
	}
	kw.srv.PostApply = func(op *memongo.Op) {
		kw.mu.Lock()
		a := kw.byCli[op.Client]
		kw.mu.Unlock()
		if a == nil || !a.busy {
			return
		}
		r := resCode(op.Fault)
		k := a.idx
		switch {
		case op.Coll == "election" && op.Cmd == "find":
			kw.label(L(I(4), I(k)), fmt.Sprintf("CampRead %d -> %d docs", k, op.N))
		case op.Coll == "election" && op.Cmd == "insert":
			kw.label(L(I(5), I(k), I(r), B(op.N > 0 && op.Fault != "fail")), fmt.Sprintf("Insert %d r=%d n=%d dup=%v", k, r, op.N, op.Dup))
		case op.Coll == "election" && op.Cmd == "update":
			own := false
			if v, ok := memongo.Get(op.Filter, "workerKey"); ok && v == a.key {
				own = true
			}
			if own {
				kw.label(L(I(7), I(k), I(r), B(op.N > 0 && op.Fault != "fail")), fmt.Sprintf("Renew %d r=%d n=%d", k, r, op.N))
			} else {
				kw.label(L(I(6), I(k), I(r), B(op.NModified > 0 && op.Fault != "fail")), fmt.Sprintf("Cas %d r=%d f=%v mod=%d", k, r, op.Filter, op.NModified))
			}
		case op.Coll == "election" && op.Cmd == "delete":
			kw.label(L(I(8), I(k), B(op.N > 0 && op.Fault != "fail")), fmt.Sprintf("CloseLeader %d f=%v n=%d", k, op.Filter, op.N))
		case op.Coll == "heartbeat" && op.Cmd == "update":
			kw.label(L(I(10), I(k), I(r)), fmt.Sprintf("Beat %d r=%d", k, r))
		case op.Coll == "heartbeat" && op.Cmd == "delete":
			kw.label(L(I(11), I(k)), fmt.Sprintf("CloseBeat %d", k))
		}
	}
	return kw
}

// start runs an activity of agent a in its own goroutine.
func (kw *kWorld) start(a *kAgent, f func()) {
	a.busy = true
	go func() {
		f()
		a.done <- struct{}{}
	}()
}

// advance waits until agent a has either parked its next database operation or finished.
// Returns the parked op or nil.
func (kw *kWorld) advance(a *kAgent) *memongo.Op {
	select {
	case op := <-a.parked:
		return op
	case <-a.done:
		a.busy = false
		return nil
	case <-time.After(20 * time.Second):
		panic("keeper activity stuck")
	}
}

// ages returns now-updatedAt (ms) of every election / heartbeat document.
func (kw *kWorld) ages() []int64 {
	var out []int64
	now := time.Now().UnixNano() / 1e6
	for _, coll := range []string{"election", "heartbeat"} {
		for _, d := range kw.srv.Dump(coll) {
			if v, ok := memongo.Get(d, "updatedAt"); ok {
				if dt, ok := v.(primitive.DateTime); ok {
					out = append(out, now-int64(dt))
				}
			}
		}
	}
	return out
}

func (kw *kWorld) tickOK(d int64) bool {
	for _, a := range kw.ages() {
		x := a + d
		if x > kU-1500 && x < kU+1500 {
			return false
		}
	}
	return true
}

func (kw *kWorld) safeNow() bool { return kw.tickOK(0) }

func runKeeper(cfg *runCfg) {
	rng := newRng(cfg.seed)
	meta := newMeta("keeper", cfg.seed, cfg.tier)
	meta.Rule = "2-4 real keepers (no ticker goroutines) on one in-memory MongoDB; election rounds, heartbeats, Close, crash, restart run as goroutines whose every database operation is held at the server and released one at a time in a seeded order; clock advances by ageing stored timestamps (never within 1.5 s of the 5 s unhealthy period), TTL sweeps, one injected failed / lost-reply operation per scenario at most; " +
		"plus real Init (1 s period) with the first heartbeat write failed; non-trivial = at least two keepers completed an election round; distinct by label sequence"
	cw := newCaseWriter(cfg.out)
	defer cw.Close()
	quietLogs()
	n := cfg.n
	if n == 0 {
		n = 120
		if cfg.tier == "thorough" {
			n = 4000
		}
	}
	for it := 0; it < n; it++ {
		if cfg.only >= 0 && it != cfg.only {
			continue
		}
		rng = newRng(cfg.seed*1000003 + int64(it))
		nk := 2 + rng.Intn(3)
		kw := newKWorld(nk)
		steps := 15 + rng.Intn(40)
		faultBudget := rng.Intn(2)
		parkedOps := map[int]*memongo.Op{}
		rounds := map[int]int{}
		finish := func(a *kAgent) {
			// the activity ended: observe the flag (election activities) - done by the activity wrapper
		}
		_ = finish
		releaseOne := func(a *kAgent) {
			op := parkedOps[a.idx]
			delete(parkedOps, a.idx)
			fault := ""
			// the deletes of Close are never failed: the model has no failing variant of them (a failed delete
			// only leaves a record that expires by itself)
			if faultBudget > 0 && rng.Chance(1, 6) && op.Cmd != "find" && op.Cmd != "delete" {
				faultBudget--
				fault = []string{"fail", "lost"}[rng.Intn(2)]
			}
			a.release <- fault
			if nxt := kw.advance(a); nxt != nil {
				parkedOps[a.idx] = nxt
			}
		}
		if it%4 == 1 {
			// directed membership cycle: beat, go silent past the period, get swept, beat again, ask
			a := kw.agents[rng.Intn(nk)]
			b := kw.agents[(a.idx+1)%nk]
			beat := func(x *kAgent) {
				kw.start(x, func() { x.k.VerifHeartBeat() })
				for op := kw.advance(x); op != nil; op = kw.advance(x) {
					x.release <- ""
				}
			}
			beat(a)
			beat(b)
			kw.srv.Age(7000 * time.Millisecond)
			kw.label(L(I(1), I(7000)), "Tick 7000")
			hit := map[string]bool{}
			kw.srv.SweepTTL(func(coll string, d bsonD) bool {
				if coll == "heartbeat" && d[0].Value == a.key {
					hit[a.key] = true
					return true
				}
				return false
			})
			if hit[a.key] {
				kw.label(L(I(12), I(a.idx)), fmt.Sprintf("SweepHb %d", a.idx))
			}
			beat(a)
			nodes, _ := b.k.AliveNodes()
			var ks []int
			for _, nd := range nodes {
				for _, x := range kw.agents {
					if x.key == nd {
						ks = append(ks, x.idx)
					}
				}
			}
			sort.Ints(ks)
			kw.label(L(I(14), Ints(ks)), fmt.Sprintf("ObsAlive %v", ks))
		}
		for s := 0; s < steps; s++ {
			var idle, parked []*kAgent
			for _, a := range kw.agents {
				if _, p := parkedOps[a.idx]; p {
					parked = append(parked, a)
				} else if !a.busy && a.alive {
					idle = append(idle, a)
				}
			}
			choice := rng.Pick([]int{6, 8, 3, 2, 1, 1, 1, 2})
			switch {
			case choice == 0 && len(idle) > 0: // election round
				a := idle[rng.Intn(len(idle))]
				kw.label(L(I(3), I(a.idx)), fmt.Sprintf("ElectBegin %d", a.idx))
				ag := a
				kw.start(a, func() {
					ag.k.VerifElect()
					kw.label(L(I(13), I(ag.idx), B(ag.k.IsLeader())), fmt.Sprintf("ObsFlag %d %v", ag.idx, ag.k.IsLeader()))
				})
				rounds[a.idx]++
				if op := kw.advance(a); op != nil {
					parkedOps[a.idx] = op
				}
			case choice == 1 && len(parked) > 0:
				releaseOne(parked[rng.Intn(len(parked))])
			case choice == 2 && len(idle) > 0: // heartbeat
				a := idle[rng.Intn(len(idle))]
				ag := a
				kw.start(a, func() { ag.k.VerifHeartBeat() })
				if op := kw.advance(a); op != nil {
					parkedOps[a.idx] = op
				}
			case choice == 3: // clock (only between database operations of no keeper: ageing rewrites stored
				// timestamps, which a compare-and-set on a previously read timestamp would notice)
				anyBusy := false
				for _, a := range kw.agents {
					if a.busy {
						anyBusy = true
					}
				}
				d := []int64{1000, 2000, 3000, 4000, 7000, 9000}[rng.Intn(6)]
				if !anyBusy && kw.tickOK(d) {
					kw.srv.Age(time.Duration(d) * time.Millisecond)
					kw.label(L(I(1), I(int(d))), fmt.Sprintf("Tick %d", d))
				}
			case choice == 4 && kw.safeNow(): // TTL sweep (server side, any subset)
				ttlHit := map[string]bool{}
				kw.srv.SweepTTL(func(coll string, d bsonD) bool {
					if rng.Chance(1, 2) {
						return false
					}
					ttlHit[coll+"/"+fmt.Sprint(d[0].Value)] = true
					return true
				})
				for k := range ttlHit {
					if strings.HasPrefix(k, "election/") {
						kw.label(L(I(2)), "Sweep election")
					}
					for _, a := range kw.agents {
						if k == "heartbeat/"+a.key {
							kw.label(L(I(12), I(a.idx)), fmt.Sprintf("SweepHb %d", a.idx))
						}
					}
				}
			case choice == 5 && len(idle) > 0 && rng.Chance(1, 2): // graceful close, then restart under the same key
				a := idle[rng.Intn(len(idle))]
				ag := a
				wasLeader := a.k.IsLeader()
				kw.start(a, func() { ag.k.Close() })
				if op := kw.advance(a); op != nil {
					parkedOps[a.idx] = op
				}
				_ = wasLeader
				a.alive = false
			case choice == 6 && len(idle) > 0 && rng.Chance(1, 2): // crash (the object is abandoned)
				a := idle[rng.Intn(len(idle))]
				kw.label(L(I(9), I(a.idx)), fmt.Sprintf("Crash %d", a.idx))
				a.alive = false
			case choice == 7 && len(idle) > 0 && kw.safeNow(): // membership query
				a := idle[rng.Intn(len(idle))]
				nodes, err := a.k.AliveNodes()
				if err == nil {
					var ks []int
					for _, nd := range nodes {
						for _, b := range kw.agents {
							if b.key == nd {
								ks = append(ks, b.idx)
							}
						}
					}
					sort.Ints(ks)
					kw.label(L(I(14), Ints(ks)), fmt.Sprintf("ObsAlive %v", ks))
					for _, b := range kw.agents {
						is, err := a.k.IsAlive(b.key)
						in := false
						for _, x := range ks {
							if x == b.idx {
								in = true
							}
						}
						if err == nil && is != in {
							meta.Violate("C09", "isalive-differs", fmt.Sprintf("IsAlive(%s)=%v but AliveNodes=%v", b.key, is, nodes), strings.Join(kw.txt, " ; "))
						}
					}
				}
			}
			// restart closed / crashed keepers now and then
			for _, a := range kw.agents {
				if !a.alive && !a.busy && rng.Chance(1, 4) {
					if _, p := parkedOps[a.idx]; !p {
						// a closed keeper's flag is forgotten by the new object: the model's Crash label does the same
						kw.label(L(I(9), I(a.idx)), fmt.Sprintf("Restart %d", a.idx))
						kw.connect(a)
					}
				}
			}
		}
		// drain
		for len(parkedOps) > 0 {
			for _, a := range kw.agents {
				if _, p := parkedOps[a.idx]; p {
					releaseOne(a)
				}
			}
		}
		kw.srv.PreApply = nil
		kw.srv.PostApply = nil
		kw.srv.Close()
		c := L(I(kU), kw.labels)
		cw.Comment(fmt.Sprintf("scenario %d seed %d keepers=%d :: replay: ffh keeper -seed %d -n %d -only %d :: %s", it, cfg.seed, nk, cfg.seed, n, it, strings.Join(kw.txt, " ; ")))
		cw.Case(60, c)
		done2 := 0
		for _, v := range rounds {
			if v > 0 {
				done2++
			}
		}
		meta.Seen(strings.Join(kw.txt, ";"), done2 >= 2)
		meta.Count("keepers", fmt.Sprint(nk))
		meta.Count("labels", bucket(len(kw.labels)))
		if it < 3 {
			meta.Sample(strings.Join(kw.txt, " ; "))
		}
	}
	// real Init with the first heartbeat write failed: the worker must be registered when Init returns
	if cfg.only < 0 {
		ni := 2
		if cfg.tier == "thorough" {
			ni = 10
		}
		for i := 0; i < ni; i++ {
			srv := memongo.New()
			failed := false
			var mu sync.Mutex
			srv.PreApply = func(op *memongo.Op) string {
				mu.Lock()
				defer mu.Unlock()
				if op.Coll == "heartbeat" && op.Cmd == "update" && !failed {
					failed = true
					return "fail"
				}
				return ""
			}
			k := mk.NewKeeper(&mk.KeeperOption{Key: "w-9", ConnStr: srv.Listen("init"), UnhealthyTime: time.Second, Timeout: 5 * time.Second})
			ret := make(chan error, 1)
			go func() { ret <- k.Init() }()
			select {
			case err := <-ret:
				nodes, _ := k.AliveNodes()
				if err == nil && len(nodes) == 0 {
					meta.Violate("C09", "init-returned-unregistered", "Init returned while no heartbeat of the worker is stored (first heartbeat write failed)", "real Init, UnhealthyTime=1s, first heartbeat update failed")
				}
				meta.Count("init", fmt.Sprintf("returned err=%v registered=%v", err != nil, len(nodes) > 0))
				k.Close()
			case <-time.After(8 * time.Second):
				meta.Violate("C09", "init-hung", "Init did not return within 8 s", "real Init, first heartbeat update failed")
			}
			srv.Close()
		}
	}
	meta.Cases = cw.N
	meta.Write(cfg.meta)
}
