package main

import (
	"fmt"
	"sort"
	"time"

	"github.com/shiningrush/fastflow/pkg/entity"
	"github.com/shiningrush/fastflow/pkg/mod"
)

func init() { families["watchdog"] = runWatchdog }

// runWatchdog: C14.  Populations of tasks / instances with ages around the thresholds (virtual
// clock = ageing of stored timestamps), then one real sweep round, then a full listing; recorded
// as store traces (family 20) whose operations 17 / 18 are the model's sweep rounds.
func runWatchdog(cfg *runCfg) {
	rng := newRng(cfg.seed)
	meta := newMeta("watchdog", cfg.seed, cfg.tier)
	meta.Rule = "populations of 1-10 tasks (every status, timeouts 1/5/30/100 s explicit) and 1-8 instances (every status) whose ages are set to threshold-10, -2, +2, +10 s " +
		"by ageing stored timestamps; one real expired round or left-behind round (schedule timeout 15 s); then everything is listed; non-trivial = at least one record selected; distinct by trace"
	cw := newCaseWriter(cfg.out)
	defer cw.Close()
	w := newWorld()
	w.AddKeeper("worker-1")
	mod.SetKeeper(w.Keepers["worker-1"])
	st := w.Store
	n := 120
	if cfg.tier == "thorough" {
		n = 3000
	}
	wd := mod.NewDefWatchDog(15 * time.Second)
	for it := 0; it < n; it++ {
		w.Srv.Clear()
		g := &storeGen{rng: rng, nm: newNamer(), w: w, meta: meta}
		nm := g.nm
		nm.Id(mod.DefFailedReason) // reason class 1 of the model = the watchdog's reason
		type item struct {
			age  int
			task *entity.TaskInstance
			ins  *entity.DagInstance
		}
		var items []item
		offsets := []int{-10, -2, 2, 10, 40}
		kindExpired := it%2 == 0
		selected := 0
		ni := 1 + rng.Intn(8)
		for i := 0; i < ni; i++ {
			d := g.genIns(g.newID("I"))
			d.Cmd = nil
			age := 15 + offsets[rng.Intn(5)]
			if rng.Chance(1, 6) {
				age = 0
			}
			if !kindExpired && d.Status == entity.DagInstanceStatusScheduled && age > 15 {
				selected++
			}
			items = append(items, item{age: age, ins: d})
			g.iids = append(g.iids, d.ID)
		}
		nt := 1 + rng.Intn(10)
		for i := 0; i < nt; i++ {
			t := g.genTask(g.newID("T"))
			t.TimeoutSecs = []int{1, 5, 30, 100}[rng.Intn(4)]
			t.DagInsID = g.iids[rng.Intn(len(g.iids))]
			if rng.Chance(1, 2) {
				t.Status = entity.TaskInstanceStatusRunning
			}
			age := t.TimeoutSecs + 5 + offsets[rng.Intn(5)]
			if age < 0 {
				age = 0
			}
			if kindExpired && t.Status == entity.TaskInstanceStatusRunning && age > t.TimeoutSecs+5 {
				selected++
			}
			items = append(items, item{age: age, task: t})
		}
		sort.SliceStable(items, func(a, b int) bool { return items[a].age > items[b].age })
		cur := items[0].age
		for _, x := range items {
			if x.age < cur {
				d := cur - x.age
				w.Srv.Age(time.Duration(d) * time.Second)
				g.step(time.Now().Unix(), L(I(16), I(d)), L(I(0)))
				cur = x.age
			}
			now := time.Now().Unix()
			if x.task != nil {
				op := L(I(1), taskSx(x.task, nm))
				g.step(now, op, errReplySx(st.CreateTaskIns(x.task)))
			} else {
				op := L(I(2), insSx(x.ins, nm))
				g.step(now, op, errReplySx(st.CreateDagIns(x.ins)))
			}
		}
		if cur > 0 {
			w.Srv.Age(time.Duration(cur) * time.Second)
			g.step(time.Now().Unix(), L(I(16), I(cur)), L(I(0)))
		}
		now := time.Now().Unix()
		if kindExpired {
			err := wd.VerifExpiredRound()
			g.step(now, L(I(17)), errReplySx(err))
		} else {
			err := wd.VerifLeftBehindRound()
			g.step(now, L(I(18), I(15)), errReplySx(err))
		}
		// list everything
		now = time.Now().Unix()
		ts, err := st.ListTaskInstance(&mod.ListTaskInstanceInput{})
		rep := errReplySx(err)
		if err == nil {
			l := sxList{}
			for _, t := range ts {
				l = append(l, taskSx(t, nm))
				// independent monitor: watchdog reason only on tasks that were running and overdue
			}
			rep = L(I(6), l)
		}
		g.step(now, L(I(13), L(L(), I(0), L(), I(0))), rep)
		is, err := st.ListDagInstance(&mod.ListDagInstanceInput{})
		rep = errReplySx(err)
		if err == nil {
			l := sxList{}
			for _, d := range is {
				l = append(l, insSx(d, nm))
			}
			rep = L(I(7), l)
		}
		g.step(now, L(I(12), L(I(0), L(), I(0), I(0), I(0))), rep)
		cw.Case(20, g.steps)
		meta.Seen(fmt.Sprint(it), selected > 0)
		meta.Count("kind", map[bool]string{true: "expired", false: "left-behind"}[kindExpired])
		meta.Count("selected", bucket(selected))
		if it < 2 {
			meta.Sample(sxString(g.steps))
		}
	}
	meta.Cases = cw.N
	meta.Write(cfg.meta)
}
