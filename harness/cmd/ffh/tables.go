package main

import (
	"go/ast"
	"go/parser"
	"go/token"
	"os"
	"path/filepath"
)

func init() { families["tables"] = runTables }

// runTables: the status tables of the engine, read from the current source text.  For every function the model
// abstracts by a predicate over task statuses, the task-status constants the function mentions are listed in
// source order, grouped by the switch case / condition they stand in.  The Coq side (TablesCheck.v) compares
// each list with the table its predicate is proved equivalent to:
//
//	1 TaskNode.Executable        (statuses a task can be pushed in)            = Engine.exec
//	2 TaskNode.CanExecuteChild   (statuses that enable the dependents)          = Engine.done
//	3 TaskNode.ComputeStatus     (case groups: failed | blocked | finished)     = Engine.active / verdict_of
//	4 TaskInstance.IsLastState   (statuses that are never pre-checked)          = PreCheck.last_state, Engine.can_skip
//	5 TaskInstance.CanBlock      (the status a block check is bypassed in)      = Engine.can_block
//	6 DefExecutor.workerDo       (statuses the executor runs a delivery in)     = Engine.exec
//	7 DefParser.parseCmd         (statuses a retry / a continue re-arms)        = Engine.Rearm / ContArm
//
// case = (function-id ((group status-code) ...)); status codes as stored (EngineMon): 1 init 2 running 3 ending
// 4 success 5 failed 6 canceled 7 retrying 8 blocked 9 continue 10 skipped; group = index of the case clause /
// condition the constant occurs in (0 for a plain condition).
func runTables(cfg *runCfg) {
	meta := newMeta("tables", cfg.seed, cfg.tier)
	meta.Rule = "task-status constants mentioned by the status predicates of tasktree.go / task.go / executor.go / parser.go, extracted from the source text with go/ast"
	cw := newCaseWriter(cfg.out)
	defer cw.Close()
	root := os.Getenv("FF_REPO")
	if root == "" {
		root = "/repo"
	}
	type fn struct {
		id         int
		file, recv string
		name       string
	}
	fns := []fn{
		{1, "pkg/mod/tasktree.go", "TaskNode", "Executable"},
		{2, "pkg/mod/tasktree.go", "TaskNode", "CanExecuteChild"},
		{3, "pkg/mod/tasktree.go", "TaskNode", "ComputeStatus"},
		{4, "pkg/entity/task.go", "TaskInstance", "IsLastState"},
		{5, "pkg/entity/task.go", "TaskInstance", "CanBlock"},
		{6, "pkg/mod/executor.go", "DefExecutor", "workerDo"},
		{7, "pkg/mod/parser.go", "DefParser", "parseCmd"},
	}
	code := map[string]int{"Init": 1, "Running": 2, "Ending": 3, "Success": 4, "Failed": 5, "Canceled": 6, "Retrying": 7, "Blocked": 8, "Continue": 9, "Skipped": 10}
	fset := token.NewFileSet()
	files := map[string]*ast.File{}
	for _, f := range fns {
		af, ok := files[f.file]
		if !ok {
			var err error
			af, err = parser.ParseFile(fset, filepath.Join(root, f.file), nil, 0)
			if err != nil {
				fatalf("parse %s: %v", f.file, err)
			}
			files[f.file] = af
		}
		var fd *ast.FuncDecl
		for _, d := range af.Decls {
			x, ok := d.(*ast.FuncDecl)
			if !ok || x.Name.Name != f.name || x.Recv == nil || len(x.Recv.List) != 1 {
				continue
			}
			t := x.Recv.List[0].Type
			if s, ok := t.(*ast.StarExpr); ok {
				t = s.X
			}
			if id, ok := t.(*ast.Ident); ok && id.Name == f.recv {
				fd = x
			}
		}
		var out sxList
		if fd != nil && fd.Body != nil {
			group := 0
			ast.Inspect(fd.Body, func(n ast.Node) bool {
				switch x := n.(type) {
				case *ast.CaseClause:
					group++
				case *ast.FuncLit:
					group++ // the two closures of parseCmd (retry, continue) and the walk function of ComputeStatus
				case *ast.Ident:
					if len(x.Name) > len("TaskInstanceStatus") && x.Name[:len("TaskInstanceStatus")] == "TaskInstanceStatus" {
						if c, ok := code[x.Name[len("TaskInstanceStatus"):]]; ok {
							out = append(out, L(I(group), I(c)))
						}
					}
				}
				return true
			})
		} else {
			out = append(out, L(I(-1), I(0))) // the function is gone
		}
		cw.Comment(f.recv + "." + f.name)
		cw.Case(91, L(I(f.id), out))
		meta.Count("functions", f.recv+"."+f.name)
		meta.Seen(f.recv+"."+f.name, true)
	}
	meta.Cases = cw.N
	meta.Write(cfg.meta)
}
