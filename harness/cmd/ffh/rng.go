package main

// Rng is a small deterministic PRNG (splitmix64); every random choice of the
// harness derives from one state seeded by VERIF_SEED so runs replay exactly.
type Rng struct{ s uint64 }

func newRng(seed int64) *Rng { return &Rng{s: uint64(seed)*0x9E3779B97F4A7C15 + 0x1234567} }

func (r *Rng) next() uint64 {
	r.s += 0x9E3779B97F4A7C15
	z := r.s
	z = (z ^ (z >> 30)) * 0xBF58476D1CE4E5B9
	z = (z ^ (z >> 27)) * 0x94D049BB133111EB
	return z ^ (z >> 31)
}

// Intn returns a value in [0,n).
func (r *Rng) Intn(n int) int {
	if n <= 0 {
		return 0
	}
	return int(r.next() % uint64(n))
}

// Bool returns true with probability num/den.
func (r *Rng) Chance(num, den int) bool { return r.Intn(den) < num }

// Pick returns a random element index weighted by w.
func (r *Rng) Pick(w []int) int {
	t := 0
	for _, x := range w {
		t += x
	}
	k := r.Intn(t)
	for i, x := range w {
		if k < x {
			return i
		}
		k -= x
	}
	return len(w) - 1
}

// Perm returns a random permutation of 0..n-1.
func (r *Rng) Perm(n int) []int {
	p := make([]int, n)
	for i := range p {
		p[i] = i
	}
	for i := n - 1; i > 0; i-- {
		j := r.Intn(i + 1)
		p[i], p[j] = p[j], p[i]
	}
	return p
}
