package main

import (
	"fmt"
	"runtime"
	"sort"
	"sync"
	"sync/atomic"
	"time"

	"github.com/shiningrush/fastflow/pkg/entity"
	"github.com/shiningrush/fastflow/pkg/entity/run"
	"github.com/shiningrush/fastflow/pkg/mod"
	"github.com/stretchr/testify/mock"
)

func init() { families["execreg"] = runExecReg }

// Family execreg (Coq: ExecReg / ExecRegCheck, case tag 95): the real DefExecutor - Push, the init goroutine
// (initWorkerTask), the workers (workerDo, TaskInstance.Run) - is driven with pushes of ALIASED task objects
// (the same *TaskInstance handed over more than once, as InitialDagIns does for a task reached by several
// paths), releases of the blocking main action and status writes into the objects; at every quiescent point
// the registered tasks (cancel map, through the verif hook), the objects inside an action, the blocked pushers,
// the completion events and the in-memory statuses are recorded.

type xrAct struct {
	mu      sync.Mutex
	started map[*entity.TaskInstance]bool
	rel     map[*entity.TaskInstance]chan bool
}

func (a *xrAct) Name() string { return "X" }
func (a *xrAct) Run(ctx run.ExecuteContext, p interface{}) error {
	t, _ := entity.CtxRunningTaskIns(ctx.Context())
	a.mu.Lock()
	a.started[t] = true
	ch := a.rel[t]
	a.mu.Unlock()
	ok := <-ch
	a.mu.Lock()
	delete(a.started, t)
	a.mu.Unlock()
	if !ok {
		return fmt.Errorf("scripted failure")
	}
	return nil
}

// pusher is a method of xrAct so that the quiescence census sees the goroutine until it has counted itself out
// (a plain closure has no fastflow frame left once Push has returned, and the decrement could lag behind the
// observation on a loaded machine).
func (a *xrAct) pusher(exe *mod.DefExecutor, dagIns *entity.DagInstance, obj *entity.TaskInstance, blocked *int64) {
	exe.Push(dagIns, obj)
	atomic.AddInt64(blocked, -1)
}

var xrStatus = []entity.TaskInstanceStatus{entity.TaskInstanceStatusInit, entity.TaskInstanceStatusContinue, entity.TaskInstanceStatusRetrying,
	entity.TaskInstanceStatusEnding, entity.TaskInstanceStatusFailed, entity.TaskInstanceStatusSuccess, entity.TaskInstanceStatusBlocked}
var xrCode = map[entity.TaskInstanceStatus]int{entity.TaskInstanceStatusInit: 1, entity.TaskInstanceStatusRunning: 2, entity.TaskInstanceStatusEnding: 3,
	entity.TaskInstanceStatusSuccess: 4, entity.TaskInstanceStatusFailed: 5, entity.TaskInstanceStatusRetrying: 7, entity.TaskInstanceStatusBlocked: 8,
	entity.TaskInstanceStatusContinue: 9, entity.TaskInstanceStatusSkipped: 10}

func runExecReg(cfg *runCfg) {
	meta := newMeta("execreg", cfg.seed, cfg.tier)
	meta.Rule = "real DefExecutor (1-2 workers), 2-3 tasks, 2-5 task objects (several objects and several hand-overs of one object per task; initial status " +
		"init/continue/retrying/ending/failed/success/blocked), 6-16 operations: push an object, release a blocked main action (ok / error), write a status " +
		"into an object that is not inside an action; observation at every quiescent point; non-trivial = some object is handed over at least twice"
	cw := newCaseWriter(cfg.out)
	defer cw.Close()
	n := 120
	if cfg.tier == "thorough" {
		n = 2500
	}
	if cfg.n > 0 {
		n = cfg.n
	}
	st := &mod.MockStore{}
	st.On("PatchTaskIns", mock.Anything).Return(nil)
	st.On("PatchDagIns", mock.Anything, mock.Anything).Return(nil)
	st.On("PatchDagIns", mock.Anything).Return(nil)
	mod.SetStore(st)
	mainGid := curGid()
	for it := 0; it < n; it++ {
		if cfg.only >= 0 && it != cfg.only {
			continue
		}
		r := newRng(cfg.seed*1000003 + int64(it))
		nw := 1 + r.Intn(2)
		nt := 2 + r.Intn(2)
		no := 2 + r.Intn(4)
		dagIns := &entity.DagInstance{BaseInfo: entity.BaseInfo{ID: "ins"}, ShareData: &entity.ShareData{}}
		objs := make([]*entity.TaskInstance, no)
		objSx := sxList{}
		act := &xrAct{started: map[*entity.TaskInstance]bool{}, rel: map[*entity.TaskInstance]chan bool{}}
		for o := 0; o < no; o++ {
			t := 1 + r.Intn(nt)
			if o < nt {
				t = o + 1
			}
			s := xrStatus[r.Pick([]int{5, 3, 3, 2, 1, 1, 1})]
			objs[o] = &entity.TaskInstance{BaseInfo: entity.BaseInfo{ID: fmt.Sprintf("x%d", t)}, TaskID: fmt.Sprintf("x%d", t), DagInsID: "ins", ActionName: "X", Status: s}
			act.rel[objs[o]] = make(chan bool)
			objSx = append(objSx, L(I(t), I(xrCode[s])))
		}
		mod.ActionMap = map[string]run.Action{"X": act}
		var entMu sync.Mutex
		var ents []int
		par := &mod.MockParser{}
		par.On("EntryTaskIns", mock.Anything).Run(func(args mock.Arguments) {
			t := args.Get(0).(*entity.TaskInstance)
			for o := range objs {
				if objs[o] == t {
					entMu.Lock()
					ents = append(ents, o*16+xrCode[t.Status])
					entMu.Unlock()
				}
			}
		})
		mod.SetParser(par)
		exe := mod.NewDefExecutor(time.Hour, nw)
		mod.SetExecutor(exe)
		exe.Init()
		var blocked int64
		settle := func() {
			stable := 0
			deadline := time.Now().Add(10 * time.Second)
			for time.Now().Before(deadline) {
				busy, _ := census(mainGid)
				if len(busy) == 0 {
					stable++
					if stable >= 2 {
						return
					}
					runtime.Gosched()
					continue
				}
				stable = 0
				time.Sleep(50 * time.Microsecond)
			}
			fatalf("execreg: executor does not become quiescent")
		}
		observe := func() Sx {
			regs := sxList{}
			var rz []int
			for _, id := range exe.VerifRegistered() {
				var t int
				fmt.Sscanf(id, "x%d", &t)
				rz = append(rz, t)
			}
			sort.Ints(rz)
			for _, t := range rz {
				regs = append(regs, I(t))
			}
			running := sxList{}
			act.mu.Lock()
			for o := range objs {
				if act.started[objs[o]] {
					running = append(running, I(o))
				}
			}
			act.mu.Unlock()
			entMu.Lock()
			es := append([]int{}, ents...)
			entMu.Unlock()
			sort.Ints(es)
			el := sxList{}
			for _, e := range es {
				el = append(el, I(e))
			}
			sl := sxList{}
			for o := range objs {
				sl = append(sl, I(xrCode[objs[o].Status]))
			}
			return L(regs, running, I(int(atomic.LoadInt64(&blocked))), el, sl)
		}
		steps := sxList{}
		nops := 6 + r.Intn(11)
		pushes := map[int]int{}
		var pushed []int
		for k := 0; k < nops; k++ {
			var runningObjs []int
			act.mu.Lock()
			for o := range objs {
				if act.started[objs[o]] {
					runningObjs = append(runningObjs, o)
				}
			}
			act.mu.Unlock()
			var op Sx
			switch c := r.Pick([]int{4, 6, 3}); {
			case c == 1 && len(runningObjs) > 0:
				o := runningObjs[r.Intn(len(runningObjs))]
				ok := r.Chance(1, 2)
				act.rel[objs[o]] <- ok
				op = L(I(1), I(o), B(ok))
				meta.Count("ops", "release")
			case c == 2:
				o := r.Intn(no)
				isRunning := false
				for _, x := range runningObjs {
					// (a status write into an object whose run is inside the action would race with that run)
					if x == o || objs[x] == objs[o] {
						isRunning = true
					}
				}
				if isRunning {
					k--
					nops--
					continue
				}
				s := xrStatus[r.Pick([]int{4, 2, 2, 1, 2, 2, 1})]
				objs[o].Status = s
				op = L(I(2), I(o), I(xrCode[s]))
				meta.Count("ops", "mutate")
			default:
				o := r.Intn(no)
				if len(pushed) > 0 && r.Chance(1, 3) { // hand an object over again
					o = pushed[r.Intn(len(pushed))]
				}
				pushed = append(pushed, o)
				pushes[o]++
				atomic.AddInt64(&blocked, 1)
				obj := objs[o]
				go act.pusher(exe, dagIns, obj, &blocked)
				op = L(I(0), I(o))
				meta.Count("ops", "push")
			}
			settle()
			steps = append(steps, L(op, observe()))
		}
		multi := false
		for _, c := range pushes {
			if c > 1 {
				multi = true
			}
		}
		c := L(I(nw), objSx, steps)
		cw.Comment(fmt.Sprintf("execreg scenario %d seed %d :: replay: ffh execreg -seed %d -n %d -only %d", it, cfg.seed, cfg.seed, n, it))
		cw.Case(95, c)
		meta.Count("workers", fmt.Sprint(nw))
		meta.Count("objects", fmt.Sprint(no))
		meta.Count("ops-per-case", bucket(len(steps)))
		meta.Seen(sxString(c), multi)
		// release whatever still sits in an action (deliveries waiting behind it then run into the next action) until
		// the executor has drained, and close it: otherwise the goroutines of every scenario stay behind and the
		// census of the later scenarios has to wade through them
		for round := 0; round < 64; round++ {
			act.mu.Lock()
			var left []*entity.TaskInstance
			for t := range act.started {
				left = append(left, t)
			}
			act.mu.Unlock()
			if len(left) == 0 {
				break
			}
			for _, t := range left {
				select {
				case act.rel[t] <- false:
				case <-time.After(time.Second):
				}
			}
			settle()
		}
		if atomic.LoadInt64(&blocked) == 0 {
			exe.Close()
		}
	}
	meta.Cases = cw.N
	meta.Write(cfg.meta)
}
