package main

import (
	"bufio"
	"fmt"
	"os"
	"strconv"
	"strings"
	"sync"
)

// Sx is an integer s-expression (the wire format shared with the Coq models).
type Sx interface{ write(b *strings.Builder) }

type sxInt int64
type sxList []Sx

func (i sxInt) write(b *strings.Builder) { b.WriteString(strconv.FormatInt(int64(i), 10)) }
func (l sxList) write(b *strings.Builder) {
	b.WriteByte('(')
	for i, x := range l {
		if i > 0 {
			b.WriteByte(' ')
		}
		x.write(b)
	}
	b.WriteByte(')')
}

// I builds an integer atom.
func I(i int) Sx { return sxInt(i) }

// B builds a boolean atom.
func B(v bool) Sx {
	if v {
		return sxInt(1)
	}
	return sxInt(0)
}

// L builds a list.
func L(xs ...Sx) Sx { return sxList(xs) }

// Ints builds a list of integers.
func Ints(xs []int) Sx {
	out := make(sxList, len(xs))
	for i, x := range xs {
		out[i] = sxInt(x)
	}
	return out
}

func sxString(s Sx) string {
	var b strings.Builder
	s.write(&b)
	return b.String()
}

// CaseWriter writes "<family> <sexp>" lines.
type CaseWriter struct {
	f *os.File
	w *bufio.Writer
	N int
}

func newCaseWriter(path string) *CaseWriter {
	f, err := os.Create(path)
	if err != nil {
		panic(err)
	}
	return &CaseWriter{f: f, w: bufio.NewWriterSize(f, 1<<20)}
}

func (c *CaseWriter) Case(family int, s Sx) {
	fmt.Fprintf(c.w, "%d %s\n", family, sxString(s))
	c.N++
}

func (c *CaseWriter) Comment(s string) { fmt.Fprintf(c.w, "# %s\n", strings.ReplaceAll(s, "\n", " ")) }

func (c *CaseWriter) Close() {
	c.w.Flush()
	c.f.Close()
}

// Namer renames strings to small integers by first occurrence (0 is reserved
// for the empty string).
// Namer is used from every goroutine of a scenario (store-call encoders run before their goroutine parks).
type Namer struct {
	mu sync.Mutex
	m  map[string]int
	r  []string
}

func newNamer() *Namer { return &Namer{m: map[string]int{"": 0}, r: []string{""}} }

func (n *Namer) Id(s string) int {
	n.mu.Lock()
	defer n.mu.Unlock()
	if v, ok := n.m[s]; ok {
		return v
	}
	v := len(n.r)
	n.m[s] = v
	n.r = append(n.r, s)
	return v
}

func (n *Namer) Name(i int) string {
	n.mu.Lock()
	defer n.mu.Unlock()
	return n.r[i]
}
