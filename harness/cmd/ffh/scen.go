package main

import (
	"fmt"
	"os"
	"runtime"

	"ffverif/memongo"
	"strings"
	"time"

	"github.com/shiningrush/fastflow/pkg/entity"
	"github.com/shiningrush/fastflow/pkg/mod"
)

func init() {
	families["engine"] = runEngine
}

type taskSpec struct {
	id      string
	deps    []string
	action  string
	timeout int
	pre     entity.PreChecks
	params  map[string]interface{}
}

// Scenario = DAG + scripted outcomes + a plan of harness actions.
type Scenario struct {
	tasks             []taskSpec
	vars              entity.DagVars
	spec              map[string]string
	scripts           map[string][]phaseScript // key task/phase -> per attempt
	execWorkers       int
	parserWorkers     int
	crashAt           []int // step numbers at which the worker crashes and is restarted
	watchMid          bool  // the command watcher also runs while actions are in flight (interleaved with them by the scheduler)
	closeAt           int   // step number at which Close is issued (-1 = never)
	cancelAt          int   // step number at which a cancel command is attempted (-1 never)
	moreCancels       []int // further cancel attempts, as step distances after the previous one
	retries           int   // number of retry commands the plan may issue
	continues         int
	cmdMidFlight      bool // issue retry/continue while other tasks of the instance are in flight
	badCmds           bool // also issue commands with ineligible / unknown ids
	faultNth          int  // inject one store failure at the n-th matching call (0 = none)
	faultMatch        string
	faultMode         string
	foreign           bool // populate instances owned by another worker
	leftBehind        bool // the leader's left-behind sweep races the owner starting the instance
	wdAges            []int
	memFaultNth       int
	restartAfterClose bool
	wdAt              int                 // step at which the clock jumps and an expired sweep races a live run (-1 never)
	twinSpecs         []map[string]string // further own instances of the same DAG, started with these variable values
	core              bool                // within the scope of the EngineCore model (journal carries the marker event 38)
	staleEv           bool                // retry command executed while the completion event of the failed run is still queued behind a busy parser worker
	reassign          bool                // instances left behind by an interrupted watch round are given to another worker
	lateExit          bool                // executor workers held at the end of workerDo across a retry of their task
	cmdCrash          bool                // the worker dies after a retry command re-armed its target and before the command is cleared; restart
	window            bool                // retry command executed between the failed run's last status write and its de-registration
	dupPush           bool                // retry command processed while a pushed task has not yet stored 'running' and pushes queue up behind a busy worker
	desc              string
}

func (s *Scenario) tmplOf(taskID string) string {
	for _, t := range s.tasks {
		if t.id == taskID {
			if p, ok := t.params["p1"].(string); ok {
				return p
			}
		}
	}
	return ""
}

func (s *Scenario) script(taskID, ph string, att int) phaseScript {
	l := s.scripts[taskID+"/"+ph]
	if att < len(l) {
		return l[att]
	}
	return phaseScript{}
}

// genScenario draws a scenario; kind selects a directed family, "" = general mix.
func genScenario(rng *Rng, kind string) *Scenario {
	s := &Scenario{scripts: map[string][]phaseScript{}, closeAt: -1, cancelAt: -1, wdAt: -1}
	n := 1 + rng.Intn(6)
	shape := rng.Intn(6)
	if kind == "diamond" {
		shape = 3
		n = 4 + rng.Intn(2)
	}
	for i := 0; i < n; i++ {
		t := taskSpec{id: fmt.Sprintf("t%d", i+1), action: []string{"A", "AF", "AF"}[rng.Intn(3)]}
		switch shape {
		case 0: // chain
			if i > 0 {
				t.deps = []string{fmt.Sprintf("t%d", i)}
			}
		case 1: // fan-out from t1
			if i > 0 {
				t.deps = []string{"t1"}
			}
		case 2: // fan-in into the last
			if i == n-1 && n > 1 {
				for j := 0; j < n-1; j++ {
					t.deps = append(t.deps, fmt.Sprintf("t%d", j+1))
				}
			}
		case 3: // diamond(s)
			if i == 1 || i == 2 {
				t.deps = []string{"t1"}
			}
			if i == 3 {
				t.deps = []string{"t2", "t3"}
			}
			if i > 3 {
				t.deps = []string{fmt.Sprintf("t%d", 1+rng.Intn(i))}
			}
		default: // random DAG, fan-in <= 3
			for k := rng.Intn(3); k > 0 && i > 0; k-- {
				d := fmt.Sprintf("t%d", 1+rng.Intn(i))
				dup := false
				for _, x := range t.deps {
					if x == d {
						dup = true
					}
				}
				if !dup {
					t.deps = append(t.deps, d)
				}
			}
		}
		if rng.Chance(1, 4) {
			t.timeout = 20 + rng.Intn(40)
		}
		s.tasks = append(s.tasks, t)
	}
	s.vars = entity.DagVars{"v": {DefaultValue: "1"}, "w": {DefaultValue: "x"}}
	if rng.Chance(1, 3) {
		s.spec = map[string]string{"v": "2"}
	}
	s.execWorkers = 1 + rng.Intn(4)
	s.parserWorkers = 1 + rng.Intn(2)
	// outcomes
	failBias := rng.Intn(4) // 0: all ok
	for _, t := range s.tasks {
		for _, ph := range []string{"before", "run", "after", "retry"} {
			var l []phaseScript
			for att := 0; att < 3; att++ {
				ps := phaseScript{}
				if att == 0 && failBias > 0 && rng.Chance(failBias, 12) {
					ps.outcome = 1 + rng.Intn(2)
				}
				if ph == "run" || rng.Chance(1, 4) {
					for k := rng.Intn(3); k > 0; k-- {
						op := actOp{kind: rng.Intn(4), k: fmt.Sprintf("k%d", rng.Intn(3)), v: fmt.Sprintf("%s.%s.%d.%d", t.id, ph, att, k)}
						ps.ops = append(ps.ops, op)
					}
				}
				l = append(l, ps)
			}
			s.scripts[t.id+"/"+ph] = l
		}
	}
	// pre-checks
	if (rng.Chance(1, 3) && kind != "core") || kind == "precheck" || kind == "corepc" {
		for i := range s.tasks {
			// corepc: InitialDagIns hands a task with several parents to Push once per path that reaches it; when a
			// pre-check fires the verdict is then written, and the parser told, as many times.  The Engine model pushes
			// a task once, so the acceptor's scope excludes pre-checks on tasks reached by more than one path - several
			// parents, or one parent that is itself reached by several paths (DESIGN.md 0.8).
			if rng.Chance(1, 3) && (kind != "corepc" || pathCount(s.tasks, i) <= 1) {
				act := []entity.ActiveAction{entity.ActiveActionSkip, entity.ActiveActionBlock}[rng.Intn(2)]
				cond := entity.TaskCondition{Source: entity.TaskConditionSourceVars, Key: "v", Op: entity.OperatorIn, Values: []string{"1"}}
				switch rng.Intn(4) {
				case 0:
					cond.Values = []string{"2"}
				case 1:
					cond.Op = entity.OperatorNotIn
				case 2: // shared data written by an upstream task
					cond.Source = entity.TaskConditionSourceShareData
					cond.Key = "k0"
					cond.Values = nil
					cond.Op = entity.OperatorNotIn
				}
				s.tasks[i].pre = entity.PreChecks{"c": {Act: act, Conditions: []entity.TaskCondition{cond}}}
				if kind == "precheck" && rng.Chance(1, 2) {
					// a block check on a variable plus a skip check on shared data another task writes
					s.tasks[i].pre = entity.PreChecks{
						"b": {Act: entity.ActiveActionBlock, Conditions: []entity.TaskCondition{{Source: entity.TaskConditionSourceVars, Key: "v", Op: entity.OperatorIn, Values: []string{"1", "2"}}}},
						"s": {Act: entity.ActiveActionSkip, Conditions: []entity.TaskCondition{{Source: entity.TaskConditionSourceShareData, Key: "k0", Op: entity.OperatorNotIn, Values: nil}}},
					}
				}
			}
		}
	}
	s.retries = rng.Intn(3)
	s.continues = rng.Intn(3)
	switch kind {
	case "crash":
		for k := 1 + rng.Intn(2); k > 0; k-- {
			s.crashAt = append(s.crashAt, 2+rng.Intn(40))
		}
	case "cancel":
		s.cancelAt = 2 + rng.Intn(25)
		for k := rng.Intn(3); k > 0; k-- {
			s.moreCancels = append(s.moreCancels, 3+rng.Intn(40))
		}
		s.retries = 1 + rng.Intn(2)
		for i := range s.tasks {
			if rng.Chance(1, 2) {
				l := s.scripts[s.tasks[i].id+"/run"]
				l[0].waitCancel = true
				if rng.Chance(1, 2) {
					l[0].outcome = 1
				}
			}
		}
	case "close":
		s.closeAt = 1 + rng.Intn(30)
		s.restartAfterClose = rng.Chance(1, 2)
	case "closefull":
		// one root and 56 children that are all skipped by a pre-check: the parser worker enqueues more
		// completion events than its queue (50) holds while it is still pushing; Close arrives then
		s.tasks = s.tasks[:0]
		s.tasks = append(s.tasks, taskSpec{id: "t1", action: "A"})
		for i := 2; i <= 57; i++ {
			s.tasks = append(s.tasks, taskSpec{id: fmt.Sprintf("t%d", i), action: "A", deps: []string{"t1"},
				pre: entity.PreChecks{"c": {Act: entity.ActiveActionSkip, Conditions: []entity.TaskCondition{{Source: entity.TaskConditionSourceVars, Key: "v", Op: entity.OperatorIn, Values: []string{"1", "2"}}}}}})
		}
		s.scripts = map[string][]phaseScript{}
		s.closeAt = 55 + rng.Intn(12)
		s.retries, s.continues = 0, 0
	case "closepre":
		// Close while tasks complete whose successors have a pre-check that fires (skip / block)
		s.closeAt = 1 + rng.Intn(20)
		s.restartAfterClose = rng.Chance(1, 2)
		for i := range s.tasks {
			if i > 0 && rng.Chance(2, 3) {
				act := []entity.ActiveAction{entity.ActiveActionSkip, entity.ActiveActionBlock}[rng.Intn(2)]
				s.tasks[i].pre = entity.PreChecks{"c": {Act: act, Conditions: []entity.TaskCondition{{Source: entity.TaskConditionSourceVars, Key: "v", Op: entity.OperatorIn, Values: []string{"1", "2"}}}}}
			}
		}
	case "cmdrace":
		s.cmdMidFlight = true
		s.retries = 2
	case "core":
		// the scope of the EngineCore model: failures, retry commands (also mid-flight), crashes; no
		// pre-checks, no cancel / continue, no injected store failures, no watchdog
		s.core = true
		s.continues = 0
		s.retries = 1 + rng.Intn(2)
		s.cmdMidFlight = rng.Chance(1, 2)
		if rng.Chance(1, 2) {
			for k := 1 + rng.Intn(2); k > 0; k-- {
				s.crashAt = append(s.crashAt, 2+rng.Intn(40))
			}
		}
	case "corepc":
		// the scope of the Engine model with pre-checks: skip / block checks on variables and shared data, continue
		// commands for blocked tasks, failures, retry commands, crashes; no cancel, no injected store failures
		s.core = true
		s.continues = 1 + rng.Intn(2)
		s.retries = rng.Intn(3)
		s.cmdMidFlight = rng.Chance(1, 3)
		if rng.Chance(1, 3) {
			s.crashAt = append(s.crashAt, 2+rng.Intn(40))
		}
	case "duppush":
		// independent tasks, one executor worker: pushes queue up behind the busy worker; t1 fails and is
		// retried while a later task has been pushed but has not stored 'running' yet - the command's
		// re-initialisation reads it as init and pushes it a second time
		s.tasks = s.tasks[:0]
		nt := 4 + rng.Intn(3)
		for i := 1; i <= nt; i++ {
			s.tasks = append(s.tasks, taskSpec{id: fmt.Sprintf("t%d", i), action: "A"})
		}
		s.scripts = map[string][]phaseScript{"t1/run": {{outcome: 1}, {}, {}}}
		s.execWorkers = 1
		s.parserWorkers = 1
		s.retries = 1
		s.continues = 0
		s.dupPush = true
		s.core = true
	case "duppushpc":
		// duppush with a pre-check: the queued tasks carry a skip check on shared data that t1's main action writes
		// before it fails.  First push (at the start): the key is absent, the task is handed to the executor and queues
		// up behind the single busy worker.  Second push (re-initialisation by the retry command): the check holds,
		// 'skipped' is written and the dependents proceed - and the first delivery then runs the task all the same.
		s.tasks = s.tasks[:0]
		nt := 4 + rng.Intn(2)
		s.tasks = append(s.tasks, taskSpec{id: "t1", action: "A"})
		for i := 2; i <= nt; i++ {
			s.tasks = append(s.tasks, taskSpec{id: fmt.Sprintf("t%d", i), action: "A",
				pre: entity.PreChecks{"s": {Act: entity.ActiveActionSkip, Conditions: []entity.TaskCondition{{Source: entity.TaskConditionSourceShareData, Key: "k0", Op: entity.OperatorNotIn, Values: nil}}}}})
		}
		s.scripts = map[string][]phaseScript{"t1/run": {{outcome: 1, ops: []actOp{{kind: 0, k: "k0", v: "t1.run.0.1"}}}, {}, {}}}
		s.execWorkers = 1
		s.parserWorkers = 1
		s.retries = 1
		s.continues = 0
		s.dupPush = true
	case "sharecmd":
		// independent tasks on three workers; every main action stores fresh keys step by step; t1 fails at once and is
		// retried while the others are still inside their actions, and the command watcher's round (list, re-arm, clear)
		// is interleaved with their Sets by the scheduler
		s.tasks = s.tasks[:0]
		nt := 3 + rng.Intn(2)
		s.scripts = map[string][]phaseScript{}
		for i := 1; i <= nt; i++ {
			id := fmt.Sprintf("t%d", i)
			s.tasks = append(s.tasks, taskSpec{id: id, action: "A"})
			var l []phaseScript
			for att := 0; att < 3; att++ {
				ps := phaseScript{}
				if i > 1 || att > 0 {
					for k := 0; k < 2+rng.Intn(3); k++ {
						ps.ops = append(ps.ops, actOp{kind: 0, k: fmt.Sprintf("s%d.%d.%d", i, att, k), v: fmt.Sprintf("%s.run.%d.%d", id, att, k)})
					}
				}
				l = append(l, ps)
			}
			s.scripts[id+"/run"] = l
		}
		s.scripts["t1/run"][0].outcome = 1
		s.execWorkers = 3
		s.parserWorkers = 1 + rng.Intn(2)
		s.retries = 2
		s.continues = 0
		s.cmdMidFlight = true
		s.watchMid = true
		s.crashAt = nil
		s.cancelAt = -1
		s.closeAt = -1
	case "duppath":
		// a task reached by two paths (t5 <- t2, t4 <- t1) with an executable sibling between its two occurrences in
		// the tree walk (t1's children are t2, t3, t4), one executor worker.  t3 and t5 are blocked by a pre-check; the
		// continue command re-arms both and the re-initialisation hands t5, t3, t5 to the executor: the second t5 waits
		// behind t3 in the init queue until the first t5 has run (and failed) and left the cancel map.
		s.tasks = []taskSpec{
			{id: "t1", action: "A"},
			{id: "t2", action: "A", deps: []string{"t1"}},
			{id: "t3", action: "A", deps: []string{"t1"}},
			{id: "t4", action: "A", deps: []string{"t1"}},
			{id: "t5", action: "AF", deps: []string{"t2", "t4"}}, // with a before hook: the run parks in status 'continue'
		}
		blk := entity.PreChecks{"b": {Act: entity.ActiveActionBlock, Conditions: []entity.TaskCondition{{Source: entity.TaskConditionSourceVars, Key: "v", Op: entity.OperatorIn, Values: []string{"1", "2"}}}}}
		s.tasks[2].pre = blk
		s.tasks[4].pre = blk
		s.scripts = map[string][]phaseScript{"t5/run": {{outcome: 1}, {}, {}}}
		s.execWorkers = 1
		s.parserWorkers = 1
		s.retries = 1
		s.continues = 2
		s.crashAt = nil
		s.cancelAt = -1
		s.closeAt = -1
	case "tracefault":
		// every phase traces (buffered and immediate); one status write of some task fails
		for _, t := range s.tasks {
			for _, ph := range []string{"before", "run", "after"} {
				l := s.scripts[t.id+"/"+ph]
				for a := range l {
					l[a].ops = append(l[a].ops, actOp{kind: 3, v: fmt.Sprintf("%s.%s.%d.buf", t.id, ph, a)})
					if rng.Chance(1, 3) {
						l[a].ops = append(l[a].ops, actOp{kind: 2, v: fmt.Sprintf("%s.%s.%d.now", t.id, ph, a)})
					}
				}
			}
		}
		s.faultNth = 1 + rng.Intn(8)
		s.faultMatch = "PatchTaskIns"
		s.faultMode = "fail"
	case "tmpl":
		// execution-time templates: vars and shared data; k0 is written by t1's main action only
		for i := range s.tasks {
			s.tasks[i].action = "AP"
			p1 := "{{.vars.v.Value}}|"
			if i > 0 && rng.Chance(2, 3) {
				p1 += "{{.shareData.k0}}"
			}
			s.tasks[i].params = map[string]interface{}{"p1": p1, "p2": 5, "p4": []interface{}{"{{.vars.w.Value}}", "x"}}
			for _, ph := range []string{"before", "run", "after", "retry"} {
				l := s.scripts[s.tasks[i].id+"/"+ph]
				for a := range l {
					l[a].ops = nil
				}
			}
		}
		l := s.scripts["t1/run"]
		for a := range l {
			l[a].ops = []actOp{{kind: 0, k: "k0", v: "sv"}}
		}
	case "twins":
		// several own instances of the same DAG, started with different variable values, become
		// 'scheduled' together: one watch round instantiates all of them.  Parameters carry
		// instantiation-time placeholders {{x<n>}} (token convention of the vars family).
		s.vars[varName(0)] = entity.DagVar{DefaultValue: "V0!"}
		s.vars[varName(1)] = entity.DagVar{DefaultValue: "V1!"}
		s.vars[varName(2)] = entity.DagVar{DefaultValue: "V2!"}
		if s.spec == nil {
			s.spec = map[string]string{}
		}
		s.spec[varName(0)] = "V10!"
		for k := 1 + rng.Intn(2); k > 0; k-- {
			sp := map[string]string{varName(0): fmt.Sprintf("V%d!", 20+k)}
			if rng.Chance(1, 2) {
				sp[varName(1)] = fmt.Sprintf("V%d!", 30+k)
			}
			s.twinSpecs = append(s.twinSpecs, sp)
		}
		for i := range s.tasks {
			h := func() string { return "{{" + varName(rng.Intn(3)) + "}}" }
			pm := map[string]interface{}{"p1": fmt.Sprintf("L%d.", i) + h() + "L9.", "p2": 5 + i}
			if rng.Chance(2, 3) {
				pm["p4"] = []interface{}{h(), "L3.", map[string]interface{}{"p5": h() + h()}}
			}
			if rng.Chance(1, 2) {
				pm["p3"] = map[string]interface{}{"p7": h(), "p8": true}
			}
			if rng.Chance(1, 5) {
				pm = nil // a task without parameters
			}
			s.tasks[i].params = pm
		}
		if rng.Chance(1, 3) {
			s.crashAt = []int{1 + rng.Intn(12)}
		}
		if rng.Chance(1, 4) {
			s.memFaultNth = 1 + rng.Intn(6)
		}
	case "leftbehind":
		s.leftBehind = true
	case "wdrace":
		s.wdAt = 3 + rng.Intn(25)
		s.wdAges = []int{12, 20, 100, 100}
	case "partialinit":
		// one insert of the instantiation batch fails in the database: the batch is partially applied and a
		// later watch round resumes it; later the clock advances a little and the expired sweep runs
		s.memFaultNth = 1 + rng.Intn(len(s.tasks))
		s.wdAt = 3 + rng.Intn(25)
		s.wdAges = []int{12, 20}
	case "wdearly":
		// the clock advances, but by less than any task's timeout + grace: the sweep must select nothing
		s.wdAt = 3 + rng.Intn(25)
		s.wdAges = []int{12, 20}
	case "foreign":
		s.foreign = true
		s.retries = 2
		// make an own task fail on its first attempt so that a retry command is issued
		l := s.scripts[s.tasks[0].id+"/run"]
		l[0].outcome = 1
	case "pcfault":
		// the status write of a pre-check verdict (skipped / blocked) fails in the store: nothing downstream of
		// the task may start on the strength of a verdict that was never recorded
		for i := range s.tasks {
			if i == 0 || rng.Chance(1, 2) {
				act := []entity.ActiveAction{entity.ActiveActionSkip, entity.ActiveActionSkip, entity.ActiveActionBlock}[rng.Intn(3)]
				s.tasks[i].pre = entity.PreChecks{"c": {Act: act, Conditions: []entity.TaskCondition{{Source: entity.TaskConditionSourceVars, Key: "v", Op: entity.OperatorIn, Values: []string{"1", "2"}}}}}
			}
		}
		s.faultNth = 1 + rng.Intn(2)
		s.faultMatch = []string{":skipped", ":skipped", ":blocked"}[rng.Intn(3)]
		s.faultMode = "fail"
		if rng.Chance(2, 3) {
			// directed: the verdict of the first task (pushed first, usually with dependents) is the write that fails
			if s.tasks[0].pre["c"].Act == entity.ActiveActionSkip {
				s.faultMatch = ":skipped"
			} else {
				s.faultMatch = ":blocked"
			}
			s.faultNth = 1
		}
		if rng.Chance(1, 2) {
			s.crashAt = []int{8 + rng.Intn(30)}
		}
	case "runfault":
		// the write that records a task as running fails, and the worker dies a little later: whatever the code
		// did about the failed write, no main action may run twice and none may run unrecorded
		s.faultNth = 1 + rng.Intn(3)
		s.faultMatch = "suffix=:running"
		s.faultMode = "fail"
		s.crashAt = []int{3 + rng.Intn(25)}
		if rng.Chance(1, 3) {
			s.crashAt = append(s.crashAt, 10+rng.Intn(30))
		}
	case "cancelfault":
		// a cancelled in-flight task whose action returns nil is kept as success and tagged; that tag write fails
		s.cancelAt = 2 + rng.Intn(12)
		for k := rng.Intn(2); k > 0; k-- {
			s.moreCancels = append(s.moreCancels, 3+rng.Intn(20))
		}
		s.retries = rng.Intn(2)
		for i := range s.tasks {
			l := s.scripts[s.tasks[i].id+"/run"]
			l[0].waitCancel = true
			l[0].outcome = 0
		}
		s.faultNth = 1
		s.faultMatch = "suffix=:" // PatchTaskIns:<id>:<empty status> = the reason-only tag patch
		s.faultMode = "fail"
	case "sharerace":
		// parallel tasks of one instance set different keys; their whole-dictionary saves are released in every order
		s.tasks = s.tasks[:0]
		nt := 3 + rng.Intn(3)
		for i := 1; i <= nt; i++ {
			t := taskSpec{id: fmt.Sprintf("t%d", i), action: "A"}
			if i == nt && rng.Chance(1, 2) {
				for j := 1; j < nt; j++ {
					t.deps = append(t.deps, fmt.Sprintf("t%d", j))
				}
			}
			s.tasks = append(s.tasks, t)
		}
		s.scripts = map[string][]phaseScript{}
		for i := 1; i <= nt; i++ {
			var ops []actOp
			for k := 1 + rng.Intn(2); k > 0; k-- {
				ops = append(ops, actOp{kind: 0, k: fmt.Sprintf("k%d_%d", i, k), v: fmt.Sprintf("t%d.run.0.%d", i, k)})
			}
			if i == nt {
				ops = append(ops, actOp{kind: 1, k: "k1_1"})
			}
			s.scripts[fmt.Sprintf("t%d/run", i)] = []phaseScript{{ops: ops}, {ops: ops}, {ops: ops}}
		}
		s.execWorkers = 3 + rng.Intn(2)
		s.retries, s.continues = 0, 0
		if rng.Chance(1, 3) {
			s.crashAt = []int{20 + rng.Intn(30)}
		}
	case "succfault":
		// the write that records 'success' for a task with dependents fails: nothing downstream may start on the
		// strength of a success that was never recorded
		s.faultNth = 1 + rng.Intn(2)
		s.faultMatch = ":success"
		s.faultMode = "fail"
		for k := range s.scripts {
			l := s.scripts[k]
			for a := range l {
				l[a].outcome = 0
			}
		}
	case "reassign":
		// two or three own instances of one DAG become 'scheduled' together; the instantiation of the first fails in
		// the store, which ends that watch round; the others then wait past the schedule timeout, the leader's
		// left-behind sweep returns them to init and dispatch gives them to another worker; the first worker's next
		// round must leave them alone
		s.twinSpecs = []map[string]string{{"v": "2"}}
		if rng.Chance(1, 2) {
			s.twinSpecs = append(s.twinSpecs, map[string]string{"v": "1"})
		}
		s.faultNth = 2 // the first instance of the round is started, the second one's instantiation fails
		s.faultMatch = []string{"BatchCreatTaskIns", "GetDag", "ListTaskInstance:ins="}[rng.Intn(2)]
		s.faultMode = "fail"
		s.reassign = true
		s.retries, s.continues = 0, 0
	case "cmdfault":
		// the write that re-arms a targeted task (UpdateTaskIns) fails once while a retry / continue command is executed
		s.retries = 1 + rng.Intn(2)
		s.continues = rng.Intn(2)
		for i := range s.tasks {
			if i == 0 || rng.Chance(1, 2) {
				s.scripts[s.tasks[i].id+"/run"][0].outcome = 1
			}
		}
		s.faultNth = 1 + rng.Intn(2)
		s.faultMatch = "UpdateTaskIns"
		s.faultMode = "fail"
	case "lateexit":
		// two independent tasks fail on their first attempt; the executor workers that ran them are held in the
		// TaskCompleted notification at the very end of workerDo while t1 is retried and its new attempt is parked
		// at the start of its before-hook (registered, 'running' not yet stored); the held workers are then let go
		// and t2 is retried: the re-initialisation pushes t1 a second time
		s.tasks = s.tasks[:0]
		s.tasks = append(s.tasks, taskSpec{id: "t1", action: "AF"}, taskSpec{id: "t2", action: "A"})
		if rng.Chance(1, 2) {
			s.tasks = append(s.tasks, taskSpec{id: "t3", action: "A", deps: []string{"t1", "t2"}})
		}
		s.scripts = map[string][]phaseScript{"t1/run": {{outcome: 1}, {}, {}}, "t2/run": {{outcome: 1}, {}, {}}}
		s.execWorkers = 3 + rng.Intn(2)
		s.parserWorkers = 1
		s.retries, s.continues = 0, 0
		s.lateExit = true
	case "staleev", "window", "cmdcrash":
		// two own instances of a one-or-two-task DAG, one parser worker; the first task fails on its first attempt.
		// staleev: the parser worker is held on the verdict patch of one instance while the other instance's failed
		// task is retried - its completion event is handled only after the command re-initialised the instance.
		// window: the failed run is held after its status write was applied and before it is de-registered.
		s.tasks = s.tasks[:0]
		s.tasks = append(s.tasks, taskSpec{id: "t1", action: "A"})
		if rng.Chance(1, 2) {
			s.tasks = append(s.tasks, taskSpec{id: "t2", action: "A", deps: []string{"t1"}})
		}
		s.scripts = map[string][]phaseScript{"t1/run": {{outcome: 1}, {}, {}}}
		s.twinSpecs = []map[string]string{{"v": "2"}}
		s.execWorkers = 2
		s.parserWorkers = 1
		s.retries, s.continues = 0, 0
		s.staleEv = kind == "staleev"
		s.window = kind == "window"
		s.cmdCrash = kind == "cmdcrash"
		if s.cmdCrash {
			s.twinSpecs = nil
		}
	case "fault":
		s.faultNth = 1 + rng.Intn(6)
		s.faultMatch = []string{"PatchTaskIns", "PatchDagIns", "ListTaskInstance", "UpdateTaskIns", "PatchTaskIns"}[rng.Intn(5)]
		s.faultMode = "fail" // the engine properties quantify over failed writes; lost replies are exercised for the keeper (C08)
	default:
		if rng.Chance(1, 5) {
			s.cancelAt = 2 + rng.Intn(25)
		}
		if rng.Chance(1, 4) {
			s.badCmds = true
		}
	}
	s.desc = fmt.Sprintf("kind=%s n=%d shape=%d exec=%d parser=%d failBias=%d crash=%v cancel=%d close=%d fault=%s#%d/%s", kind, n, shape, s.execWorkers, s.parserWorkers, failBias, s.crashAt, s.cancelAt, s.closeAt, s.faultMatch, s.faultNth, s.faultMode)
	return s
}

func (s *Scenario) dag(id string) *entity.Dag {
	d := &entity.Dag{BaseInfo: entity.BaseInfo{ID: id}, Status: entity.DagStatusNormal, Vars: s.vars}
	for _, t := range s.tasks {
		d.Tasks = append(d.Tasks, entity.Task{ID: t.id, ActionName: t.action, DependOn: t.deps, TimeoutSecs: t.timeout, PreChecks: t.pre, Params: t.params})
	}
	return d
}

// ---------------------------------------------------------------- running a scenario

type runResult struct {
	journal sxList
	jtxt    []string
	hung    bool
	steps   int
	e       *Engine
}

func (e *Engine) dump(coll string) []bsonD { return e.w.Srv.Dump(coll) }

// allTasksWithStatus includes the tasks of foreign instances.
func (e *Engine) allTasksWithStatus(sts ...string) []string {
	var out []string
	for _, d := range e.dump("task_instance") {
		for _, s := range sts {
			if docStr(d, "status") == s {
				out = append(out, docStr(d, "_id"))
			}
		}
	}
	return out
}

// tasksWithStatus: tasks of the worker's own instances.
func (e *Engine) tasksWithStatus(sts ...string) []string {
	var out []string
	own := map[string]bool{}
	for _, d := range e.dump("dag_instance") {
		if docStr(d, "worker") == "worker-1" || docStr(d, "worker") == "" {
			own[docStr(d, "_id")] = true
		}
	}
	for _, d := range e.dump("task_instance") {
		if !own[docStr(d, "dagInsId")] {
			continue
		}
		for _, s := range sts {
			if docStr(d, "status") == s {
				out = append(out, docStr(d, "_id"))
			}
		}
	}
	return out
}

func (e *Engine) anyIns(pred func(d bsonD) bool) bool {
	for _, d := range e.dump("dag_instance") {
		if docStr(d, "worker") != "worker-1" && docStr(d, "worker") != "" {
			continue
		}
		if pred(d) {
			return true
		}
	}
	return false
}

func hasCmd(d bsonD) bool {
	v, ok := getField(d, "cmd")
	return ok && v != nil
}

func getField(d bsonD, k string) (interface{}, bool) {
	for _, e := range d {
		if e.Key == k {
			return e.Value, true
		}
	}
	return nil, false
}

// runScenario executes one scenario under the controlled scheduler and returns its journal.
func runScenario(w *World, rng *Rng, s *Scenario, maxSteps int) *runResult {
	w.Srv.Clear()
	e := newEngine(w, rng, s)
	e.registerActions()
	if s.faultNth > 0 {
		e.faults = append(e.faults, &faultSpec{match: s.faultMatch, nth: s.faultNth, mode: s.faultMode})
	}
	w.Srv.PreApply = nil
	if s.memFaultNth > 0 {
		e.memFaultNth = s.memFaultNth
		w.Srv.PreApply = func(op *memongo.Op) string {
			if op.Client == "store" && op.Cmd == "insert" && op.Coll == "task_instance" {
				e.mu.Lock()
				e.memFaultSeen++
				hit := e.memFaultSeen == e.memFaultNth
				e.mu.Unlock()
				if hit {
					return "fail"
				}
			}
			return ""
		}
	}
	kp := w.Keepers["worker-1"]
	mod.SetKeeper(kp)
	must(kp.VerifHeartBeat())
	// set-up on the scheduler goroutine: journaled, not gated
	must(e.js.CreateDag(s.dag("dag1")))
	ins, err := mod.GetCommander().RunDag("dag1", s.spec)
	must(err)
	if s.foreign {
		for i := 0; i < 3; i++ {
			fi, _ := mod.GetCommander().RunDag("dag1", nil)
			_ = fi
		}
	}
	for _, sp := range s.twinSpecs {
		_, err := mod.GetCommander().RunDag("dag1", sp)
		must(err)
	}
	must(mod.NewDefDispatcher().Do())
	var foreignBefore string
	if s.foreign {
		// instances owned by another worker, in every interesting state, with executable tasks and pending commands
		k := 0
		for _, d := range e.dump("dag_instance") {
			id := docStr(d, "_id")
			if id == ins.ID {
				continue
			}
			fi, err := e.js.GetDagInstance(id)
			must(err)
			fi.Worker = "worker-2"
			fi.Status = []entity.DagInstanceStatus{entity.DagInstanceStatusScheduled, entity.DagInstanceStatusRunning, entity.DagInstanceStatusFailed, entity.DagInstanceStatusBlocked}[k%4]
			var tis []*entity.TaskInstance
			if fi.Status != entity.DagInstanceStatusScheduled {
				st := []entity.TaskInstanceStatus{entity.TaskInstanceStatusInit, entity.TaskInstanceStatusFailed, entity.TaskInstanceStatusBlocked, entity.TaskInstanceStatusRetrying}[k%4]
				for _, t := range s.tasks {
					ti := entity.NewTaskInstance(id, entity.Task{ID: t.id, ActionName: t.action, DependOn: t.deps, TimeoutSecs: 30})
					ti.Status = st
					tis = append(tis, ti)
				}
				must(e.js.BatchCreatTaskIns(tis))
			}
			if k%2 == 1 && len(tis) > 0 {
				fi.Cmd = &entity.Command{Name: []entity.CommandName{entity.CommandNameRetry, entity.CommandNameContinue, entity.CommandNameCancel}[k%3], TargetTaskInsIDs: []string{tis[0].ID}}
			}
			must(e.js.UpdateDagIns(fi))
			k++
		}
		foreignBefore = foreignDump(e)
	}
	// scenario facts for the monitors: pre-checks per task, variables per instance
	for _, t := range s.tasks {
		e.log(L(I(26), I(e.nm.Id(t.id)), checksSx(t.pre, e.nm), I(t.timeout), strIds(t.deps, e.nm)), "S task "+t.id)
	}
	e.log(L(I(33), I(30)), "S default timeout 30s")
	if s.core {
		e.log(L(I(38)), "S core scenario")
	}
	if len(s.twinSpecs) > 0 {
		for _, t := range s.tasks {
			var pt interface{}
			if len(t.params) > 0 {
				pt = t.params
			}
			e.log(L(I(35), I(e.nm.Id(t.id)), treeSx(pt)), "S params "+t.id)
		}
	}
	for _, d := range e.dump("dag_instance") {
		vars := map[string]string{}
		if v, ok := getField(d, "vars"); ok {
			if vd, ok := v.(bsonD); ok {
				for _, kv := range vd {
					if inner, ok := kv.Value.(bsonD); ok {
						vars[kv.Key] = docStr(inner, "value")
					}
				}
			}
		}
		e.log(L(I(27), I(e.nm.Id(docStr(d, "_id"))), kvSx(vars, e.nm)), "S vars "+docStr(d, "_id"))
		if len(s.twinSpecs) > 0 {
			e.log(L(I(37), I(e.nm.Id(docStr(d, "_id"))), tokVarsSx(vars)), "S token vars "+docStr(d, "_id"))
		}
	}
	_ = ins
	e.startIncarnation(s.execWorkers, s.parserWorkers, 30*time.Second)
	e.settle()
	wd := mod.NewDefWatchDog(15 * time.Second)
	if s.leftBehind {
		ageBy := []int{10, 20, 20, 40}[rng.Intn(4)]
		w.Srv.Age(time.Duration(ageBy) * time.Second)
		e.log(L(I(22), I(ageBy)), fmt.Sprintf("T age %ds", ageBy))
		must(kp.VerifHeartBeat())
		e.spawn(4, "watchdog-leftbehind", func() string {
			if err := wd.VerifLeftBehindRound(); err != nil {
				return "err"
			}
			return "ok"
		})
		par := e.par
		e.spawn(1, "watchScheduled", func() string {
			if err := par.VerifWatchScheduled(); err != nil {
				return "err"
			}
			return "ok"
		})
		e.settle()
	}
	wdDone := false
	dirPhase := 0
	retried, postRetryCancel := false, false
	steps := 0
	closed := false
	cancelDone := false
	crashIdx := 0
	idleRounds := 0
	natural := false
	stuck := false
	beat := func() { must(kp.VerifHeartBeat()) }
	for steps < maxSteps {
		// scheduled plan actions
		if crashIdx < len(s.crashAt) && steps >= s.crashAt[crashIdx] {
			crashIdx++
			e.crash()
			must(kp.VerifHeartBeat())
			e.startIncarnation(s.execWorkers, s.parserWorkers, 30*time.Second)
			e.settle()
		}
		if s.closeAt >= 0 && steps >= s.closeAt && !closed {
			closed = true
			exe, par := e.exe, e.par
			e.spawn(8, "close", func() string {
				done := make(chan struct{})
				go func() { exe.Close(); par.Close(); close(done) }()
				<-done
				return "ok"
			})
			e.settle()
		}
		if s.wdAt >= 0 && steps >= s.wdAt && !wdDone && e.aliveRuns() > 0 {
			wdDone = true
			ageBy := s.wdAges[rng.Intn(len(s.wdAges))] // 12 / 20 s: nothing is overdue yet (timeouts are >= 20 s, grace 5 s)
			w.Srv.Age(time.Duration(ageBy) * time.Second)
			e.log(L(I(22), I(ageBy)), fmt.Sprintf("T age %ds", ageBy))
			must(kp.VerifHeartBeat())
			e.spawn(3, "watchdog-expired", func() string {
				if err := wd.VerifExpiredRound(); err != nil {
					return "err"
				}
				return "ok"
			})
			e.settle()
		}
		if s.cancelAt >= 0 && retried && !postRetryCancel && len(e.aliveTaskIns()) > 0 && !e.anyIns(hasCmd) && rng.Chance(1, 3) {
			// cancel a task that runs again after a retry command (its action may ignore the cancellation)
			postRetryCancel = true
			ids := []string{e.aliveTaskIns()[0]}
			beat()
			e.spawn(6, "cancel-after-retry", func() string {
				if err := mod.GetCommander().CancelTask(ids); err != nil {
					return "err"
				}
				return "ok"
			})
			e.settle()
			e.drive(6)
			if e.anyIns(hasCmd) {
				par := e.par
				e.spawn(2, "watchCmd", func() string {
					if err := par.VerifWatchCmd(); err != nil {
						return "err"
					}
					return "ok"
				})
				e.settle()
				e.drive(2)
			}
		}
		inRetryHook := false
		if s.cancelAt >= 0 && !cancelDone {
			for _, g := range e.blockedActs() {
				if strings.HasSuffix(g.desc, ":retry") {
					inRetryHook = rng.Chance(1, 2)
				}
			}
		}
		if s.cancelAt >= 0 && (steps >= s.cancelAt || stuck || inRetryHook) && !cancelDone {
			cancelDone = true
			if len(s.moreCancels) > 0 {
				// further cancel attempts later in the run (e.g. while a retried task is in its retry hook)
				s.cancelAt = steps + s.moreCancels[0]
				s.moreCancels = s.moreCancels[1:]
				cancelDone = false
			}
			stuck = false
			run := e.aliveTaskIns()
			if len(run) == 0 || rng.Chance(1, 5) {
				run = e.tasksWithStatus("running", "init", "ending")
			}
			if len(run) > 0 {
				ids := []string{run[rng.Intn(len(run))]}
				beat()
				e.spawn(6, "cancel", func() string {
					if err := mod.GetCommander().CancelTask(ids); err != nil {
						return "err"
					}
					return "ok"
				})
				e.settle()
				if inRetryHook || rng.Chance(1, 3) {
					// process the command at once, while the targeted phase is still parked
					e.drive(6)
					if e.anyIns(hasCmd) {
						par := e.par
						e.spawn(2, "watchCmd", func() string {
							if err := par.VerifWatchCmd(); err != nil {
								return "err"
							}
							return "ok"
						})
						e.settle()
						e.drive(2)
					}
				}
			}
		}
		if s.staleEv || s.window {
			dirPhase = e.directedRetryRace(s, dirPhase, kp)
		}
		if s.lateExit {
			dirPhase = e.directedLateExit(dirPhase, kp)
		}
		if s.dupPush && s.retries > 0 && !closed && !e.anyIns(hasCmd) {
			aboutToRun := false
			for _, g := range e.liveGates() {
				if g.kind == "store" && strings.HasPrefix(g.desc, "PatchTaskIns:") && strings.HasSuffix(g.desc, ":running") {
					aboutToRun = true
				}
			}
			if f := e.tasksWithStatus("failed"); len(f) > 0 && aboutToRun {
				s.retries--
				ids := f
				beat()
				e.spawn(6, "retry-duppush", func() string {
					if err := mod.GetCommander().RetryTask(ids); err != nil {
						return "err"
					}
					return "ok"
				})
				e.settle()
				e.drive(6)
				if e.anyIns(hasCmd) {
					par := e.par
					e.spawn(2, "watchCmd", func() string {
						if err := par.VerifWatchCmd(); err != nil {
							return "err"
						}
						return "ok"
					})
					e.settle()
					e.drive(2)
				}
			}
		}
		// (in the scope of the Engine model one commander call at a time: two overlapping calls both pass the
		// "no command pending" test and the second overwrites the first - monitor clause (11,6), other kinds)
		if s.watchMid && !closed && e.anyIns(hasCmd) && !e.callInFlight(2) && !e.callInFlight(6) && rng.Chance(1, 3) {
			par := e.par
			e.spawn(2, "watchCmd", func() string {
				if err := par.VerifWatchCmd(); err != nil {
					return "err"
				}
				return "ok"
			})
			e.settle()
		}
		if s.cmdMidFlight && s.retries > 0 && !closed && !e.anyIns(hasCmd) && (rng.Chance(1, 6) || s.watchMid) && !((s.core || s.watchMid) && e.callInFlight(6)) {
			if f := e.tasksWithStatus("failed", "canceled"); len(f) > 0 && len(e.tasksWithStatus("running", "ending")) > 0 {
				s.retries--
				ids := f
				beat()
				e.spawn(6, "retry-midflight", func() string {
					if err := mod.GetCommander().RetryTask(ids); err != nil {
						return "err"
					}
					return "ok"
				})
				e.settle()
			}
		}
		if e.step(nil) {
			steps++
			idleRounds = 0
			continue
		}
		// nothing parked
		if e.inFlight() > 0 {
			// a harness call is blocked on something that is not a gate (e.g. Close waiting)
			time.Sleep(2 * time.Millisecond)
			idleRounds++
			if idleRounds > 20 && e.aliveRuns() > 0 && s.cancelAt >= 0 && !cancelDone {
				stuck = true
				continue
			}
			if idleRounds > 300 {
				e.mu.Lock()
				e.hung = true
				e.mu.Unlock()
				busy, _ := census(e.mainGid)
				if closed {
					e.log(L(I(28)), "HUNG close: "+strings.Join(busy, " | "))
				} else {
					e.log(L(I(29)), "HUNG harness call (back-pressure behind a never-ending action?): "+strings.Join(busy, " | "))
				}
				if os.Getenv("FFH_DEBUG") != "" {
					buf := make([]byte, 1<<20)
					n := runtime.Stack(buf, true)
					for _, blk := range strings.Split(string(buf[:n]), "\n\n") {
						if strings.Contains(blk, "shiningrush/fastflow") || strings.Contains(blk, "main.(*") {
							fmt.Fprintln(os.Stderr, blk+"\n")
						}
					}
				}
				break
			}
			continue
		}
		e.markQuiescent()
		if closed {
			if !s.restartAfterClose {
				break
			}
			// the next start resumes the unfinished instances exactly as after a crash
			s.restartAfterClose = false
			s.closeAt = -1
			closed = false
			e.crash()
			must(kp.VerifHeartBeat())
			e.startIncarnation(s.execWorkers, s.parserWorkers, 30*time.Second)
			e.settle()
			continue
		}
		// decide what the environment does next
		switch {
		case s.reassign && dirPhase == 0 && e.anyIns(func(d bsonD) bool { return docStr(d, "status") == "scheduled" }) &&
			e.anyIns(func(d bsonD) bool { return docStr(d, "status") != "scheduled" && docStr(d, "status") != "init" }):
			// an interrupted watch round left instances 'scheduled' while an earlier one was started: they are left
			// behind past the schedule timeout, swept by the leader and dispatched to worker-2 (the only worker with a
			// fresh heartbeat at that moment); then worker-1 comes back and runs its next round
			dirPhase = 1
			if _, ok := w.Keepers["worker-2"]; !ok {
				w.AddKeeper("worker-2")
			}
			w.Srv.Age(40 * time.Second)
			e.log(L(I(22), I(40)), "T age 40s")
			must(w.Keepers["worker-2"].VerifHeartBeat())
			e.spawn(4, "watchdog-leftbehind", func() string {
				if err := wd.VerifLeftBehindRound(); err != nil {
					return "err"
				}
				return "ok"
			})
			e.settle()
			e.drive(4)
			mod.SetKeeper(w.Keepers["worker-2"])
			must(mod.NewDefDispatcher().Do())
			mod.SetKeeper(kp)
			must(kp.VerifHeartBeat())
			par := e.par
			e.spawn(1, "watchScheduled", func() string {
				if err := par.VerifWatchScheduled(); err != nil {
					return "err"
				}
				return "ok"
			})
		case e.anyIns(hasCmd):
			par := e.par
			e.spawn(2, "watchCmd", func() string {
				if err := par.VerifWatchCmd(); err != nil {
					return "err"
				}
				return "ok"
			})
		case e.anyIns(func(d bsonD) bool { return docStr(d, "status") == "scheduled" && docStr(d, "worker") == "worker-1" }) && idleRounds < 3:
			idleRounds++
			par := e.par
			e.spawn(1, "watchScheduled", func() string {
				if err := par.VerifWatchScheduled(); err != nil {
					return "err"
				}
				return "ok"
			})
		case e.aliveRuns() > 0 && s.cancelAt >= 0 && !cancelDone:
			s.cancelAt = 0 // a run waits for a cancellation: issue the command now
			continue
		case e.aliveRuns() > 0:
			// a scripted action that never returns keeps its run alive: nothing more can happen
			steps = maxSteps
		case len(e.tasksWithStatus("running")) > 0 && e.anyIns(func(d bsonD) bool { return docStr(d, "status") == "running" }):
			// a task recorded running with no live run (after a crash): only the watchdog helps
			w.Srv.Age(100 * time.Second)
			e.log(L(I(22), I(100)), "T age 100s")
			must(kp.VerifHeartBeat())
			e.spawn(3, "watchdog-expired", func() string {
				if err := wd.VerifExpiredRound(); err != nil {
					return "err"
				}
				return "ok"
			})
		case s.retries > 0 && len(e.tasksWithStatus("failed", "canceled")) > 0 && !e.anyIns(func(d bsonD) bool { return docStr(d, "status") == "running" }):
			s.retries--
			retried = true
			ids := e.tasksWithStatus("failed", "canceled")
			if s.badCmds && rng.Chance(1, 2) {
				ids = append(ids, e.tasksWithStatus("success")...)
			}
			if rng.Chance(1, 3) && len(ids) > 1 {
				ids = ids[:1]
			}
			beat()
			if s.foreign && rng.Chance(2, 3) {
				// a command written directly through the store (the commander refuses id lists that span
				// instances): the own instance's retry also names failed tasks of a foreign instance
				own := map[string]bool{}
				var ownIns string
				for _, d := range e.dump("dag_instance") {
					if docStr(d, "worker") == "worker-1" {
						ownIns = docStr(d, "_id")
					}
				}
				for _, d := range e.dump("task_instance") {
					if docStr(d, "dagInsId") == ownIns {
						own[docStr(d, "_id")] = true
					}
				}
				all := e.allTasksWithStatus("failed", "canceled")
				mixed := append([]string{}, ids...)
				for _, id := range all {
					if !own[id] {
						mixed = append(mixed, id)
					}
				}
				e.spawn(6, "retry-direct", func() string {
					if err := mod.GetStore().PatchDagIns(&entity.DagInstance{BaseInfo: entity.BaseInfo{ID: ownIns},
						Cmd: &entity.Command{Name: entity.CommandNameRetry, TargetTaskInsIDs: mixed}}); err != nil {
						return "err"
					}
					return "ok"
				})
				e.settle()
				continue
			}
			e.spawn(6, "retry", func() string {
				if err := mod.GetCommander().RetryTask(ids); err != nil {
					return "err"
				}
				return "ok"
			})
		case s.continues > 0 && len(e.tasksWithStatus("blocked")) > 0 && !e.anyIns(func(d bsonD) bool { return docStr(d, "status") == "running" }):
			s.continues--
			ids := e.tasksWithStatus("blocked")
			beat()
			e.spawn(6, "continue", func() string {
				if err := mod.GetCommander().ContinueTask(ids); err != nil {
					return "err"
				}
				return "ok"
			})
		case s.badCmds && rng.Chance(1, 2):
			s.badCmds = false
			all := e.tasksWithStatus("success", "skipped", "init")
			if len(all) > 0 {
				ids := []string{all[rng.Intn(len(all))]}
				which := rng.Intn(2)
				beat()
				e.spawn(6, "bad-cmd", func() string {
					var err error
					if which == 0 {
						err = mod.GetCommander().RetryTask(ids)
					} else {
						err = mod.GetCommander().ContinueTask(ids)
					}
					if err != nil {
						return "err"
					}
					return "ok"
				})
			}
		default:
			steps = maxSteps
			natural = true
		}
		e.settle()
		if e.hung {
			break
		}
	}
	e.settle()
	e.markQuiescent()
	if natural && !e.hung && len(e.liveGates()) == 0 && e.inFlight() == 0 && e.aliveRuns() == 0 {
		e.log(L(I(24)), "F final")
	}
	if s.foreign {
		if after := foreignDump(e); after != foreignBefore {
			e.foreignDiff = "before: " + foreignBefore + "\n after: " + after
		}
	}
	w.Srv.PreApply = nil
	// abandon whatever is still parked so that the next scenario starts clean
	e.crash()
	return &runResult{journal: e.journal, jtxt: e.jtxt, hung: e.hung, steps: steps, e: e}
}

// foreignDump renders every instance owned by another worker, and its tasks, without timestamps.
func foreignDump(e *Engine) string {
	var out []string
	foreign := map[string]bool{}
	for _, d := range e.dump("dag_instance") {
		if docStr(d, "worker") != "worker-1" {
			foreign[docStr(d, "_id")] = true
			out = append(out, fmt.Sprint(stripTimes(d)))
		}
	}
	for _, d := range e.dump("task_instance") {
		if foreign[docStr(d, "dagInsId")] {
			out = append(out, fmt.Sprint(stripTimes(d)))
		}
	}
	return strings.Join(out, " ; ")
}

func stripTimes(d bsonD) bsonD {
	var o bsonD
	for _, e := range d {
		if e.Key != "updatedAt" {
			o = append(o, e)
		}
	}
	return o
}

// aliveTaskIns: instance ids of the own tasks that have an action phase parked at a gate right now.
func (e *Engine) aliveTaskIns() []string {
	byTask := map[string]string{}
	own := map[string]bool{}
	for _, d := range e.dump("dag_instance") {
		if docStr(d, "worker") == "worker-1" {
			own[docStr(d, "_id")] = true
		}
	}
	for _, d := range e.dump("task_instance") {
		if own[docStr(d, "dagInsId")] {
			byTask[docStr(d, "taskId")] = docStr(d, "_id")
		}
	}
	var out []string
	for _, g := range e.blockedActs() {
		parts := strings.Split(g.desc, ":")
		if len(parts) >= 2 {
			if id, ok := byTask[parts[1]]; ok {
				out = append(out, id)
			}
		}
	}
	return out
}

// blockedActs lists parked action gates of the live incarnation (runs that are alive).
func (e *Engine) blockedActs() []*gate {
	var out []*gate
	for _, g := range e.liveGates() {
		if g.kind == "act" {
			out = append(out, g)
		}
	}
	return out
}

// runEngine: general exploration of the engine; one journal per scenario (family code 30).
func runEngine(cfg *runCfg) {
	meta := newMeta("engine", cfg.seed, cfg.tier)
	meta.Rule = "random DAGs (1-6 tasks: chains, fans, diamonds, random), scripted per-phase outcomes (ok/error/panic, share-data and trace calls), 1-4 executor workers, " +
		"every store call and action phase gated and released one at a time by a seeded scheduler; directed kinds: " + cfg.extra +
		"; non-trivial = at least one action phase ran; distinct = distinct journal"
	cw := newCaseWriter(cfg.out)
	defer cw.Close()
	w := newWorld()
	w.AddKeeper("worker-1")
	n := cfg.n
	if n == 0 {
		n = 120
		if cfg.tier == "thorough" {
			n = 3000
		}
	}
	kinds := strings.Split(cfg.extra, ",")
	if cfg.extra == "" {
		kinds = []string{"", "", "diamond", "precheck", "cancel", "cmdrace", "fault"}
	}
	for it := 0; it < n; it++ {
		if cfg.only >= 0 && it != cfg.only {
			continue
		}
		kind := kinds[it%len(kinds)]
		rng := newRng(cfg.seed*1000003 + int64(it))
		s := genScenario(rng, kind)
		res := runScenario(w, rng, s, 400)
		hdr := L(I(it), I(int(cfg.seed)))
		c := L(hdr, res.journal)
		cw.Comment(fmt.Sprintf("scenario %d seed %d kinds=%s :: replay: ffh engine -seed %d -x '%s' -n %d -only %d :: %s", it, cfg.seed, cfg.extra, cfg.seed, cfg.extra, n, it, s.desc))
		cw.Case(30, c)
		if os.Getenv("FFH_DEBUG") != "" {
			fmt.Fprintf(os.Stderr, "=== scenario %d %s\n%s\n", it, s.desc, strings.Join(res.jtxt, "\n"))
		}
		acts := 0
		for _, t := range res.jtxt {
			if strings.HasPrefix(t, "A start") {
				acts++
			}
		}
		meta.Count("kind", kind)
		meta.Count("events", bucket(len(res.journal)))
		meta.Count("steps", bucket(res.steps))
		meta.Count("hung", fmt.Sprint(res.hung))
		meta.Seen(strings.Join(res.jtxt, "\n"), acts > 0)
		if it < 3 {
			meta.Sample(s.desc + " :: " + strings.Join(res.jtxt, " ; "))
		}
		if res.hung && s.closeAt < 0 {
			meta.Violate("HARNESS", "not-quiescent", "scheduler could not reach quiescence: "+res.jtxt[len(res.jtxt)-1], s.desc)
		}
		if res.e.foreignDiff != "" {
			meta.Violate("C06", "foreign-modified", "an instance owned by another worker (or one of its tasks) changed: "+res.e.foreignDiff, s.desc)
		}
		if len(res.e.panicked) > 0 {
			meta.Violate("C03", "worker-panic", "a worker goroutine panicked: "+strings.Join(res.e.panicked, "; "), s.desc)
		}
	}
	meta.Cases = cw.N
	meta.Write(cfg.meta)
}

// directedRetryRace drives the two retry-command races (kinds staleev, window); it returns the next phase.
func (e *Engine) directedRetryRace(s *Scenario, phase int, kp interface{ VerifHeartBeat() error }) int {
	taskDocs := func() []bsonD { return e.dump("task_instance") }
	retry := func(id string) {
		must(kp.VerifHeartBeat())
		ids := []string{id}
		e.spawn(6, "retry-directed", func() string {
			if err := mod.GetCommander().RetryTask(ids); err != nil {
				return "err"
			}
			return "ok"
		})
		e.settle()
		e.drive(6)
		if e.anyIns(hasCmd) {
			par := e.par
			e.spawn(2, "watchCmd", func() string {
				if err := par.VerifWatchCmd(); err != nil {
					return "err"
				}
				return "ok"
			})
			e.settle()
			e.drive(2)
		}
	}
	switch phase {
	case 0:
		if s.window {
			// park the failing run of some task right after its 'failed' write was applied
			e.replyHold = func(desc string) bool {
				return strings.HasPrefix(desc, "PatchTaskIns:") && strings.HasSuffix(desc, ":failed") && e.dirTarget == ""
			}
			e.hold = func(g *gate) bool { return g.kind == "reply" }
			for _, g := range e.liveGates() {
				if g.kind == "reply" {
					e.dirTarget = strings.Split(g.desc, ":")[2]
					return 1
				}
			}
			return 0
		}
		// staleev: hold the parser worker on a verdict patch of one instance
		for _, g := range e.liveGates() {
			if g.kind == "store" && g.origin == 0 && strings.HasPrefix(g.desc, "PatchDagIns:") && strings.HasSuffix(g.desc, ":failed") {
				held := g.id
				e.dirHeldIns = strings.Split(g.desc, ":")[1]
				e.hold = func(x *gate) bool { return x.id == held }
				return 1
			}
		}
		return 0
	case 1:
		if s.window {
			retry(e.dirTarget)
			e.hold = nil // the held run goes on: de-registration, completion event
			return 3
		}
		// a failed task of another instance whose run is over: its completion event waits behind the held worker
		for _, d := range taskDocs() {
			if docStr(d, "status") == "failed" && docStr(d, "dagInsId") != e.dirHeldIns {
				alive := false
				for _, a := range e.aliveTaskIns() {
					if a == docStr(d, "_id") {
						alive = true
					}
				}
				if !alive {
					e.dirTarget = docStr(d, "_id")
					retry(e.dirTarget)
					return 2
				}
			}
		}
		return 1
	case 2:
		// the retried run goes on (retry hook, 'init' stored, second event queued); then the worker is let go
		for _, d := range taskDocs() {
			if docStr(d, "_id") == e.dirTarget && docStr(d, "status") == "init" {
				alive := false
				for _, a := range e.aliveTaskIns() {
					if a == e.dirTarget {
						alive = true
					}
				}
				if !alive {
					e.hold = nil
					return 3
				}
			}
		}
		return 2
	}
	return phase
}

// directedLateExit drives the schedule of kind lateexit; it returns the next phase.
func (e *Engine) directedLateExit(phase int, kp interface{ VerifHeartBeat() error }) int {
	retry := func(ids []string) {
		must(kp.VerifHeartBeat())
		e.spawn(6, "retry-lateexit", func() string {
			if err := mod.GetCommander().RetryTask(ids); err != nil {
				return "err"
			}
			return "ok"
		})
		e.settle()
		e.drive(6)
		if e.anyIns(hasCmd) {
			par := e.par
			e.spawn(2, "watchCmd", func() string {
				if err := par.VerifWatchCmd(); err != nil {
					return "err"
				}
				return "ok"
			})
			e.settle()
			e.drive(2)
		}
	}
	byTask := func(taskID, status string) string {
		for _, d := range e.dump("task_instance") {
			if docStr(d, "taskId") == taskID && docStr(d, "status") == status {
				return docStr(d, "_id")
			}
		}
		return ""
	}
	switch phase {
	case 0:
		e.hold = func(g *gate) bool { return g.kind == "event" }
		t1, t2 := byTask("t1", "failed"), byTask("t2", "failed")
		if t1 != "" && t2 != "" && len(e.aliveTaskIns()) == 0 {
			busy := false
			for _, g := range e.liveGates() {
				if g.kind != "event" {
					busy = true
				}
			}
			if !busy {
				e.dirTarget = t1
				retry([]string{t1})
				return 1
			}
		}
		return 0
	case 1:
		// the new attempt of t1 went through its retry hook, was pushed again as 'init' and is parked at the start
		// of its before-hook; keep it there, let the held workers return, then retry t2
		e.hold = func(g *gate) bool { return g.kind == "event" || g.desc == "act:t1:before" }
		if byTask("t1", "init") == e.dirTarget {
			for _, g := range e.liveGates() {
				if g.desc == "act:t1:before" {
					for _, x := range e.liveGates() {
						if x.kind == "event" {
							e.release(x)
						}
					}
					if t2 := byTask("t2", "failed"); t2 != "" {
						retry([]string{t2})
					}
					e.hold = nil
					return 2
				}
			}
		}
		return 1
	}
	return phase
}

// pathCount: number of root-to-task paths in the task tree (a task without dependencies hangs under the virtual root).
func pathCount(ts []taskSpec, i int) int {
	if len(ts[i].deps) == 0 {
		return 1
	}
	n := 0
	for _, d := range ts[i].deps {
		for j := range ts {
			if ts[j].id == d {
				n += pathCount(ts, j)
			}
		}
	}
	return n
}
