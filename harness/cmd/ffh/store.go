package main

import (
	"errors"
	"fmt"
	"os"
	"os/exec"
	"sort"
	"strconv"
	"strings"
	"time"

	"ffverif/memongo"

	"github.com/shiningrush/fastflow/keeper"
	"github.com/shiningrush/fastflow/pkg/entity"
	"github.com/shiningrush/fastflow/pkg/mod"
	"github.com/shiningrush/fastflow/pkg/utils/data"
	"github.com/shiningrush/fastflow/store"
	"go.mongodb.org/mongo-driver/bson/primitive"
)

func init() {
	families["store"] = runStore
	families["idgen"] = runIdGen
}

// ---------------------------------------------------------------- entity <-> sx

func tStatusCode(s entity.TaskInstanceStatus) int {
	if s == "" {
		return 0
	}
	if c, ok := taskStatusCode[string(s)]; ok {
		return c + 1
	}
	return 99
}

func iStatusCode(s entity.DagInstanceStatus) int {
	if s == "" {
		return 0
	}
	if c, ok := insStatusCode[string(s)]; ok {
		return c + 1
	}
	return 99
}

// valueSx encodes a parameter tree by value (so []interface{} and primitive.A, int and int32 coincide).
func valueSx(v interface{}, nm *Namer) Sx {
	switch x := v.(type) {
	case nil:
		return L(I(6))
	case string:
		return L(I(3), I(nm.Id(x)))
	case int:
		return L(I(4), I(x))
	case int32:
		return L(I(4), I(int(x)))
	case int64:
		return L(I(4), I(int(x)))
	case bool:
		return L(I(5), B(x))
	case map[string]interface{}:
		keys := make([]string, 0, len(x))
		for k := range x {
			keys = append(keys, k)
		}
		sort.Strings(keys)
		out := sxList{I(1)}
		for _, k := range keys {
			out = append(out, L(I(nm.Id(k)), valueSx(x[k], nm)))
		}
		return out
	case primitive.D:
		m := map[string]interface{}{}
		for _, e := range x {
			m[e.Key] = e.Value
		}
		return valueSx(m, nm)
	case primitive.M:
		return valueSx(map[string]interface{}(x), nm)
	case []interface{}:
		out := sxList{I(2)}
		for _, e := range x {
			out = append(out, valueSx(e, nm))
		}
		return out
	case primitive.A:
		return valueSx([]interface{}(x), nm)
	}
	return L(I(9), I(nm.Id(fmt.Sprintf("%T:%v", v, v))))
}

func strIds(ss []string, nm *Namer) Sx {
	out := make(sxList, len(ss))
	for i, s := range ss {
		out[i] = I(nm.Id(s))
	}
	return out
}

func preChecksSx(p entity.PreChecks, nm *Namer) Sx {
	keys := make([]string, 0, len(p))
	for k := range p {
		keys = append(keys, k)
	}
	sort.Strings(keys)
	out := sxList{}
	for _, k := range keys {
		c := p[k]
		cs := sxList{}
		if c != nil {
			for _, cd := range c.Conditions {
				cs = append(cs, L(I(nm.Id(string(cd.Source))), I(nm.Id(cd.Key)), strIds(cd.Values, nm), I(nm.Id(string(cd.Op)))))
			}
			out = append(out, L(I(nm.Id(k)), I(nm.Id(string(c.Act))), cs))
		}
	}
	return out
}

func taskSx(t *entity.TaskInstance, nm *Namer) Sx {
	var traces []int
	for _, tr := range t.Traces {
		traces = append(traces, nm.Id(tr.Message))
	}
	var params Sx = L(I(6))
	if t.Params != nil {
		params = valueSx(t.Params, nm)
	}
	rest := L(I(nm.Id(t.Name)), I(nm.Id(t.ActionName)), params, preChecksSx(t.PreChecks, nm))
	return L(I(nm.Id(t.ID)), I(nm.Id(t.DagInsID)), I(nm.Id(t.TaskID)), strIds(t.DependOn, nm), I(t.TimeoutSecs),
		I(tStatusCode(t.Status)), I(nm.Id(t.Reason)), Ints(traces), rest)
}

func cmdSx(c *entity.Command, nm *Namer) Sx {
	if c == nil {
		return L()
	}
	code, ok := map[string]int{entity.CommandNameRetry: 1, entity.CommandNameCancel: 2, entity.CommandNameContinue: 3}[string(c.Name)]
	if !ok {
		code = 100 + nm.Id(string(c.Name))
	}
	return L(I(code), strIds(c.TargetTaskInsIDs, nm))
}

func shareSx(s *entity.ShareData, nm *Namer) Sx {
	if s == nil {
		return L(I(0))
	}
	keys := make([]string, 0, len(s.Dict))
	for k := range s.Dict {
		keys = append(keys, k)
	}
	sort.Strings(keys)
	kv := sxList{}
	for _, k := range keys {
		kv = append(kv, L(I(nm.Id(k)), I(nm.Id(s.Dict[k]))))
	}
	return L(I(1), kv)
}

func insSx(d *entity.DagInstance, nm *Namer) Sx {
	keys := make([]string, 0, len(d.Vars))
	for k := range d.Vars {
		keys = append(keys, k)
	}
	sort.Strings(keys)
	vars := sxList{}
	for _, k := range keys {
		vars = append(vars, L(I(nm.Id(k)), I(nm.Id(d.Vars[k].Value))))
	}
	rest := L(I(nm.Id(d.DagID)), I(nm.Id(string(d.Trigger))), vars)
	return L(I(nm.Id(d.ID)), I(nm.Id(d.Worker)), I(iStatusCode(d.Status)), I(nm.Id(d.Reason)), cmdSx(d.Cmd, nm), shareSx(d.ShareData, nm), rest)
}

func errReplySx(err error) Sx {
	switch {
	case err == nil:
		return L(I(0))
	case errors.Is(err, data.ErrDataConflicted):
		return L(I(1))
	case errors.Is(err, data.ErrDataNotFound):
		return L(I(2))
	}
	return L(I(3))
}

// ---------------------------------------------------------------- generators

type storeGen struct {
	rng   *Rng
	nm    *Namer
	w     *World
	tids  []string
	iids  []string
	seq   int
	steps sxList
	meta  *Meta
}

func (g *storeGen) newID(prefix string) string {
	g.seq++
	return fmt.Sprintf("%s%d", prefix, g.seq)
}

func (g *storeGen) pickT() string {
	if len(g.tids) == 0 || g.rng.Chance(1, 8) {
		return g.newID("ghostT")
	}
	return g.tids[g.rng.Intn(len(g.tids))]
}

func (g *storeGen) pickI() string {
	if len(g.iids) == 0 || g.rng.Chance(1, 8) {
		return g.newID("ghostI")
	}
	return g.iids[g.rng.Intn(len(g.iids))]
}

func (g *storeGen) word() string {
	return []string{"", "a", "b", "x-1", "worker-1", "worker-2", "long reason text", "k"}[g.rng.Intn(8)]
}

func (g *storeGen) params(depth int) interface{} {
	switch g.rng.Intn(6) {
	case 0:
		return g.word() + "v"
	case 1:
		return g.rng.Intn(100)
	case 2:
		return g.rng.Chance(1, 2)
	case 3:
		if depth > 0 {
			m := map[string]interface{}{}
			for i := g.rng.Intn(3); i >= 0; i-- {
				m[fmt.Sprintf("k%d", i)] = g.params(depth - 1)
			}
			return m
		}
	case 4:
		if depth > 0 {
			var l []interface{}
			for i := g.rng.Intn(3); i >= 0; i-- {
				l = append(l, g.params(depth-1))
			}
			return l
		}
	}
	return "s"
}

func (g *storeGen) genTask(id string) *entity.TaskInstance {
	r := g.rng
	t := &entity.TaskInstance{BaseInfo: entity.BaseInfo{ID: id}, TaskID: "t" + fmt.Sprint(r.Intn(5)), DagInsID: g.pickI(),
		Name: g.word(), ActionName: g.word(), TimeoutSecs: []int{0, 1, 5, 30, 100}[r.Intn(5)], Reason: g.word()}
	t.Status = taskStatusName[r.Intn(10)]
	if r.Chance(1, 12) {
		t.Status = ""
	}
	for i := r.Intn(3); i > 0; i-- {
		t.DependOn = append(t.DependOn, "t"+fmt.Sprint(r.Intn(5)))
	}
	for i := r.Intn(3); i > 0; i-- {
		t.Traces = append(t.Traces, entity.TraceInfo{Time: int64(1 + r.Intn(5)), Message: "m" + fmt.Sprint(r.Intn(9))})
	}
	if r.Chance(2, 3) {
		m := map[string]interface{}{}
		for i := r.Intn(3); i >= 0; i-- {
			m[fmt.Sprintf("p%d", i)] = g.params(2)
		}
		t.Params = m
	}
	if r.Chance(1, 3) {
		t.PreChecks = entity.PreChecks{"c1": {Act: entity.ActiveActionSkip, Conditions: []entity.TaskCondition{
			{Source: entity.TaskConditionSourceVars, Key: "k", Values: []string{"a", "b"}, Op: entity.OperatorIn}}}}
	}
	return t
}

func (g *storeGen) genShare() *entity.ShareData {
	if g.rng.Chance(1, 3) {
		return nil
	}
	d := map[string]string{}
	for i := g.rng.Intn(3); i > 0; i-- {
		d[fmt.Sprintf("s%d", g.rng.Intn(4))] = g.word()
	}
	return &entity.ShareData{Dict: d}
}

func (g *storeGen) genCmd() *entity.Command {
	if g.rng.Chance(1, 2) {
		return nil
	}
	c := &entity.Command{Name: []entity.CommandName{entity.CommandNameRetry, entity.CommandNameCancel, entity.CommandNameContinue}[g.rng.Intn(3)]}
	for i := g.rng.Intn(3); i > 0; i-- {
		c.TargetTaskInsIDs = append(c.TargetTaskInsIDs, g.pickT())
	}
	return c
}

func (g *storeGen) genIns(id string) *entity.DagInstance {
	r := g.rng
	d := &entity.DagInstance{BaseInfo: entity.BaseInfo{ID: id}, DagID: "dag" + fmt.Sprint(r.Intn(3)), Trigger: entity.TriggerManually,
		Worker: []string{"", "worker-1", "worker-2", "worker-3"}[r.Intn(4)], Reason: g.word(), ShareData: g.genShare(), Cmd: g.genCmd()}
	d.Status = insStatusName[r.Intn(6)]
	if r.Chance(1, 3) {
		d.Vars = entity.DagInstanceVars{"v1": {Value: g.word()}, "v2": {Value: "z"}}
	}
	return d
}

// normShare: an instance stored with a non-nil ShareData reads back a non-nil one (possibly empty)
func copyTask(t *entity.TaskInstance) *entity.TaskInstance { c := *t; return &c }
func copyIns(d *entity.DagInstance) *entity.DagInstance    { c := *d; return &c }

func (g *storeGen) step(now int64, op Sx, reply Sx) {
	g.steps = append(g.steps, L(I(int(now)), op, reply))
}

// timeSafe reports whether no stored updatedAt is within 1s of the threshold.
func (g *storeGen) timeSafe(coll string, threshold func(d bsonD) int64) bool {
	for _, d := range g.w.Srv.Dump(coll) {
		u := docInt(d, "updatedAt")
		th := threshold(d)
		if u >= th-1 && u <= th+1 {
			return false
		}
	}
	return true
}

func failOnID(srv *memongo.Server, id string) func() {
	srv.PreApply = func(op *memongo.Op) string {
		if op.Client != "store" {
			return ""
		}
		if v, ok := memongo.Get(op.Filter, "_id"); ok && v == id {
			return "fail"
		}
		for _, d := range op.Docs {
			if v, ok := memongo.Get(d, "_id"); ok && v == id {
				return "fail"
			}
		}
		return ""
	}
	return func() { srv.PreApply = nil }
}

func runStore(cfg *runCfg) {
	rng := newRng(cfg.seed)
	meta := newMeta("store", cfg.seed, cfg.tier)
	meta.Rule = "random sequences (20-200 calls) of every Store method of the real store/mongo over memongo with random entities, every filter combination, " +
		"ghost ids, duplicate ids, single injected database failure inside each batch call, clock ageing; plus CheckWorkerKey on structured/near-miss/random strings; " +
		"non-trivial = sequence with >=1 write and >=1 read; distinct by full trace"
	cw := newCaseWriter(cfg.out)
	defer cw.Close()
	w := newWorld()
	w.AddKeeper("worker-1")
	st := w.Store
	nseq := cfg.n
	if nseq == 0 {
		nseq = 60
		if cfg.tier == "thorough" {
			nseq = 1200
		}
	}
	for it := 0; it < nseq; it++ {
		w.Srv.Clear()
		g := &storeGen{rng: rng, nm: newNamer(), w: w, meta: meta}
		nm := g.nm
		nops := 20 + rng.Intn(60)
		if rng.Chance(1, 6) {
			nops = 100 + rng.Intn(100)
		}
		writes, reads := 0, 0
		for k := 0; k < nops; k++ {
			now := time.Now().Unix()
			kind := rng.Pick([]int{8, 8, 4, 10, 10, 5, 5, 4, 3, 5, 5, 8, 8, 2, 2, 3})
			meta.Count("op", []string{"createTask", "createIns", "batchCreateTasks", "patchTask", "patchIns", "updateTask", "updateIns",
				"batchUpdateIns", "batchUpdateTasks", "getTask", "getIns", "listIns", "listTasks", "deleteTasks", "deleteInss", "age"}[kind])
			switch kind {
			case 0:
				id := g.newID("T")
				if rng.Chance(1, 6) && len(g.tids) > 0 {
					id = g.tids[rng.Intn(len(g.tids))]
				}
				t := g.genTask(id)
				op := L(I(1), taskSx(t, nm))
				err := st.CreateTaskIns(t)
				if err == nil {
					g.tids = append(g.tids, id)
				}
				g.step(now, op, errReplySx(err))
				writes++
			case 1:
				id := g.newID("I")
				if rng.Chance(1, 6) && len(g.iids) > 0 {
					id = g.iids[rng.Intn(len(g.iids))]
				}
				d := g.genIns(id)
				op := L(I(2), insSx(d, nm))
				err := st.CreateDagIns(d)
				if err == nil {
					g.iids = append(g.iids, id)
				}
				g.step(now, op, errReplySx(err))
				writes++
			case 2:
				var ts []*entity.TaskInstance
				var enc sxList
				for i := 1 + rng.Intn(4); i > 0; i-- {
					id := g.newID("T")
					if rng.Chance(1, 10) && len(g.tids) > 0 {
						id = g.tids[rng.Intn(len(g.tids))]
					}
					t := g.genTask(id)
					ts = append(ts, t)
					enc = append(enc, taskSx(t, nm))
				}
				var fail Sx = L()
				undo := func() {}
				if rng.Chance(1, 3) {
					fi := rng.Intn(len(ts))
					dup := false
					for j := 0; j < fi; j++ {
						if ts[j].ID == ts[fi].ID {
							dup = true
						}
					}
					if !dup {
						fail = L(I(fi))
						undo = failOnID(w.Srv, ts[fi].ID)
					}
				}
				err := st.BatchCreatTaskIns(ts)
				undo()
				for _, d := range w.Srv.Dump("task_instance") {
					id := docStr(d, "_id")
					known := false
					for _, x := range g.tids {
						if x == id {
							known = true
						}
					}
					if !known {
						g.tids = append(g.tids, id)
					}
				}
				g.step(now, L(I(3), enc, fail), errReplySx(err))
				writes++
			case 3:
				p := &entity.TaskInstance{BaseInfo: entity.BaseInfo{ID: g.pickT()}}
				if rng.Chance(1, 20) {
					p.ID = ""
				}
				if rng.Chance(2, 3) {
					p.Status = taskStatusName[rng.Intn(10)]
				}
				if rng.Chance(1, 2) {
					p.Reason = g.word()
				}
				var traces []int
				if rng.Chance(1, 3) {
					for i := 1 + rng.Intn(2); i > 0; i-- {
						m := "m" + fmt.Sprint(rng.Intn(9))
						p.Traces = append(p.Traces, entity.TraceInfo{Time: 1, Message: m})
						traces = append(traces, nm.Id(m))
					}
				}
				op := L(I(4), I(nm.Id(p.ID)), I(tStatusCode(p.Status)), I(nm.Id(p.Reason)), Ints(traces))
				err := st.PatchTaskIns(p)
				g.step(now, op, errReplySx(err))
				writes++
			case 4:
				p := &entity.DagInstance{BaseInfo: entity.BaseInfo{ID: g.pickI()}}
				if rng.Chance(1, 3) {
					p.ShareData = g.genShare()
				}
				if rng.Chance(1, 2) {
					p.Status = insStatusName[rng.Intn(6)]
				}
				if rng.Chance(1, 3) {
					p.Cmd = g.genCmd()
				}
				if rng.Chance(1, 3) {
					p.Worker = "worker-" + fmt.Sprint(1+rng.Intn(3))
				}
				if rng.Chance(1, 3) {
					p.Reason = g.word()
				}
				var musts []string
				mc, mr := rng.Chance(1, 3), rng.Chance(1, 3)
				if mc {
					musts = append(musts, "Cmd")
				}
				if mr {
					musts = append(musts, "Reason")
				}
				op := L(I(5), I(nm.Id(p.ID)), shareSx(p.ShareData, nm), I(iStatusCode(p.Status)), cmdSx(p.Cmd, nm), B(mc), I(nm.Id(p.Worker)), I(nm.Id(p.Reason)), B(mr))
				err := st.PatchDagIns(p, musts...)
				g.step(now, op, errReplySx(err))
				writes++
			case 5:
				t := g.genTask(g.pickT())
				op := L(I(6), taskSx(t, nm))
				err := st.UpdateTaskIns(t)
				g.step(now, op, errReplySx(err))
				writes++
			case 6:
				d := g.genIns(g.pickI())
				op := L(I(7), insSx(d, nm))
				err := st.UpdateDagIns(d)
				g.step(now, op, errReplySx(err))
				writes++
			case 7:
				var ds []*entity.DagInstance
				var enc sxList
				seen := map[string]bool{}
				for i := 1 + rng.Intn(4); i > 0; i-- {
					id := g.pickI()
					if seen[id] {
						continue
					}
					seen[id] = true
					d := g.genIns(id)
					ds = append(ds, d)
					enc = append(enc, insSx(d, nm))
				}
				var fail Sx = L()
				undo := func() {}
				injected := false
				if rng.Chance(1, 3) {
					fi := rng.Intn(len(ds))
					fail = L(I(fi))
					undo = failOnID(w.Srv, ds[fi].ID)
					injected = true
				}
				err := st.BatchUpdateDagIns(ds)
				undo()
				if injected && err == nil {
					meta.Violate("C19", "batch-error-swallowed:BatchUpdateDagIns", "a database failure inside BatchUpdateDagIns was not reported to the caller",
						"20 "+sxString(append(append(sxList{}, g.steps...), L(I(int(now)), L(I(8), enc, fail), errReplySx(err)))))
				}
				g.step(now, L(I(8), enc, fail), errReplySx(err))
				writes++
			case 8:
				var ts []*entity.TaskInstance
				var enc sxList
				for i := 1 + rng.Intn(4); i > 0; i-- {
					t := g.genTask(g.pickT())
					ts = append(ts, t)
					enc = append(enc, taskSx(t, nm))
				}
				var fail Sx = L()
				undo := func() {}
				if rng.Chance(1, 3) {
					fi := rng.Intn(len(ts))
					dup := false
					for j := 0; j < fi; j++ {
						if ts[j].ID == ts[fi].ID {
							dup = true
						}
					}
					if !dup {
						fail = L(I(fi))
						undo = failOnID(w.Srv, ts[fi].ID)
					}
				}
				err := st.BatchUpdateTaskIns(ts)
				undo()
				g.step(now, L(I(9), enc, fail), errReplySx(err))
				writes++
			case 9:
				id := g.pickT()
				t, err := st.GetTaskIns(id)
				rep := errReplySx(err)
				if err == nil {
					rep = L(I(4), taskSx(t, nm))
				}
				g.step(now, L(I(10), I(nm.Id(id))), rep)
				reads++
			case 10:
				id := g.pickI()
				d, err := st.GetDagInstance(id)
				rep := errReplySx(err)
				if err == nil {
					rep = L(I(5), insSx(d, nm))
				}
				g.step(now, L(I(11), I(nm.Id(id))), rep)
				reads++
			case 11:
				in := &mod.ListDagInstanceInput{}
				var sts []int
				if rng.Chance(1, 2) {
					in.Worker = "worker-" + fmt.Sprint(1+rng.Intn(3))
				}
				if rng.Chance(2, 3) {
					for i := 1 + rng.Intn(3); i > 0; i-- {
						s := insStatusName[rng.Intn(6)]
						in.Status = append(in.Status, s)
						sts = append(sts, iStatusCode(s))
					}
				}
				if rng.Chance(1, 3) {
					in.UpdatedEnd = now - int64(rng.Intn(40)) + 5
					ue := in.UpdatedEnd
					if !g.timeSafe("dag_instance", func(bsonD) int64 { return ue }) {
						in.UpdatedEnd = 0
					}
				}
				in.HasCmd = rng.Chance(1, 3)
				if rng.Chance(1, 4) {
					in.Limit = int64(1 + rng.Intn(4))
				}
				op := L(I(12), L(I(nm.Id(in.Worker)), Ints(sts), I(int(in.UpdatedEnd)), B(in.HasCmd), I(int(in.Limit))))
				res, err := st.ListDagInstance(in)
				rep := errReplySx(err)
				if err == nil {
					l := sxList{}
					for _, d := range res {
						l = append(l, insSx(d, nm))
					}
					rep = L(I(7), l)
				}
				g.step(now, op, rep)
				reads++
			case 12:
				in := &mod.ListTaskInstanceInput{}
				var ids, sts []int
				if rng.Chance(1, 3) {
					for i := 1 + rng.Intn(4); i > 0; i-- {
						id := g.pickT()
						in.IDs = append(in.IDs, id)
						ids = append(ids, nm.Id(id))
					}
				}
				if rng.Chance(1, 2) {
					in.DagInsID = g.pickI()
				}
				if rng.Chance(1, 2) {
					for i := 1 + rng.Intn(3); i > 0; i-- {
						s := taskStatusName[rng.Intn(10)]
						in.Status = append(in.Status, s)
						sts = append(sts, tStatusCode(s))
					}
				}
				if rng.Chance(1, 3) {
					n := now
					if g.timeSafe("task_instance", func(d bsonD) int64 { return n - 5 - docInt(d, "timeoutSecs") }) {
						in.Expired = true
					}
				}
				op := L(I(13), L(Ints(ids), I(nm.Id(in.DagInsID)), Ints(sts), B(in.Expired)))
				res, err := st.ListTaskInstance(in)
				rep := errReplySx(err)
				if err == nil {
					l := sxList{}
					for _, t := range res {
						l = append(l, taskSx(t, nm))
					}
					rep = L(I(6), l)
				}
				g.step(now, op, rep)
				reads++
			case 13:
				var ids []string
				var enc []int
				for i := 1 + rng.Intn(2); i > 0; i-- {
					id := g.pickT()
					ids = append(ids, id)
					enc = append(enc, nm.Id(id))
				}
				err := st.BatchDeleteTaskIns(ids)
				g.step(now, L(I(14), Ints(enc)), errReplySx(err))
			case 14:
				var ids []string
				var enc []int
				for i := 1 + rng.Intn(2); i > 0; i-- {
					id := g.pickI()
					ids = append(ids, id)
					enc = append(enc, nm.Id(id))
				}
				err := st.BatchDeleteDagIns(ids)
				g.step(now, L(I(15), Ints(enc)), errReplySx(err))
			case 15:
				d := []int{3, 7, 20, 40, 120}[rng.Intn(5)]
				w.Srv.Age(time.Duration(d) * time.Second)
				g.step(now, L(I(16), I(d)), L(I(0)))
			}
			if time.Now().Unix() != now {
				// the second ticked during the call: stored updatedAt may be now or now+1; thresholds
				// are only used when they are >1s away from every stored value, so this is harmless
				meta.Count("clock", "tick-during-call")
			}
		}
		cw.Case(20, g.steps)
		meta.Seen(fmt.Sprint(it, len(g.steps)), writes > 0 && reads > 0)
		meta.Count("trace-len", bucket(len(g.steps)))
		if it < 2 {
			meta.Sample(sxString(g.steps))
		}
	}
	// worker keys
	nk := 3000
	if cfg.tier == "thorough" {
		nk = 100000
	}
	for i := 0; i < nk; i++ {
		var s string
		switch rng.Intn(7) {
		case 0:
			s = fmt.Sprintf("%s-%d", []string{"worker", "w", "a-b", "x y", "节点", "-"}[rng.Intn(6)], rng.Intn(300))
		case 1:
			s = fmt.Sprintf("w-%s%d", strings.Repeat("0", rng.Intn(4)), []int{0, 1, 255, 256, 999, 1000}[rng.Intn(6)])
		case 2:
			s = []string{"", "-", "-1", "w-", "w--1", "w-1-", "w-1a", "w-a1", "w-+1", "w- 1", "w-1\n", "\n-1", "w\n-1", "w-1\n-2", "w-99999999999999999999", "w-0x1", "--0"}[rng.Intn(17)]
		default:
			n := rng.Intn(7)
			b := make([]byte, n)
			for j := range b {
				b[j] = "w-0123456789a\n -_"[rng.Intn(17)]
			}
			s = string(b)
		}
		num, err := keeper.CheckWorkerKey(s)
		obs := num
		if err != nil {
			obs = -1
		}
		bytes := make([]int, len(s))
		for j := 0; j < len(s); j++ {
			bytes[j] = int(s[j])
		}
		cw.Case(21, L(Ints(bytes), I(obs)))
		meta.Count("workerkey", map[bool]string{true: "accepted", false: "rejected"}[err == nil])
		// monitor (independent reference): name-N with N in 0..255
		ref := refWorkerKey(s)
		if ref != obs {
			meta.Violate("C19", "worker-key", fmt.Sprintf("CheckWorkerKey(%q) = %d, reference %d", s, obs, ref), "21 "+sxString(L(Ints(bytes), I(obs))))
		}
	}
	idUniqueness(meta, cw, []int{0, 1, 2, 7, 255}, 200)
	meta.Cases = cw.N
	meta.Write(cfg.meta)
}

func refWorkerKey(s string) int {
	i := strings.LastIndex(s, "-")
	if i <= 0 || i == len(s)-1 {
		return -1
	}
	if strings.Contains(s[:i], "\n") {
		return -1
	}
	for _, c := range s[i+1:] {
		if c < '0' || c > '9' {
			return -1
		}
	}
	n, err := strconv.Atoi(s[i+1:])
	if err != nil || n > 255 {
		return -1
	}
	return n
}

// runIdGen is used as a child process: prints n generated ids for a worker number.
func runIdGen(cfg *runCfg) {
	num, _ := strconv.Atoi(cfg.extra)
	store.InitFlakeGenerator(uint16(num))
	for i := 0; i < cfg.n; i++ {
		fmt.Println(store.NextStringID())
	}
}

// idUniqueness starts child processes with different worker numbers and checks their ids are disjoint.
func idUniqueness(meta *Meta, cw *CaseWriter, nums []int, per int) {
	seen := map[string]int{}
	for _, n := range nums {
		out, err := exec.Command(os.Args[0], "idgen", "-n", fmt.Sprint(per), "-x", fmt.Sprint(n)).Output()
		if err != nil {
			meta.Count("idgen", "child-failed")
			continue
		}
		for _, id := range strings.Fields(string(out)) {
			if prev, dup := seen[id]; dup {
				meta.Violate("C19", "duplicate-id", fmt.Sprintf("id %s generated by worker numbers %d and %d", id, prev, n), id)
			}
			seen[id] = n
			if v, err := strconv.ParseInt(id, 10, 64); err == nil {
				cw.Case(22, L(I(int(v)), I(n)))
			}
		}
	}
	meta.Extra["ids_checked"] = len(seen)
}

func asMap(v interface{}) (map[string]interface{}, bool) {
	switch x := v.(type) {
	case map[string]interface{}:
		return x, true
	case primitive.M:
		return map[string]interface{}(x), true
	case primitive.D:
		m := map[string]interface{}{}
		for _, e := range x {
			m[e.Key] = e.Value
		}
		return m, true
	}
	return nil, false
}

func asList(v interface{}) ([]interface{}, bool) {
	switch x := v.(type) {
	case []interface{}:
		return x, true
	case primitive.A:
		return []interface{}(x), true
	}
	return nil, false
}
