package main

import (
	"fmt"
	"regexp"
	"sort"
	"strconv"
	"time"

	"github.com/shiningrush/fastflow/pkg/entity"
	"github.com/shiningrush/fastflow/pkg/mod"
)

func init() { families["vars"] = runVars }

type nopExecutor struct{}

func (nopExecutor) Push(*entity.DagInstance, *entity.TaskInstance) {}
func (nopExecutor) CancelTaskIns([]string) error                   { return nil }

var tokRe = regexp.MustCompile(`\{\{x(?:-|\.| |ö)?(\d+)\}\}|V(\d+)!|L(\d+)\.`)

// varName: variable names are plain map keys; nothing restricts them to identifiers
func varName(i int) string {
	return fmt.Sprintf([]string{"x%d", "x-%d", "x.%d", "x %d", "xö%d"}[i%5], i)
}

// tokSx tokenises a string built from literals "L<n>.", placeholders "{{x<n>}}" and values "V<n>!".
func tokSx(s string) Sx {
	out := sxList{I(3)}
	pos := 0
	for _, m := range tokRe.FindAllStringSubmatchIndex(s, -1) {
		if m[0] != pos {
			out = append(out, L(I(0), I(-1))) // unexpected residue
		}
		pos = m[1]
		switch {
		case m[2] >= 0:
			n, _ := strconv.Atoi(s[m[2]:m[3]])
			out = append(out, L(I(1), I(n)))
		case m[4] >= 0:
			n, _ := strconv.Atoi(s[m[4]:m[5]])
			out = append(out, L(I(2), I(100+n)))
		default:
			n, _ := strconv.Atoi(s[m[6]:m[7]])
			out = append(out, L(I(0), I(n)))
		}
	}
	if pos != len(s) {
		out = append(out, L(I(0), I(-1)))
	}
	return out
}

var tokNameRe = regexp.MustCompile(`^x(?:-|\.| |ö)?(\d+)$`)
var tokValRe = regexp.MustCompile(`^V(\d+)!$`)

// tokVarsSx encodes instance variables in the token convention: ((name-number value-code) ...), sorted;
// variables outside the convention are left out.
func tokVarsSx(vars map[string]string) Sx {
	keys := make([]string, 0, len(vars))
	for k := range vars {
		keys = append(keys, k)
	}
	sort.Strings(keys)
	out := sxList{}
	for _, k := range keys {
		m := tokNameRe.FindStringSubmatch(k)
		v := tokValRe.FindStringSubmatch(vars[k])
		if m == nil || v == nil {
			continue
		}
		n, _ := strconv.Atoi(m[1])
		x, _ := strconv.Atoi(v[1])
		out = append(out, L(I(n), I(100+x)))
	}
	return out
}

// treeSx encodes a parameter tree by value with tokenised strings; map keys "p<n>" -> n.
func treeSx(v interface{}) Sx {
	switch x := v.(type) {
	case nil:
		return L(I(6))
	case string:
		return tokSx(x)
	case int:
		return L(I(4), I(x))
	case int32:
		return L(I(4), I(int(x)))
	case int64:
		return L(I(4), I(int(x)))
	case bool:
		return L(I(5), B(x))
	}
	if m, ok := asMap(v); ok {
		keys := make([]string, 0, len(m))
		for k := range m {
			keys = append(keys, k)
		}
		sort.Strings(keys)
		out := sxList{I(1)}
		for _, k := range keys {
			n, _ := strconv.Atoi(k[1:])
			out = append(out, L(I(n), treeSx(m[k])))
		}
		return out
	}
	if l, ok := asList(v); ok {
		out := sxList{I(2)}
		for _, e := range l {
			out = append(out, treeSx(e))
		}
		return out
	}
	return L(I(9))
}

func (g *storeGen) paramTree(depth int, nvars int) interface{} {
	r := g.rng
	switch r.Pick([]int{5, 2, 1, 1, 3, 3}) {
	case 0:
		s := ""
		for i := 1 + r.Intn(4); i > 0; i-- {
			switch r.Intn(4) {
			case 0:
				s += fmt.Sprintf("L%d.", r.Intn(9))
			case 1, 2:
				s += "{{" + varName(1+r.Intn(nvars+2)) + "}}" // the last two names are not declared
			default:
				s += fmt.Sprintf("L%d.", r.Intn(9))
			}
		}
		return s
	case 1:
		return r.Intn(100)
	case 2:
		return r.Chance(1, 2)
	case 3:
		return nil
	case 4:
		if depth > 0 {
			m := map[string]interface{}{}
			for i := 1 + r.Intn(3); i > 0; i-- {
				m[fmt.Sprintf("p%d", r.Intn(6))] = g.paramTree(depth-1, nvars)
			}
			return m
		}
	case 5:
		if depth > 0 {
			var l []interface{}
			for i := 1 + r.Intn(3); i > 0; i-- {
				l = append(l, g.paramTree(depth-1, nvars))
			}
			return l
		}
	}
	return "{{" + varName(1+r.Intn(nvars)) + "}}"
}

// runVars: C17.  Dag.Run + DagInstanceVars.Render in memory, after the DAG went through the store,
// and as stored in task_instance.params by the real scheduled-watch round.
func runVars(cfg *runCfg) {
	rng := newRng(cfg.seed)
	meta := newMeta("vars", cfg.seed, cfg.tier)
	meta.Rule = "parameter trees to depth 4 (maps, lists, strings of literal / {{declared}} / {{undeclared}} tokens, ints, bools, nil), 1-4 declared variables with defaults, " +
		"caller overrides (non-empty, empty, undeclared keys); three paths: in memory, DAG reloaded from the store, task_instance.params written by the real watch round; " +
		"non-trivial = a declared placeholder occurs below a list or nested map; distinct by full case"
	cw := newCaseWriter(cfg.out)
	defer cw.Close()
	w := newWorld()
	w.AddKeeper("worker-1")
	mod.SetKeeper(w.Keepers["worker-1"])
	mod.SetExecutor(nopExecutor{})
	mod.SetCommander(&mod.DefCommander{})
	n := 150
	if cfg.tier == "thorough" {
		n = 4000
	}
	for it := 0; it < n; it++ {
		w.Srv.Clear()
		g := &storeGen{rng: rng, nm: newNamer(), w: w, meta: meta}
		nv := 1 + rng.Intn(4)
		decl := entity.DagVars{}
		declSx := sxList{}
		for i := 1; i <= nv; i++ {
			d := fmt.Sprintf("V%d!", rng.Intn(9))
			decl[varName(i)] = entity.DagVar{DefaultValue: d}
		}
		names := []int{}
		for i := 1; i <= nv; i++ {
			names = append(names, i)
		}
		valCode := func(s string) int {
			if s == "" {
				return 0
			}
			n, _ := strconv.Atoi(s[1 : len(s)-1])
			return 100 + n
		}
		for _, i := range names {
			declSx = append(declSx, L(I(i), I(valCode(decl[varName(i)].DefaultValue))))
		}
		spec := map[string]string{}
		specSx := sxList{}
		for i := 1; i <= nv+2; i++ {
			if rng.Chance(1, 3) {
				v := fmt.Sprintf("V%d!", 10+rng.Intn(9))
				if rng.Chance(1, 4) {
					v = ""
				}
				spec[varName(i)] = v
				specSx = append(specSx, L(I(i), I(valCode(v))))
			}
		}
		params := map[string]interface{}{}
		for i := 1 + rng.Intn(3); i > 0; i-- {
			params[fmt.Sprintf("p%d", rng.Intn(6))] = g.paramTree(3, nv)
		}
		paramsSx := treeSx(params)
		dag := &entity.Dag{BaseInfo: entity.BaseInfo{ID: fmt.Sprintf("d%d", it)}, Status: entity.DagStatusNormal, Vars: decl,
			Tasks: []entity.Task{{ID: "t1", ActionName: "A", Params: params}}}
		must(w.Store.CreateDag(dag))
		// value codes in the tree: TVal carries 100+n, matching the variable value codes
		emit := func(path int, vars entity.DagInstanceVars, rendered interface{}) {
			vs := sxList{}
			for _, i := range names {
				vs = append(vs, L(I(i), I(valCode(vars[varName(i)].Value))))
			}
			c := L(declSx, specSx, vs, paramsSx, treeSx(rendered))
			cw.Case(50, c)
			meta.Count("path", []string{"memory", "store", "watch-round"}[path])
			meta.Seen(sxString(c), true)
			if it < 2 {
				meta.Sample(sxString(c))
			}
		}
		// (a) in memory: a deep copy of the definition
		memDag := &entity.Dag{BaseInfo: dag.BaseInfo, Status: dag.Status, Vars: decl, Tasks: []entity.Task{{ID: "t1", ActionName: "A", Params: deepCopy(params).(map[string]interface{})}}}
		ins, err := memDag.Run(entity.TriggerManually, spec)
		must(err)
		r1, err := ins.Vars.Render(memDag.Tasks[0].Params)
		must(err)
		emit(0, ins.Vars, r1)
		// (b) the definition reloaded from the store
		sd, err := w.Store.GetDag(dag.ID)
		must(err)
		ins2, err := sd.Run(entity.TriggerManually, spec)
		must(err)
		r2, err := ins2.Vars.Render(sd.Tasks[0].Params)
		must(err)
		emit(1, ins2.Vars, r2)
		// (c) the real path: RunDag, dispatch, scheduled-watch round, stored task parameters
		must(w.Keepers["worker-1"].VerifHeartBeat())
		mod.SetStore(w.Store)
		ins3, err := mod.GetCommander().RunDag(dag.ID, spec)
		must(err)
		must(mod.NewDefDispatcher().Do())
		par := mod.NewDefParser(1, 30*time.Second)
		mod.SetParser(par)
		must(par.VerifWatchScheduled())
		tis, err := w.Store.ListTaskInstance(&mod.ListTaskInstanceInput{DagInsID: ins3.ID})
		must(err)
		if len(tis) == 1 {
			si, _ := w.Store.GetDagInstance(ins3.ID)
			emit(2, si.Vars, map[string]interface{}(tis[0].Params))
		} else {
			meta.Violate("C17", "no-task-record", fmt.Sprintf("expected one task record, got %d", len(tis)), dag.ID)
		}
	}
	meta.Cases = cw.N
	meta.Write(cfg.meta)
}

func deepCopy(v interface{}) interface{} {
	switch x := v.(type) {
	case map[string]interface{}:
		m := map[string]interface{}{}
		for k, e := range x {
			m[k] = deepCopy(e)
		}
		return m
	case []interface{}:
		l := make([]interface{}, len(x))
		for i, e := range x {
			l[i] = deepCopy(e)
		}
		return l
	}
	return v
}
