package main

import (
	"errors"
	"fmt"
	"time"

	"github.com/shiningrush/fastflow/pkg/entity"
	"github.com/shiningrush/fastflow/pkg/mod"
	"github.com/shiningrush/fastflow/pkg/utils/data"
)

func init() { families["dispatch"] = runDispatch }

// runDispatch: C07.  Real DefDispatcher.Do + real keeper membership + real
// store against memongo; the model gets (instances before, alive list as the
// harness constructed it, error class, instances after).
func runDispatch(cfg *runCfg) {
	rng := newRng(cfg.seed)
	meta := newMeta("dispatch", cfg.seed, cfg.tier)
	meta.Rule = "random populations of dag instances (every status mix, 0..N pending, foreign workers), alive sets built by real heartbeats + ageing; " +
		"non-trivial = at least one pending instance; distinct = distinct (status vector, alive vector)"
	cw := newCaseWriter(cfg.out)
	defer cw.Close()
	w := newWorld()
	keys := []string{"w-1", "w-2", "w-3", "w-4", "w-5"}
	for _, k := range keys {
		w.AddKeeper(k)
	}
	mod.SetKeeper(w.Keepers["w-1"])
	n := cfg.n
	if n == 0 {
		n = 150
		if cfg.tier == "thorough" {
			n = 1500
		}
	}
	// directed rounds: (pending instances, alive workers); the per-round limit is 1000
	type dr struct{ size, alive int }
	directed := []dr{{101, 3}, {250, 3}, {1000, 3}, {1003, 4}, {130, 5}, {999, 2}}
	if cfg.tier == "thorough" {
		directed = append(directed, dr{1001, 5}, dr{2500, 3}, dr{700, 4}, dr{333, 2}, dr{1000, 1}, dr{1200, 5})
	}
	// one dispatcher object for all rounds, as in a running leader (Do is called on every tick): state kept
	// between rounds must not influence a round
	disp := mod.NewDefDispatcher()
	for it := 0; it < n; it++ {
		w.Srv.Clear()
		// population
		size := rng.Intn(12)
		if rng.Chance(1, 10) {
			size = 20 + rng.Intn(60)
		}
		pendingBias := rng.Intn(4)
		forceAlive := -1
		if it < len(directed) {
			size = directed[it].size
			forceAlive = directed[it].alive
			pendingBias = 4
		}
		for i := 0; i < size; i++ {
			st := rng.Intn(6)
			if pendingBias == 4 || pendingBias == 3 && rng.Chance(9, 10) || pendingBias == 2 && rng.Chance(1, 2) {
				st = 0
			}
			if pendingBias == 0 && st == 0 && rng.Chance(1, 2) {
				st = 1 + rng.Intn(5)
			}
			wk := ""
			if st != 0 || rng.Chance(1, 5) {
				wk = keys[rng.Intn(len(keys))]
			}
			di := &entity.DagInstance{DagID: "d", Status: insStatusName[st], Worker: wk, ShareData: &entity.ShareData{}}
			must(w.Store.CreateDagIns(di))
		}
		// alive set: beat a random ordered subset, age all, re-beat the alive ones
		order := rng.Perm(len(keys))
		nreg := rng.Intn(len(keys) + 1)
		if forceAlive >= 0 {
			nreg = forceAlive
		}
		var registered []string
		for _, i := range order[:nreg] {
			must(w.Keepers[keys[i]].VerifHeartBeat())
			registered = append(registered, keys[i])
		}
		w.Srv.Age(2*unhealthy + 3*time.Second)
		var alive []string
		for _, k := range registered {
			if forceAlive >= 0 || rng.Chance(2, 3) {
				must(w.Keepers[k].VerifHeartBeat())
				alive = append(alive, k)
			}
		}
		before := w.Srv.Dump("dag_instance")
		err := disp.Do()
		after := w.Srv.Dump("dag_instance")
		ec := 0
		if err != nil {
			ec = 2
			if errors.Is(err, data.ErrNoAliveNodes) {
				ec = 1
			}
		}
		nm := newNamer()
		enc := func(docs []bsonD) Sx {
			out := make(sxList, len(docs))
			for i, d := range docs {
				out[i] = L(I(nm.Id(docStr(d, "_id"))), I(insStatusCode[docStr(d, "status")]), I(nm.Id(docStr(d, "worker"))))
			}
			return out
		}
		b := enc(before)
		al := make([]int, len(alive))
		for i, k := range alive {
			al[i] = nm.Id(k)
		}
		c := L(I(1000), b, Ints(al), I(ec), enc(after))
		cw.Case(7, c)
		npend := 0
		key := ""
		for _, d := range before {
			s := docStr(d, "status")
			if s == "init" {
				npend++
			}
			key += s[:1]
		}
		key += fmt.Sprint("|", alive)
		meta.Seen(key, npend > 0)
		meta.Count("pending", bucket(npend))
		meta.Count("alive", fmt.Sprint(len(alive)))
		meta.Count("err", fmt.Sprint(ec))
		if size < 8 {
			meta.Sample(sxString(c))
		}
	}
	meta.Cases = cw.N
	meta.Write(cfg.meta)
}

func bucket(n int) string {
	switch {
	case n == 0:
		return "0"
	case n <= 3:
		return "1-3"
	case n <= 10:
		return "4-10"
	case n <= 100:
		return "11-100"
	case n <= 1000:
		return "101-1000"
	}
	return ">1000"
}
