package main

import (
	"fmt"
	"os"
	"strings"

	"github.com/shiningrush/fastflow/pkg/entity"
	"github.com/shiningrush/fastflow/pkg/mod"
)

func init() {
	families["dagvalid"] = runDagValid
	families["tree"] = runTree
}

// gtask is a task of a generated graph: ids are small integers (0 never used).
type gtask struct {
	id   int
	deps []int
}

// reservedTask: the task (if any) that carries the id the task tree uses for its virtual root
var reservedTask = -1

// plainNames: task ids are bare decimal numbers ("1", "12", ...), so that different pairs of ids can concatenate to the same string
var plainNames = false

func tname(i int) string {
	if i == reservedTask {
		return "_virtual_root"
	}
	if plainNames {
		return fmt.Sprint(i)
	}
	return fmt.Sprintf("t%d", i)
}

func classifyBuildErr(err error) int {
	if err == nil {
		return 0
	}
	s := err.Error()
	switch {
	case strings.Contains(s, "task id is repeat"):
		return 1
	case strings.Contains(s, "does not find task"):
		return 2
	case strings.Contains(s, "here is no start nodes"):
		return 3
	case strings.Contains(s, "dag has cycle"):
		return 4
	}
	return 5
}

func graphSx(g []gtask, status []int) Sx {
	out := make(sxList, len(g))
	for i, t := range g {
		st := 0
		if status != nil {
			st = status[i]
		}
		out[i] = L(I(t.id), I(t.id), Ints(t.deps), I(st))
	}
	return out
}

// kahnAcyclic is an independent reference decision: ids unique, deps closed, acyclic, non-empty.
func kahnValid(g []gtask) bool {
	if len(g) == 0 {
		return false
	}
	idx := map[int]int{}
	for i, t := range g {
		if _, dup := idx[t.id]; dup {
			return false
		}
		idx[t.id] = i
	}
	indeg := make([]int, len(g))
	for i, t := range g {
		for _, d := range t.deps {
			if _, ok := idx[d]; !ok {
				return false
			}
			indeg[i]++
		}
	}
	done := 0
	removed := make([]bool, len(g))
	for progress := true; progress; {
		progress = false
		for i := range g {
			if !removed[i] && indeg[i] == 0 {
				removed[i] = true
				done++
				progress = true
				for j, t := range g {
					if removed[j] {
						continue
					}
					for _, d := range t.deps {
						if d == g[i].id {
							indeg[j]--
						}
					}
				}
			}
		}
	}
	return done == len(g)
}

// rootPaths bounds the work of the level-order check (it re-processes a node once
// per path from the root inside the visited part); returns false when above cap.
func pathsBelow(g []gtask, cap int) bool {
	idx := map[int]int{}
	for i, t := range g {
		idx[t.id] = i
	}
	memo := map[int]int{}
	onstack := map[int]bool{}
	var cnt func(i int) int
	cnt = func(i int) int {
		if v, ok := memo[i]; ok {
			return v
		}
		if onstack[i] {
			return 0
		}
		onstack[i] = true
		n := 0
		if len(g[i].deps) == 0 {
			n = 1
		}
		for _, d := range g[i].deps {
			if j, ok := idx[d]; ok {
				n += cnt(j)
				if n > cap {
					n = cap + 1
				}
			}
		}
		onstack[i] = false
		memo[i] = n
		return n
	}
	tot := 0
	for i := range g {
		tot += cnt(i)
		if tot > cap {
			return false
		}
	}
	return true
}

func dagOf(g []gtask, id string) *entity.Dag {
	d := &entity.Dag{BaseInfo: entity.BaseInfo{ID: id}, Status: entity.DagStatusNormal}
	for _, t := range g {
		var deps []string
		for _, x := range t.deps {
			deps = append(deps, tname(x))
		}
		d.Tasks = append(d.Tasks, entity.Task{ID: tname(t.id), ActionName: "A", DependOn: deps})
	}
	return d
}

// runDagValid: C16.  CreateDag / UpdateDag of the real store against memongo:
// accept/reject class versus the model, "nothing stored on rejection", and the
// independent Kahn reference as monitor (violations reported from here).
func runDagValid(cfg *runCfg) {
	rng := newRng(cfg.seed)
	meta := newMeta("dagvalid", cfg.seed, cfg.tier)
	cw := newCaseWriter(cfg.out)
	defer cw.Close()
	w := newWorld()
	w.AddKeeper("w-1")
	seq := 0
	nStoredOnReject, nAccepted, nRejected := 0, 0, 0
	var try func(g []gtask, viaUpdate bool, tag string)
	try = func(g []gtask, viaUpdate bool, tag string) {
		// the same task list again with one task named like the tree's virtual root ("_virtual_root"): the model's
		// verdict does not depend on names, the implementation's must not either
		if reservedTask < 0 && !plainNames && len(g) >= 10 {
			plainNames = true
			try(g, viaUpdate, "plain-names")
			plainNames = false
		}
		if reservedTask < 0 && !plainNames && len(g) > 0 && (len(g) <= 3 || rng.Chance(1, 3)) {
			reservedTask = g[rng.Intn(len(g))].id
			try(g, viaUpdate, "reserved-id")
			reservedTask = -1
		}
		seq++
		id := fmt.Sprintf("dag%d", seq)
		dag := dagOf(g, id)
		// the input in hand, for the orchestrator, should the implementation take the process down with it
		_ = os.WriteFile(cfg.out+".current", []byte(fmt.Sprintf("# CreateDag/UpdateDag (update=%v) of the task list below; task %d is named \"_virtual_root\" (-1: none); bare decimal ids: %v\n16 %s\n", viaUpdate, reservedTask, plainNames, sxString(L(graphSx(g, nil), I(-1))))), 0o644)
		var err error
		before := len(w.Srv.Dump("dag"))
		if viaUpdate {
			// UpdateDag needs an existing document: create a valid one first
			must(w.Store.CreateDag(dagOf([]gtask{{id: 1}}, id)))
			before = len(w.Srv.Dump("dag"))
			old := w.Srv.Dump("dag")
			err = w.Store.UpdateDag(dag)
			if err != nil {
				now := w.Srv.Dump("dag")
				if fmt.Sprint(old) != fmt.Sprint(now) {
					nStoredOnReject++
					meta.Violate("C16", "stored-on-reject", "UpdateDag was rejected but the dag collection changed", sxString(graphSx(g, nil)))
				}
			}
		} else {
			err = w.Store.CreateDag(dag)
			after := len(w.Srv.Dump("dag"))
			if err != nil && after != before {
				nStoredOnReject++
				meta.Violate("C16", "stored-on-reject", "CreateDag was rejected but a document was stored", sxString(graphSx(g, nil)))
			}
			if err == nil && after != before+1 {
				meta.Violate("C16", "not-stored-on-accept", "CreateDag accepted but nothing stored", sxString(graphSx(g, nil)))
			}
		}
		cls := classifyBuildErr(err)
		c := L(graphSx(g, nil), I(cls))
		cw.Case(16, c)
		valid := kahnValid(g)
		if valid != (cls == 0) {
			sig := "accepts-invalid"
			if valid {
				sig = "rejects-valid"
			}
			meta.Violate("C16", sig, fmt.Sprintf("implementation class %d, reference (unique ids, closed deps, acyclic, non-empty) says valid=%v", cls, valid), "16 "+sxString(c))
		}
		if cls == 0 {
			nAccepted++
		} else {
			nRejected++
		}
		meta.Count("class", fmt.Sprint(cls))
		meta.Count("via", map[bool]string{false: "create", true: "update"}[viaUpdate])
		meta.Count("kind", tag)
		meta.Seen(sxString(c), len(g) > 1)
		if len(g) >= 3 && seq%97 == 0 {
			meta.Sample(sxString(c))
		}
		if seq%500 == 0 {
			w.Srv.Clear()
		}
	}
	// exhaustive: every graph on n ids, every dependency relation incl. self loops
	exh := func(n int, sampleEvery int) {
		total := 1 << uint(n*n)
		for m := 0; m < total; m++ {
			if sampleEvery > 1 && rng.Intn(sampleEvery) != 0 {
				continue
			}
			g := make([]gtask, n)
			for i := 0; i < n; i++ {
				g[i].id = i + 1
				for j := 0; j < n; j++ {
					if m&(1<<uint(i*n+j)) != 0 {
						g[i].deps = append(g[i].deps, j+1)
					}
				}
			}
			try(g, false, fmt.Sprintf("exhaustive-n%d", n))
		}
	}
	try(nil, false, "empty")
	exh(1, 1)
	exh(2, 1)
	exh(3, 1)
	if cfg.tier == "thorough" {
		exh(4, 1)
		meta.Exhaustive = true
	} else {
		exh(4, 24)
	}
	meta.Rule = "every task list over <=3 ids with every dependency relation incl. self-loops (exhaustive; n=4: exhaustive in thorough, 1/24 sample in quick), " +
		"plus duplicated ids, dangling deps, repeated deps, shuffled order and random graphs to 30 nodes, via CreateDag and UpdateDag; non-trivial = more than one task; distinct = distinct (graph, class)"
	// structured random graphs
	nr := 400
	if cfg.tier == "thorough" {
		nr = 10000
	}
	for it := 0; it < nr; it++ {
		n := 2 + rng.Intn(8)
		if rng.Chance(1, 4) {
			n = 10 + rng.Intn(21)
		}
		g := make([]gtask, n)
		perm := rng.Perm(n)
		for i := 0; i < n; i++ {
			g[i].id = perm[i] + 1
		}
		// layered DAG edges by id order, fan-in <= 3
		for i := range g {
			k := rng.Intn(4)
			for e := 0; e < k; e++ {
				if g[i].id > 1 {
					d := 1 + rng.Intn(g[i].id-1)
					g[i].deps = append(g[i].deps, d)
				}
			}
		}
		kind := "dag"
		switch rng.Intn(8) {
		case 0: // back edge -> cycle somewhere
			i := rng.Intn(n)
			g[i].deps = append(g[i].deps, g[i].id+rng.Intn(n-g[i].id+1))
			kind = "back-edge"
		case 1: // rootless cycle component next to a valid part
			a, b := n+1, n+2
			g = append(g, gtask{id: a, deps: []int{b}}, gtask{id: b, deps: []int{a}})
			kind = "rootless-cycle"
		case 2: // duplicate id
			g = append(g, gtask{id: g[rng.Intn(n)].id})
			kind = "dup"
		case 3: // dangling
			i := rng.Intn(n)
			g[i].deps = append(g[i].deps, n+5)
			kind = "dangling"
		case 4: // cycle hanging below a valid node
			a, b := n+1, n+2
			g = append(g, gtask{id: a, deps: []int{g[rng.Intn(n)].id, b}}, gtask{id: b, deps: []int{a}})
			kind = "hanging-cycle"
		}
		if !pathsBelow(g, 5000) {
			meta.Count("skipped", "too-many-paths")
			continue
		}
		try(g, rng.Chance(1, 5), kind)
	}
	meta.Cases = cw.N
	meta.Extra["accepted"] = nAccepted
	meta.Extra["rejected"] = nRejected
	meta.Extra["stored_on_reject"] = nStoredOnReject
	os.Remove(cfg.out + ".current")
	meta.Write(cfg.meta)
}

// ---------------------------------------------------------------- tree functions

func taskInsOf(g []gtask, status []int) []*entity.TaskInstance {
	var out []*entity.TaskInstance
	for i, t := range g {
		var deps []string
		for _, x := range t.deps {
			deps = append(deps, tname(x))
		}
		out = append(out, &entity.TaskInstance{BaseInfo: entity.BaseInfo{ID: fmt.Sprintf("i%d", t.id)}, TaskID: tname(t.id),
			DependOn: deps, Status: taskStatusName[status[i]]})
	}
	return out
}

func idOfIns(s string) int {
	var n int
	fmt.Sscanf(s, "i%d", &n)
	return n
}

var treeStatusCode = map[mod.TreeStatus]int{mod.TreeStatusRunning: 0, mod.TreeStatusSuccess: 1, mod.TreeStatusFailed: 2, mod.TreeStatusBlocked: 3}

// allDags enumerates every acyclic dependency relation on ids 1..n where deps go to smaller ids
// (every DAG up to relabelling), n >= 1.
func allDags(n int, f func(g []gtask)) {
	slots := n * (n - 1) / 2
	for m := 0; m < 1<<uint(slots); m++ {
		g := make([]gtask, n)
		b := 0
		for i := 0; i < n; i++ {
			g[i].id = i + 1
			for j := 0; j < i; j++ {
				if m&(1<<uint(b)) != 0 {
					g[i].deps = append(g[i].deps, j+1)
				}
				b++
			}
		}
		f(g)
	}
}

// runTree: ComputeStatus / GetExecutableTaskIds / GetNextTaskIds / cancelChildTasks' marking
// walk of the real pkg/mod tree against the model (families 17, 18, 19).
func runTree(cfg *runCfg) {
	rng := newRng(cfg.seed)
	meta := newMeta("tree", cfg.seed, cfg.tier)
	cw := newCaseWriter(cfg.out)
	defer cw.Close()
	one := func(g []gtask, status []int, tag string) {
		tis := taskInsOf(g, status)
		root, err := mod.BuildRootNode(mod.MapTaskInsToGetter(tis))
		if err != nil {
			return
		}
		sts, src := root.ComputeStatus()
		var ex []int
		for _, id := range root.GetExecutableTaskIds() {
			ex = append(ex, idOfIns(id))
		}
		c := L(graphSx(g, status), L(I(treeStatusCode[sts]), I(idOfIns(src))), Ints(ex))
		cw.Case(17, c)
		meta.Count("verdict", string(sts))
		meta.Count("kind", tag)
		meta.Seen(sxString(c), len(g) > 1)
		if cw.N%4001 == 0 {
			meta.Sample(sxString(c))
		}
		// C01-A monitor on the implementation: every executable id has all parents success/skipped
		stOf := map[int]int{}
		for i, t := range g {
			stOf[t.id] = status[i]
		}
		for _, e := range ex {
			for _, t := range g {
				if t.id == e {
					for _, d := range t.deps {
						if stOf[d] != 3 && stOf[d] != 9 {
							meta.Violate("C01", "executable-with-unfinished-parent", fmt.Sprintf("GetExecutableTaskIds returned %d whose dependency %d has status %d", e, d, stOf[d]), "17 "+sxString(c))
						}
					}
				}
			}
		}
	}
	next := func(g []gtask, status []int, target int, ns int) {
		tis := taskInsOf(g, status)
		root, err := mod.BuildRootNode(mod.MapTaskInsToGetter(tis))
		if err != nil {
			return
		}
		ids, found := root.GetNextTaskIds(&entity.TaskInstance{BaseInfo: entity.BaseInfo{ID: fmt.Sprintf("i%d", target)}, Status: taskStatusName[ns]})
		var out []int
		for _, id := range ids {
			out = append(out, idOfIns(id))
		}
		after := treeStatuses(root, g)
		c := L(graphSx(g, status), I(target), I(ns), B(found), Ints(out), Ints(after))
		cw.Case(18, c)
		meta.Count("next-found", fmt.Sprint(found))
		meta.Count("next-n", fmt.Sprint(len(out)))
		meta.Seen(sxString(c), found)
		if cw.N%4001 == 0 {
			meta.Sample(sxString(c))
		}
		stOf := map[int]int{}
		for i, t := range g {
			stOf[t.id] = after[i]
		}
		for _, e := range out {
			for _, t := range g {
				if t.id == e {
					for _, d := range t.deps {
						if stOf[d] != 3 && stOf[d] != 9 {
							meta.Violate("C01", "next-with-unfinished-parent", fmt.Sprintf("GetNextTaskIds returned %d whose dependency %d has status %d", e, d, stOf[d]), "18 "+sxString(c))
						}
					}
				}
			}
		}
	}
	// exhaustive small
	maxN := 3
	if cfg.tier == "thorough" {
		maxN = 4
		meta.Exhaustive = true
	}
	for n := 1; n <= maxN; n++ {
		allDags(n, func(g []gtask) {
			tot := 1
			for i := 0; i < n; i++ {
				tot *= 10
			}
			for m := 0; m < tot; m++ {
				st := make([]int, n)
				x := m
				for i := 0; i < n; i++ {
					st[i] = x % 10
					x /= 10
				}
				one(g, st, fmt.Sprintf("exhaustive-n%d", n))
				if n <= 3 {
					for tgt := 1; tgt <= n; tgt++ {
						next(g, st, tgt, (m+tgt)%10)
					}
				}
			}
		})
	}
	meta.Rule = "every DAG on <=3 nodes (<=4 in thorough) x every assignment of the 10 task statuses (exhaustive) for ComputeStatus/GetExecutableTaskIds, " +
		"GetNextTaskIds for every target on n<=3; plus random DAGs to 40 nodes with biased statuses, repeated deps, shuffled task order; " +
		"non-trivial = more than one node (static) / target found (next); distinct by full case"
	nr := 3000
	if cfg.tier == "thorough" {
		nr = 60000
	}
	for it := 0; it < nr; it++ {
		n := 2 + rng.Intn(7)
		if rng.Chance(1, 5) {
			n = 9 + rng.Intn(32)
		}
		g := make([]gtask, n)
		for i := range g {
			g[i].id = i + 1
			k := rng.Intn(4)
			if rng.Chance(1, 3) {
				k = 1
			}
			for e := 0; e < k && i > 0; e++ {
				g[i].deps = append(g[i].deps, 1+rng.Intn(i))
			}
		}
		if rng.Chance(1, 3) { // shuffle task order (children order follows task order)
			p := rng.Perm(n)
			g2 := make([]gtask, n)
			for i := range g {
				g2[p[i]] = g[i]
			}
			g = g2
		}
		if !pathsBelow(g, 3000) {
			continue
		}
		st := make([]int, n)
		bias := rng.Intn(4)
		for i := range st {
			switch {
			case bias == 0:
				st[i] = rng.Intn(10)
			case bias == 1: // mostly finished
				st[i] = []int{3, 3, 3, 9, 3, 0, 4, 7, 1, 2}[rng.Intn(10)]
			case bias == 2: // finished prefix then init
				if g[i].id <= n/2 {
					st[i] = []int{3, 9}[rng.Intn(2)]
				} else {
					st[i] = []int{0, 0, 0, 6, 8, 2, 1}[rng.Intn(7)]
				}
			default:
				st[i] = []int{3, 3, 9, 0, 0, 5, 4, 7}[rng.Intn(8)]
			}
		}
		one(g, st, "random")
		tgt := g[rng.Intn(n)].id
		next(g, st, tgt, []int{3, 3, 9, 0, 4, 5, 7, 3}[rng.Intn(8)])
	}
	meta.Cases = cw.N
	meta.Write(cfg.meta)
}

func treeStatuses(root *mod.TaskNode, g []gtask) []int {
	m := mod.VerifTreeStatuses(root)
	out := make([]int, len(g))
	for i, t := range g {
		s, ok := m[fmt.Sprintf("i%d", t.id)]
		if !ok {
			out[i] = -1
			continue
		}
		out[i] = taskStatusCode[string(s)]
	}
	return out
}
