package main

import (
	"fmt"

	"github.com/shiningrush/fastflow/pkg/entity"
)

func init() { families["sharedata"] = runShareData }

// runShareData: entity.ShareData.Set with scripted save results against the model (family 41).
func runShareData(cfg *runCfg) {
	rng := newRng(cfg.seed)
	meta := newMeta("sharedata", cfg.seed, cfg.tier)
	meta.Rule = "random sequences (1-12) of ShareData.Set on 1-4 keys with a save that fails at scripted positions (every position for short sequences), " +
		"initial dictionaries with 0-3 keys; non-trivial = at least one failed save on a key that already had a value; distinct by full case"
	cw := newCaseWriter(cfg.out)
	defer cw.Close()
	n := 1500
	if cfg.tier == "thorough" {
		n = 40000
	}
	for it := 0; it < n; it++ {
		nm := newNamer()
		init := map[string]string{}
		for i := rng.Intn(4); i > 0; i-- {
			init[fmt.Sprintf("k%d", rng.Intn(4))] = fmt.Sprintf("v%d", rng.Intn(5))
		}
		sd := &entity.ShareData{Dict: map[string]string{}}
		for k, v := range init {
			sd.Dict[k] = v
		}
		okNext := true
		sd.Save = func(d *entity.ShareData) error {
			if okNext {
				return nil
			}
			return fmt.Errorf("save failed")
		}
		initSx := kvSx(init, nm)
		ops := sxList{}
		nontrivial := false
		for i := 1 + rng.Intn(12); i > 0; i-- {
			k := fmt.Sprintf("k%d", rng.Intn(4))
			v := fmt.Sprintf("v%d", rng.Intn(5))
			okNext = !rng.Chance(1, 3)
			if _, had := sd.Dict[k]; had && !okNext {
				nontrivial = true
			}
			sd.Set(k, v)
			ops = append(ops, L(I(nm.Id(k)), I(nm.Id(v)), B(okNext)))
		}
		// final memory, sorted by key id
		final := map[int]int{}
		var ids []int
		for k, v := range sd.Dict {
			final[nm.Id(k)] = nm.Id(v)
			ids = append(ids, nm.Id(k))
		}
		for i := range ids {
			for j := i + 1; j < len(ids); j++ {
				if ids[j] < ids[i] {
					ids[i], ids[j] = ids[j], ids[i]
				}
			}
		}
		fin := sxList{}
		for _, id := range ids {
			fin = append(fin, L(I(id), I(final[id])))
		}
		// the initial dictionary must be sorted by id as well for the model's canonical form
		c := L(initSx, ops, fin)
		cw.Case(41, c)
		meta.Seen(sxString(c), nontrivial)
		meta.Count("ops", bucket(len(ops)))
		if it < 3 {
			meta.Sample(sxString(c))
		}
	}
	meta.Cases = cw.N
	meta.Write(cfg.meta)
}
