// Package memongo is an in-memory MongoDB wire server implementing exactly the
// fragment of the protocol and query language that fastflow's store/mongo and
// keeper/mongo packages use.  It is environment for the verification harness,
// not a model: every command is applied atomically under one mutex and gets a
// sequence number, requests can be held at gates before they are applied,
// faults can be injected, stored timestamps can be aged (virtual clock), TTL
// indexes are swept on demand and the state can be snapshotted / restored.
package memongo

import (
	"bytes"
	"encoding/binary"
	"fmt"
	"io"
	"net"
	"strings"
	"sync"
	"time"

	"go.mongodb.org/mongo-driver/bson"
	"go.mongodb.org/mongo-driver/bson/primitive"
)

// Op is one database command as seen by the server.
type Op struct {
	Seq    int
	Client string // name of the listener the request came in on
	Cmd    string // find | insert | update | delete | other
	Coll   string
	Filter bson.D
	Update bson.D // operator document or replacement
	Docs   []bson.D
	Upsert bool
	Limit  int64
	Multi  bool
	// outcome
	Fault     string   // "" | fail (not applied, error) | lost (applied, error returned)
	Found     []bson.D // find result (copies)
	N         int
	NModified int
	Upserted  bool
	Dup       bool
	Before    []bson.D // documents matched by an update/delete before the change
	After     []bson.D // documents after the change (update/insert)
}

// Server is the wire server.
type Server struct {
	mu     sync.Mutex
	lns    map[string]net.Listener
	conns  []net.Conn
	closed bool
	colls  map[string][]bson.D
	ttl    map[string]ttlSpec
	seq    int

	// PreApply is called (outside the state lock) before a command is applied;
	// it may block (gate).  It returns the fault to inject: "", "fail", "lost".
	PreApply func(op *Op) string
	// PostApply is called inside the state lock right after the command was
	// applied (so calls are totally ordered consistently with the state).
	PostApply func(op *Op)

	held       int32
	inProgress int32
	cmu        sync.Mutex
}

type ttlSpec struct {
	Field string
	Secs  int64
}

// New creates a server with no listeners.
func New() *Server {
	return &Server{lns: map[string]net.Listener{}, colls: map[string][]bson.D{}, ttl: map[string]ttlSpec{}}
}

// Listen opens a new port; requests arriving there are attributed to name.
func (s *Server) Listen(name string) string {
	ln, err := net.Listen("tcp", "127.0.0.1:0")
	if err != nil {
		panic(err)
	}
	s.cmu.Lock()
	s.lns[name] = ln
	s.cmu.Unlock()
	go func() {
		for {
			c, err := ln.Accept()
			if err != nil {
				return
			}
			s.cmu.Lock()
			if s.closed {
				s.cmu.Unlock()
				c.Close()
				return
			}
			s.conns = append(s.conns, c)
			s.cmu.Unlock()
			go s.serve(name, c)
		}
	}()
	return "mongodb://" + ln.Addr().String()
}

// Close closes all listeners and every accepted connection (clients that are never disconnected
// would otherwise keep their sockets for the life of the process).
func (s *Server) Close() {
	s.cmu.Lock()
	defer s.cmu.Unlock()
	s.closed = true
	for _, ln := range s.lns {
		ln.Close()
	}
	for _, c := range s.conns {
		// reset instead of an orderly shutdown: thousands of short-lived worlds would otherwise
		// exhaust the ephemeral ports with sockets in TIME_WAIT
		if tc, ok := c.(*net.TCPConn); ok {
			tc.SetLinger(0)
		}
		c.Close()
	}
	s.conns = nil
}

// Counts returns the number of requests currently held in PreApply and being applied.
func (s *Server) Counts() (held, inProgress int) {
	s.cmu.Lock()
	defer s.cmu.Unlock()
	return int(s.held), int(s.inProgress)
}

func hello() bson.D {
	return bson.D{{"ismaster", true}, {"maxBsonObjectSize", int32(16777216)}, {"maxMessageSizeBytes", int32(48000000)},
		{"maxWriteBatchSize", int32(100000)}, {"localTime", primitive.NewDateTimeFromTime(time.Now())},
		{"minWireVersion", int32(0)}, {"maxWireVersion", int32(9)}, {"readOnly", false}, {"ok", float64(1)}}
}

func (s *Server) serve(client string, c net.Conn) {
	defer c.Close()
	for {
		var hdr [16]byte
		if _, err := io.ReadFull(c, hdr[:]); err != nil {
			return
		}
		l := int(binary.LittleEndian.Uint32(hdr[0:4]))
		reqID := binary.LittleEndian.Uint32(hdr[4:8])
		opcode := binary.LittleEndian.Uint32(hdr[12:16])
		body := make([]byte, l-16)
		if _, err := io.ReadFull(c, body); err != nil {
			return
		}
		switch opcode {
		case 2004: // OP_QUERY (legacy handshake)
			doc, _ := bson.Marshal(hello())
			out := make([]byte, 36)
			binary.LittleEndian.PutUint32(out[0:], uint32(36+len(doc)))
			binary.LittleEndian.PutUint32(out[8:], reqID)
			binary.LittleEndian.PutUint32(out[12:], 1)
			binary.LittleEndian.PutUint32(out[16:], 8)
			binary.LittleEndian.PutUint32(out[32:], 1)
			c.Write(append(out, doc...))
		case 2013: // OP_MSG
			p := 4
			var cmd bson.D
			seqs := map[string][]bson.Raw{}
			for p < len(body) {
				kind := body[p]
				p++
				if kind == 0 {
					dl := int(binary.LittleEndian.Uint32(body[p:]))
					if err := bson.Unmarshal(body[p:p+dl], &cmd); err != nil {
						panic(err)
					}
					p += dl
				} else {
					sl := int(binary.LittleEndian.Uint32(body[p:]))
					end := p + sl
					q := p + 4
					st := q
					for body[q] != 0 {
						q++
					}
					name := string(body[st:q])
					q++
					for q < end {
						dl := int(binary.LittleEndian.Uint32(body[q:]))
						seqs[name] = append(seqs[name], bson.Raw(body[q:q+dl]))
						q += dl
					}
					p = end
				}
			}
			for name, docs := range seqs {
				arr := bson.A{}
				for _, r := range docs {
					var d bson.D
					bson.Unmarshal(r, &d)
					arr = append(arr, d)
				}
				cmd = append(cmd, bson.E{Key: name, Value: arr})
			}
			resp := s.handle(client, cmd)
			doc, err := bson.Marshal(resp)
			if err != nil {
				panic(err)
			}
			out := make([]byte, 21)
			binary.LittleEndian.PutUint32(out[0:], uint32(21+len(doc)))
			binary.LittleEndian.PutUint32(out[8:], reqID)
			binary.LittleEndian.PutUint32(out[12:], 2013)
			c.Write(append(out, doc...))
		}
	}
}

// Get returns the value of key k of d.
func Get(d bson.D, k string) (interface{}, bool) {
	for _, e := range d {
		if e.Key == k {
			return e.Value, true
		}
	}
	return nil, false
}

func set(d bson.D, k string, v interface{}) bson.D {
	for i := range d {
		if d[i].Key == k {
			d[i].Value = v
			return d
		}
	}
	return append(d, bson.E{Key: k, Value: v})
}

func copyDoc(d bson.D) bson.D {
	b, err := bson.Marshal(d)
	if err != nil {
		panic(err)
	}
	var out bson.D
	if err := bson.Unmarshal(b, &out); err != nil {
		panic(err)
	}
	return out
}

func copyDocs(ds []bson.D) []bson.D {
	out := make([]bson.D, len(ds))
	for i := range ds {
		out[i] = copyDoc(ds[i])
	}
	return out
}

func errReply(code int32, msg string) bson.D {
	return bson.D{{"ok", float64(0)}, {"errmsg", msg}, {"code", code}, {"codeName", "InjectedFault"}}
}

func (s *Server) handle(client string, cmd bson.D) bson.D {
	name := cmd[0].Key
	coll, _ := cmd[0].Value.(string)
	ok := bson.D{{"ok", float64(1)}}
	switch name {
	case "isMaster", "ismaster", "hello":
		return hello()
	case "ping", "endSessions", "killCursors":
		return ok
	case "createIndexes":
		idx, _ := Get(cmd, "indexes")
		s.mu.Lock()
		for _, iv := range idx.(bson.A) {
			i := iv.(bson.D)
			if e, has := Get(i, "expireAfterSeconds"); has {
				key, _ := Get(i, "key")
				kd := key.(bson.D)
				s.ttl[coll] = ttlSpec{Field: kd[0].Key, Secs: toInt(e)}
			}
		}
		s.mu.Unlock()
		return ok
	case "dropIndexes":
		s.mu.Lock()
		delete(s.ttl, coll)
		s.mu.Unlock()
		return ok
	case "getMore":
		return bson.D{{"cursor", bson.D{{"nextBatch", bson.A{}}, {"id", int64(0)}, {"ns", "db." + coll}}}, {"ok", float64(1)}}
	}
	op := &Op{Client: client, Cmd: name, Coll: coll}
	switch name {
	case "find":
		if f, has := Get(cmd, "filter"); has {
			op.Filter, _ = f.(bson.D)
		}
		if lv, has := Get(cmd, "limit"); has {
			op.Limit = toInt(lv)
		}
	case "insert":
		docs, _ := Get(cmd, "documents")
		for _, dv := range docs.(bson.A) {
			op.Docs = append(op.Docs, dv.(bson.D))
		}
	case "update":
		ups, _ := Get(cmd, "updates")
		arr := ups.(bson.A)
		if len(arr) != 1 {
			panic("memongo: multi-statement update not supported")
		}
		u := arr[0].(bson.D)
		qv, _ := Get(u, "q")
		op.Filter, _ = qv.(bson.D)
		uu, _ := Get(u, "u")
		op.Update, _ = uu.(bson.D)
		if v, has := Get(u, "upsert"); has {
			op.Upsert, _ = v.(bool)
		}
		if v, has := Get(u, "multi"); has {
			op.Multi, _ = v.(bool)
		}
	case "delete":
		dels, _ := Get(cmd, "deletes")
		arr := dels.(bson.A)
		if len(arr) != 1 {
			panic("memongo: multi-statement delete not supported")
		}
		del := arr[0].(bson.D)
		qv, _ := Get(del, "q")
		op.Filter, _ = qv.(bson.D)
		if v, has := Get(del, "limit"); has {
			op.Limit = toInt(v)
		}
	default:
		return bson.D{{"ok", float64(0)}, {"errmsg", "no such command: " + name}, {"code", int32(59)}}
	}

	if s.PreApply != nil {
		s.cmu.Lock()
		s.held++
		s.cmu.Unlock()
		op.Fault = s.PreApply(op)
		s.cmu.Lock()
		s.held--
		s.cmu.Unlock()
	}
	s.cmu.Lock()
	s.inProgress++
	s.cmu.Unlock()
	defer func() {
		s.cmu.Lock()
		s.inProgress--
		s.cmu.Unlock()
	}()

	s.mu.Lock()
	defer s.mu.Unlock()
	s.seq++
	op.Seq = s.seq
	var reply bson.D
	if op.Fault == "fail" {
		reply = errReply(96, "injected failure (not applied)")
	} else {
		reply = s.apply(op, cmd)
		if op.Fault == "lost" {
			reply = errReply(96, "injected failure (applied, reply lost)")
		}
	}
	if s.PostApply != nil {
		s.PostApply(op)
	}
	return reply
}

func (s *Server) apply(op *Op, cmd bson.D) bson.D {
	coll := op.Coll
	switch op.Cmd {
	case "find":
		batch := bson.A{}
		var proj bson.D
		if p, has := Get(cmd, "projection"); has {
			proj, _ = p.(bson.D)
		}
		for _, d := range s.colls[coll] {
			if Matches(d, op.Filter) {
				op.Found = append(op.Found, copyDoc(d))
				batch = append(batch, project(d, proj))
				if op.Limit > 0 && int64(len(batch)) >= op.Limit {
					break
				}
			}
		}
		op.N = len(batch)
		return bson.D{{"cursor", bson.D{{"firstBatch", batch}, {"id", int64(0)}, {"ns", "db." + coll}}}, {"ok", float64(1)}}
	case "insert":
		n := 0
		var werrs bson.A
		for i, d := range op.Docs {
			id, _ := Get(d, "_id")
			dup := false
			for _, e := range s.colls[coll] {
				eid, _ := Get(e, "_id")
				if CmpVal(eid, id) == 0 {
					dup = true
				}
			}
			if dup {
				op.Dup = true
				werrs = append(werrs, bson.D{{"index", int32(i)}, {"code", int32(11000)}, {"errmsg", "E11000 duplicate key error"}})
				break
			}
			s.colls[coll] = append(s.colls[coll], copyDoc(d))
			op.After = append(op.After, copyDoc(d))
			n++
		}
		op.N = n
		r := bson.D{{"n", int32(n)}}
		if werrs != nil {
			r = append(r, bson.E{Key: "writeErrors", Value: werrs})
		}
		return append(r, bson.E{Key: "ok", Value: float64(1)})
	case "update":
		n, nMod := 0, 0
		var upserted bson.A
		found := false
		for j, d := range s.colls[coll] {
			if Matches(d, op.Filter) {
				found = true
				n++
				nd := applyUpdate(d, op.Update)
				if !bsonEqual(nd, d) {
					nMod++
				}
				op.Before = append(op.Before, copyDoc(d))
				op.After = append(op.After, copyDoc(nd))
				s.colls[coll][j] = nd
				if !op.Multi {
					break
				}
			}
		}
		if !found && op.Upsert {
			nd := bson.D{}
			for _, e := range op.Filter {
				if _, isDoc := e.Value.(bson.D); !isDoc {
					nd = append(nd, e)
				}
			}
			nd = applyUpdate(nd, op.Update)
			s.colls[coll] = append(s.colls[coll], nd)
			id, _ := Get(nd, "_id")
			upserted = append(upserted, bson.D{{"index", int32(0)}, {"_id", id}})
			op.Upserted = true
			op.After = append(op.After, copyDoc(nd))
			n++
		}
		op.N, op.NModified = n, nMod
		r := bson.D{{"n", int32(n)}, {"nModified", int32(nMod)}}
		if upserted != nil {
			r = append(r, bson.E{Key: "upserted", Value: upserted})
		}
		return append(r, bson.E{Key: "ok", Value: float64(1)})
	case "delete":
		n := 0
		var keep []bson.D
		for _, d := range s.colls[coll] {
			if Matches(d, op.Filter) && (op.Limit == 0 || int64(n) < op.Limit) {
				n++
				op.Before = append(op.Before, copyDoc(d))
				continue
			}
			keep = append(keep, d)
		}
		s.colls[coll] = keep
		op.N = n
		return bson.D{{"n", int32(n)}, {"ok", float64(1)}}
	}
	panic("unreachable")
}

func project(d bson.D, proj bson.D) bson.D {
	if len(proj) == 0 {
		return d
	}
	out := bson.D{}
	for _, e := range d {
		if e.Key == "_id" {
			out = append(out, e)
			continue
		}
		if v, has := Get(proj, e.Key); has && toInt(v) != 0 {
			out = append(out, e)
		}
	}
	return out
}

func bsonEqual(a, b bson.D) bool {
	x, _ := bson.Marshal(a)
	y, _ := bson.Marshal(b)
	return bytes.Equal(x, y)
}

func applyUpdate(d bson.D, upd bson.D) bson.D {
	nd := append(bson.D{}, d...)
	if len(upd) > 0 && strings.HasPrefix(upd[0].Key, "$") {
		for _, op := range upd {
			if op.Key != "$set" {
				panic("memongo: unsupported update operator " + op.Key)
			}
			for _, e := range op.Value.(bson.D) {
				nd = set(nd, e.Key, e.Value)
			}
		}
		return nd
	}
	// replacement document: _id is kept
	id, _ := Get(d, "_id")
	out := bson.D{{Key: "_id", Value: id}}
	for _, e := range upd {
		if e.Key != "_id" {
			out = append(out, e)
		}
	}
	return out
}

func toInt(v interface{}) int64 {
	switch x := v.(type) {
	case int32:
		return int64(x)
	case int64:
		return x
	case float64:
		return int64(x)
	case primitive.DateTime:
		return int64(x)
	}
	return 0
}

// typeClass is the BSON comparison bracket of a value.
func typeClass(v interface{}) int {
	switch v.(type) {
	case nil, primitive.Null:
		return 1
	case int32, int64, float64:
		return 2
	case string:
		return 3
	case bson.D:
		return 4
	case bson.A:
		return 5
	case bool:
		return 8
	case primitive.DateTime:
		return 9
	}
	return 99
}

// CmpVal compares two BSON values (type bracket first, then value).
func CmpVal(a, b interface{}) int {
	ta, tb := typeClass(a), typeClass(b)
	if ta != tb {
		if ta < tb {
			return -1
		}
		return 1
	}
	switch ta {
	case 2:
		x, y := toF(a), toF(b)
		if x < y {
			return -1
		} else if x > y {
			return 1
		}
		return 0
	case 3:
		return strings.Compare(a.(string), b.(string))
	case 9:
		x, y := int64(a.(primitive.DateTime)), int64(b.(primitive.DateTime))
		if x < y {
			return -1
		} else if x > y {
			return 1
		}
		return 0
	case 8:
		if a.(bool) == b.(bool) {
			return 0
		}
		if !a.(bool) {
			return -1
		}
		return 1
	case 1:
		return 0
	}
	ba, _ := bson.Marshal(bson.D{{Key: "v", Value: a}})
	bb, _ := bson.Marshal(bson.D{{Key: "v", Value: b}})
	return bytes.Compare(ba, bb)
}

func toF(v interface{}) float64 {
	switch x := v.(type) {
	case int32:
		return float64(x)
	case int64:
		return float64(x)
	case float64:
		return x
	}
	return 0
}

func evalExpr(doc bson.D, e interface{}) interface{} {
	switch x := e.(type) {
	case string:
		if strings.HasPrefix(x, "$") {
			v, _ := Get(doc, x[1:])
			return v
		}
		return x
	case bson.D:
		op := x[0].Key
		args := x[0].Value.(bson.A)
		switch op {
		case "$subtract":
			a, b := evalExpr(doc, args[0]), evalExpr(doc, args[1])
			if a == nil || b == nil { // MongoDB: an arithmetic expression over a missing / null operand is null
				return nil
			}
			return toInt(a) - toInt(b)
		case "$lte":
			return CmpVal(evalExpr(doc, args[0]), evalExpr(doc, args[1])) <= 0
		case "$lt":
			return CmpVal(evalExpr(doc, args[0]), evalExpr(doc, args[1])) < 0
		case "$gte":
			return CmpVal(evalExpr(doc, args[0]), evalExpr(doc, args[1])) >= 0
		case "$gt":
			return CmpVal(evalExpr(doc, args[0]), evalExpr(doc, args[1])) > 0
		case "$add":
			a, b := evalExpr(doc, args[0]), evalExpr(doc, args[1])
			if a == nil || b == nil {
				return nil
			}
			return toInt(a) + toInt(b)
		}
		panic("memongo: unsupported expression " + op)
	}
	return e
}

// Matches evaluates a query filter on a document.
func Matches(doc bson.D, filter bson.D) bool {
	for _, f := range filter {
		if f.Key == "$expr" {
			if b, _ := evalExpr(doc, f.Value).(bool); !b {
				return false
			}
			continue
		}
		dv, present := Get(doc, f.Key)
		if cond, ok := f.Value.(bson.D); ok && len(cond) > 0 && strings.HasPrefix(cond[0].Key, "$") {
			for _, c := range cond {
				switch c.Key {
				case "$in":
					hit := false
					for _, x := range c.Value.(bson.A) {
						if present && CmpVal(dv, x) == 0 {
							hit = true
						}
						if !present && typeClass(x) == 1 {
							hit = true
						}
					}
					if !hit {
						return false
					}
				case "$nin":
					for _, x := range c.Value.(bson.A) {
						if present && CmpVal(dv, x) == 0 {
							return false
						}
					}
				case "$gt":
					if !present || typeClass(dv) != typeClass(c.Value) || CmpVal(dv, c.Value) <= 0 {
						return false
					}
				case "$gte":
					if !present || typeClass(dv) != typeClass(c.Value) || CmpVal(dv, c.Value) < 0 {
						return false
					}
				case "$lt":
					if !present || typeClass(dv) != typeClass(c.Value) || CmpVal(dv, c.Value) >= 0 {
						return false
					}
				case "$lte":
					if !present || typeClass(dv) != typeClass(c.Value) || CmpVal(dv, c.Value) > 0 {
						return false
					}
				case "$ne":
					if typeClass(c.Value) == 1 {
						if !present || typeClass(dv) == 1 {
							return false
						}
					} else if present && CmpVal(dv, c.Value) == 0 {
						return false
					}
				case "$eq":
					if !present || CmpVal(dv, c.Value) != 0 {
						return false
					}
				case "$exists":
					want, _ := c.Value.(bool)
					if present != want {
						return false
					}
				default:
					panic("memongo: unsupported query operator " + c.Key)
				}
			}
			continue
		}
		if !present {
			if typeClass(f.Value) == 1 {
				continue
			}
			return false
		}
		if arr, isArr := dv.(bson.A); isArr {
			if _, fArr := f.Value.(bson.A); !fArr {
				hit := false
				for _, x := range arr {
					if CmpVal(x, f.Value) == 0 {
						hit = true
					}
				}
				if !hit {
					return false
				}
				continue
			}
		}
		if CmpVal(dv, f.Value) != 0 {
			return false
		}
	}
	return true
}

// ---------------------------------------------------------------- control plane

// Dump returns copies of all documents of a collection in natural order.
func (s *Server) Dump(coll string) []bson.D {
	s.mu.Lock()
	defer s.mu.Unlock()
	return copyDocs(s.colls[coll])
}

// Put appends a document directly (test set-up; not journaled).
func (s *Server) Put(coll string, d bson.D) {
	s.mu.Lock()
	defer s.mu.Unlock()
	s.colls[coll] = append(s.colls[coll], copyDoc(d))
}

// Clear removes every document of every collection (indexes are kept).
func (s *Server) Clear() {
	s.mu.Lock()
	defer s.mu.Unlock()
	s.colls = map[string][]bson.D{}
}

// Snapshot is a deep copy of all collections.
type Snapshot map[string][]bson.D

// Snap takes a snapshot.
func (s *Server) Snap() Snapshot {
	s.mu.Lock()
	defer s.mu.Unlock()
	out := Snapshot{}
	for k, v := range s.colls {
		out[k] = copyDocs(v)
	}
	return out
}

// Restore replaces the state by a snapshot.
func (s *Server) Restore(sn Snapshot) {
	s.mu.Lock()
	defer s.mu.Unlock()
	s.colls = map[string][]bson.D{}
	for k, v := range sn {
		s.colls[k] = copyDocs(v)
	}
}

// Age makes virtual time advance by d: every stored updatedAt / expiredAt (of
// integer-seconds or DateTime type) is moved d into the past.
func (s *Server) Age(d time.Duration) {
	s.mu.Lock()
	defer s.mu.Unlock()
	for _, docs := range s.colls {
		for i := range docs {
			for j := range docs[i] {
				k := docs[i][j].Key
				if k != "updatedAt" && k != "expiredAt" {
					continue
				}
				switch x := docs[i][j].Value.(type) {
				case int64:
					docs[i][j].Value = x - int64(d/time.Second)
				case int32:
					docs[i][j].Value = int64(x) - int64(d/time.Second)
				case primitive.DateTime:
					docs[i][j].Value = primitive.DateTime(int64(x) - int64(d/time.Millisecond))
				}
			}
		}
	}
}

// SweepTTL deletes, from every collection with a TTL index, the documents whose
// indexed DateTime field is older than the index's expiry; pick (optional)
// restricts the sweep to documents it accepts (MongoDB's sweeper gives no
// guarantee about which expired documents are gone at any moment).
func (s *Server) SweepTTL(pick func(coll string, d bson.D) bool) int {
	s.mu.Lock()
	defer s.mu.Unlock()
	n := 0
	now := time.Now()
	for coll, sp := range s.ttl {
		var keep []bson.D
		for _, d := range s.colls[coll] {
			v, has := Get(d, sp.Field)
			dt, isDt := v.(primitive.DateTime)
			if has && isDt && dt.Time().Add(time.Duration(sp.Secs)*time.Second).Before(now) && (pick == nil || pick(coll, d)) {
				n++
				continue
			}
			keep = append(keep, d)
		}
		s.colls[coll] = keep
	}
	return n
}

// TTL returns the recorded TTL index of a collection.
func (s *Server) TTL(coll string) (field string, secs int64, ok bool) {
	s.mu.Lock()
	defer s.mu.Unlock()
	sp, ok := s.ttl[coll]
	return sp.Field, sp.Secs, ok
}

// Seq returns the sequence number of the last applied command.
func (s *Server) Seq() int {
	s.mu.Lock()
	defer s.mu.Unlock()
	return s.seq
}

// String renders an op for logs.
func (op *Op) String() string {
	return fmt.Sprintf("#%d %s %s %s f=%v u=%v n=%d mod=%d dup=%v fault=%q", op.Seq, op.Client, op.Cmd, op.Coll, op.Filter, op.Update, op.N, op.NModified, op.Dup, op.Fault)
}
