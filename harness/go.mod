module ffverif

go 1.14

require (
	github.com/shiningrush/fastflow v0.0.0
	github.com/shiningrush/goevent v0.1.0
	github.com/stretchr/testify v1.6.1
	go.mongodb.org/mongo-driver v1.5.4
)

replace github.com/shiningrush/fastflow => /repo
