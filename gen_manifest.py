#!/usr/bin/env python3
"""Regenerates MANIFEST.json from props.py (claimed properties) and properties.jsonl."""
import json, os
ROOT = os.path.dirname(os.path.abspath(__file__))
import sys
sys.path.insert(0, ROOT)
from props import PROPS
allp = [json.loads(l) for l in open(os.path.join(ROOT, "properties.jsonl"))]
checks = []
na = []
for p in allp:
    pid = p["id"]
    if pid in PROPS and not PROPS[pid].get("disabled"):
        c = PROPS[pid]
        checks.append({
            "property_id": pid,
            "quick_cmd": "./check %s --tier quick" % pid,
            "thorough_cmd": "./check %s --tier thorough" % pid,
            "evidence_file": "/verif/evidence/%s.json" % pid,
            "replay_cmd_template": "./check %s --replay {path}" % pid,
            "engine": "coq+harness",
            "level_claimed": {
                "category": "proof",
                "text": c.get("level_text", "Theorems in coq/Props/%s.v (Coq 8.16 kernel-checked, unbounded) about an executable Gallina model; the model is tied to /repo's working tree on every run by a correspondence check (real code vs extracted model on the same inputs/histories) and the property's Coq-defined monitor is evaluated on every implementation run." % pid),
                "design_ref": "DESIGN.md section 5 (%s)" % pid,
            },
            "level_note": c.get("level_note", "Trusted: Coq kernel, extraction (ExtrOcamlBasic), OCaml driver, Go harness incl. in-memory MongoDB wire server, verif hook files; the model/code tie is differential (bounded by generators), see evidence trusted_base."),
            "technique": c.get("technique", "machine-checked proof in Coq (Rocq) over a hand-written model + correspondence check against the implementation"),
        })
    else:
        na.append({"property_id": pid, "reason": (PROPS.get(pid, {}).get("disabled") or "check not built yet in this revision of /verif (planned, see DESIGN.md section 5); not a claim that the technique cannot apply")})
m = {
    "version": 1,
    "setup_cmd": "./setup.sh",
    "hooks": {
        "guard": "verif",
        "enable": "go build -tags verif (harness module replaces github.com/shiningrush/fastflow by /repo)",
        "baseline_off_cmd": "cd /repo && GOFLAGS=-mod=mod GOPROXY=off GOSUMDB=off go test -vet=off -count=1 ./...",
        "source_commits": json.load(open(os.path.join(ROOT, "hook_commits.json"))),
        "add_only": True,
    },
    "engines": [{"name": "coq+harness", "path": "/verif/check", "serves_properties": [c["property_id"] for c in checks],
                 "kind_free_text": "Coq 8.16 models+theorems (coq/), extracted OCaml model runner (ocaml/), Go harness driving the real code against an in-memory MongoDB wire server (harness/), python orchestrator (check)"}],
    "checks": checks,
    "not_applicable": na,
    "notes": "All checks rebuild the harness from /repo's working tree with -tags verif. VERIF_SEED and VERIF_TIER are honoured.",
}
json.dump(m, open(os.path.join(ROOT, "MANIFEST.json"), "w"), indent=1)
print("claimed:", [c["property_id"] for c in checks])
