#!/bin/sh
# usage: seedall.sh [tier] : applies every kept seeded change to /repo in turn (patch.current.diff when the
# change had to be re-based on later fixes), runs that property's check and expects exit 1; restores /repo.
tier=${1:-quick}
cd /verif || exit 2
git -C /repo diff --quiet || { echo "/repo not clean"; exit 2; }
for d in seeded/C*; do
  sid=$(basename $d); id=$(echo $sid | cut -c1-3)
  p=$d/patch.diff; [ -f $d/patch.current.diff ] && p=$d/patch.current.diff
  if ! git -C /repo apply --check /verif/$p 2>/dev/null; then echo "$sid DOES-NOT-APPLY $p"; continue; fi
  git -C /repo apply /verif/$p
  start=$(date +%s)
  out=$(./check $id --tier $tier 2>&1); rc=$?
  git -C /repo checkout -- . ; git -C /repo clean -fdq
  echo "$sid rc=$rc $(($(date +%s)-start))s $(echo "$out" | grep -m1 VIOLATION)"
done
