(* Extraction of the executable models for the correspondence driver.
   ExtrOcamlBasic only: bool, option, unit, list, prod, sumbool, sumor map to
   the OCaml types; nat, positive, N, Z stay Coq datatypes.  No Extract Constant. *)
From Coq Require Import ExtrOcamlBasic.
From FF Require Import Sx Checks.
Extraction Language OCaml.
Extraction "model.ml" run_case run_monitor run_explain.
