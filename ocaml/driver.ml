(* Correspondence driver: reads one case per line, "<family> <sexp>", where the
   s-expression contains only integers and parentheses, runs the extracted Coq
   function [Model.run_case] and prints one verdict per line. *)
open Model

let rec pos_of_int (n : int) : positive =
  if n = 1 then XH
  else if n land 1 = 0 then XO (pos_of_int (n lsr 1))
  else XI (pos_of_int (n lsr 1))

let z_of_int (n : int) : z =
  if n = 0 then Z0 else if n > 0 then Zpos (pos_of_int n) else Zneg (pos_of_int (-n))

let rec int_of_pos = function
  | XH -> 1
  | XO p -> 2 * int_of_pos p
  | XI p -> 2 * int_of_pos p + 1

let int_of_z = function Z0 -> 0 | Zpos p -> int_of_pos p | Zneg p -> - (int_of_pos p)

(* tokenizer / parser *)
let parse (s : string) (start : int) : sx =
  let n = String.length s in
  let pos = ref start in
  let rec skip () = if !pos < n && (s.[!pos] = ' ' || s.[!pos] = '\t') then (incr pos; skip ()) in
  let rec item () : sx =
    skip ();
    if !pos >= n then failwith "unexpected end";
    if s.[!pos] = '(' then begin
      incr pos;
      let acc = ref [] in
      let rec loop () =
        skip ();
        if !pos >= n then failwith "unclosed paren";
        if s.[!pos] = ')' then incr pos
        else (acc := item () :: !acc; loop ()) in
      loop ();
      L (List.rev !acc)
    end else begin
      let st = !pos in
      if s.[!pos] = '-' then incr pos;
      while !pos < n && s.[!pos] >= '0' && s.[!pos] <= '9' do incr pos done;
      if !pos = st then failwith ("bad token at " ^ string_of_int st);
      I (z_of_int (int_of_string (String.sub s st (!pos - st))))
    end in
  item ()

let rec print_sx buf = function
  | I z -> Buffer.add_string buf (string_of_int (int_of_z z))
  | L l ->
    Buffer.add_char buf '(';
    List.iteri (fun i x -> if i > 0 then Buffer.add_char buf ' '; print_sx buf x) l;
    Buffer.add_char buf ')'

let () =
  let lineno = ref 0 in
  let nok = ref 0 and nmis = ref 0 and nbad = ref 0 in
  (try
     while true do
       let line = input_line stdin in
       incr lineno;
       if String.length line > 0 && line.[0] <> '#' then begin
         let sp = String.index line ' ' in
         let fam = int_of_string (String.sub line 0 sp) in
         let c = parse line sp in
         let mon = match run_monitor (z_of_int fam) c with
           | Some true -> " mon=1"
           | Some false ->
             let b = Buffer.create 64 in
             print_sx b (run_explain (z_of_int fam) c);
             if Buffer.length b > 2 then Printf.printf "# %d explain %s\n" !lineno (Buffer.contents b);
             " mon=0"
           | None -> " mon=-" in
         match run_case (z_of_int fam) c with
         | OkCase -> incr nok; Printf.printf "%d ok%s\n" !lineno mon
         | Mismatch (code, e) ->
           incr nmis;
           let b = Buffer.create 64 in
           print_sx b e;
           Printf.printf "%d mismatch%s %d %s\n" !lineno mon (int_of_z code) (Buffer.contents b)
         | BadCase code -> incr nbad; Printf.printf "%d bad%s %d\n" !lineno mon (int_of_z code)
       end
     done
   with End_of_file -> ());
  Printf.printf "# ok=%d mismatch=%d bad=%d\n" !nok !nmis !nbad
