#!/bin/sh
# builds the extracted model + driver into ./ffmodel
set -e
cd "$(dirname "$0")"
coqc -Q ../coq FF Extract.v >/dev/null
ocamlfind ocamlopt -O3 -w -a model.mli model.ml driver.ml -o ffmodel 2>/dev/null || ocamlfind ocamlopt -w -a model.mli model.ml driver.ml -o ffmodel
