#!/bin/sh
# usage: quickall.sh [ids...] : runs the quick tier of every (or the named) property in turn
cd /verif || exit 2
ids="$@"; [ -z "$ids" ] && ids="C07 C08 C09 C16 C19 C17 C10 C06 C13 C20 C11 C05 C03 C12 C14 C18 C01 C04 C02 C15"
for id in $ids; do
  start=$(date +%s)
  out=$(./check $id --tier quick 2>&1); rc=$?
  echo "$id rc=$rc $(($(date +%s)-start))s $(echo "$out" | grep -c KNOWN-FINDING) known $(echo "$out" | grep -m1 VIOLATION)"
done
