(** Facts about EngineCore.  For histories in which every accepted delivery carries the task's current
    persisted status ([validate = true]): the engine invariant and, from it, dependency order (C01), at
    most one main-action start per attempt also across crashes (C02, C04), finality of success (C15).
    For the code as it is ([validate = false]): witnesses that violate each of them (the stale second
    delivery after a retry command re-initialised the instance). *)
From Coq Require Import List ZArith Bool Lia.
From FF Require Import EngineCore.
Import ListNotations.
Local Open Scope Z_scope.

Ltac inv H := inversion H; subst; clear H.

Lemma upd_same {A} (f : Z -> A) k v : upd f k v k = v.
Proof. unfold upd. rewrite Z.eqb_refl. reflexivity. Qed.
Lemma upd_other {A} (f : Z -> A) k v x : x <> k -> upd f k v x = f x.
Proof. unfold upd. intros H. destruct (Z.eqb_spec x k); [contradiction|reflexivity]. Qed.

Lemma remove1_in p l l' x : remove1 p l = Some l' -> In x l' -> In x l.
Proof.
  revert l'. induction l as [|y r IH]; cbn; intros l' H Hin; [discriminate|].
  destruct (Z.eqb (fst y) (fst p) && est_eqb (snd y) (snd p)).
  - inv H. right. exact Hin.
  - destruct (remove1 p r) as [r'|] eqn:E; [|discriminate]. inv H.
    destruct Hin as [->|Hin]; [left; reflexivity|right; eapply IH; [reflexivity|exact Hin]].
Qed.

Lemma remove1_mem p l l' : remove1 p l = Some l' -> In p l.
Proof.
  revert l'. induction l as [|y r IH]; cbn; intros l' H; [discriminate|].
  destruct (Z.eqb (fst y) (fst p) && est_eqb (snd y) (snd p)) eqn:E.
  - apply andb_true_iff in E. destruct E as (E1 & E2). apply Z.eqb_eq in E1. apply est_eqb_eq in E2.
    left. destruct y, p; cbn in *; subst; reflexivity.
  - destruct (remove1 p r) as [r'|] eqn:E'; [|discriminate]. right. eapply IH. reflexivity.
Qed.

Section Facts.
  Variable tasks : list Z.
  Variable deps : Z -> list Z.

  Notation pdone := (parents_done deps).

  (** parents stay done when the store only changes at entries that are not success *)
  Lemma pdone_mono (f g : Z -> est) t :
    (forall d, f d = SSuccess -> g d = SSuccess) -> pdone f t = true -> pdone g t = true.
  Proof.
    unfold parents_done. intros H Hp. rewrite forallb_forall in *. intros d Hd. specialize (Hp d Hd).
    destruct (f d) eqn:E; try discriminate. rewrite (H d E). reflexivity.
  Qed.

  Lemma pdone_upd f t k v : f k <> SSuccess -> pdone f t = true -> pdone (upd f k v) t = true.
  Proof.
    intros Hk. apply pdone_mono. intros d Hd. destruct (Z.eq_dec d k) as [->|Hne]; [congruence|].
    rewrite upd_other by exact Hne. exact Hd.
  Qed.

  Record Inv (s : ec) : Prop := {
    iR : forall t, match runs s t with
                   | RQueued sn => store s t = sn /\ exec sn = true
                   | RRunning => store s t = SRunning /\ started s t = false
                   | RInMain => store s t = SRunning
                   | REnding => store s t = SEnding
                   | RNone => True
                   end;
    iK : forall t, know s t = SSuccess -> store s t = SSuccess;
    iE : forall t st, In (t, st) (evq s) -> st = SSuccess -> store s t = SSuccess;
    iE2 : forall t, In (t, SInit) (evq s) -> pdone (store s) t = true;
    iP : forall c sn, In (c, sn) (pend s) -> pdone (store s) c = true;
    iQ : forall t, runs s t <> RNone -> pdone (store s) t = true;
    iS : forall t, started s t = true -> store s t <> SInit /\ store s t <> SRetrying
  }.

  Lemma inv_boot : Inv boot.
  Proof. constructor; cbn; intros; try discriminate; try contradiction; auto. Qed.

  Lemma snap_pushable_pdone f c sn l :
    In (c, sn) (snap f (filter (pushable deps f) l)) -> pdone f c = true.
  Proof.
    unfold snap. intros H. apply in_map_iff in H. destruct H as (x & Hx & Hin). inv Hx.
    apply filter_In in Hin. destruct Hin as (_ & Hp). unfold pushable in Hp. apply andb_true_iff in Hp. apply Hp.
  Qed.

  (** a live run's task is not recorded success *)
  Lemma live_not_success s t : Inv s -> runs s t <> RNone -> store s t <> SSuccess.
  Proof.
    intros HI Hr. pose proof (iR s HI t) as H. destruct (runs s t) as [|sn| | |]; try congruence.
    all: destruct H as (H1 & H2); try congruence.
    rewrite H1. destruct sn; cbn in H2; congruence.
  Qed.

  (** what survives a write to a task that is not recorded success *)
  Lemma frame s t v : Inv s -> store s t <> SSuccess ->
    (forall x, know s x = SSuccess -> upd (store s) t v x = SSuccess) /\
    (forall x st, In (x, st) (evq s) -> st = SSuccess -> upd (store s) t v x = SSuccess) /\
    (forall x, In (x, SInit) (evq s) -> pdone (upd (store s) t v) x = true) /\
    (forall c sn, In (c, sn) (pend s) -> pdone (upd (store s) t v) c = true) /\
    (forall x, runs s x <> RNone -> pdone (upd (store s) t v) x = true).
  Proof.
    intros HI Hns. repeat split.
    - intros x Hk. destruct (Z.eq_dec x t) as [->|Hne]; [exfalso; apply Hns; apply (iK s HI t Hk)|].
      rewrite upd_other by exact Hne. apply (iK s HI x Hk).
    - intros x st Hin Hs. destruct (Z.eq_dec x t) as [->|Hne]; [exfalso; apply Hns; apply (iE s HI t st Hin Hs)|].
      rewrite upd_other by exact Hne. apply (iE s HI x st Hin Hs).
    - intros x Hin. apply pdone_upd; [exact Hns|apply (iE2 s HI x Hin)].
    - intros c sn Hin. apply pdone_upd; [exact Hns|apply (iP s HI c sn Hin)].
    - intros x Hx. apply pdone_upd; [exact Hns|apply (iQ s HI x Hx)].
  Qed.

  Notation stepv := (step tasks deps true).

  (** a run of [t] ends by writing [v] (not init, not retrying) and queueing the event (t, ev) *)
  Lemma inv_run_ends s t v ev :
    Inv s -> runs s t <> RNone -> v <> SInit -> v <> SRetrying -> (ev = SSuccess -> v = SSuccess) -> ev <> SInit ->
    Inv {| store := upd (store s) t v; know := know s; runs := upd (runs s) t RNone; started := started s;
           evq := evq s ++ [(t, ev)]; pend := pend s |}.
  Proof.
    intros HI Hr Hv1 Hv2 Hev Hev2. pose proof (live_not_success s t HI Hr) as Hns.
    destruct (frame s t v HI Hns) as (FK & FE & FE2 & FP & FQ).
    constructor; cbn.
    - intros x. destruct (Z.eq_dec x t) as [->|Hne]; [rewrite !upd_same; exact Logic.I|rewrite !upd_other by exact Hne; apply (iR s HI)].
    - exact FK.
    - intros x st Hin Hs. apply in_app_or in Hin. destruct Hin as [Hin|[Hin|[]]]; [apply (FE x st Hin Hs)|].
      inv Hin. rewrite upd_same. apply Hev. reflexivity.
    - intros x Hin. apply in_app_or in Hin. destruct Hin as [Hin|[Hin|[]]]; [apply (FE2 x Hin)|]. inv Hin. congruence.
    - exact FP.
    - intros x Hx. destruct (Z.eq_dec x t) as [->|Hne]; [rewrite upd_same in Hx; congruence|].
      rewrite upd_other in Hx by exact Hne. apply (FQ x Hx).
    - intros x Hx. destruct (Z.eq_dec x t) as [->|Hne]; [rewrite upd_same; split; assumption|].
      rewrite upd_other by exact Hne. apply (iS s HI x Hx).
  Qed.

  Lemma inv_step s l s' : Inv s -> stepv s l = Some s' -> Inv s'.
  Proof.
    intros HI HS. destruct l; cbn in HS.
    - (* Accept *)
      destruct (remove1 (t, s0) (pend s)) as [p'|] eqn:Er; [|discriminate].
      match type of HS with (if ?b then _ else _) = Some _ => destruct b eqn:Eg; [|discriminate] end.
      inv HS. apply andb_true_iff in Eg. destruct Eg as (Eg & Ev). apply andb_true_iff in Eg. destruct Eg as (En & Ex).
      cbn in Ev. apply est_eqb_eq in Ev.
      constructor; cbn.
      + intros x. destruct (Z.eq_dec x t) as [->|Hne]; [rewrite upd_same; auto|rewrite upd_other by exact Hne; apply (iR s HI)].
      + apply (iK s HI).
      + apply (iE s HI).
      + apply (iE2 s HI).
      + intros c sn Hin. apply (iP s HI c sn). eapply remove1_in; eassumption.
      + intros x Hx. destruct (Z.eq_dec x t) as [->|Hne].
        * apply (iP s HI t s0). eapply remove1_mem; eassumption.
        * rewrite upd_other in Hx by exact Hne. apply (iQ s HI x Hx).
      + apply (iS s HI).
    - (* Drop *)
      destruct (remove1 (t, s0) (pend s)) as [p'|] eqn:Er; [|discriminate].
      match type of HS with (if ?b then _ else _) = Some _ => destruct b eqn:Eg; [discriminate|] end.
      inv HS. constructor; cbn; try apply HI.
      intros c sn Hin. apply (iP s HI c sn). eapply remove1_in; eassumption.
    - (* StartWrite *)
      pose proof (iR s HI t) as HRt.
      destruct (runs s t) as [|sn| | |] eqn:Er; try discriminate.
      destruct HRt as (Hst & Hex).
      assert (Hlive : runs s t <> RNone) by congruence.
      pose proof (live_not_success s t HI Hlive) as Hns.
      destruct sn; try discriminate; inv HS.
      + (* from init: 'running' is stored *)
        destruct (frame s t SRunning HI Hns) as (FK & FE & FE2 & FP & FQ).
        constructor; cbn; auto.
        * intros x. destruct (Z.eq_dec x t) as [->|Hne].
          -- rewrite !upd_same. split; [reflexivity|].
             destruct (started s t) eqn:Es; [|reflexivity]. destruct (iS s HI t Es) as (A & _). congruence.
          -- rewrite !upd_other by exact Hne. apply (iR s HI).
        * intros x Hx. destruct (Z.eq_dec x t) as [->|Hne]; [apply FQ; exact Hlive|].
          rewrite upd_other in Hx by exact Hne. apply (FQ x Hx).
        * intros x Hx. destruct (Z.eq_dec x t) as [->|Hne]; [rewrite upd_same; split; discriminate|].
          rewrite upd_other by exact Hne. apply (iS s HI x Hx).
      + (* resumed in ending: nothing is written *)
        constructor; cbn; try apply HI.
        * intros x. destruct (Z.eq_dec x t) as [->|Hne]; [rewrite upd_same; exact Hst|rewrite upd_other by exact Hne; apply (iR s HI)].
        * intros x Hx. destruct (Z.eq_dec x t) as [->|Hne]; [apply (iQ s HI t Hlive)|].
          rewrite upd_other in Hx by exact Hne. apply (iQ s HI x Hx).
      + (* from retrying: the hook ran, 'init' is stored, the task goes back to the parser *)
        destruct (frame s t SInit HI Hns) as (FK & FE & FE2 & FP & FQ).
        constructor; cbn; auto.
        * intros x. destruct (Z.eq_dec x t) as [->|Hne]; [rewrite !upd_same; exact Logic.I|rewrite !upd_other by exact Hne; apply (iR s HI)].
        * intros x st Hin Hs. apply in_app_or in Hin. destruct Hin as [Hin|[Hin|[]]]; [apply (FE x st Hin Hs)|]. inv Hin. discriminate.
        * intros x Hin. apply in_app_or in Hin. destruct Hin as [Hin|[Hin|[]]]; [apply (FE2 x Hin)|]. inv Hin. apply FQ. exact Hlive.
        * intros x Hx. destruct (Z.eq_dec x t) as [->|Hne]; [rewrite upd_same in Hx; congruence|].
          rewrite upd_other in Hx by exact Hne. apply (FQ x Hx).
        * intros x Hx. destruct (Z.eq_dec x t) as [->|Hne]; [exfalso; destruct (iS s HI t Hx) as (_ & B); congruence|].
          rewrite upd_other by exact Hne. apply (iS s HI x Hx).
    - (* MainStart *)
      pose proof (iR s HI t) as HRt.
      destruct (runs s t) eqn:Er; try discriminate. inv HS. destruct HRt as (Hst & Hnst).
      assert (Hlive : runs s t <> RNone) by congruence.
      constructor; cbn; try apply HI.
      + intros x. destruct (Z.eq_dec x t) as [->|Hne]; [rewrite upd_same; exact Hst|].
        rewrite !upd_other by exact Hne. apply (iR s HI).
      + intros x Hx. destruct (Z.eq_dec x t) as [->|Hne]; [apply (iQ s HI t Hlive)|].
        rewrite upd_other in Hx by exact Hne. apply (iQ s HI x Hx).
      + intros x Hx. destruct (Z.eq_dec x t) as [->|Hne]; [rewrite Hst; split; discriminate|].
        rewrite upd_other in Hx by exact Hne. apply (iS s HI x Hx).
    - (* MainOk *)
      pose proof (iR s HI t) as HRt.
      destruct (runs s t) eqn:Er; try discriminate. inv HS.
      assert (Hlive : runs s t <> RNone) by congruence.
      pose proof (live_not_success s t HI Hlive) as Hns.
      destruct (frame s t SEnding HI Hns) as (FK & FE & FE2 & FP & FQ).
      constructor; cbn; auto.
      + intros x. destruct (Z.eq_dec x t) as [->|Hne]; [rewrite !upd_same; reflexivity|rewrite !upd_other by exact Hne; apply (iR s HI)].
      + intros x Hx. destruct (Z.eq_dec x t) as [->|Hne]; [apply FQ; exact Hlive|].
        rewrite upd_other in Hx by exact Hne. apply (FQ x Hx).
      + intros x Hx. destruct (Z.eq_dec x t) as [->|Hne]; [rewrite upd_same; split; discriminate|].
        rewrite upd_other by exact Hne. apply (iS s HI x Hx).
    - (* MainErr *)
      destruct (runs s t) eqn:Er; try discriminate. inv HS.
      apply inv_run_ends; try assumption; try congruence; discriminate.
    - (* AfterOk *)
      destruct (runs s t) eqn:Er; try discriminate. inv HS.
      apply inv_run_ends; try assumption; try congruence; discriminate.
    - (* AfterErr *)
      destruct (runs s t) eqn:Er; try discriminate. inv HS.
      apply inv_run_ends; try assumption; try congruence; discriminate.
    - (* BeforeErr *)
      destruct (runs s t) as [|sn| | |] eqn:Er; try discriminate. destruct sn; try discriminate. inv HS.
      apply inv_run_ends; try assumption; try congruence; discriminate.
    - (* RetryErr *)
      destruct (runs s t) as [|sn| | |] eqn:Er; try discriminate. destruct sn; try discriminate. inv HS.
      apply inv_run_ends; try assumption; try congruence; discriminate.
    - (* Deliver *)
      destruct (evq s) as [|(t, st) r] eqn:Eq; [discriminate|]. inv HS.
      assert (HK' : forall x, upd (know s) t st x = SSuccess -> store s x = SSuccess).
      { intros x Hx. destruct (Z.eq_dec x t) as [->|Hne].
        - rewrite upd_same in Hx. apply (iE s HI t st); [rewrite Eq; left; reflexivity|exact Hx].
        - rewrite upd_other in Hx by exact Hne. apply (iK s HI x Hx). }
      constructor; cbn; try apply HI.
      + exact HK'.
      + intros x st' Hin Hs. apply (iE s HI x st'); [rewrite Eq; right; exact Hin|exact Hs].
      + intros x Hin. apply (iE2 s HI x). rewrite Eq. right. exact Hin.
      + intros c sn Hin. apply in_app_or in Hin. destruct Hin as [Hin|Hin]; [apply (iP s HI c sn Hin)|].
        unfold snap in Hin. apply in_map_iff in Hin. destruct Hin as (x & Hx & Hin). inv Hx.
        destruct (done st) eqn:Ed.
        * apply filter_In in Hin. destruct Hin as (_ & Hp). unfold pushable in Hp. apply andb_true_iff in Hp. destruct Hp as (_ & Hp).
          unfold parents_done in *. rewrite forallb_forall in *. intros d Hd. specialize (Hp d Hd).
          destruct (upd (know s) t st d) eqn:E; try discriminate. rewrite (HK' d E). reflexivity.
        * destruct (est_eqb st SInit) eqn:Ei; [|contradiction]. apply est_eqb_eq in Ei. subst st.
          destruct Hin as [<-|[]]. apply (iE2 s HI t). rewrite Eq. left. reflexivity.
    - (* Rearm *)
      destruct (store s t) eqn:Est; try discriminate. inv HS.
      assert (Hns : store s t <> SSuccess) by congruence.
      assert (Hnr : runs s t = RNone).
      { pose proof (iR s HI t) as H. destruct (runs s t) as [|sn| | |]; [reflexivity| | | |].
        - destruct H as (H1 & H2). rewrite Est in H1. subst sn. discriminate.
        - destruct H as (H1 & _). congruence.
        - congruence.
        - congruence. }
      destruct (frame s t SRetrying HI Hns) as (FK & FE & FE2 & FP & FQ).
      constructor; cbn; auto.
      + intros x. destruct (Z.eq_dec x t) as [->|Hne]; [rewrite Hnr; exact Logic.I|].
        rewrite !upd_other by exact Hne. apply (iR s HI).
      + intros x Hx. destruct (Z.eq_dec x t) as [->|Hne]; [rewrite upd_same in Hx; discriminate|].
        rewrite upd_other in Hx by exact Hne. rewrite upd_other by exact Hne. apply (iS s HI x Hx).
    - (* Rebuild *)
      inv HS. constructor; cbn; try apply HI.
      + intros x Hx. exact Hx.
      + intros c sn Hin. apply in_app_or in Hin. destruct Hin as [Hin|Hin]; [apply (iP s HI c sn Hin)|].
        eapply snap_pushable_pdone. exact Hin.
    - (* WdFail *)
      destruct (store s t) eqn:Est; try discriminate. destruct (runs s t) eqn:Er; try discriminate. inv HS.
      assert (Hns : store s t <> SSuccess) by congruence.
      destruct (frame s t SFailed HI Hns) as (FK & FE & FE2 & FP & FQ).
      constructor; cbn; auto.
      + intros x. destruct (Z.eq_dec x t) as [->|Hne]; [rewrite Er; exact Logic.I|].
        rewrite !upd_other by exact Hne. apply (iR s HI).
      + intros x Hx. destruct (Z.eq_dec x t) as [->|Hne]; [rewrite upd_same; split; discriminate|].
        rewrite upd_other by exact Hne. apply (iS s HI x Hx).
    - (* Crash *)
      inv HS. constructor; cbn; intros; try contradiction; try congruence; auto.
      + apply (iK s HI t H).
      + apply (iS s HI t H).
  Qed.

  Theorem inv_reach ls : forall s s', Inv s -> run tasks deps true s ls = Some s' -> Inv s'.
  Proof.
    induction ls as [|l ls IH]; cbn; intros s s' HI HR.
    - inv HR. exact HI.
    - destruct (stepv s l) as [s1|] eqn:E; [|discriminate]. eapply IH; [eapply inv_step; eassumption|exact HR].
  Qed.

  (** C01: a main action starts only when every dependency is recorded success *)
  Theorem main_start_parents_done s t s' : Inv s -> stepv s (MainStart t) = Some s' -> pdone (store s) t = true.
  Proof.
    intros HI HS. cbn in HS. destruct (runs s t) eqn:Er; try discriminate. apply (iQ s HI t). congruence.
  Qed.

  (** C02 / C04: at most one main-action start per attempt (an attempt ends with a retry command), crashes included *)
  Theorem main_start_once s t s' : Inv s -> stepv s (MainStart t) = Some s' -> started s t = false /\ started s' t = true.
  Proof.
    intros HI HS. cbn in HS. pose proof (iR s HI t) as H. destruct (runs s t) eqn:Er; try discriminate.
    inv HS. cbn. rewrite upd_same. destruct H as (_ & H). split; [exact H|reflexivity].
  Qed.

  Theorem started_kept s l s' t : stepv s l = Some s' -> started s t = true -> l <> Rearm t -> started s' t = true.
  Proof.
    intros HS Hst Hl. destruct l; cbn in HS;
      repeat match goal with
             | H : match ?x with _ => _ end = Some _ |- _ => destruct x eqn:?; try discriminate
             end; inv HS; cbn; try exact Hst.
    - destruct (Z.eq_dec t t0) as [->|Hne]; [rewrite upd_same; reflexivity|rewrite upd_other by exact Hne; exact Hst].
    - destruct (Z.eq_dec t t0) as [->|Hne]; [congruence|rewrite upd_other by exact Hne; exact Hst].
  Qed.

  (** C15: success is final *)
  Theorem success_final s l s' t : Inv s -> stepv s l = Some s' -> store s t = SSuccess -> store s' t = SSuccess.
  Proof.
    intros HI HS Hst.
    assert (Hlive : forall x, runs s x <> RNone -> x <> t).
    { intros x Hx ->. exact (live_not_success s t HI Hx Hst). }
    assert (Hw : forall x v, x <> t -> upd (store s) x v t = SSuccess).
    { intros x v Hx. rewrite upd_other by congruence. exact Hst. }
    destruct l; cbn in HS;
      repeat match goal with
             | H : match ?x with _ => _ end = Some _ |- _ => destruct x eqn:?; try discriminate
             end; inv HS; cbn; try exact Hst;
      try (apply Hw; apply Hlive; congruence);
      try (apply Hw; intro; subst; congruence).
  Qed.
End Facts.

(** the code as it is: after a retry command re-initialised the instance, a task that was already delivered
    is delivered again with the snapshot 'init'; once its first run is over the second delivery is accepted *)
Definition deps3 (t : Z) : list Z := if Z.eqb t 3 then [2] else [].
Definition witness_dup : list label :=
  [Rebuild; Accept 1 SInit; StartWrite 1; MainStart 1; MainErr 1; Deliver; Rearm 1; Rebuild;
   Accept 2 SInit; StartWrite 2; MainStart 2; MainOk 2; AfterOk 2; Deliver;
   Accept 2 SInit; StartWrite 2; Accept 3 SInit; StartWrite 3].

Theorem unvalidated_refuted :
  exists s, run [1; 2; 3] deps3 false boot witness_dup = Some s /\
            (* task 2 was success and is running again, its main action about to start a second time in the same attempt *)
            store s 2 = SRunning /\ started s 2 = true /\ (exists s', step [1; 2; 3] deps3 false s (MainStart 2) = Some s') /\
            (* task 3 is about to start its main action although its dependency is not success *)
            (exists s', step [1; 2; 3] deps3 false s (MainStart 3) = Some s') /\ parents_done deps3 (store s) 3 = false.
Proof.
  eexists. split; [vm_compute; reflexivity|]. cbn.
  repeat split; try reflexivity; eexists; reflexivity.
Qed.

(** ... and the recorded success of task 2 is overwritten *)
Theorem success_overwritten_refuted :
  exists s s', run [1; 2; 3] deps3 false boot (firstn 15 witness_dup) = Some s /\
               step [1; 2; 3] deps3 false s (StartWrite 2) = Some s' /\ store s 2 = SSuccess /\ store s' 2 = SRunning.
Proof.
  eexists. eexists. split; [vm_compute; reflexivity|]. split; [vm_compute; reflexivity|]. split; reflexivity.
Qed.

(** the same history is not a history of the validated system: the stale delivery is refused *)
Example validated_refuses_witness : run [1; 2; 3] deps3 true boot witness_dup = None.
Proof. vm_compute. reflexivity. Qed.
