(** Checks: one entry point for the correspondence driver.  A case is tagged by
    the family number; the verdict says whether the implementation's observed
    behaviour equals the model's. *)
From Coq Require Import List ZArith Bool.
From FF Require Import Sx Dispatch TaskTree StoreModel StoreCheck PreCheck EngineMon TaskRun ShareData Vars KeeperCheck MutexCheck Commander ShutdownCheck EngineCheck TablesCheck ExecRegCheck.
Import ListNotations.
Local Open Scope Z_scope.

Definition run_monitor (family : Z) (c : sx) : option bool :=
  match family with
  | 7 => monitor_dispatch c
  | 20 => monitor_store_trace c
  | 21 => monitor_worker_key_case c
  | 40 => monitor_precheck c
  | 41 => monitor_sharedata c
  | 50 => monitor_vars c
  | 60 => monitor_keeper c
  | 61 => monitor_alive c
  | 70 => monitor_mutex c
  | 80 => monitor_admit c
  | 90 => monitor_skel c
  | 91 => monitor_tables c
  | 130 => monitor_core c
  | _ => if (100 <? family) && (family <? 200) then monitor_journal (family - 100) c else None
  end.

Definition run_explain (family : Z) (c : sx) : sx :=
  if family =? 130 then explain_core c
  else if (100 <? family) && (family <? 200) then explain_journal (family - 100) c
  else if family =? 60 then explain_keeper c else if family =? 61 then explain_alive c else if family =? 70 then explain_mutex c else L [].

Definition run_case (family : Z) (c : sx) : verdict :=
  match family with
  | 7 => check_dispatch c
  | 16 => check_build c
  | 17 => check_tree_static c
  | 18 => check_next c
  | 19 => check_cancel_mark c
  | 20 => check_store_trace c
  | 21 => check_worker_key_case c
  | 22 => check_flake_case c
  | 40 => check_precheck c
  | 41 => check_sharedata c
  | 50 => check_vars c
  | 60 => check_keeper c
  | 61 => check_keeper c
  | 70 => check_mutex c
  | 80 => check_admit c
  | 90 => check_skel c
  | 91 => check_tables c
  | 95 => check_execreg c
  | 130 => check_core c
  | _ => if (100 <? family) && (family <? 200)
         then match check_journal_store c with
              | OkCase => match check_runs c with OkCase => check_core c | v => v end
              | v => v
              end
         else BadCase 0
  end.
