(** Checks: one entry point for the correspondence driver.  A case is tagged by
    the family number; the verdict says whether the implementation's observed
    behaviour equals the model's. *)
From Coq Require Import List ZArith Bool.
From FF Require Import Sx Dispatch.
Import ListNotations.
Local Open Scope Z_scope.

Definition run_monitor (family : Z) (c : sx) : option bool :=
  match family with
  | 7 => monitor_dispatch c
  | _ => None
  end.

Definition run_case (family : Z) (c : sx) : verdict :=
  match family with
  | 7 => check_dispatch c
  | _ => BadCase 0
  end.
