(** TablesCheck: the status predicates of the Engine model against the status tables of the source.  The harness
    family [tables] reads, from the current source text, the task-status constants each of these functions
    mentions (grouped by switch case / closure); this file holds the table each model predicate is PROVED to be
    the characteristic function of, and compares.  A change of one of these sets in the source (e.g. a status
    added to Executable, removed from IsLastState) breaks this correspondence before any run shows it.

    codes as stored: 1 init 2 running 3 ending 4 success 5 failed 6 canceled 7 retrying 8 blocked 9 continue
    10 skipped (canceled is not a status of the Engine model: cancel is outside it). *)
From Coq Require Import List ZArith Bool.
From FF Require Import Sx StoreModel Engine.
Import ListNotations.
Local Open Scope Z_scope.

Definition code (s : est) : Z :=
  match s with SInit => 1 | SRunning => 2 | SEnding => 3 | SSuccess => 4 | SFailed => 5 | SRetrying => 7
             | SBlocked => 8 | SContinue => 9 | SSkipped => 10 end.

Definition table_expected (f : Z) : option (list (Z * Z)) :=
  match f with
  | 1 => Some [(0, 1); (0, 7); (0, 9); (0, 3)]                                  (* TaskNode.Executable *)
  | 2 => Some [(0, 4); (0, 10)]                                                 (* TaskNode.CanExecuteChild *)
  | 3 => Some [(2, 5); (2, 6); (3, 8); (4, 4); (4, 10)]                         (* TaskNode.ComputeStatus: failed | blocked | finished; default = running *)
  | 4 => Some [(1, 5); (1, 6); (1, 4); (1, 10)]                                 (* TaskInstance.IsLastState *)
  | 5 => Some [(0, 9)]                                                          (* TaskInstance.CanBlock: false exactly for continue *)
  | 6 => Some [(1, 1); (1, 3); (1, 7); (1, 9)]                                  (* DefExecutor.workerDo: runs a delivery in these statuses only *)
  | 7 => Some [(1, 5); (1, 6); (2, 5); (2, 6); (2, 7); (4, 8); (5, 8); (5, 9)]  (* DefParser.parseCmd: retry lists failed/canceled -> retrying; continue lists blocked -> continue *)
  | _ => None
  end.

Definition col (f : Z) (g : Z) : list Z :=
  match table_expected f with Some l => map snd (filter (fun p => Z.eqb (fst p) g) l) | None => [] end.

(** the model's predicates are the characteristic functions of these tables *)
Lemma exec_is_table s : exec s = zin (code s) (col 1 0).
Proof. destruct s; reflexivity. Qed.
Lemma exec_is_worker_gate s : exec s = zin (code s) (col 6 1).
Proof. destruct s; reflexivity. Qed.
Lemma done_is_table s : done s = zin (code s) (col 2 0).
Proof. destruct s; reflexivity. Qed.
Lemma active_is_table s : active s = negb (zin (code s) (col 3 2 ++ col 3 3 ++ col 3 4)).
Proof. destruct s; reflexivity. Qed.
Lemma can_block_is_table s : can_block s = exec s && negb (Z.eqb (code s) 3) && negb (zin (code s) (col 5 0)).
Proof. destruct s; reflexivity. Qed.
Lemma can_skip_is_table s : can_skip s = exec s && negb (Z.eqb (code s) 3) && negb (zin (code s) (col 4 1)).
Proof. destruct s; reflexivity. Qed.
(** the retry command re-arms failed (and canceled) tasks to retrying, the continue command blocked ones to continue *)
Lemma rearm_table : zin (code SFailed) (col 7 1) = true /\ zin (code SRetrying) (col 7 2) = true /\
                    col 7 4 = [code SBlocked] /\ zin (code SContinue) (col 7 5) = true.
Proof. repeat split. Qed.

Definition pair_of_sx (s : sx) : option (Z * Z) :=
  match s with L [I a; I b] => Some (a, b) | _ => None end.
Definition pair_eqb (a b : Z * Z) : bool := Z.eqb (fst a) (fst b) && Z.eqb (snd a) (snd b).

(** case = (function-id ((group status) ...)) *)
Definition check_tables (c : sx) : verdict :=
  match c with
  | L [I f; L ops] =>
      match opt_map pair_of_sx ops, table_expected f with
      | Some got, Some want =>
          if list_eqb pair_eqb got want then OkCase
          else Mismatch f (L (map (fun p => L [I (fst p); I (snd p)]) want))
      | _, _ => BadCase 2
      end
  | _ => BadCase 1
  end.
Definition monitor_tables (c : sx) : option bool :=
  match check_tables c with OkCase => Some true | Mismatch _ _ => Some false | BadCase _ => None end.
