(** Facts about the life-cycle relations the C15 monitor uses: they say what the property says. *)
From Coq Require Import List ZArith Bool Arith Lia.
From FF Require Import Sx StoreModel StoreCheck PreCheck EngineMon.
Import ListNotations.
Local Open Scope Z_scope.

(** a finished task (success = 4, skipped = 10) is never given another status *)
Theorem task_finished_final a b : fin_st a = true -> task_edge a b = true -> b = a.
Proof.
  unfold fin_st, sSuccess, sSkipped. intros H E.
  apply orb_true_iff in H as [H|H]; apply Z.eqb_eq in H; subst a; unfold task_edge in E;
    apply orb_true_iff in E as [E|E]; try discriminate; apply Z.eqb_eq in E; congruence.
Qed.

(** the main action's status 'running' is entered only from init or continue *)
Theorem running_only_from_init_or_continue a : task_edge a sRunning = true -> a = sInit \/ a = sContinue \/ a = sRunning.
Proof.
  unfold task_edge, sRunning, sInit, sContinue. intros E. apply orb_true_iff in E as [E|E].
  - apply Z.eqb_eq in E. auto.
  - destruct a as [|[[[|[]|]|[[]|[]|]|]|[[[]|[]|]|[[]|[]|]|]|]|]; simpl in E; try discriminate; auto.
Qed.

(** success is entered only from ending *)
Theorem success_only_from_ending a : task_edge a sSuccess = true -> a = sEnding \/ a = sSuccess.
Proof.
  unfold task_edge, sSuccess, sEnding. intros E. apply orb_true_iff in E as [E|E].
  - apply Z.eqb_eq in E. auto.
  - destruct a as [|[[[|[]|]|[[]|[]|]|]|[[[]|[]|]|[[]|[]|]|]|]|]; simpl in E; try discriminate; auto.
Qed.

(** instance: success is final *)
Theorem ins_success_final o b : ins_edge o iSuccess b = true -> b = iSuccess.
Proof.
  unfold ins_edge, iSuccess. intros E. apply orb_true_iff in E as [E|E]; [|discriminate].
  apply Z.eqb_eq in E. congruence.
Qed.

(** failed / blocked -> running only through the command watcher (origin 2) *)
Theorem ins_rearm_only_by_command o a :
  (a = iFailed \/ a = iBlocked) -> ins_edge o a iRunning = true -> o = 2.
Proof.
  unfold ins_edge, iFailed, iBlocked, iRunning. intros [H|H] E; subst a; simpl in E;
    destruct (Z.eqb_spec o 2); auto; simpl in E; discriminate.
Qed.

(** scheduled -> init only through the watchdog's left-behind sweep (origin 4) *)
Theorem ins_back_to_init_only_by_watchdog o : ins_edge o iScheduled iInit = true -> o = 4.
Proof. unfold ins_edge, iScheduled, iInit. simpl. destruct (Z.eqb_spec o 4); auto; discriminate. Qed.

(** init -> scheduled only through dispatch *)
Theorem ins_scheduled_only_by_dispatch o : ins_edge o iInit iScheduled = true -> o = 5 \/ o = 9.
Proof.
  unfold ins_edge, iInit, iScheduled. simpl. unfold zin. simpl.
  destruct (Z.eqb_spec o 5); auto. destruct (Z.eqb_spec o 9); auto. discriminate.
Qed.
