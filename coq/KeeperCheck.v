(** Sx glue, acceptance and monitors for the Keeper LTS (C08, C09). *)
From Coq Require Import List ZArith Bool Lia Arith.
From FF Require Import Sx Keeper.
Import ListNotations.
Local Open Scope Z_scope.

Definition res_of_z (z : Z) : option res :=
  match z with 0 => Some Ok | 1 => Some Fail | 2 => Some Lost | _ => None end.

(** journal label = model label + what the database reported (applied: the write changed the record) *)
Definition label_of_sx (s : sx) : option (label * bool) :=
  match s with
  | L [I 1; I d] => Some (Tick d, false)
  | L [I 2] => Some (Sweep, true)
  | L [I 3; I k] => Some (ElectBegin (Z.to_nat k), false)
  | L [I 4; I k] => Some (CampRead (Z.to_nat k), false)
  | L [I 5; I k; I r; I a] => option_map (fun r' => (Insert (Z.to_nat k) r', Z.eqb a 1)) (res_of_z r)
  | L [I 6; I k; I r; I a] => option_map (fun r' => (Cas (Z.to_nat k) r', Z.eqb a 1)) (res_of_z r)
  | L [I 7; I k; I r; I a] => option_map (fun r' => (Renew (Z.to_nat k) r', Z.eqb a 1)) (res_of_z r)
  | L [I 8; I k; I a] => Some (CloseLeader (Z.to_nat k), Z.eqb a 1)
  | L [I 9; I k] => Some (Crash (Z.to_nat k), false)
  | L [I 10; I k; I r] => option_map (fun r' => (Beat (Z.to_nat k) r', false)) (res_of_z r)
  | L [I 11; I k] => Some (CloseBeat (Z.to_nat k), false)
  | L [I 12; I k] => Some (SweepHb (Z.to_nat k), false)
  | L [I 13; I k; I b] => Some (ObsFlag (Z.to_nat k) (Z.eqb b 1), false)
  | L [I 14; ks] => option_map (fun l => (ObsAlive (map Z.to_nat l), false)) (sx_ints ks)
  | _ => None
  end.

(** whether the model predicts that the write changes the election record *)
Definition predicts_applied (U : Z) (s : st) (l : label) : bool :=
  match l with
  | Insert k r => match r, rec s with Fail, _ => false | _, None => true | _, Some _ => false end
  | Cas k r =>
      match r, kpc (K s k), rec s with
      | Fail, _, _ => false
      | _, GoCas old oupd, Some c => Nat.eqb (holder c) old && (upd c =? oupd)
      | _, _, _ => false
      end
  | Renew k r => match r, rec s with Fail, _ => false | _, Some c => Nat.eqb (holder c) k | _, None => false end
  | CloseLeader k => flag (K s k) && match rec s with Some c => Nat.eqb (holder c) k | None => false end
  | _ => false
  end.

Definition is_write (l : label) : bool :=
  match l with Insert _ _ | Cas _ _ | Renew _ _ | CloseLeader _ => true | _ => false end.

(** acceptance: every label is enabled, and the database's report equals the model's prediction *)
Fixpoint accept (U : Z) (s : st) (ls : list sx) (idx : Z) : verdict :=
  match ls with
  | [] => OkCase
  | x :: r =>
      match label_of_sx x with
      | None => BadCase (100 + idx)
      | Some (l, applied) =>
          if is_write l && negb (Bool.eqb (predicts_applied U s l) applied) then Mismatch idx (I (if predicts_applied U s l then 1 else 0))
          else match step U true s l with
               | Some s' => accept U s' r (idx + 1)
               | None => Mismatch idx (L [])
               end
      end
  end.

Definition check_keeper (c : sx) : verdict :=
  match c with
  | L [I U; L ls] => accept U init ls 0
  | _ => BadCase 1
  end.

(* ------------------------------------------------------------------ monitor on what the implementation did *)
Record kmon := { k_now : Z; k_rec : option (nat * Z); k_flags : list bool; k_leases : list Z;
                 k_hb : list (option Z); k_bad : list (Z * Z) }.
Definition kmon0 := {| k_now := 0; k_rec := None; k_flags := []; k_leases := []; k_hb := []; k_bad := [] |}.

Definition kget {A} (d : A) := @get A d.
Definition kset {A} (d : A) := @set A d.

Definition k_valid (U : Z) (m : kmon) (k : nat) : bool :=
  get false (k_flags m) k && (k_now m <? get 0 (k_leases m) k + U).

Definition k_check (U : Z) (n : nat) (idx : Z) (m : kmon) : kmon :=
  let ks := seq 0 n in
  let two := existsb (fun a => existsb (fun b => (a <? b)%nat && k_valid U m a && k_valid U m b) ks) ks in
  let deposed := existsb (fun a => k_valid U m a &&
                     negb match k_rec m with
                          | Some (h, u) => Nat.eqb h a && (u =? get 0 (k_leases m) a)
                          | None => false end) ks in
  {| k_now := k_now m; k_rec := k_rec m; k_flags := k_flags m; k_leases := k_leases m; k_hb := k_hb m;
     k_bad := (if two then [(idx, 1)] else []) ++ (if deposed then [(idx, 2)] else []) ++ k_bad m |}.

Definition k_upd (m : kmon) (rec' : option (nat * Z)) (flags : list bool) (leases : list Z) (now' : Z) (hb : list (option Z)) : kmon :=
  {| k_now := now'; k_rec := rec'; k_flags := flags; k_leases := leases; k_hb := hb; k_bad := k_bad m |}.

Definition kstep (U : Z) (m : kmon) (x : sx) : kmon :=
  match label_of_sx x with
  | None => m
  | Some (l, applied) =>
      match l with
      | Tick d => k_upd m (k_rec m) (k_flags m) (k_leases m) (k_now m + d) (k_hb m)
      | Sweep => k_upd m None (k_flags m) (k_leases m) (k_now m) (k_hb m)
      | CampRead k =>
          match k_rec m with
          | Some (h, u) => if Nat.eqb h k then k_upd m (k_rec m) (k_flags m) (set 0 (k_leases m) k u) (k_now m) (k_hb m) else m
          | None => m
          end
      | Insert k _ | Cas k _ | Renew k _ =>
          if applied then k_upd m (Some (k, k_now m)) (k_flags m) (set 0 (k_leases m) k (k_now m)) (k_now m) (k_hb m) else m
      | CloseLeader k =>
          k_upd m (if applied then None else k_rec m) (set false (k_flags m) k false) (k_leases m) (k_now m) (k_hb m)
      | Crash k => k_upd m (k_rec m) (set false (k_flags m) k false) (k_leases m) (k_now m) (k_hb m)
      | ObsFlag k b => k_upd m (k_rec m) (set false (k_flags m) k b) (k_leases m) (k_now m) (k_hb m)
      | _ => m
      end
  end.

Fixpoint krun (U : Z) (n : nat) (m : kmon) (ls : list sx) (idx : Z) : kmon :=
  match ls with
  | [] => m
  | x :: r => krun U n (k_check U n idx (kstep U m x)) r (idx + 1)
  end.

(** C08 monitor: never two unexpired lease holders, never a leader with an unexpired lease whose
    record was taken away (judged on the database reports and the observed IsLeader values) *)
Definition monitor_keeper (c : sx) : option bool :=
  match c with
  | L [I U; L ls] => Some (match k_bad (krun U 6 kmon0 ls 0) with [] => true | _ => false end)
  | _ => None
  end.

Definition explain_keeper (c : sx) : sx :=
  match c with
  | L [I U; L ls] => L (map (fun p => L [I 8; I (fst p); I (snd p); I 0]) (rev (k_bad (krun U 6 kmon0 ls 0))))
  | _ => L []
  end.

(* ------------------------------------------------------------------ C09 monitor: membership reports *)
(** state: clock and the time of the last stored heartbeat of each worker; at every observed
    AliveNodes() the report must be exactly the workers whose heartbeat is younger than U *)
Fixpoint alive_run (U : Z) (now : Z) (hb : list (option Z)) (ls : list sx) (idx : Z) : list (Z * Z) :=
  match ls with
  | [] => []
  | x :: r =>
      match label_of_sx x with
      | Some (Tick d, _) => alive_run U (now + d) hb r (idx + 1)
      | Some (Beat k res, _) =>
          alive_run U now (match res with Fail => hb | _ => set None hb k (Some now) end) r (idx + 1)
      | Some (CloseBeat k, _) | Some (SweepHb k, _) => alive_run U now (set None hb k None) r (idx + 1)
      | Some (ObsAlive ks, _) =>
          let expect := filter (fun k => match get None hb k with Some u => now - u <? U | None => false end) (seq 0 (length hb)) in
          (if list_eqb Nat.eqb ks expect then [] else [(idx, 1)]) ++ alive_run U now hb r (idx + 1)
      | _ => alive_run U now hb r (idx + 1)
      end
  end.

Definition monitor_alive (c : sx) : option bool :=
  match c with
  | L [I U; L ls] => Some (match alive_run U 0 [] ls 0 with [] => true | _ => false end)
  | _ => None
  end.

Definition explain_alive (c : sx) : sx :=
  match c with
  | L [I U; L ls] => L (map (fun p => L [I 9; I (fst p); I (snd p); I 0]) (alive_run U 0 [] ls 0))
  | _ => L []
  end.
