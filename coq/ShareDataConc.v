(** ShareDataConc: concurrent ShareData.Set calls from the parallel tasks of one instance (pkg/entity/dag.go)
    as a transition system.  One Set: take the mutex, put the value into the in-memory dictionary, save the
    WHOLE dictionary (the save succeeds or fails; on failure the entry is put back as it was), release the
    mutex (deferred).  [locked_save = true] is the code as it is - the save happens under the mutex;
    [locked_save = false] is the variant that releases the mutex before saving a private copy.

    Proved for the code as it is, for every number of threads and every interleaving: whenever the mutex is
    free the in-memory view and the stored dictionary agree; a key that is stored is never lost (whatever
    other Sets do, concurrently or later); when a Set has saved successfully its value is what the store holds
    for that key until the Set returns.  For the variant a witness loses a key.

    The tie to the source is the synchronisation skeleton of Set and Get (family skel, ids 13 and 14) and
    the differential run of the sequential function (family sharedata). *)
From Coq Require Import List ZArith Bool Arith Lia.
From FF Require Import Sx StoreModel StoreCheck PreCheck ShareData.
Import ListNotations.
Local Open Scope Z_scope.

Inductive tpc :=
| TIdle
| TWant (k v : Z)                                   (* Set called, waiting for the mutex *)
| TLocked (k v : Z)                                 (* holds the mutex *)
| TWritten (k v : Z) (old : option Z) (snap : dict) (* entry written; [snap] = the copy that will be saved *)
| TSaved (k v : Z) (ok : bool).                     (* save done; the (deferred) unlock / return is next *)

Record cs := { c_mem : dict; c_stored : dict; c_lock : option nat; c_pc : nat -> tpc }.

Definition updn {A} (f : nat -> A) (k : nat) (v : A) : nat -> A := fun x => if Nat.eqb x k then v else f x.

Inductive clabel :=
| CCall (i : nat) (k v : Z) | CAcquire (i : nat) | CWrite (i : nat) | CSaveOk (i : nat) | CSaveFail (i : nat) | CReturn (i : nat).

Definition restore (m : dict) (k : Z) (old : option Z) : dict :=
  match old with Some o => d_set m k o | None => d_del m k end.

Section C.
  Variable locked_save : bool.

  Definition holds (s : cs) (i : nat) : bool := match c_lock s with Some j => Nat.eqb i j | None => false end.

  Definition cstep (s : cs) (l : clabel) : option cs :=
    match l with
    | CCall i k v =>
        match c_pc s i with
        | TIdle => Some {| c_mem := c_mem s; c_stored := c_stored s; c_lock := c_lock s; c_pc := updn (c_pc s) i (TWant k v) |}
        | _ => None
        end
    | CAcquire i =>
        match c_pc s i, c_lock s with
        | TWant k v, None => Some {| c_mem := c_mem s; c_stored := c_stored s; c_lock := Some i; c_pc := updn (c_pc s) i (TLocked k v) |}
        | _, _ => None
        end
    | CWrite i =>
        match c_pc s i with
        | TLocked k v =>
            let m' := d_set (c_mem s) k v in
            Some {| c_mem := m'; c_stored := c_stored s;
                    c_lock := if locked_save then c_lock s else None;
                    c_pc := updn (c_pc s) i (TWritten k v (d_get (c_mem s) k) m') |}
        | _ => None
        end
    | CSaveOk i =>
        match c_pc s i with
        | TWritten k v old snap =>
            Some {| c_mem := c_mem s; c_stored := snap; c_lock := c_lock s; c_pc := updn (c_pc s) i (TSaved k v true) |}
        | _ => None
        end
    | CSaveFail i =>
        match c_pc s i with
        | TWritten k v old snap =>
            Some {| c_mem := restore (c_mem s) k old; c_stored := c_stored s; c_lock := c_lock s;
                    c_pc := updn (c_pc s) i (TSaved k v false) |}
        | _ => None
        end
    | CReturn i =>
        match c_pc s i with
        | TSaved k v ok =>
            Some {| c_mem := c_mem s; c_stored := c_stored s;
                    c_lock := if holds s i then None else c_lock s;
                    c_pc := updn (c_pc s) i TIdle |}
        | _ => None
        end
    end.

  Fixpoint crun (s : cs) (ls : list clabel) : option cs :=
    match ls with
    | [] => Some s
    | l :: r => match cstep s l with Some s' => crun s' r | None => None end
    end.
End C.

Definition cinit (d : dict) : cs := {| c_mem := d; c_stored := d; c_lock := None; c_pc := fun _ => TIdle |}.

(* ------------------------------------------------------------------ dictionary facts *)
Lemma kv_lookup_filter_other (d : dict) k x :
  x <> k -> kv_lookup (filter (fun p => negb (Z.eqb (fst p) k)) d) x = kv_lookup d x.
Proof.
  intros Hne. unfold kv_lookup. induction d as [|(a, b) r IH]; cbn; [reflexivity|].
  destruct (Z.eqb_spec a k) as [->|Hak]; cbn.
  - destruct (Z.eqb_spec k x) as [->|_]; [contradiction|exact IH].
  - destruct (Z.eqb a x); [reflexivity|exact IH].
Qed.

Lemma kv_lookup_filter_same (d : dict) k : kv_lookup (filter (fun p => negb (Z.eqb (fst p) k)) d) k = None.
Proof.
  unfold kv_lookup. induction d as [|(a, b) r IH]; cbn; [reflexivity|].
  destruct (Z.eqb_spec a k) as [->|Hak]; cbn; [exact IH|].
  destruct (Z.eqb_spec a k); [contradiction|exact IH].
Qed.

Lemma get_set_same d k v : d_get (d_set d k v) k = Some v.
Proof. unfold d_get, d_set, kv_lookup. cbn. rewrite Z.eqb_refl. reflexivity. Qed.

Lemma get_set_other d k v x : x <> k -> d_get (d_set d k v) x = d_get d x.
Proof.
  intros Hne. unfold d_get, d_set. unfold kv_lookup at 1. cbn. destruct (Z.eqb_spec k x) as [->|_]; [contradiction|].
  apply (kv_lookup_filter_other d k x Hne).
Qed.

Lemma get_del_same d k : d_get (d_del d k) k = None.
Proof. apply kv_lookup_filter_same. Qed.

Lemma get_del_other d k x : x <> k -> d_get (d_del d k) x = d_get d x.
Proof. intros Hne. apply (kv_lookup_filter_other d k x Hne). Qed.

Lemma restore_undoes d k v : dict_equiv (restore (d_set d k v) k (d_get d k)) d.
Proof.
  intros x. unfold restore. destruct (d_get d k) as [o|] eqn:E.
  - destruct (Z.eq_dec x k) as [->|Hne]; [rewrite get_set_same; symmetry; exact E|].
    rewrite !get_set_other by exact Hne. reflexivity.
  - destruct (Z.eq_dec x k) as [->|Hne]; [rewrite get_del_same; symmetry; exact E|].
    rewrite get_del_other by exact Hne. apply get_set_other. exact Hne.
Qed.

(* ------------------------------------------------------------------ the invariant of the code as it is *)
Section Facts.
  Notation step1 := (cstep true).

  (** the thread that holds the mutex determines how far the in-memory view is ahead of the store *)
  Record CInv (s : cs) : Prop := {
    ci_free : c_lock s = None -> dict_equiv (c_mem s) (c_stored s) /\
              forall i, match c_pc s i with TIdle | TWant _ _ => True | _ => False end;
    ci_held : forall i, c_lock s = Some i ->
              (forall j, j <> i -> match c_pc s j with TIdle | TWant _ _ => True | _ => False end) /\
              match c_pc s i with
              | TLocked k v => dict_equiv (c_mem s) (c_stored s)
              | TWritten k v old snap =>
                  snap = c_mem s /\ old = d_get (c_stored s) k /\
                  dict_equiv (c_mem s) (d_set (c_stored s) k v) /\ dict_equiv (restore (c_mem s) k old) (c_stored s)
              | TSaved k v ok => dict_equiv (c_mem s) (c_stored s) /\ (ok = true -> d_get (c_stored s) k = Some v)
              | _ => False
              end
  }.

  Lemma cinv_init d : CInv (cinit d).
  Proof. constructor; cbn; [intros _; split; [intros k; reflexivity|intros i; exact Logic.I]|intros i H; discriminate]. Qed.

  Lemma updn_same {A} (f : nat -> A) k v : updn f k v k = v.
  Proof. unfold updn. rewrite Nat.eqb_refl. reflexivity. Qed.
  Lemma updn_other {A} (f : nat -> A) k v x : x <> k -> updn f k v x = f x.
  Proof. unfold updn. intros H. destruct (Nat.eqb_spec x k); [contradiction|reflexivity]. Qed.

  Lemma equiv_trans a b c : dict_equiv a b -> dict_equiv b c -> dict_equiv a c.
  Proof. intros H1 H2 k. rewrite H1. apply H2. Qed.
  Lemma equiv_sym a b : dict_equiv a b -> dict_equiv b a.
  Proof. intros H k. symmetry. apply H. Qed.
  Lemma equiv_set a b k v : dict_equiv a b -> dict_equiv (d_set a k v) (d_set b k v).
  Proof.
    intros H x. destruct (Z.eq_dec x k) as [->|Hne]; [rewrite !get_set_same; reflexivity|].
    rewrite !get_set_other by exact Hne. apply H.
  Qed.
  Lemma equiv_restore a b k o : dict_equiv a b -> dict_equiv (restore a k o) (restore b k o).
  Proof.
    intros H x. unfold restore. destruct o as [o|].
    - apply equiv_set. exact H.
    - destruct (Z.eq_dec x k) as [->|Hne]; [rewrite !get_del_same; reflexivity|]. rewrite !get_del_other by exact Hne. apply H.
  Qed.

  Lemma holder_of s i : CInv s -> match c_pc s i with TIdle | TWant _ _ => False | _ => True end -> c_lock s = Some i.
  Proof.
    intros HI Hp. destruct (c_lock s) as [h|] eqn:El.
    - destruct (ci_held s HI h El) as (A & _). destruct (Nat.eq_dec i h) as [->|Hne]; [reflexivity|].
      specialize (A i Hne). destruct (c_pc s i); contradiction.
    - destruct (ci_free s HI El) as (_ & B). specialize (B i). destruct (c_pc s i); contradiction.
  Qed.

  Lemma cinv_step s l s' : CInv s -> step1 s l = Some s' -> CInv s'.
  Proof.
    intros HI HS. destruct l as [i k v|i|i|i|i|i]; cbn in HS.
    - (* Call *)
      destruct (c_pc s i) eqn:Ep; try discriminate. inversion HS; subst; clear HS.
      constructor; cbn.
      + intros Hl. destruct (ci_free s HI Hl) as (A & B). split; [exact A|].
        intros j. destruct (Nat.eq_dec j i) as [->|Hne]; [rewrite updn_same; exact Logic.I|rewrite updn_other by exact Hne; apply B].
      + intros h Hl. destruct (ci_held s HI h Hl) as (A & B). split.
        * intros j Hj. destruct (Nat.eq_dec j i) as [->|Hne]; [rewrite updn_same; exact Logic.I|rewrite updn_other by exact Hne; apply A; exact Hj].
        * assert (h <> i). { intros ->. rewrite Ep in B. exact B. }
          rewrite updn_other by assumption. exact B.
    - (* Acquire *)
      destruct (c_pc s i) eqn:Ep; try discriminate. destruct (c_lock s) eqn:El; try discriminate.
      inversion HS; subst; clear HS. destruct (ci_free s HI El) as (A & B).
      constructor; cbn; [intros H; discriminate|].
      intros h Hh. inversion Hh; subst h. split.
      + intros j Hj. rewrite updn_other by exact Hj. apply B.
      + rewrite updn_same. exact A.
    - (* Write *)
      destruct (c_pc s i) eqn:Ep; try discriminate. inversion HS; subst; clear HS.
      assert (Hl : c_lock s = Some i) by (apply (holder_of s i HI); rewrite Ep; exact Logic.I).
      destruct (ci_held s HI i Hl) as (A & B). rewrite Ep in B.
      constructor; cbn; [rewrite Hl; intros H; discriminate|].
      intros h Hh. rewrite Hl in Hh. inversion Hh; subst h. split.
      + intros j Hj. rewrite updn_other by exact Hj. apply A. exact Hj.
      + rewrite updn_same. repeat split.
        * apply B.
        * apply equiv_set. exact B.
        * eapply equiv_trans; [|apply (restore_undoes (c_stored s) k v)].
          rewrite (B k). apply equiv_restore. apply equiv_set. exact B.
    - (* SaveOk *)
      destruct (c_pc s i) eqn:Ep; try discriminate. inversion HS; subst; clear HS.
      assert (Hl : c_lock s = Some i) by (apply (holder_of s i HI); rewrite Ep; exact Logic.I).
      destruct (ci_held s HI i Hl) as (A & B). rewrite Ep in B. destruct B as (B1 & B2 & B3 & B4).
      constructor; cbn; [rewrite Hl; intros H; discriminate|].
      intros h Hh. rewrite Hl in Hh. inversion Hh; subst h. split.
      + intros j Hj. rewrite updn_other by exact Hj. apply A. exact Hj.
      + rewrite updn_same. subst snap. split; [intros x; reflexivity|]. intros _. rewrite (B3 k). apply get_set_same.
    - (* SaveFail *)
      destruct (c_pc s i) eqn:Ep; try discriminate. inversion HS; subst; clear HS.
      assert (Hl : c_lock s = Some i) by (apply (holder_of s i HI); rewrite Ep; exact Logic.I).
      destruct (ci_held s HI i Hl) as (A & B). rewrite Ep in B. destruct B as (B1 & B2 & B3 & B4).
      constructor; cbn; [rewrite Hl; intros H; discriminate|].
      intros h Hh. rewrite Hl in Hh. inversion Hh; subst h. split.
      + intros j Hj. rewrite updn_other by exact Hj. apply A. exact Hj.
      + rewrite updn_same. split; [exact B4|intros H; discriminate].
    - (* Return *)
      destruct (c_pc s i) eqn:Ep; try discriminate. inversion HS; subst; clear HS.
      assert (Hl : c_lock s = Some i) by (apply (holder_of s i HI); rewrite Ep; exact Logic.I).
      destruct (ci_held s HI i Hl) as (A & B). rewrite Ep in B. destruct B as (B1 & B2).
      unfold holds. rewrite Hl, Nat.eqb_refl.
      constructor; cbn; [|intros h H; discriminate].
      intros _. split; [exact B1|].
      intros j. destruct (Nat.eq_dec j i) as [->|Hne]; [rewrite updn_same; exact Logic.I|].
      rewrite updn_other by exact Hne. apply A. exact Hne.
  Qed.

  Theorem cinv_reach ls : forall s s', CInv s -> crun true s ls = Some s' -> CInv s'.
  Proof.
    induction ls as [|l r IH]; cbn; intros s s' HI HR; [inversion HR; subst; exact HI|].
    destruct (step1 s l) as [s1|] eqn:E; [|discriminate]. eapply IH; [eapply cinv_step; eassumption|exact HR].
  Qed.

  (** whenever no Set is inside its critical section, the in-memory view is exactly what is stored *)
  Theorem free_agrees d ls s : crun true (cinit d) ls = Some s -> c_lock s = None -> dict_equiv (c_mem s) (c_stored s).
  Proof. intros HR Hl. apply (ci_free s (cinv_reach ls _ _ (cinv_init d) HR) Hl). Qed.

  (** a key that is stored is never lost, whatever the other Sets do *)
  Theorem stored_key_kept s l s' k : CInv s -> step1 s l = Some s' -> d_get (c_stored s) k <> None -> d_get (c_stored s') k <> None.
  Proof.
    intros HI HS Hk. destruct l as [i k0 v|i|i|i|i|i]; cbn in HS;
      try (destruct (c_pc s i) eqn:Ep; try discriminate; try (destruct (c_lock s); try discriminate); inversion HS; subst; cbn; exact Hk).
    (* SaveOk: the saved copy is the store plus one entry *)
    destruct (c_pc s i) eqn:Ep; try discriminate. inversion HS; subst; clear HS. cbn.
    assert (Hl : c_lock s = Some i) by (apply (holder_of s i HI); rewrite Ep; exact Logic.I).
    destruct (ci_held s HI i Hl) as (_ & B). rewrite Ep in B. destruct B as (B1 & _ & B3 & _). subst snap.
    rewrite (B3 k). destruct (Z.eq_dec k k0) as [->|Hne]; [rewrite get_set_same; discriminate|].
    rewrite get_set_other by exact Hne. exact Hk.
  Qed.

  (** when a Set returns after a successful save, the store holds its value for that key *)
  Theorem set_returns_stored d ls s i k v s' :
    crun true (cinit d) ls = Some s -> c_pc s i = TSaved k v true -> step1 s (CReturn i) = Some s' ->
    d_get (c_stored s') k = Some v.
  Proof.
    intros HR Ep HS. pose proof (cinv_reach ls _ _ (cinv_init d) HR) as HI.
    cbn in HS. rewrite Ep in HS. inversion HS; subst; clear HS. cbn.
    assert (Hl : c_lock s = Some i) by (apply (holder_of s i HI); rewrite Ep; exact Logic.I).
    destruct (ci_held s HI i Hl) as (_ & B). rewrite Ep in B. apply B. reflexivity.
  Qed.

  (** ... and when the save failed, the in-memory view is the store again (the entry was put back) *)
  Theorem failed_set_rolled_back d ls s i k v :
    crun true (cinit d) ls = Some s -> c_pc s i = TSaved k v false -> dict_equiv (c_mem s) (c_stored s).
  Proof.
    intros HR Ep. pose proof (cinv_reach ls _ _ (cinv_init d) HR) as HI.
    assert (Hl : c_lock s = Some i) by (apply (holder_of s i HI); rewrite Ep; exact Logic.I).
    destruct (ci_held s HI i Hl) as (_ & B). rewrite Ep in B. apply B.
  Qed.
End Facts.

(** the variant that saves outside the mutex loses a key: thread 1 sets key 1, thread 2 sets key 2, the two
    saves land in the other order *)
Definition w_lost_key : list clabel :=
  [CCall 1 1 11; CCall 2 2 22; CAcquire 1; CWrite 1; CAcquire 2; CWrite 2; CSaveOk 2; CReturn 2; CSaveOk 1; CReturn 1].

Theorem unlocked_save_refuted :
  exists s, crun false (cinit []) w_lost_key = Some s /\ c_lock s = None /\
            d_get (c_mem s) 2 = Some 22 /\ d_get (c_stored s) 2 = None.
Proof. eexists. split; [vm_compute; reflexivity|]. repeat split. Qed.

Example locked_save_keeps_both :
  exists s, crun true (cinit []) [CCall 1 1 11; CCall 2 2 22; CAcquire 1; CWrite 1; CSaveOk 1; CReturn 1; CAcquire 2; CWrite 2; CSaveOk 2; CReturn 2] = Some s /\
            d_get (c_stored s) 1 = Some 11 /\ d_get (c_stored s) 2 = Some 22.
Proof. eexists. split; [vm_compute; reflexivity|]. split; reflexivity. Qed.
