From Coq Require Import List ZArith Bool Arith Lia.
From FF Require Import Sx StoreModel PreCheck.
Import ListNotations.
Local Open Scope Z_scope.

Theorem terminal_inactive st checks vars share :
  last_state st = true -> pre_outcomes st checks vars share = [].
Proof. intros H. unfold pre_outcomes. rewrite H. reflexivity. Qed.

Theorem outcomes_are_skip_block_or_error st checks vars share o :
  In o (pre_outcomes st checks vars share) -> o = 10 \/ o = 8 \/ o = -1.
Proof.
  unfold pre_outcomes. destruct (last_state st); [intros []|].
  intros H. apply in_map_iff in H as [k [<- _]]. unfold fire.
  destruct (Z.eqb (k_act k) 1); [auto|]. destruct (Z.eqb (k_act k) 2); auto.
Qed.

(** a continued task is never blocked again by its block checks *)
Theorem continue_never_blocked checks vars share :
  ~ In 8 (pre_outcomes 9 checks vars share).
Proof.
  unfold pre_outcomes. simpl. intros H. apply in_map_iff in H as [k [Hf Hk]].
  apply filter_In in Hk as [_ Hc]. unfold can_fire in Hc. apply andb_true_iff in Hc as [Hc _].
  unfold fire in Hf. destruct (Z.eqb (k_act k) 1) eqn:E1; [discriminate|].
  destruct (Z.eqb (k_act k) 2) eqn:E2; [|discriminate]. simpl in Hc. discriminate.
Qed.

(** a met skip check fires whatever the (non-terminal) status, also after continue *)
Theorem met_skip_fires st checks vars share k :
  last_state st = false -> In k checks -> k_act k = 1 -> chk_met vars share k = true ->
  In 10 (pre_outcomes st checks vars share).
Proof.
  intros Hl Hk Ha Hm. unfold pre_outcomes. rewrite Hl. apply in_map_iff. exists k. split.
  - unfold fire. rewrite Ha. reflexivity.
  - apply filter_In. split; [exact Hk|]. unfold can_fire. rewrite Ha, Hm. reflexivity.
Qed.

(** a met block check fires unless the task was continued *)
Theorem met_block_fires st checks vars share k :
  last_state st = false -> st <> 9 -> In k checks -> k_act k = 2 -> chk_met vars share k = true ->
  In 8 (pre_outcomes st checks vars share).
Proof.
  intros Hl Hs Hk Ha Hm. unfold pre_outcomes. rewrite Hl. apply in_map_iff. exists k. split.
  - unfold fire. rewrite Ha. reflexivity.
  - apply filter_In. split; [exact Hk|]. unfold can_fire. rewrite Ha, Hm.
    apply Z.eqb_neq in Hs. rewrite Hs. reflexivity.
Qed.

(** nothing met => the task runs normally *)
Theorem nothing_met_inactive st checks vars share :
  (forall k, In k checks -> chk_met vars share k = false) -> pre_outcomes st checks vars share = [].
Proof.
  intros H. unfold pre_outcomes. destruct (last_state st); [reflexivity|].
  replace (filter (can_fire st vars share) checks) with (@nil chk); [reflexivity|].
  symmetry. induction checks as [|k r IH]; [reflexivity|]. simpl.
  unfold can_fire at 1. rewrite (H k (or_introl eq_refl)), andb_false_r.
  apply IH. intros k' Hk'. apply H. right. exact Hk'.
Qed.

(** a key that is absent never satisfies a condition, for either operator *)
Theorem absent_key_not_met vars share c :
  kv_lookup (if Z.eqb (c_src c) 1 then vars else share) (c_key c) = None -> cond_met vars share c = false.
Proof. intros H. unfold cond_met. rewrite H. reflexivity. Qed.

Example precheck_example :
  pre_outcomes 1 [mkChk 2 [mkCond 1 7 [3] 1]; mkChk 1 [mkCond 2 5 [] 2]] [(7, 3)] [(5, 9)] = [8; 10]
  /\ pre_outcomes 9 [mkChk 2 [mkCond 1 7 [3] 1]; mkChk 1 [mkCond 2 5 [] 2]] [(7, 3)] [(5, 9)] = [10].
Proof. split; reflexivity. Qed.
