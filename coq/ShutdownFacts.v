(** Facts about the Shutdown models: safety and termination of Close in the current code (variant 2),
    reachable deadlocks in the two earlier variants, safety and termination of the executor's Close. *)
From Coq Require Import List Arith Bool Lia.
From FF Require Import Shutdown.
Import ListNotations.

Ltac inv H := inversion H; subst; clear H.

(** ------------------------------------------------------------------------------------------ *)
(** Parser, current code *)

Section V2.
  Variable cap fan : nat.
  Notation step := (pstep 2 cap fan).
  Notation run := (prun 2 cap fan).

  Definition PInv (s : pst) : Prop :=
    wr s = false /\ rd s = 0 /\ bw s = 0 /\ panicked s = false /\ q s <= cap /\
    match cl s with
    | CNot => ww s = false /\ closed s = false /\ qclosed s = false /\ wk s <> WExited
    | CWantLock => ww s = true /\ closed s = false /\ qclosed s = false /\ wk s <> WExited
    | CWaitSenders => ww s = false /\ closed s = true /\ qclosed s = false /\ wk s <> WExited
    | CWaitWorkers => ww s = false /\ closed s = true /\ qclosed s = true /\ bs s = 0 /\ (wk s = WExited -> q s = 0)
    | CRet => ww s = false /\ closed s = true /\ qclosed s = true /\ bs s = 0 /\ wk s = WExited /\ q s = 0
    end.

  Lemma pinv_init : PInv pinit.
  Proof. unfold PInv, pinit; cbn. repeat split; try lia; discriminate. Qed.

  Ltac crush :=
    repeat match goal with
           | H : Some _ = Some _ |- _ => inv H
           | H : None = Some _ |- _ => discriminate H
           | H : _ /\ _ |- _ => destruct H
           | H : context [if ?b then _ else _] |- _ => destruct b eqn:?
           | H : context [match ?x with _ => _ end] |- _ => destruct x eqn:?
           end.

  Ltac arith_hyps :=
    repeat match goal with
           | H : (_ <=? _) = true |- _ => apply Nat.leb_le in H
           | H : (_ <? _) = true |- _ => apply Nat.ltb_lt in H
           | H : (_ <=? _) = false |- _ => apply Nat.leb_gt in H
           | H : (_ <? _) = false |- _ => apply Nat.ltb_ge in H
           end.

  Lemma pinv_step s l s' : PInv s -> step s l = Some s' -> PInv s'.
  Proof.
    intros HI HS. destruct s as [rd0 wr0 ww0 cd0 qc0 q0 bs0 bw0 wk0 cl0 ext0 pn0].
    unfold PInv in *. cbn in HI. destruct HI as (H1 & H2 & H3 & H4 & H5 & H6). subst.
    destruct l; cbn in HS; unfold enter, set_wk, can_read in HS; cbn in HS.
    all: destruct cl0; destruct H6 as (? & ? & ? & H9); subst; cbn in HS; crush; cbn.
    all: repeat match goal with H : _ /\ _ |- _ => destruct H end; subst.
    all: arith_hyps.
    all: repeat split; try lia; try congruence; try discriminate; auto.
    all: try (intros; discriminate).
  Qed.

  Theorem pinv_reach ls : forall s s', PInv s -> run s ls = Some s' -> PInv s'.
  Proof.
    induction ls as [|l ls IH]; cbn; intros s s' HI HR.
    - inv HR. exact HI.
    - destruct (step s l) as [s1|] eqn:E; [|discriminate]. eapply IH; [eapply pinv_step; eassumption|exact HR].
  Qed.

  (** no send on a closed channel, in every reachable state *)
  Theorem parser_no_panic ls s : run pinit ls = Some s -> panicked s = false.
  Proof. intros H. apply (pinv_reach ls pinit s pinv_init) in H. apply H. Qed.

  (** once Close has returned: the worker is gone, the queue is empty, nobody waits to send, and this
      stays so whatever happens afterwards *)
  Definition quiet (s : pst) : Prop :=
    cl s = CRet /\ wk s = WExited /\ q s = 0 /\ bs s = 0 /\ bw s = 0 /\ rd s = 0 /\ wr s = false.

  Lemma pinv_ret_quiet s : PInv s -> cl s = CRet -> quiet s.
  Proof.
    unfold PInv, quiet. intros (H1 & H2 & H3 & H4 & H5 & H6) HC. rewrite HC in H6.
    destruct H6 as (? & ? & ? & ? & ? & ?). repeat split; auto.
  Qed.

  Lemma ret_stays s l s' : PInv s -> cl s = CRet -> step s l = Some s' -> cl s' = CRet.
  Proof.
    intros HI HC HS. destruct s as [rd0 wr0 ww0 cd0 qc0 q0 bs0 bw0 wk0 cl0 ext0 pn0].
    unfold PInv in HI. cbn in HI, HC. subst cl0. destruct HI as (H1 & H2 & H3 & H4 & H5 & H6 & H7 & H8 & H9 & H10 & H11). subst.
    destruct l; cbn in HS; unfold enter, set_wk, can_read in HS; cbn in HS; crush; reflexivity.
  Qed.

  Theorem parser_closed_for_good ls1 ls2 s s' :
    run pinit ls1 = Some s -> cl s = CRet -> run s ls2 = Some s' -> quiet s'.
  Proof.
    intros H1 HC H2. pose proof (pinv_reach ls1 pinit s pinv_init H1) as HI.
    assert (HI' : PInv s') by (eapply pinv_reach; eassumption).
    apply pinv_ret_quiet; [exact HI'|].
    clear H1. revert s HC H2 HI. induction ls2 as [|l ls IH]; cbn; intros s HC H2 HI.
    - inv H2. exact HC.
    - destruct (step s l) as [s1|] eqn:E; [|discriminate].
      eapply IH; [eapply ret_stays; eassumption|exact H2|eapply pinv_step; eassumption].
  Qed.

  (** Close returns only after the worker has exited with an empty queue *)
  Theorem parser_return_after_workers s s' : PInv s -> step s CReturn = Some s' -> wk s = WExited /\ q s = 0 /\ bs s = 0.
  Proof.
    intros HI HS. destruct s as [rd0 wr0 ww0 cd0 qc0 q0 bs0 bw0 wk0 cl0 ext0 pn0].
    unfold PInv in HI. cbn in *. destruct cl0; try discriminate. destruct wk0; try discriminate.
    destruct HI as (_ & _ & _ & _ & _ & _ & _ & _ & ? & HQ). repeat split; auto.
  Qed.

  (** progress: while Close is in progress some internal step is enabled *)
  Theorem parser_progress s : PInv s -> closing s = true -> enabled 2 cap fan s = true.
  Proof.
    intros HI HC. destruct s as [rd0 wr0 ww0 cd0 qc0 q0 bs0 bw0 wk0 cl0 ext0 pn0].
    unfold PInv in HI. cbn in HI, HC. destruct HI as (H1 & H2 & H3 & H4 & H5 & H6). subst.
    unfold enabled, candidates. cbn [existsb].
    destruct cl0; try discriminate; destruct H6 as (? & ? & ? & H9); subst.
    - (* CWantLock: the write lock is free, nobody holds the read lock *)
      cbn. rewrite !orb_true_r. reflexivity.
    - (* CWaitSenders *)
      destruct bs0; cbn; rewrite ?orb_true_r; reflexivity.
    - (* CWaitWorkers *)
      destruct H9 as (? & HQ). subst.
      destruct wk0 as [|k|k|]; cbn.
      + destruct q0; cbn; rewrite ?orb_true_r; reflexivity.
      + destruct k; cbn; rewrite ?orb_true_r; reflexivity.
      + unfold can_read; cbn. rewrite ?orb_true_r; reflexivity.
      + rewrite ?orb_true_r; reflexivity.
  Qed.

  Lemma candidates_internal : forallb internal (candidates) = true.
  Proof. reflexivity. Qed.

  (** every internal step taken while Close is in progress decreases the measure *)
  Theorem parser_decrease s l s' :
    PInv s -> closing s = true -> internal l = true -> step s l = Some s' -> measure fan s' < measure fan s.
  Proof.
    intros HI HC HL HS. destruct s as [rd0 wr0 ww0 cd0 qc0 q0 bs0 bw0 wk0 cl0 ext0 pn0].
    unfold PInv in HI. cbn in HI, HC. destruct HI as (H1 & H2 & H3 & H4 & H5 & H6). subst.
    unfold measure.
    destruct l; try discriminate HL; cbn in HS; unfold enter, set_wk, can_read in HS; cbn in HS.
    all: destruct cl0; try discriminate HC; destruct H6 as (? & ? & ? & H9); subst; cbn in HS; crush; cbn [cl bs q wk ext phw wkw].
    all: arith_hyps.
    all: try nia.
  Qed.

  (** hence Close returns: from every state in which it is in progress, every sequence of internal
      steps is shorter than the measure, and one of them ends with Close returned *)
  Theorem parser_close_returns : forall n s, PInv s -> closing s = true -> measure fan s <= n ->
    exists ls s', Forall (fun l => internal l = true) ls /\ run s ls = Some s' /\ cl s' = CRet /\ length ls <= n.
  Proof.
    induction n as [|n IH]; intros s HI HC HM.
    - exfalso. unfold measure in HM. destruct (cl s) eqn:E; unfold closing in HC; rewrite E in HC; try discriminate; cbn in HM; lia.
    - pose proof (parser_progress s HI HC) as HE. unfold enabled in HE. apply existsb_exists in HE.
      destruct HE as (l & Hin & Hl). destruct (step s l) as [s1|] eqn:E; [|discriminate].
      assert (HLi : internal l = true).
      { pose proof candidates_internal as HF. rewrite forallb_forall in HF. apply HF. exact Hin. }
      pose proof (parser_decrease s l s1 HI HC HLi E) as HD.
      pose proof (pinv_step s l s1 HI E) as HI1.
      destruct (closing s1) eqn:HC1.
      + destruct (IH s1 HI1 HC1 ltac:(lia)) as (ls & s' & HF & HR & HCl & HLn).
        exists (l :: ls), s'. repeat split; [constructor; assumption| cbn; rewrite E; exact HR | exact HCl | cbn; lia].
      + (* no longer closing: it returned (a step never goes back to CNot) *)
        assert (cl s1 = CRet).
        { destruct s as [rd0 wr0 ww0 cd0 qc0 q0 bs0 bw0 wk0 cl0 ext0 pn0].
          clear - E HC HC1 Hin. unfold closing in *. cbn in HC.
          cbn in Hin. repeat (destruct Hin as [Hin|Hin]; [subst l|]); try contradiction;
            cbn in E; unfold enter, set_wk, can_read in E; cbn in E; crush; cbn in *; try discriminate; try reflexivity. }
        exists [l], s1. repeat split; [constructor; [assumption|constructor] | cbn; rewrite E; reflexivity | assumption | cbn; lia].
  Qed.

  (** runs of internal steps during which Close is in progress *)
  Fixpoint crun (s : pst) (ls : list plabel) : option pst :=
    match ls with
    | [] => Some s
    | l :: t => if closing s && internal l
                then match step s l with Some s1 => crun s1 t | None => None end
                else None
    end.

  Theorem parser_runs_bounded : forall ls s s', PInv s -> crun s ls = Some s' -> length ls <= measure fan s.
  Proof.
    induction ls as [|l ls IH]; intros s s' HI HR.
    - cbn; lia.
    - cbn in HR. destruct (closing s) eqn:HC; [|discriminate]. destruct (internal l) eqn:HL; [|discriminate]. cbn in HR.
      destruct (step s l) as [s1|] eqn:E; [|discriminate].
      pose proof (parser_decrease s l s1 HI HC HL E) as HD.
      pose proof (pinv_step s l s1 HI E) as HI1.
      specialize (IH s1 s' HI1 HR). cbn. lia.
  Qed.
End V2.

(** ------------------------------------------------------------------------------------------ *)
(** Parser, any variant: [enabled] is complete for internal steps; a stuck state stays stuck *)

Section AnyVariant.
  Variable variant cap fan : nat.
  Notation step := (pstep variant cap fan).

  Lemma take_any_take0 s k s' : step s (WTake k) = Some s' -> exists s0, step s (WTake 0) = Some s0.
  Proof.
    cbn. destruct (wk s); try discriminate. destruct (q s); try discriminate.
    destruct (k <=? fan); try discriminate. intros _. eexists; reflexivity.
  Qed.

  Lemma enabled_complete s l s' : internal l = true -> step s l = Some s' -> enabled variant cap fan s = true.
  Proof.
    intros HL HS. unfold enabled, candidates. cbn [existsb].
    destruct l; try discriminate HL;
      try (rewrite HS; rewrite ?orb_true_r; reflexivity).
    destruct (take_any_take0 s k s' HS) as (s0 & H0). rewrite H0. rewrite ?orb_true_r; reflexivity.
  Qed.

  Definition is_some (o : option pst) : bool := match o with Some _ => true | None => false end.
  Definition with_ext (s : pst) (e : nat) : pst :=
    {| rd := rd s; wr := wr s; ww := ww s; closed := closed s; qclosed := qclosed s; q := q s; bs := bs s;
       bw := bw s; wk := wk s; cl := cl s; ext := e; panicked := panicked s |}.

  Lemma en_ext s e l : l <> ExtEnter -> is_some (step (with_ext s e) l) = is_some (step s l).
  Proof.
    intros HN. destruct s as [rd0 wr0 ww0 cd0 qc0 q0 bs0 bw0 wk0 cl0 ext0 pn0]. unfold with_ext. cbn.
    destruct l; try congruence; cbn; unfold can_read; cbn;
      repeat match goal with |- context [match ?x with _ => _ end] => destruct x end; reflexivity.
  Qed.

  Lemma enabled_ext s e : can_read s = false -> enabled variant cap fan (with_ext s e) = enabled variant cap fan s.
  Proof.
    intros HR. unfold enabled, candidates. cbn [existsb].
    change (fun l : plabel => match step ?s l with Some _ => true | None => false end) with (fun l => is_some (step s l)).
    assert (HX : forall s0, can_read s0 = false -> is_some (step s0 ExtEnter) = false).
    { intros s0 H0. cbn. destruct (ext s0); [reflexivity|]. rewrite H0. reflexivity. }
    fold (is_some (step (with_ext s e) ExtEnter)). fold (is_some (step s ExtEnter)).
    rewrite (HX s HR). rewrite (HX (with_ext s e)) by (destruct s; exact HR).
    repeat match goal with
           | |- context [match step (with_ext s e) ?l with Some _ => true | None => false end] =>
               change (match step (with_ext s e) l with Some _ => true | None => false end) with (is_some (step (with_ext s e) l));
               rewrite (en_ext s e l) by discriminate
           end.
    reflexivity.
  Qed.

  Lemma stuck_forever s : stuck variant cap fan s = true -> can_read s = false ->
    forall l s', step s l = Some s' -> stuck variant cap fan s' = true /\ can_read s' = false.
  Proof.
    unfold stuck. intros HS HR l s' HL. apply andb_true_iff in HS. destruct HS as (HC & HE). apply negb_true_iff in HE.
    destruct (internal l) eqn:HI.
    - rewrite (enabled_complete s l s' HI HL) in HE. discriminate.
    - destruct l; try discriminate HI; cbn in HL.
      + inversion HL; subst; clear HL. fold (with_ext s (S (ext s))).
        rewrite (enabled_ext s _ HR). rewrite HE.
        split; [apply andb_true_iff; split; [destruct s; exact HC | reflexivity] | destruct s; exact HR].
      + unfold closing in HC. destruct (cl s); discriminate.
  Qed.

  Theorem stuck_never_returns s : stuck variant cap fan s = true -> can_read s = false ->
    forall ls s', prun variant cap fan s ls = Some s' -> cl s' <> CRet.
  Proof.
    intros HS HR ls. revert s HS HR. induction ls as [|l ls IH]; cbn; intros s HS HR s' HRun.
    - inversion HRun; subst. unfold stuck, closing in HS. destruct (cl s'); try discriminate; cbn in HS; discriminate.
    - destruct (step s l) as [s1|] eqn:E; [|discriminate].
      destruct (stuck_forever s HS HR l s1 E) as (H1 & H2). eapply IH; eassumption.
  Qed.
End AnyVariant.

(** the pinned code: Close holds the write lock while it waits for a worker that has to enter a task again *)
Definition witness0 : list plabel := [ExtArrive; ExtEnter; WTake 1; CCall; CLock; WNeed].
(** after fix 57f3a0c: the queue (capacity 50) is full, a sender waits for room holding the read lock,
    Close waits for the write lock, the worker that should drain the queue waits for the read lock *)
Definition witness1 : list plabel :=
  [ExtArrive; ExtEnter; WTake 52] ++ concat (repeat [WNeed; WEnter] 51) ++ [BLock; CCall; WNeed].

Theorem pinned_parser_close_deadlocks :
  exists s, prun 0 50 60 pinit witness0 = Some s /\ stuck 0 50 60 s = true /\ can_read s = false.
Proof. eexists. split; [vm_compute; reflexivity|]. split; vm_compute; reflexivity. Qed.

Theorem full_queue_parser_close_deadlocks :
  exists s, prun 1 50 60 pinit witness1 = Some s /\ stuck 1 50 60 s = true /\ can_read s = false.
Proof. eexists. split; [vm_compute; reflexivity|]. split; vm_compute; reflexivity. Qed.

(** the corresponding schedule of the current code (the sender that waits for room holds no lock) is not stuck *)
Definition witness2 : list plabel :=
  [ExtArrive; ExtEnter; WTake 52] ++ concat (repeat [WNeed; WEnter] 51) ++ [CCall; WNeed].
Example witness2_current :
  exists s, prun 2 50 60 pinit witness2 = Some s /\ bs s = 1 /\ q s = 50 /\ closing s = true /\ stuck 2 50 60 s = false.
Proof. eexists. split; [vm_compute; reflexivity|]. repeat split; vm_compute; reflexivity. Qed.

(** ------------------------------------------------------------------------------------------ *)
(** Executor *)

Section E.
  Variable workers : nat.
  Hypothesis workers_pos : 0 < workers.

  Definition EInv (s : est) : Prop :=
    e_started s = e_stored s + e_run s /\ e_panicked s = false /\ e_idle s + e_run s + e_gone s = workers /\
    match e_cl s with
    | ENot => e_wr s = false /\ e_ww s = false /\ e_closed s = false /\ e_iqclosed s = false /\ e_wqclosed s = false /\
              e_init s <> IExited /\ e_gone s = 0
    | EWantLock => e_wr s = false /\ e_ww s = true /\ e_closed s = false /\ e_iqclosed s = false /\ e_wqclosed s = false /\
                   e_init s <> IExited /\ e_gone s = 0
    | EWaitInit => e_wr s = true /\ e_ww s = false /\ e_closed s = true /\ e_iqclosed s = true /\ e_wqclosed s = false /\
                   e_hold s = 0 /\ e_gone s = 0
    | EWaitWorkers => e_wr s = true /\ e_ww s = false /\ e_closed s = true /\ e_iqclosed s = true /\ e_wqclosed s = true /\
                      e_hold s = 0 /\ e_init s = IExited
    | ERet => e_wr s = false /\ e_ww s = false /\ e_closed s = true /\ e_iqclosed s = true /\ e_wqclosed s = true /\
              e_hold s = 0 /\ e_init s = IExited /\ e_idle s = 0 /\ e_run s = 0
    end.

  Lemma einv_init : EInv (einit workers).
  Proof. unfold EInv, einit; cbn. repeat split; try lia; discriminate. Qed.

  Ltac ecrush :=
    repeat match goal with
           | H : Some _ = Some _ |- _ => inv H
           | H : None = Some _ |- _ => discriminate H
           | H : _ /\ _ |- _ => destruct H
           | H : context [if ?b then _ else _] |- _ => destruct b eqn:?
           | H : context [match ?x with _ => _ end] |- _ => destruct x eqn:?
           end.

  Lemma einv_step s l s' : EInv s -> estep s l = Some s' -> EInv s'.
  Proof.
    intros HI HS. destruct s as [w0 h0 wr0 ww0 cd0 iq0 wq0 in0 id0 rn0 gn0 cl0 st0 sd0 pn0].
    unfold EInv in *. cbn in HI. destruct HI as (H1 & H2 & H3 & H4). subst.
    destruct l; cbn in HS.
    all: destruct cl0; cbn in HS; ecrush; cbn.
    all: repeat match goal with H : _ /\ _ |- _ => destruct H end; subst; cbn in *.
    all: repeat split; try lia; try congruence; try discriminate; auto.
  Qed.

  Theorem einv_reach ls : forall s s', EInv s -> erun s ls = Some s' -> EInv s'.
  Proof.
    induction ls as [|l ls IH]; cbn; intros s s' HI HR.
    - inv HR. exact HI.
    - destruct (estep s l) as [s1|] eqn:E; [|discriminate]. eapply IH; [eapply einv_step; eassumption|exact HR].
  Qed.

  Theorem executor_no_panic ls s : erun (einit workers) ls = Some s -> e_panicked s = false.
  Proof. intros H. apply (einv_reach ls _ s einv_init) in H. apply H. Qed.

  (** when Close has returned every action run that was started has ended and stored its status,
      every worker is gone, and no further run is ever started *)
  Theorem executor_close_waits ls s :
    erun (einit workers) ls = Some s -> e_cl s = ERet ->
    e_started s = e_stored s /\ e_run s = 0 /\ e_idle s = 0 /\ e_gone s = workers /\ e_init s = IExited.
  Proof.
    intros H HC. apply (einv_reach ls _ s einv_init) in H. unfold EInv in H. rewrite HC in H.
    destruct H as (H1 & H2 & H3 & H4 & H5 & H6 & H7 & H8 & H9 & H10 & H11 & H12). repeat split; try lia; auto.
  Qed.

  Lemma eret_stays s l s' : EInv s -> e_cl s = ERet -> estep s l = Some s' ->
    e_cl s' = ERet /\ e_started s' = e_started s /\ e_stored s' = e_stored s.
  Proof.
    intros HI HC HS. destruct s as [w0 h0 wr0 ww0 cd0 iq0 wq0 in0 id0 rn0 gn0 cl0 st0 sd0 pn0].
    unfold EInv in HI. cbn in HI, HC. subst cl0. destruct HI as (H1 & H2 & H3 & H4 & H5 & H6 & H7 & H8 & H9 & H10 & H11 & H12). subst.
    destruct l; cbn in HS; ecrush; cbn; repeat split; reflexivity.
  Qed.

  Theorem executor_closed_for_good ls1 ls2 s s' :
    erun (einit workers) ls1 = Some s -> e_cl s = ERet -> erun s ls2 = Some s' ->
    e_cl s' = ERet /\ e_started s' = e_started s /\ e_run s' = 0.
  Proof.
    intros H1 HC H2. pose proof (einv_reach ls1 _ s einv_init H1) as HI. clear H1.
    assert (HG : e_cl s' = ERet /\ e_started s' = e_started s /\ EInv s').
    { revert s HC H2 HI. induction ls2 as [|l ls IH]; cbn; intros s HC H2 HI.
      - inv H2. auto.
      - destruct (estep s l) as [s1|] eqn:E; [|discriminate].
        destruct (eret_stays s l s1 HI HC E) as (A & B & C).
        destruct (IH s1 A H2 (einv_step s l s1 HI E)) as (D & F & G). split; [exact D|]. split; [congruence|exact G]. }
    destruct HG as (A & B & C). repeat split; auto.
    unfold EInv in C. rewrite A in C. destruct C as (_ & _ & _ & _ & _ & _ & _ & _ & _ & _ & _ & C). exact C.
  Qed.

  Theorem executor_progress s : EInv s -> eclosing s = true -> eenabled s = true.
  Proof.
    intros HI HC. destruct s as [w0 h0 wr0 ww0 cd0 iq0 wq0 in0 id0 rn0 gn0 cl0 st0 sd0 pn0].
    unfold EInv in HI. cbn in HI, HC. destruct HI as (H1 & H2 & H3 & H4). subst.
    unfold eenabled, ecandidates. cbn [existsb].
    destruct cl0; try discriminate; destruct H4 as (? & ? & ? & ? & ? & H9 & H10); subst.
    - (* EWantLock *)
      destruct h0 as [|h]; [cbn; rewrite ?orb_true_r; reflexivity|].
      destruct in0; [cbn; rewrite ?orb_true_r; reflexivity| |congruence].
      destruct id0 as [|i]; [|cbn; rewrite ?orb_true_r; reflexivity].
      destruct rn0 as [|r]; [cbn in *; lia|cbn; rewrite ?orb_true_r; reflexivity].
    - (* EWaitInit *)
      destruct in0; [cbn; rewrite ?orb_true_r; reflexivity| |cbn; rewrite ?orb_true_r; reflexivity].
      destruct id0 as [|i]; [|cbn; rewrite ?orb_true_r; reflexivity].
      destruct rn0 as [|r]; [cbn in *; lia|cbn; rewrite ?orb_true_r; reflexivity].
    - (* EWaitWorkers *)
      destruct id0 as [|i]; [|cbn; rewrite ?orb_true_r; reflexivity].
      destruct rn0 as [|r]; cbn; rewrite ?orb_true_r; reflexivity.
  Qed.

  Theorem executor_decrease s l s' :
    EInv s -> eclosing s = true -> einternal l = true -> estep s l = Some s' -> emeasure s' < emeasure s.
  Proof.
    intros HI HC HL HS. destruct s as [w0 h0 wr0 ww0 cd0 iq0 wq0 in0 id0 rn0 gn0 cl0 st0 sd0 pn0].
    unfold EInv in HI. cbn in HI, HC. destruct HI as (H1 & H2 & H3 & H4). subst.
    unfold emeasure.
    destruct l; try discriminate HL; cbn in HS.
    all: destruct cl0; try discriminate HC; destruct H4 as (? & ? & ? & ? & ? & H9 & H10); subst; cbn in HS; ecrush; cbn.
    all: try lia.
  Qed.

  Lemma ecandidates_internal : forallb einternal ecandidates = true.
  Proof. reflexivity. Qed.

  Theorem executor_close_returns : forall n s, EInv s -> eclosing s = true -> emeasure s <= n ->
    exists ls s', Forall (fun l => einternal l = true) ls /\ erun s ls = Some s' /\ e_cl s' = ERet /\ length ls <= n.
  Proof.
    induction n as [|n IH]; intros s HI HC HM.
    - exfalso. unfold emeasure in HM. destruct (e_cl s) eqn:E; unfold eclosing in HC; rewrite E in HC; try discriminate; cbn in HM; lia.
    - pose proof (executor_progress s HI HC) as HE. unfold eenabled in HE. apply existsb_exists in HE.
      destruct HE as (l & Hin & Hl). destruct (estep s l) as [s1|] eqn:E; [|discriminate].
      assert (HLi : einternal l = true).
      { pose proof ecandidates_internal as HF. rewrite forallb_forall in HF. apply HF. exact Hin. }
      pose proof (executor_decrease s l s1 HI HC HLi E) as HD.
      pose proof (einv_step s l s1 HI E) as HI1.
      destruct (eclosing s1) eqn:HC1.
      + destruct (IH s1 HI1 HC1 ltac:(lia)) as (ls & s' & HF & HR & HCl & HLn).
        exists (l :: ls), s'. repeat split; [constructor; assumption| cbn; rewrite E; exact HR | exact HCl | cbn; lia].
      + assert (e_cl s1 = ERet).
        { destruct s as [w0 h0 wr0 ww0 cd0 iq0 wq0 in0 id0 rn0 gn0 cl0 st0 sd0 pn0].
          clear - E HC HC1 Hin. unfold eclosing in *. cbn in HC.
          cbn in Hin. repeat (destruct Hin as [Hin|Hin]; [subst l|]); try contradiction;
            cbn in E; ecrush; cbn in *; try discriminate; try reflexivity. }
        exists [l], s1. repeat split; [constructor; [assumption|constructor] | cbn; rewrite E; reflexivity | assumption | cbn; lia].
  Qed.

  Fixpoint ecrun (s : est) (ls : list elabel) : option est :=
    match ls with
    | [] => Some s
    | l :: t => if eclosing s && einternal l
                then match estep s l with Some s1 => ecrun s1 t | None => None end
                else None
    end.

  Theorem executor_runs_bounded : forall ls s s', EInv s -> ecrun s ls = Some s' -> length ls <= emeasure s.
  Proof.
    induction ls as [|l ls IH]; intros s s' HI HR.
    - cbn; lia.
    - cbn in HR. destruct (eclosing s) eqn:HC; [|discriminate]. destruct (einternal l) eqn:HL; [|discriminate]. cbn in HR.
      destruct (estep s l) as [s1|] eqn:E; [|discriminate].
      pose proof (executor_decrease s l s1 HI HC HL E) as HD.
      pose proof (einv_step s l s1 HI E) as HI1.
      specialize (IH s1 s' HI1 HR). cbn. lia.
  Qed.
End E.
