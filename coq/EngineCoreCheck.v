(** EngineCoreCheck: is the journal of a real engine run a history of EngineCore?  The journal shows the
    store traffic and the action phases; deliveries to the executor and the handling of completion events
    are not visible and are inferred: a run's first write accepts the matching pending delivery, the
    parser's read of the next tasks (pushTasks) handles queued completion events up to the one that
    produces exactly those tasks.  Scope: scenarios marked 'core' (no pre-checks, cancel, continue,
    watchdog or injected failures) with one dag instance.

    The verdict is the correspondence (accepted / where it stops); the monitor says whether every accepted
    delivery carried the task's current persisted status - the hypothesis of the EngineCore theorems. *)
From Coq Require Import List ZArith Bool.
From FF Require Import Sx StoreModel StoreCheck EngineCore.
Import ListNotations.
Local Open Scope Z_scope.

Definition est_of (z : Z) : option est :=
  match z with 1 => Some SInit | 2 => Some SRunning | 3 => Some SEnding | 4 => Some SSuccess | 5 => Some SFailed
             | 7 => Some SRetrying | _ => None end.

Fixpoint alookup (l : list (Z * list Z)) (k : Z) : list Z :=
  match l with [] => [] | (k', v) :: r => if Z.eqb k k' then v else alookup r k end.

(** every task record created in the journal *)
Fixpoint created (evs : list sx) : list trec :=
  match evs with
  | [] => []
  | L [I 1; I _; op; _; I _; I fault] :: r =>
      match sop_of_sx op with
      | Some (OBatchCreateTasks l _) => (if Z.eqb fault 0 then l else []) ++ created r
      | _ => created r
      end
  | _ :: r => created r
  end.

Definition deps_of (recs : list trec) : list (Z * list Z) :=
  map (fun r => (t_id r,
                 flat_map (fun g => map t_id (filter (fun x => Z.eqb (t_gid x) g && Z.eqb (t_ins x) (t_ins r)) recs)) (t_deps r)))
      recs.

Record acc := { a_ec : ec; a_stale : list Z }.

Inductive res := Ok (a : acc) | Rej (code : Z) (subject : Z).

Section A.
  Variable tasks : list Z.
  Variable depl : list (Z * list Z).
  Definition deps (t : Z) : list Z := alookup depl t.
  Notation stp := (step tasks deps false).

  Definition do_step (a : acc) (l : label) (code subj : Z) : res :=
    match stp (a_ec a) l with
    | Some s' => Ok {| a_ec := s'; a_stale := a_stale a |}
    | None => Rej code subj
    end.

  Definition bind (r : res) (f : acc -> res) : res := match r with Ok a => f a | Rej c s => Rej c s end.

  (** the run of [t] that is about to write must have been delivered with snapshot [sn] *)
  Definition ensure_queued (a : acc) (t : Z) (sn : est) : res :=
    match runs (a_ec a) t with
    | RQueued s => if est_eqb s sn then Ok a else Rej 60 t
    | RNone =>
        match stp (a_ec a) (Accept t sn) with
        | Some s' => Ok {| a_ec := s';
                           a_stale := if est_eqb (store (a_ec a) t) sn then a_stale a else t :: a_stale a |}
        | None => Rej 61 t
        end
    | _ => Rej 62 t
    end.

  Definition same_set (a b : list Z) : bool :=
    forallb (fun x => zin x b) a && forallb (fun x => zin x a) b.

  Fixpoint deliver_until (fuel : nat) (a : acc) (ids : list Z) : res :=
    match fuel with
    | O => Rej 70 0
    | S f =>
        match evq (a_ec a) with
        | [] => Rej 71 0
        | (t, st) :: _ =>
            let k' := upd (know (a_ec a)) t st in
            let pushes := if done st then filter (pushable deps k') (children tasks deps t)
                          else if est_eqb st SInit then [t] else [] in
            match pushes with
            | [] => bind (do_step a Deliver 72 t) (fun a' => deliver_until f a' ids)
            | _ => if same_set pushes ids then do_step a Deliver 73 t else Rej 74 t
            end
        end
    end.

  Definition on_patch (a : acc) (id st : Z) : res :=
    match st with
    | 0 => Ok a
    | 2 => bind (ensure_queued a id SInit) (fun a1 => do_step a1 (StartWrite id) 40 id)
    | 1 => bind (ensure_queued a id SRetrying) (fun a1 => do_step a1 (StartWrite id) 41 id)
    | 3 => do_step a (MainOk id) 42 id
    | 4 => match runs (a_ec a) id with
           | REnding => do_step a (AfterOk id) 43 id
           | _ => bind (ensure_queued a id SEnding) (fun a1 =>
                  bind (do_step a1 (StartWrite id) 44 id) (fun a2 => do_step a2 (AfterOk id) 45 id))
           end
    | 5 => let has sn := existsb (fun p => Z.eqb (fst p) id && est_eqb (snd p) sn) (pend (a_ec a)) in
           match runs (a_ec a) id with
           | RInMain => do_step a (MainErr id) 46 id
           | REnding => do_step a (AfterErr id) 47 id
           | RQueued SInit => do_step a (BeforeErr id) 48 id
           | RQueued SRetrying => do_step a (RetryErr id) 49 id
           | RQueued SEnding => bind (do_step a (StartWrite id) 50 id) (fun a1 => do_step a1 (AfterErr id) 51 id)
           | RNone =>
               if has SRetrying then bind (ensure_queued a id SRetrying) (fun a1 => do_step a1 (RetryErr id) 52 id)
               else if has SInit then bind (ensure_queued a id SInit) (fun a1 => do_step a1 (BeforeErr id) 56 id)
               else bind (ensure_queued a id SEnding) (fun a1 =>
                    bind (do_step a1 (StartWrite id) 53 id) (fun a2 => do_step a2 (AfterErr id) 54 id))
           | _ => Rej 55 id
           end
    | _ => Rej (80 + st) id      (* canceled, blocked, continue, skipped: outside the core *)
    end.

  Definition on_event (a : acc) (ev : sx) : res :=
    match ev with
    | L [I 1; I now; op; reply; I origin; I fault] =>
        if negb (Z.eqb fault 0) then Rej 90 fault else
        match sop_of_sx op with
        | Some (OPatchTask id st _ _) =>
            if Z.eqb origin 0 then on_patch a id st
            else if Z.eqb origin 3 && Z.eqb st 5 then do_step a (WdFail id) 92 id
            else Rej 91 origin
        | Some (OUpdateTask r) =>
            if Z.eqb (t_status r) 7 then do_step a (Rearm (t_id r)) 30 (t_id r) else Rej 31 (t_id r)
        | Some (OListTasks f) =>
            match tf_ids f, tf_status f with
            | [], [] =>
                if negb (tf_expired f) && negb (Z.eqb (tf_ins f) 0) && zin origin [1; 2; 7]
                then match reply with
                     | L [I 6; L []] => Ok a
                     | _ => do_step a Rebuild 32 0
                     end
                else Ok a
            | ids, [] =>
                if Z.eqb origin 0 && Z.eqb (tf_ins f) 0
                then deliver_until (S (length (evq (a_ec a)))) a ids
                else Ok a
            | _, _ => Ok a
            end
        | _ => Ok a
        end
    | L [I 2; I tid; I _; I ph; I _; I _; I _] =>
        if Z.eqb ph 1 then do_step a (MainStart tid) 20 tid else Ok a
    | L [I 20] => do_step a Crash 21 0
    | _ => Ok a
    end.

  Fixpoint run_events (a : acc) (evs : list sx) (idx : Z) : res * Z :=
    match evs with
    | [] => (Ok a, idx)
    | ev :: r => match on_event a ev with
                 | Ok a' => run_events a' r (idx + 1)
                 | Rej c s => (Rej c s, idx)
                 end
    end.
End A.

Definition is_core (evs : list sx) : bool :=
  existsb (fun e => match e with L [I 38] => true | _ => false end) evs.

Definition core_run (evs : list sx) : res * Z :=
  let recs := created evs in
  run_events (map t_id recs) (deps_of recs) {| a_ec := boot; a_stale := [] |} evs 0.

(** correspondence: the journal is a history of EngineCore (code as it is) *)
Definition check_core (c : sx) : verdict :=
  match c with
  | L [_; L evs] =>
      if is_core evs then
        match core_run evs with
        | (Ok _, _) => OkCase
        | (Rej code subj, idx) => Mismatch code (L [I idx; I subj])
        end
      else OkCase
  | _ => BadCase 1
  end.

(** the hypothesis of the theorems: no delivery was accepted with a stale snapshot *)
Definition monitor_core (c : sx) : option bool :=
  match c with
  | L [_; L evs] =>
      if is_core evs then
        match core_run evs with
        | (Ok a, _) => Some (match a_stale a with [] => true | _ => false end)
        | (Rej _ _, _) => None
        end
      else Some true
  | _ => None
  end.

Definition explain_core (c : sx) : sx :=
  match c with
  | L [_; L evs] =>
      match core_run evs with
      | (Ok a, _) => L (map (fun t => L [I 1; I 0; I 21; I t]) (a_stale a))
      | (Rej code subj, idx) => L [L [I 0; I idx; I code; I subj]]
      end
  | _ => L []
  end.
