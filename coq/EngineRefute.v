(** Engine, part 3: each hypothesis of the settle theorem is necessary.  For every one of them a history of
    the system with that switch off (the others on) that ends quiescent - nothing in flight, no command, no
    task recorded running - with the instance left running for ever, or failed although no task is failed.
    These are histories of the model of the code as it is; whether the real code follows them is decided by
    replaying them against it (see DESIGN.md, findings). *)
From Coq Require Import List ZArith Bool.
From FF Require Import Engine EngineFacts EngineSettle.
Import ListNotations.
Local Open Scope Z_scope.

Definition nodeps (t : Z) : list Z := [].

(** (a) [cmdquiet] off: the retry command is executed while the completion event of the failed run is still
    queued for the parser worker.  The stale event is handled after the re-initialisation: the fresh tree
    is marked failed and dropped, the instance is recorded failed; the event of the retried run finds no
    tree.  The task stays 'init' for ever and no retry can name it (it is not failed). *)
Definition w_stale_event : list label :=
  [Rebuild false; PushRun 1 SInit; Accept 1 SInit; StartWrite 1; MainStart 1; MainErr 1; Finish 1;
   CmdIssue; CmdBegin; Rearm 1; CmdPatch; Rebuild false; PushRun 1 SRetrying;
   Accept 1 SRetrying; StartWrite 1; Finish 1; Deliver false; Deliver false].

Theorem stale_event_refuted :
  exists s, run [1] nodeps true false true boot w_stale_event = Some s /\
            Quiescent [1] s /\ ins s = IFailed /\ store s 1 = SInit.
Proof.
  eexists. split; [vm_compute; reflexivity|]. cbn. unfold Quiescent. cbn.
  repeat split; try reflexivity. intros t [<-|[]]. cbn. discriminate.
Qed.

(** (b) [cmdquiet] off: the retry command is executed in the window between the failed run's last status
    write and its de-registration (cancelMap.Delete).  The executor's guard refuses the re-armed task
    ("already running"); it stays 'retrying' for ever while the instance is recorded failed. *)
Definition w_window : list label :=
  [Rebuild false; PushRun 1 SInit; Accept 1 SInit; StartWrite 1; MainStart 1; MainErr 1;
   CmdIssue; CmdBegin; Rearm 1; CmdPatch; Rebuild false; PushRun 1 SRetrying;
   Drop 1 SRetrying; Finish 1; Deliver false].

Theorem unregister_window_refuted :
  exists s, run [1] nodeps true false true boot w_window = Some s /\
            Quiescent [1] s /\ ins s = IFailed /\ store s 1 = SRetrying.
Proof.
  eexists. split; [vm_compute; reflexivity|]. cbn. unfold Quiescent. cbn.
  repeat split; try reflexivity. intros t [<-|[]]. cbn. discriminate.
Qed.

(** (c) [nonoop] off: the worker dies after re-arming the target and before clearing the command; the
    restarted worker executes the stored command again, finds no failed target, marks the instance running
    and does not initialise it.  Running for ever with nothing in flight. *)
Definition w_noop_after_crash : list label :=
  [Rebuild false; PushRun 1 SInit; Accept 1 SInit; StartWrite 1; MainStart 1; MainErr 1; Finish 1; Deliver false;
   CmdIssue; CmdBegin; Rearm 1; Crash; RestartIdle; CmdBegin; CmdPatch].

Theorem noop_after_crash_refuted :
  exists s, run [1] nodeps true true false boot w_noop_after_crash = Some s /\
            Quiescent [1] s /\ ins s = IRunning /\ store s 1 = SRetrying.
Proof.
  eexists. split; [vm_compute; reflexivity|]. cbn. unfold Quiescent. cbn.
  repeat split; try reflexivity. intros t [<-|[]]. cbn. discriminate.
Qed.

(** none of them is a history of the restricted system *)
Example restricted_refuses :
  run [1] nodeps true true true boot w_stale_event = None /\
  run [1] nodeps true true true boot w_window = None /\
  run [1] nodeps true true true boot w_noop_after_crash = None.
Proof. repeat split; vm_compute; reflexivity. Qed.

(** non-vacuity: a history of the restricted system with a failure, a retry command, the retry hook and a
    second attempt that succeeds reaches a quiescent state - settled as success *)
Definition w_ok : list label :=
  [Rebuild false; PushRun 1 SInit; Accept 1 SInit; StartWrite 1; MainStart 1; MainErr 1; Finish 1; Deliver false;
   CmdIssue; CmdBegin; Rearm 1; CmdPatch; Rebuild false; PushRun 1 SRetrying; Accept 1 SRetrying; StartWrite 1; Finish 1; Deliver false;
   PushRun 1 SInit; Accept 1 SInit; StartWrite 1; MainStart 1; MainOk 1; AfterOk 1; Finish 1; Deliver false].

Example settle_hypotheses_met :
  exists s, run [1] nodeps true true true boot w_ok = Some s /\ Quiescent [1] s /\ ins s = ISuccess.
Proof.
  eexists. split; [vm_compute; reflexivity|]. unfold Quiescent. cbn. repeat split. intros t [<-|[]]. cbn. discriminate.
Qed.

(** ... and one through a crash in the middle of a run: the restart finds the task recorded running, the
    watchdog fails it, the instance is settled as failed *)
Definition w_crash : list label :=
  [Rebuild false; PushRun 1 SInit; Accept 1 SInit; StartWrite 1; MainStart 1; Crash; Rebuild false; WdFail 1].

Example settle_after_crash_met :
  exists s, run [1] nodeps true true true boot w_crash = Some s /\ Quiescent [1] s /\ ins s = IFailed /\ started s 1 = true.
Proof.
  eexists. split; [vm_compute; reflexivity|]. unfold Quiescent. cbn. repeat split. intros t [<-|[]]. cbn. discriminate.
Qed.

(** ... and one with pre-checks and a continue command: task 1 is blocked when pushed, the instance settles as
    blocked; a continue command re-arms it, it runs; its dependent is skipped when pushed; settled as success *)
Definition deps12 (t : Z) : list Z := if Z.eqb t 2 then [1] else [].
Definition w_block_continue_1 : list label := [Rebuild false; PushBlock 1 SInit; Deliver false].
Definition w_block_continue_2 : list label :=
  [CmdIssue; CmdBegin; ContArm 1; CmdPatch; Rebuild false; PushRun 1 SContinue; Accept 1 SContinue; StartWrite 1;
   MainStart 1; MainOk 1; AfterOk 1; Finish 1; Deliver false; PushSkip 2 SInit; Deliver false].

Definition quiescentb (tasks : list Z) (s : eng) : bool :=
  quiet tasks s && match ph s with PIdle => true | _ => false end && negb (cmd s) &&
  forallb (fun t => negb (est_eqb (store s t) SRunning)) tasks.

Lemma quiescentb_ok tasks s : quiescentb tasks s = true -> Quiescent tasks s.
Proof.
  unfold quiescentb, Quiescent. intros H. apply andb_true_iff in H. destruct H as (H & H4). apply andb_true_iff in H. destruct H as (H & H3).
  apply andb_true_iff in H. destruct H as (H1 & H2). repeat split.
  - exact H1.
  - destruct (ph s); try discriminate. reflexivity.
  - destruct (cmd s); [discriminate|reflexivity].
  - intros t Hin Hst. rewrite forallb_forall in H4. specialize (H4 t Hin). rewrite Hst in H4. discriminate.
Qed.

Definition obs12 (o : option eng) : option (bool * ist * est * est * bool * bool) :=
  match o with Some s => Some (quiescentb [1; 2] s, ins s, store s 1, store s 2, started s 1, started s 2) | None => None end.

Example settle_with_prechecks_met :
  obs12 (run [1; 2] deps12 true true true boot w_block_continue_1) = Some (true, IBlocked, SBlocked, SInit, false, false) /\
  obs12 (run [1; 2] deps12 true true true boot (w_block_continue_1 ++ w_block_continue_2)) = Some (true, ISuccess, SSuccess, SSkipped, true, false).
Proof. split; vm_compute; reflexivity. Qed.
