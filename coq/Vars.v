(** Vars: instance variables (Dag.Run) and parameter rendering (DagInstanceVars.Render over
    value.MapValue.WalkString; pkg/entity/dag.go, pkg/utils/value/value.go), token level.
    A string is a list of tokens: literal chunk, placeholder {{name}}, or substituted value. *)
From Coq Require Import List ZArith Bool Arith.
From FF Require Import Sx StoreModel StoreCheck PreCheck.
Import ListNotations.
Local Open Scope Z_scope.

Inductive tok := TLit (z : Z) | THole (v : Z) | TVal (z : Z).

Inductive pv :=
| PStr (toks : list tok) | PInt (z : Z) | PBool (b : bool) | PNil
| PMap (l : list (Z * pv)) | PList (l : list pv).

(** instance variables: declared name -> value *)
Definition vars := list (Z * Z).

(** Dag.Run: every declared variable takes the caller's non-empty value (0 = empty string),
    else its default; undeclared caller keys are ignored *)
Definition dag_run_vars (decl : list (Z * Z)) (spec : list (Z * Z)) : vars :=
  map (fun d => (fst d, match kv_lookup spec (fst d) with
                        | Some v => if Z.eqb v 0 then snd d else v
                        | None => snd d end)) decl.

Definition subst_tok (vs : vars) (t : tok) : tok :=
  match t with
  | THole v => match kv_lookup vs v with Some x => TVal x | None => THole v end
  | _ => t
  end.

Fixpoint render (vs : vars) (p : pv) : pv :=
  match p with
  | PStr toks => PStr (map (subst_tok vs) toks)
  | PMap l => PMap ((fix go (l : list (Z * pv)) : list (Z * pv) :=
                       match l with [] => [] | (k, v) :: r => (k, render vs v) :: go r end) l)
  | PList l => PList ((fix go (l : list pv) : list pv :=
                         match l with [] => [] | v :: r => render vs v :: go r end) l)
  | _ => p
  end.

(** placeholders of declared variables still present somewhere in the tree *)
Fixpoint open_holes (vs : vars) (p : pv) : list Z :=
  match p with
  | PStr toks => flat_map (fun t => match t with
                                    | THole v => match kv_lookup vs v with Some _ => [v] | None => [] end
                                    | _ => [] end) toks
  | PMap l => (fix go (l : list (Z * pv)) : list Z :=
                 match l with [] => [] | (k, v) :: r => open_holes vs v ++ go r end) l
  | PList l => (fix go (l : list pv) : list Z :=
                  match l with [] => [] | v :: r => open_holes vs v ++ go r end) l
  | _ => []
  end.

(* ------------------------------------------------------------------ sx glue *)
Definition tok_of_sx (s : sx) : option tok :=
  match s with
  | L [I 0; I z] => Some (TLit z) | L [I 1; I v] => Some (THole v) | L [I 2; I z] => Some (TVal z)
  | _ => None
  end.
Definition sx_of_tok (t : tok) : sx :=
  match t with TLit z => L [I 0; I z] | THole v => L [I 1; I v] | TVal z => L [I 2; I z] end.

Fixpoint pv_of_sx (fuel : nat) (s : sx) : option pv :=
  match fuel with
  | O => None
  | S f =>
      match s with
      | L (I 3 :: toks) => option_map PStr (opt_map tok_of_sx toks)
      | L [I 4; I z] => Some (PInt z)
      | L [I 5; I b] => Some (PBool (Z.eqb b 1))
      | L [I 6] => Some PNil
      | L (I 1 :: kvs) =>
          option_map PMap (opt_map (fun x => match x with
                                             | L [I k; v] => option_map (fun v' => (k, v')) (pv_of_sx f v)
                                             | _ => None end) kvs)
      | L (I 2 :: vs) => option_map PList (opt_map (pv_of_sx f) vs)
      | _ => None
      end
  end.

Fixpoint sx_of_pv (p : pv) : sx :=
  match p with
  | PStr toks => L (I 3 :: map sx_of_tok toks)
  | PInt z => L [I 4; I z]
  | PBool b => L [I 5; I (if b then 1 else 0)]
  | PNil => L [I 6]
  | PMap l => L (I 1 :: (fix go (l : list (Z * pv)) : list sx :=
                           match l with [] => [] | (k, v) :: r => L [I k; sx_of_pv v] :: go r end) l)
  | PList l => L (I 2 :: (fix go (l : list pv) : list sx :=
                            match l with [] => [] | v :: r => sx_of_pv v :: go r end) l)
  end.

(** case = (declared spec observed-vars params observed-rendered) *)
Definition check_vars (c : sx) : verdict :=
  match c with
  | L [decl; spec; obsvars; params; obs] =>
      match kvs_of_sx decl, kvs_of_sx spec, pv_of_sx 12 params with
      | Some d, Some sp, Some p =>
          let vs := dag_run_vars d sp in
          let vsx := L (map (fun kv => L [I (fst kv); I (snd kv)]) vs) in
          if negb (sx_eqb vsx obsvars) then Mismatch 1 vsx
          else let r := sx_of_pv (render vs p) in
               if sx_eqb r obs then OkCase else Mismatch 2 r
      | _, _, _ => BadCase 2
      end
  | _ => BadCase 1
  end.
Definition monitor_vars (c : sx) : option bool :=
  match check_vars c with OkCase => Some true | Mismatch _ _ => Some false | BadCase _ => None end.
