(** ExecRegLive: the steps the executor takes by itself (init goroutine, hand-over, status check) strictly decrease
    a measure, so from every state the executor comes to rest after finitely many of them - and at rest it waits
    only behind running actions (ExecRegFacts.executor_waits_only_for_runs). *)
From Coq Require Import List ZArith Bool Arith Lia.
Import ListNotations.
From FF Require Import Engine ExecReg ExecRegFacts.

Definition is_internal (l : xl) : bool :=
  match l with XInitTake | XHand | XCheck _ => true | _ => false end.

Definition wweight (p : dl * wph) : nat := match snd p with WTaken => 1 | WRun => 0 end.
Fixpoint sumw (l : list (dl * wph)) : nat := match l with [] => 0 | p :: r => wweight p + sumw r end.

Definition xmeasure (s : xs) : nat :=
  3 * length (initq s) + (match held s with Some _ => 2 | None => 0 end) + sumw (work s).

Lemma sumw_app a b : sumw (a ++ b) = sumw a + sumw b.
Proof. induction a as [|x a IH]; cbn; [reflexivity | rewrite IH; lia]. Qed.

Lemma takeout_sumw x l l' : takeout x l = Some l' -> sumw l = wweight x + sumw l'.
Proof.
  revert l'; induction l as [|y r IH]; cbn; intros l' H; [discriminate|].
  destruct (dl_eqb (fst y) (fst x) && wph_eqb (snd y) (snd x)) eqn:E.
  - inversion H; subst. apply andb_true_iff in E as [_ E2]. apply wph_eqb_eq in E2. unfold wweight. rewrite E2. reflexivity.
  - destruct (takeout x r) as [r'|] eqn:T; [|discriminate]. inversion H; subst. cbn. rewrite (IH r' eq_refl). lia.
Qed.

Theorem own_step_decreases nworkers leak s l s' :
  is_internal l = true -> xstep nworkers leak s l = Some s' -> xmeasure s' < xmeasure s.
Proof.
  intros I H. destruct l as [t o| | |d|d v|d|o v]; try discriminate I; cbn [xstep] in H.
  - destruct (held s) eqn:Hh; [discriminate|]. destruct (initq s) as [|d r] eqn:Hq; [discriminate|].
    destruct (reg s (dt d)); inversion H; subst; unfold xmeasure; cbn; rewrite ?Hh, ?Hq; cbn; lia.
  - destruct (held s) as [d|] eqn:Hh; [|discriminate].
    destruct (Nat.ltb (length (work s)) nworkers); [|discriminate]. inversion H; subst.
    unfold xmeasure; cbn. rewrite Hh, sumw_app. cbn. lia.
  - destruct (takeout (d, WTaken) (work s)) as [w'|] eqn:T; [|discriminate].
    pose proof (takeout_sumw _ _ _ T) as E. cbn in E.
    destruct (exec (objs s (dob d))); inversion H; subst; unfold xmeasure; cbn [initq held work set_work set_reg]; rewrite ?sumw_app; cbn [sumw wweight snd]; lia.
Qed.

(** any sequence of the executor's own steps is no longer than the measure of the state it starts from *)
Theorem own_steps_bounded nworkers leak : forall ls s s',
  forallb is_internal ls = true -> xrun nworkers leak s ls = Some s' -> length ls + xmeasure s' <= xmeasure s.
Proof.
  induction ls as [|l r IH]; cbn [forallb xrun length]; intros s s' I H.
  - inversion H; subst. lia.
  - apply andb_true_iff in I as [I1 I2]. destruct (xstep nworkers leak s l) as [s1|] eqn:E; [|discriminate].
    pose proof (own_step_decreases _ _ _ _ _ I1 E). pose proof (IH _ _ I2 H). lia.
Qed.

(** the steps the environment takes never disable the progress of a delivery already in hand: a push only
    lengthens the queue (measure +3), a status write leaves it alone *)
Lemma push_measure nworkers leak s t o s' :
  xstep nworkers leak s (XPush t o) = Some s' -> xmeasure s' = xmeasure s + 3.
Proof. cbn. intros H. inversion H; subst. unfold xmeasure; cbn. rewrite app_length. cbn. lia. Qed.
