(** Sx glue for StoreModel: decoding of recorded store call traces and the
    comparison of every observed reply with the model's. *)
From Coq Require Import List ZArith Bool Arith.
From FF Require Import Sx StoreModel.
Import ListNotations.
Local Open Scope Z_scope.

Fixpoint sx_eqb (a b : sx) {struct a} : bool :=
  match a, b with
  | I x, I y => Z.eqb x y
  | L la, L lb =>
      (fix go (l1 l2 : list sx) : bool :=
         match l1, l2 with
         | [], [] => true
         | x :: r1, y :: r2 => sx_eqb x y && go r1 r2
         | _, _ => false
         end) la lb
  | _, _ => false
  end.

Definition kv_of_sx (s : sx) : option (Z * Z) :=
  match s with L [I k; I v] => Some (k, v) | _ => None end.

Definition cmd_of_sx (s : sx) : option (option (Z * list Z)) :=
  match s with
  | L [] => Some None
  | L [I n; ids] => match sx_ints ids with Some l => Some (Some (n, l)) | None => None end
  | _ => None
  end.

Definition share_of_sx (s : sx) : option (option (list (Z * Z))) :=
  match s with
  | L [I 0] => Some None
  | L [I 1; L kvs] => match opt_map kv_of_sx kvs with Some l => Some (Some l) | None => None end
  | _ => None
  end.

Definition trec_of_sx (s : sx) : option trec :=
  match s with
  | L [I id; I ins; I g; deps; I to; I st; I rs; traces; rest] =>
      match sx_ints deps, sx_ints traces with
      | Some d, Some tr => Some (mkT id ins g d to st rs tr 0 rest)
      | _, _ => None
      end
  | _ => None
  end.

Definition irec_of_sx (s : sx) : option irec :=
  match s with
  | L [I id; I wk; I st; I rs; cmd; share; rest] =>
      match cmd_of_sx cmd, share_of_sx share with
      | Some c, Some sh => Some (mkI id wk st rs c sh 0 rest)
      | _, _ => None
      end
  | _ => None
  end.

Definition sx_of_cmd (c : option (Z * list Z)) : sx :=
  match c with None => L [] | Some (n, l) => L [I n; of_ints l] end.
Definition sx_of_share (s : option (list (Z * Z))) : sx :=
  match s with None => L [I 0] | Some l => L [I 1; L (map (fun kv => L [I (fst kv); I (snd kv)]) l)] end.
Definition sx_of_trec (r : trec) : sx :=
  L [I (t_id r); I (t_ins r); I (t_gid r); of_ints (t_deps r); I (t_timeout r); I (t_status r);
     I (t_reason r); of_ints (t_traces r); t_rest r].
Definition sx_of_irec (r : irec) : sx :=
  L [I (i_id r); I (i_worker r); I (i_status r); I (i_reason r); sx_of_cmd (i_cmd r); sx_of_share (i_share r); i_rest r].

Definition sx_of_reply (r : reply) : sx :=
  match r with
  | ROk => L [I 0] | RConflict => L [I 1] | RNotFound => L [I 2] | RErr => L [I 3]
  | RTask t => L [I 4; sx_of_trec t] | RIns i => L [I 5; sx_of_irec i]
  | RTasks l => L [I 6; L (map sx_of_trec l)] | RInss l => L [I 7; L (map sx_of_irec l)]
  end.

Definition fail_of_sx (s : sx) : option (option nat) :=
  match s with
  | L [] => Some None
  | L [I k] => if 0 <=? k then Some (Some (Z.to_nat k)) else None
  | _ => None
  end.

Definition ifilter_of_sx (s : sx) : option ifilter :=
  match s with
  | L [I wk; sts; I ue; I hc; I lim] =>
      match sx_ints sts with
      | Some l => Some (mkIF wk l ue (Z.eqb hc 1) lim)
      | None => None
      end
  | _ => None
  end.

Definition tfilter_of_sx (s : sx) : option tfilter :=
  match s with
  | L [ids; I ins; sts; I ex] =>
      match sx_ints ids, sx_ints sts with
      | Some i, Some l => Some (mkTF i ins l (Z.eqb ex 1))
      | _, _ => None
      end
  | _ => None
  end.

Definition sop_of_sx (s : sx) : option sop :=
  match s with
  | L [I 1; r] => option_map OCreateTask (trec_of_sx r)
  | L [I 2; r] => option_map OCreateIns (irec_of_sx r)
  | L [I 3; L rs; f] =>
      match opt_map trec_of_sx rs, fail_of_sx f with
      | Some l, Some fa => Some (OBatchCreateTasks l fa) | _, _ => None end
  | L [I 4; I id; I st; I rs; tr] => option_map (OPatchTask id st rs) (sx_ints tr)
  | L [I 5; I id; sh; I st; cmd; I mc; I wk; I rs; I mr] =>
      match share_of_sx sh, cmd_of_sx cmd with
      | Some sh', Some c => Some (OPatchIns id sh' st c (Z.eqb mc 1) wk rs (Z.eqb mr 1))
      | _, _ => None
      end
  | L [I 6; r] => option_map OUpdateTask (trec_of_sx r)
  | L [I 7; r] => option_map OUpdateIns (irec_of_sx r)
  | L [I 8; L rs; f] =>
      match opt_map irec_of_sx rs, fail_of_sx f with
      | Some l, Some fa => Some (OBatchUpdateIns l fa) | _, _ => None end
  | L [I 9; L rs; f] =>
      match opt_map trec_of_sx rs, fail_of_sx f with
      | Some l, Some fa => Some (OBatchUpdateTasks l fa) | _, _ => None end
  | L [I 10; I id] => Some (OGetTask id)
  | L [I 11; I id] => Some (OGetIns id)
  | L [I 12; f] => option_map OListIns (ifilter_of_sx f)
  | L [I 13; f] => option_map OListTasks (tfilter_of_sx f)
  | L [I 14; ids] => option_map ODeleteTasks (sx_ints ids)
  | L [I 15; ids] => option_map ODeleteInss (sx_ints ids)
  | L [I 16; I d] => Some (OAge d)
  | L [I 17] => Some OExpiredRound
  | L [I 18; I to] => Some (OLeftBehindRound to)
  | _ => None
  end.

(** replies compared exactly ([strict]) or, for list results, as multisets (the
    property speaks of "exactly the records matching", not of their order) *)
Definition count_sx (x : sx) (l : list sx) : nat := length (filter (sx_eqb x) l).
Definition perm_sx (a b : list sx) : bool :=
  Nat.eqb (length a) (length b) && forallb (fun x => Nat.eqb (count_sx x a) (count_sx x b)) a.

Definition reply_eqb (strict : bool) (model obs : sx) : bool :=
  if strict then sx_eqb model obs
  else match model, obs with
       | L [I 6; L a], L [I 6; L b] => perm_sx a b
       | L [I 7; L a], L [I 7; L b] => perm_sx a b
       | _, _ => sx_eqb model obs
       end.

(** one recorded step: (now op observed-reply) *)
Fixpoint run_trace (strict : bool) (s : store) (steps : list sx) (idx : Z) : verdict :=
  match steps with
  | [] => OkCase
  | L [I now; op; obs] :: rest =>
      match sop_of_sx op with
      | None => BadCase (100 + idx)
      | Some o =>
          let '(s', r) := sstep now s o in
          if reply_eqb strict (sx_of_reply r) obs then run_trace strict s' rest (idx + 1)
          else Mismatch idx (sx_of_reply r)
      end
  | _ => BadCase (100 + idx)
  end.

Definition check_store_trace (c : sx) : verdict :=
  match c with
  | L steps => run_trace true empty_store steps 0
  | _ => BadCase 1
  end.

(** C19 monitor: the observed replies are those of the documented contract *)
Definition monitor_store_trace (c : sx) : option bool :=
  match c with
  | L steps => match run_trace false empty_store steps 0 with
               | OkCase => Some true | Mismatch _ _ => Some false | BadCase _ => None end
  | _ => None
  end.

(** case = (bytes, observed) with observed = -1 (rejected) or the worker number *)
Definition check_worker_key_case (c : sx) : verdict :=
  match c with
  | L [bytes; I obs] =>
      match sx_ints bytes with
      | Some b =>
          let m := match check_worker_key b with Some v => v | None => -1 end in
          if Z.eqb m obs then OkCase else Mismatch 1 (I m)
      | None => BadCase 2
      end
  | _ => BadCase 1
  end.

Definition monitor_worker_key_case (c : sx) : option bool :=
  match check_worker_key_case c with OkCase => Some true | Mismatch _ _ => Some false | BadCase _ => None end.

(** case = (id, worker number): the low 16 bits of a generated id are the worker number *)
Definition check_flake_case (c : sx) : verdict :=
  match c with
  | L [I id; I num] => if Z.eqb (Z.modulo id 65536) num then OkCase else Mismatch 1 (I (Z.modulo id 65536))
  | _ => BadCase 1
  end.
