(** Instantiate: the record-creation part of parseScheduleDagIns (pkg/mod/parser.go).
    A round compares the NUMBER of DAG tasks with the number of existing records; when they
    differ it creates, in DAG order, a record for every task whose id is absent; the inserts go
    one by one and may be interrupted after any of them. *)
From Coq Require Import List ZArith Bool Arith Lia Permutation.
From FF Require Import Sx StoreModel.
Import ListNotations.
Local Open Scope Z_scope.

Record dtask := mkD { d_gid : Z; d_deps : list Z; d_timeout : Z }.

Definition missing (dag : list dtask) (have : list Z) : list dtask :=
  filter (fun d => negb (zin (d_gid d) have)) dag.

(** one round; [cut] = Some k: the batch is interrupted after k inserts *)
Definition round (dag : list dtask) (have : list Z) (cut : option nat) : list Z :=
  if Nat.eqb (length dag) (length have) then have
  else have ++ map d_gid (match cut with Some k => firstn k (missing dag have) | None => missing dag have end).

(** the record created for a task: its dependencies and its timeout, or the worker default when none *)
Definition new_record (dflt : Z) (d : dtask) : Z * list Z * Z :=
  (d_gid d, d_deps d, if Z.eqb (d_timeout d) 0 then dflt else d_timeout d).

Definition rounds (dag : list dtask) (have : list Z) (cuts : list nat) : list Z :=
  fold_left (fun h k => round dag h (Some k)) cuts have.
