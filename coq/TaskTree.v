(** TaskTree: executable model of pkg/mod/tasktree.go.

    [build_root] = BuildRootNode (duplicate ids, dangling dependencies, "no start
    node", level-order cycle check starting at the virtual root, and - since the
    "fix:" commit - the test that every task was visited).  [build_root_unfixed]
    is the code as it was at the pinned commit (kept for the refutation theorem).
    [walk] = the restricted DFS dfsWalk; [compute_status], [executable_ids],
    [next_ids], [cancel_mark] = the four users of it. *)
From Coq Require Import List ZArith Bool Arith Lia.
From FF Require Import Sx.
Import ListNotations.
Local Open Scope Z_scope.

Inductive tstatus := TInit | TRunning | TEnding | TSuccess | TFailed | TCanceled
                   | TRetrying | TBlocked | TContinue | TSkipped.

Definition tstatus_code (s : tstatus) : Z :=
  match s with
  | TInit => 0 | TRunning => 1 | TEnding => 2 | TSuccess => 3 | TFailed => 4 | TCanceled => 5
  | TRetrying => 6 | TBlocked => 7 | TContinue => 8 | TSkipped => 9
  end.
Definition tstatus_of_z (z : Z) : option tstatus :=
  match z with
  | 0 => Some TInit | 1 => Some TRunning | 2 => Some TEnding | 3 => Some TSuccess
  | 4 => Some TFailed | 5 => Some TCanceled | 6 => Some TRetrying | 7 => Some TBlocked
  | 8 => Some TContinue | 9 => Some TSkipped | _ => None
  end.
Definition tstatus_eqb (a b : tstatus) : bool := Z.eqb (tstatus_code a) (tstatus_code b).
Lemma tstatus_eqb_eq a b : tstatus_eqb a b = true <-> a = b.
Proof. destruct a, b; unfold tstatus_eqb; simpl; split; intro H; try reflexivity; discriminate. Qed.

(** a task as the tree builder sees it: instance id, graph id, dependencies (graph ids), status *)
Record tnode := mkNode { nid : Z; gid : Z; ndeps : list Z; nst : tstatus }.
Definition tree := list tnode.

Definition gids (t : tree) : list Z := map gid t.

Definition zmem (x : Z) (l : list Z) : bool := existsb (Z.eqb x) l.

Lemma zmem_In x l : zmem x l = true <-> In x l.
Proof.
  unfold zmem. rewrite existsb_exists. split.
  - intros [y [Hy He]]. apply Z.eqb_eq in He. subst. exact Hy.
  - intros H. exists x. split; [exact H|apply Z.eqb_refl].
Qed.

Definition find_node (t : tree) (g : Z) : option tnode := find (fun n => Z.eqb (gid n) g) t.

Definition deps_of (t : tree) (g : Z) : list Z :=
  match find_node t g with Some n => ndeps n | None => [] end.

(** graph node: None = the virtual root *)
Definition gnode := option Z.
Definition gnode_eqb (a b : gnode) : bool :=
  match a, b with
  | None, None => true
  | Some x, Some y => Z.eqb x y
  | _, _ => false
  end.
Definition gmem (a : gnode) (l : list gnode) : bool := existsb (gnode_eqb a) l.

(** parents in AppendParent order (with multiplicity) *)
Definition parents (t : tree) (g : Z) : list gnode :=
  match deps_of t g with [] => [None] | ds => map Some ds end.

(** children in AppendChild order (with multiplicity) *)
Definition children (t : tree) (p : gnode) : list Z :=
  match p with
  | None => map gid (filter (fun n => match ndeps n with [] => true | _ => false end) t)
  | Some u => flat_map (fun n => map (fun _ => gid n) (filter (Z.eqb u) (ndeps n))) t
  end.

(* ------------------------------------------------------------------ BuildRootNode *)
Inductive berr := BDup | BDangling | BNoStart | BCycle | BOutOfFuel.

Fixpoint first_dup (seen : list Z) (l : list Z) : bool :=
  match l with
  | [] => false
  | x :: r => if zmem x seen then true else first_dup (x :: seen) r
  end.

Definition has_dangling (t : tree) : bool :=
  existsb (fun n => existsb (fun d => negb (zmem d (gids t))) (ndeps n)) t.

Definition complete (t : tree) (visited : list gnode) (v : Z) : bool :=
  forallb (fun p => gmem p visited) (parents t v).

(** one pass over the current wait queue (the for-loop of bfsCheckCycle) *)
Fixpoint level (t : tree) (todo : list Z) (visited : list gnode) (inc : list Z) (next : list Z)
  : list gnode * list Z * list Z :=
  match todo with
  | [] => (visited, inc, next)
  | cur :: rest =>
      if complete t visited cur
      then level t rest (Some cur :: visited) (remove Z.eq_dec cur inc) (next ++ children t (Some cur))
      else level t rest visited (cur :: inc) next
  end.

Fixpoint bfs (fuel : nat) (t : tree) (todo : list Z) (visited : list gnode) (inc : list Z)
  : option (list gnode * list Z) :=
  match fuel with
  | O => None
  | S f => match todo with
           | [] => Some (visited, inc)
           | _ => let '(v, i, n) := level t todo visited inc [] in bfs f t n v i
           end
  end.

(** the virtual root is dequeued first: it has no parents, is visited, its children are queued *)
Definition cycle_check (fuel : nat) (t : tree) : option (list gnode * list Z) :=
  bfs fuel t (children t None) [None] [].

Definition visited_all (t : tree) (visited : list gnode) : bool :=
  forallb (fun n => gmem (Some (gid n)) visited) t.

Definition build_gen (fixed : bool) (fuel : nat) (t : tree) : option berr :=
  if first_dup [] (gids t) then Some BDup
  else if has_dangling t then Some BDangling
  else match children t None with
       | [] => Some BNoStart
       | _ => match cycle_check fuel t with
              | None => Some BOutOfFuel
              | Some (visited, inc) =>
                  match inc with
                  | _ :: _ => Some BCycle
                  | [] => if fixed && negb (visited_all t visited) then Some BCycle else None
                  end
              end
       end.

Definition default_fuel (t : tree) : nat := S (S (length t)).

(** [None] = accepted *)
Definition build_root (t : tree) : option berr := build_gen true (default_fuel t) t.
Definition build_root_unfixed (t : tree) : option berr := build_gen false (default_fuel t) t.

(* ------------------------------------------------------------------ dfsWalk *)
Definition status_of (t : tree) (g : Z) : tstatus :=
  match find_node t g with Some n => nst n | None => TInit end.

Definition can_exec_child_st (s : tstatus) : bool :=
  match s with TSuccess | TSkipped => true | _ => false end.

Definition gnode_ok (t : tree) (p : gnode) : bool :=
  match p with None => true | Some u => can_exec_child_st (status_of t u) end.

(** TaskNode.CanBeExecuted *)
Definition can_be_executed (t : tree) (g : Z) : bool := forallb (gnode_ok t) (parents t g).

(** TaskNode.Executable *)
Definition executable_st (s : tstatus) : bool :=
  match s with TInit | TRetrying | TContinue | TEnding => true | _ => false end.
Definition executable (t : tree) (g : Z) : bool :=
  executable_st (status_of t g) && forallb (gnode_ok t) (parents t g).

(** The visit sequence of dfsWalk(root, f, false) up to and including the first
    node where the visitor returns false ([stop]).  Result: Some (sequence, stopped);
    None = the explicit fuel ran out (never on an accepted tree with [walk_fuel];
    the theorems exclude it in their statements and the correspondence check
    reports it). *)
Section Walk.
  Variable t : tree.
  Variable stop : Z -> bool.

  Definition skip_child (c : Z) : bool :=
    (1 <? length (parents t c))%nat && negb (can_be_executed t c).

  Definition walk_children (rec : Z -> option (list Z * bool)) : list Z -> option (list Z * bool) :=
    fix go (cs : list Z) : option (list Z * bool) :=
      match cs with
      | [] => Some ([], false)
      | c :: r =>
          if skip_child c then go r
          else match rec c with
               | None => None
               | Some (s1, true) => Some (s1, true)
               | Some (s1, false) =>
                   match go r with
                   | None => None
                   | Some (s2, st2) => Some (s1 ++ s2, st2)
                   end
               end
      end.

  Fixpoint walk_from (fuel : nat) (cur : Z) : option (list Z * bool) :=
    match fuel with
    | O => None
    | S f =>
        if stop cur then Some ([cur], true)
        else if negb (can_exec_child_st (status_of t cur)) then Some ([cur], false)
        else match walk_children (walk_from f) (children t (Some cur)) with
             | None => None
             | Some (s, st) => Some (cur :: s, st)
             end
    end.

  Definition walk (fuel : nat) : option (list Z * bool) :=
    match fuel with
    | O => None
    | S f => walk_children (walk_from f) (children t None)
    end.
End Walk.

Definition walk_fuel (t : tree) : nat := S (S (length t)).

Inductive tree_status := TrRunning | TrSuccess | TrFailed | TrBlocked.

Definition is_active_st (s : tstatus) : bool :=
  match s with TFailed | TCanceled | TBlocked | TSuccess | TSkipped => false | _ => true end.

(** ComputeStatus: the walk stops at the first node that is neither finished nor
    failed/canceled/blocked (=> running, that node); otherwise the LAST
    failed/canceled/blocked node visited decides; otherwise success. *)
Fixpoint last_verdict (t : tree) (seq : list Z) (acc : tree_status * Z) : tree_status * Z :=
  match seq with
  | [] => acc
  | v :: r =>
      match status_of t v with
      | TFailed | TCanceled => last_verdict t r (TrFailed, v)
      | TBlocked => last_verdict t r (TrBlocked, v)
      | TSuccess | TSkipped => last_verdict t r acc
      | _ => (TrRunning, v)
      end
  end.

Definition compute_status (t : tree) : option (tree_status * Z) :=
  match walk t (fun v => is_active_st (status_of t v)) (walk_fuel t) with
  | None => None
  | Some (seq, _) => Some (last_verdict t seq (TrSuccess, 0))
  end.

(** GetExecutableTaskIds (graph ids, in visit order, duplicates kept) *)
Definition executable_ids (t : tree) : option (list Z) :=
  match walk t (fun _ => false) (walk_fuel t) with
  | None => None
  | Some (seq, _) => Some (filter (executable t) seq)
  end.

Definition set_status (t : tree) (g : Z) (s : tstatus) : tree :=
  map (fun n => if Z.eqb (gid n) g then mkNode (nid n) (gid n) (ndeps n) s else n) t.

(** GetNextTaskIds(completed task with status s): (new tree, ids, found) *)
Definition next_ids (t : tree) (g : Z) (s : tstatus) : option (tree * list Z * bool) :=
  match walk t (Z.eqb g) (walk_fuel t) with
  | None => None
  | Some (_, found) =>
      if negb found then Some (t, [], false)
      else
        let t' := set_status t g s in
        match s with
        | TInit => Some (t', [g], true)
        | _ => if negb (can_exec_child_st s) then Some (t', [], true)
               else Some (t', filter (executable t') (children t' (Some g)), true)
        end
  end.

(** cancelChildTasks' marking walk: every reached node whose id is in [ids] becomes
    canceled; the walk never stops early, and because the mark is applied before
    the walk decides whether to descend, the tree is threaded through. *)
Section MarkWalk.
  Variable ids : list Z.

  Definition mark_children (rec : tree -> Z -> option tree) : tree -> list Z -> option tree :=
    fix go (t : tree) (cs : list Z) : option tree :=
      match cs with
      | [] => Some t
      | c :: r =>
          if skip_child t c then go t r
          else match rec t c with None => None | Some t1 => go t1 r end
      end.

  Fixpoint mark_from (fuel : nat) (t : tree) (cur : Z) : option tree :=
    match fuel with
    | O => None
    | S f =>
        let t1 := if zmem cur ids then set_status t cur TCanceled else t in
        if negb (can_exec_child_st (status_of t1 cur)) then Some t1
        else mark_children (mark_from f) t1 (children t1 (Some cur))
    end.

  Definition cancel_mark (t : tree) : option tree :=
    mark_children (mark_from (S (length t))) t (children t None).
End MarkWalk.

(* ------------------------------------------------------------------ sx glue *)
Definition node_of_sx (s : sx) : option tnode :=
  match s with
  | L [I i; I g; deps; I st] =>
      match sx_ints deps, tstatus_of_z st with
      | Some d, Some st' => Some (mkNode i g d st')
      | _, _ => None
      end
  | _ => None
  end.

Definition berr_code (e : option berr) : Z :=
  match e with
  | None => 0 | Some BDup => 1 | Some BDangling => 2 | Some BNoStart => 3 | Some BCycle => 4
  | Some BOutOfFuel => 9
  end.

Definition trstatus_code (s : tree_status) : Z :=
  match s with TrRunning => 0 | TrSuccess => 1 | TrFailed => 2 | TrBlocked => 3 end.

Definition zlist_eqb := list_eqb Z.eqb.

(** case 16 = (nodes, observed accept/reject class): BuildRootNode through CreateDag / UpdateDag.
    The implementation reports only an error string; classes: 0 accepted, 1 dup, 2 dangling,
    3 no start, 4 cycle. *)
Definition check_build (c : sx) : verdict :=
  match c with
  | L [L nodes; I obs] =>
      match opt_map node_of_sx nodes with
      | Some t => let e := berr_code (build_root t) in
                  if Z.eqb e obs then OkCase else Mismatch 1 (I e)
      | None => BadCase 2
      end
  | _ => BadCase 1
  end.

(** case 17 = (nodes, (status src), executable ids): on an accepted tree,
    ComputeStatus and GetExecutableTaskIds.  [src] is a graph id. *)
Definition check_tree_static (c : sx) : verdict :=
  match c with
  | L [L nodes; L [I st; I src]; ex] =>
      match opt_map node_of_sx nodes, sx_ints ex with
      | Some t, Some exl =>
          match build_root t with
          | Some _ => BadCase 3
          | None =>
              match compute_status t, executable_ids t with
              | Some (s, v), Some e =>
                  if Z.eqb (trstatus_code s) st && (Z.eqb v src || Z.eqb st 1) && zlist_eqb e exl then OkCase
                  else Mismatch 1 (L [L [I (trstatus_code s); I v]; of_ints e])
              | _, _ => BadCase 9
              end
          end
      | _, _ => BadCase 2
      end
  | _ => BadCase 1
  end.

(** case 18 = (nodes, g, s, found, ids, statuses-after): GetNextTaskIds *)
Definition check_next (c : sx) : verdict :=
  match c with
  | L [L nodes; I g; I s; I found; ids; sts] =>
      match opt_map node_of_sx nodes, tstatus_of_z s, sx_ints ids, sx_ints sts with
      | Some t, Some s', Some idl, Some stl =>
          match next_ids t g s' with
          | Some (t', out, f) =>
              let stl' := map (fun n => tstatus_code (nst n)) t' in
              if Z.eqb (if f then 1 else 0) found && zlist_eqb out idl && zlist_eqb stl' stl then OkCase
              else Mismatch 1 (L [of_bool f; of_ints out; of_ints stl'])
          | None => BadCase 9
          end
      | _, _, _, _ => BadCase 2
      end
  | _ => BadCase 1
  end.

(** case 19 = (nodes, ids, statuses-after): the marking walk of cancelChildTasks *)
Definition check_cancel_mark (c : sx) : verdict :=
  match c with
  | L [L nodes; ids; sts] =>
      match opt_map node_of_sx nodes, sx_ints ids, sx_ints sts with
      | Some t, Some idl, Some stl =>
          match cancel_mark idl t with
          | Some t' =>
              let stl' := map (fun n => tstatus_code (nst n)) t' in
              if zlist_eqb stl' stl then OkCase else Mismatch 1 (of_ints stl')
          | None => BadCase 9
          end
      | _, _, _ => BadCase 2
      end
  | _ => BadCase 1
  end.
