(** EngineCore: the core of the engine for one dag instance - the parser's knowledge tree, the executor's
    runs and the persisted task statuses - as a labelled transition system.  Scope: tasks without
    pre-checks; task failures, the retry command, worker crash and restart; store writes succeed.
    (Cancel, continue, pre-checks, the watchdog and failing writes are outside this model; they are
    covered by the journal monitor only.)

    A delivery carries the snapshot of the task the parser read from the store.  The executor's guard
    (cancelMap) refuses a delivery only while a run of the task is registered.  [validate = true]
    restricts the histories to those in which every accepted delivery carries the task's current
    persisted status; [validate = false] is the code as it is. *)
From Coq Require Import List ZArith Bool Lia.
Import ListNotations.
Local Open Scope Z_scope.

Inductive est := SInit | SRunning | SEnding | SSuccess | SFailed | SRetrying.
Definition est_eqb (a b : est) : bool :=
  match a, b with
  | SInit, SInit | SRunning, SRunning | SEnding, SEnding | SSuccess, SSuccess | SFailed, SFailed | SRetrying, SRetrying => true
  | _, _ => false
  end.
Lemma est_eqb_eq a b : est_eqb a b = true <-> a = b.
Proof. destruct a, b; cbn; split; intro H; try reflexivity; try discriminate. Qed.

Definition exec (s : est) : bool := match s with SInit | SRetrying | SEnding => true | _ => false end.
Definition done (s : est) : bool := match s with SSuccess => true | _ => false end.

Inductive rpc := RNone | RQueued (s : est) | RRunning | RInMain | REnding.
Definition is_none (r : rpc) : bool := match r with RNone => true | _ => false end.

Record ec := { store : Z -> est;        (* persisted status *)
               know : Z -> est;         (* the parser's tree *)
               runs : Z -> rpc;         (* the executor *)
               started : Z -> bool;     (* ghost: the main action started in the current attempt *)
               evq : list (Z * est);    (* completion events queued for the parser worker *)
               pend : list (Z * est) }. (* deliveries (task, snapshot status) on their way to the executor *)

Definition upd {A} (f : Z -> A) (k : Z) (v : A) : Z -> A := fun x => if Z.eqb x k then v else f x.

Inductive label :=
| Accept (t : Z) (s : est) | Drop (t : Z) (s : est)
| StartWrite (t : Z) | MainStart (t : Z) | MainOk (t : Z) | MainErr (t : Z) | AfterOk (t : Z) | AfterErr (t : Z)
| BeforeErr (t : Z)      (* the before-hook fails (it runs before 'running' is stored): init -> failed *)
| RetryErr (t : Z)       (* the retry-hook fails: retrying -> failed *)
| Deliver                (* the parser worker handles the next completion event *)
| Rearm (t : Z)          (* retry command: failed -> retrying *)
| Rebuild                (* InitialDagIns: the tree is rebuilt from the store, everything executable is pushed *)
| WdFail (t : Z)         (* the watchdog fails a task that is recorded running and has no live run *)
| Crash.                 (* the worker dies: runs, queued events and deliveries are gone (the restart rebuilds) *)

Fixpoint remove1 (p : Z * est) (l : list (Z * est)) : option (list (Z * est)) :=
  match l with
  | [] => None
  | x :: r => if Z.eqb (fst x) (fst p) && est_eqb (snd x) (snd p) then Some r
              else match remove1 p r with Some r' => Some (x :: r') | None => None end
  end.

Section G.
  Variable tasks : list Z.
  Variable deps : Z -> list Z.
  Variable validate : bool.

  Definition parents_done (f : Z -> est) (t : Z) : bool := forallb (fun d => done (f d)) (deps t).
  Definition pushable (f : Z -> est) (t : Z) : bool := exec (f t) && parents_done f t.
  Definition children (t : Z) : list Z := filter (fun c => existsb (Z.eqb t) (deps c)) tasks.
  Definition snap (f : Z -> est) (l : list Z) : list (Z * est) := map (fun c => (c, f c)) l.

  (** every task record exists with status init; nothing has been read or pushed yet *)
  Definition boot : ec :=
    let st := fun _ : Z => SInit in
    {| store := st; know := st; runs := fun _ => RNone; started := fun _ => false; evq := []; pend := [] |}.

  Definition step (s : ec) (l : label) : option ec :=
    match l with
    | Accept t sn =>
        match remove1 (t, sn) (pend s) with
        | Some p' =>
            if is_none (runs s t) && exec sn && (negb validate || est_eqb (store s t) sn)
            then Some {| store := store s; know := know s; runs := upd (runs s) t (RQueued sn); started := started s;
                         evq := evq s; pend := p' |}
            else None
        | None => None
        end
    | Drop t sn =>
        match remove1 (t, sn) (pend s) with
        | Some p' =>
            if is_none (runs s t) && exec sn && (negb validate || est_eqb (store s t) sn)
            then None
            else Some {| store := store s; know := know s; runs := runs s; started := started s; evq := evq s; pend := p' |}
        | None => None
        end
    | StartWrite t =>
        match runs s t with
        | RQueued SInit => Some {| store := upd (store s) t SRunning; know := know s; runs := upd (runs s) t RRunning;
                                   started := started s; evq := evq s; pend := pend s |}
        | RQueued SRetrying =>
            (* the retry hook ran; the task is stored as init and handed back to the parser, which pushes it again *)
            Some {| store := upd (store s) t SInit; know := know s; runs := upd (runs s) t RNone;
                    started := started s; evq := evq s ++ [(t, SInit)]; pend := pend s |}
        | RQueued SEnding => Some {| store := store s; know := know s; runs := upd (runs s) t REnding;
                                     started := started s; evq := evq s; pend := pend s |}
        | _ => None
        end
    | MainStart t =>
        match runs s t with
        | RRunning => Some {| store := store s; know := know s; runs := upd (runs s) t RInMain;
                              started := upd (started s) t true; evq := evq s; pend := pend s |}
        | _ => None
        end
    | MainOk t =>
        match runs s t with
        | RInMain => Some {| store := upd (store s) t SEnding; know := know s; runs := upd (runs s) t REnding;
                             started := started s; evq := evq s; pend := pend s |}
        | _ => None
        end
    | MainErr t =>
        match runs s t with
        | RInMain => Some {| store := upd (store s) t SFailed; know := know s; runs := upd (runs s) t RNone;
                             started := started s; evq := evq s ++ [(t, SFailed)]; pend := pend s |}
        | _ => None
        end
    | AfterOk t =>
        match runs s t with
        | REnding => Some {| store := upd (store s) t SSuccess; know := know s; runs := upd (runs s) t RNone;
                             started := started s; evq := evq s ++ [(t, SSuccess)]; pend := pend s |}
        | _ => None
        end
    | AfterErr t =>
        match runs s t with
        | REnding => Some {| store := upd (store s) t SFailed; know := know s; runs := upd (runs s) t RNone;
                             started := started s; evq := evq s ++ [(t, SFailed)]; pend := pend s |}
        | _ => None
        end
    | Deliver =>
        match evq s with
        | (t, st) :: r =>
            let k' := upd (know s) t st in
            Some {| store := store s; know := k'; runs := runs s; started := started s; evq := r;
                    pend := pend s ++ snap (store s) (if done st then filter (pushable k') (children t)
                                                      else if est_eqb st SInit then [t] else []) |}
        | [] => None
        end
    | BeforeErr t =>
        match runs s t with
        | RQueued SInit => Some {| store := upd (store s) t SFailed; know := know s; runs := upd (runs s) t RNone;
                              started := started s; evq := evq s ++ [(t, SFailed)]; pend := pend s |}
        | _ => None
        end
    | RetryErr t =>
        match runs s t with
        | RQueued SRetrying => Some {| store := upd (store s) t SFailed; know := know s; runs := upd (runs s) t RNone;
                                       started := started s; evq := evq s ++ [(t, SFailed)]; pend := pend s |}
        | _ => None
        end
    | Rearm t =>
        match store s t with
        | SFailed =>
            Some {| store := upd (store s) t SRetrying; know := know s; runs := runs s; started := upd (started s) t false;
                    evq := evq s; pend := pend s |}
        | _ => None
        end
    | WdFail t =>
        match store s t, runs s t with
        | SRunning, RNone => Some {| store := upd (store s) t SFailed; know := know s; runs := runs s; started := started s;
                                     evq := evq s; pend := pend s |}
        | _, _ => None
        end
    | Rebuild =>
        Some {| store := store s; know := store s; runs := runs s; started := started s; evq := evq s;
                pend := pend s ++ snap (store s) (filter (pushable (store s)) tasks) |}
    | Crash =>
        Some {| store := store s; know := know s; runs := fun _ => RNone; started := started s; evq := []; pend := [] |}
    end.

  Fixpoint run (s : ec) (ls : list label) : option ec :=
    match ls with
    | [] => Some s
    | l :: t => match step s l with Some s' => run s' t | None => None end
    end.
End G.
