(** StoreModel: the documented contract of store/mongo (pkg/mod.Store) as an
    executable reference: two collections of typed records in insertion order,
    API-level operations with the fields each of them writes, list filters, the
    error classes.  Used by C19 (contract), C06 (worker filter), C14 (expiry
    predicate) and C05 (instantiation). *)
From Coq Require Import List ZArith Bool Arith Lia.
From FF Require Import Sx.
Import ListNotations.
Local Open Scope Z_scope.

(** Strings are renamed to positive integers by the harness; 0 = the empty string. *)
Record trec := mkT {
  t_id : Z; t_ins : Z; t_gid : Z; t_deps : list Z; t_timeout : Z;
  t_status : Z; t_reason : Z; t_traces : list Z; t_upd : Z; t_rest : sx }.

Record irec := mkI {
  i_id : Z; i_worker : Z; i_status : Z; i_reason : Z;
  i_cmd : option (Z * list Z);          (* None = absent or null *)
  i_share : option (list (Z * Z));      (* None = absent *)
  i_upd : Z; i_rest : sx }.

Record store := mkS { insts : list irec; tasks : list trec }.
Definition empty_store := mkS [] [].

Inductive reply :=
| ROk | RConflict | RNotFound | RErr
| RTask (r : trec) | RIns (r : irec)
| RTasks (l : list trec) | RInss (l : list irec).

(* ------------------------------------------------------------------ generic helpers *)
Fixpoint upd_first {A} (p : A -> bool) (f : A -> A) (l : list A) : list A * bool :=
  match l with
  | [] => ([], false)
  | x :: r => if p x then (f x :: r, true)
              else let '(r', b) := upd_first p f r in (x :: r', b)
  end.

Definition zin (x : Z) (l : list Z) : bool := existsb (Z.eqb x) l.

(* ------------------------------------------------------------------ task instances *)
Definition has_task (s : store) (id : Z) : bool := existsb (fun r => Z.eqb (t_id r) id) (tasks s).
Definition has_ins (s : store) (id : Z) : bool := existsb (fun r => Z.eqb (i_id r) id) (insts s).

(** CreateTaskIns / one element of BatchCreatTaskIns: createdAt/updatedAt := now *)
Definition create_task (now : Z) (s : store) (r : trec) : store * reply :=
  if has_task s (t_id r) then (s, RConflict)
  else (mkS (insts s) (tasks s ++ [mkT (t_id r) (t_ins r) (t_gid r) (t_deps r) (t_timeout r)
                                         (t_status r) (t_reason r) (t_traces r) now (t_rest r)]), ROk).

Definition create_ins (now : Z) (s : store) (r : irec) : store * reply :=
  if has_ins s (i_id r) then (s, RConflict)
  else (mkS (insts s ++ [mkI (i_id r) (i_worker r) (i_status r) (i_reason r) (i_cmd r) (i_share r) now (i_rest r)])
            (tasks s), ROk).

(** BatchCreatTaskIns: sequential, stops at the first failure (duplicate key = generic error
    here, the code does not map it); [fail_at] = index of an injected database failure. *)
Fixpoint batch_create_tasks (now : Z) (s : store) (l : list trec) (fail_at : option nat) : store * reply :=
  match l with
  | [] => (s, ROk)
  | r :: rest =>
      match fail_at with
      | Some O => (s, RErr)
      | _ =>
          match create_task now s r with
          | (s', ROk) => batch_create_tasks now s' rest
                           (match fail_at with Some (S k) => Some k | _ => None end)
          | (s', _) => (s', RErr)
          end
      end
  end.

(** PatchTaskIns: $set updatedAt, and status / reason / traces only when supplied
    (non-empty).  A missing id is not an error (UpdateOne matches nothing). *)
Definition patch_task (now : Z) (s : store) (id st rs : Z) (tr : list Z) : store * reply :=
  if Z.eqb id 0 then (s, RErr)
  else
    let f r := mkT (t_id r) (t_ins r) (t_gid r) (t_deps r) (t_timeout r)
                   (if Z.eqb st 0 then t_status r else st)
                   (if Z.eqb rs 0 then t_reason r else rs)
                   (match tr with [] => t_traces r | _ => tr end) now (t_rest r) in
    (mkS (insts s) (fst (upd_first (fun r => Z.eqb (t_id r) id) f (tasks s))), ROk).

(** PatchDagIns with the must-patch switches for Cmd and Reason *)
Definition patch_ins (now : Z) (s : store) (id : Z) (share : option (list (Z * Z))) (st : Z)
           (cmd : option (Z * list Z)) (must_cmd : bool) (wk : Z) (rs : Z) (must_rs : bool) : store * reply :=
  let f r := mkI (i_id r)
                 (if Z.eqb wk 0 then i_worker r else wk)
                 (if Z.eqb st 0 then i_status r else st)
                 (if must_rs || negb (Z.eqb rs 0) then rs else i_reason r)
                 (match cmd with Some c => Some c | None => if must_cmd then None else i_cmd r end)
                 (match share with Some d => Some d | None => i_share r end)
                 now (i_rest r) in
  (mkS (fst (upd_first (fun r => Z.eqb (i_id r) id) f (insts s))) (tasks s), ROk).

(** UpdateTaskIns / UpdateDagIns: whole-document replacement, NotFound when missing *)
Definition update_task (now : Z) (s : store) (r : trec) : store * reply :=
  let '(l, b) := upd_first (fun x => Z.eqb (t_id x) (t_id r))
                   (fun _ => mkT (t_id r) (t_ins r) (t_gid r) (t_deps r) (t_timeout r)
                                 (t_status r) (t_reason r) (t_traces r) now (t_rest r)) (tasks s) in
  if b then (mkS (insts s) l, ROk) else (s, RNotFound).

Definition update_ins (now : Z) (s : store) (r : irec) : store * reply :=
  let '(l, b) := upd_first (fun x => Z.eqb (i_id x) (i_id r))
                   (fun _ => mkI (i_id r) (i_worker r) (i_status r) (i_reason r) (i_cmd r) (i_share r) now (i_rest r))
                   (insts s) in
  if b then (mkS l (tasks s), ROk) else (s, RNotFound).

(** BatchUpdateDagIns: every element replaced (a missing id is silently skipped by
    ReplaceOne); an injected database failure of one element is reported (since the fix). *)
Fixpoint batch_update_ins (now : Z) (s : store) (l : list irec) (fail_at : option nat) : store * reply :=
  match l with
  | [] => (s, ROk)
  | r :: rest =>
      let s1 := match fail_at with Some O => s | _ => fst (update_ins now s r) end in
      let '(s2, rp) := batch_update_ins now s1 rest (match fail_at with Some (S k) => Some k | _ => None end) in
      (s2, match fail_at with Some O => RErr | _ => rp end)
  end.

(** BatchUpdateTaskIns: sequential, stops at the first database failure *)
Fixpoint batch_update_tasks (now : Z) (s : store) (l : list trec) (fail_at : option nat) : store * reply :=
  match l with
  | [] => (s, ROk)
  | r :: rest =>
      match fail_at with
      | Some O => (s, RErr)
      | _ => batch_update_tasks now (fst (update_task now s r)) rest
               (match fail_at with Some (S k) => Some k | _ => None end)
      end
  end.

Definition get_task (s : store) (id : Z) : reply :=
  match find (fun r => Z.eqb (t_id r) id) (tasks s) with Some r => RTask r | None => RNotFound end.
Definition get_ins (s : store) (id : Z) : reply :=
  match find (fun r => Z.eqb (i_id r) id) (insts s) with Some r => RIns r | None => RNotFound end.

(* ------------------------------------------------------------------ list filters *)
Record ifilter := mkIF { if_worker : Z; if_status : list Z; if_upd_end : Z; if_has_cmd : bool; if_limit : Z }.

Definition ins_matches (f : ifilter) (r : irec) : bool :=
  (match if_status f with [] => true | l => zin (i_status r) l end)
  && (Z.eqb (if_worker f) 0 || Z.eqb (i_worker r) (if_worker f))
  && (negb (0 <? if_upd_end f) || (i_upd r <=? if_upd_end f))
  && (negb (if_has_cmd f) || match i_cmd r with Some _ => true | None => false end).

Definition take_limit {A} (lim : Z) (l : list A) : list A :=
  if 0 <? lim then firstn (Z.to_nat lim) l else l.

Definition list_ins (s : store) (f : ifilter) : list irec :=
  take_limit (if_limit f) (filter (ins_matches f) (insts s)).

Record tfilter := mkTF { tf_ids : list Z; tf_ins : Z; tf_status : list Z; tf_expired : bool }.

(** the expiry predicate of ListTaskInstance{Expired}: updatedAt <= now - 5 - timeoutSecs *)
Definition expired (now : Z) (r : trec) : bool := t_upd r <=? now - 5 - t_timeout r.

Definition task_matches (now : Z) (f : tfilter) (r : trec) : bool :=
  (match tf_ids f with [] => true | l => zin (t_id r) l end)
  && (match tf_status f with [] => true | l => zin (t_status r) l end)
  && (negb (tf_expired f) || expired now r)
  && (Z.eqb (tf_ins f) 0 || Z.eqb (t_ins r) (tf_ins f)).

Definition list_tasks (now : Z) (s : store) (f : tfilter) : list trec :=
  filter (task_matches now f) (tasks s).

Definition delete_tasks (s : store) (ids : list Z) : store :=
  mkS (insts s) (filter (fun r => negb (zin (t_id r) ids)) (tasks s)).
Definition delete_inss (s : store) (ids : list Z) : store :=
  mkS (filter (fun r => negb (zin (i_id r) ids)) (insts s)) (tasks s).

(** virtual clock: every stored updatedAt moves d into the past *)
Definition age (s : store) (d : Z) : store :=
  mkS (map (fun r => mkI (i_id r) (i_worker r) (i_status r) (i_reason r) (i_cmd r) (i_share r) (i_upd r - d) (i_rest r)) (insts s))
      (map (fun r => mkT (t_id r) (t_ins r) (t_gid r) (t_deps r) (t_timeout r) (t_status r) (t_reason r) (t_traces r) (t_upd r - d) (t_rest r)) (tasks s)).

(* ------------------------------------------------------------------ the leader's watchdog sweeps (pkg/mod/watchdog.go)
   as read-then-write rounds not interleaved with anybody else *)
(* stored status codes: task running 2, failed 5; instance init 1, scheduled 2, failed 5; reason class watchdog = 1 *)
Definition expired_selected (now : Z) (s : store) : list trec :=
  list_tasks now s (mkTF [] 0 [2] true).

Definition expired_round (now : Z) (s : store) : store :=
  fold_left (fun acc r =>
               let acc1 := fst (patch_ins now acc (t_ins r) None 5 None false 0 0 false) in
               fst (patch_task now acc1 (t_id r) 5 1 []))
            (expired_selected now s) s.

Definition left_behind_selected (now timeout : Z) (s : store) : list irec :=
  list_ins s (mkIF 0 [2] (now - timeout) false 0).

Definition left_behind_round (now timeout : Z) (s : store) : store :=
  fold_left (fun acc i =>
               fst (update_ins now acc (mkI (i_id i) (i_worker i) 1 (i_reason i) (i_cmd i) (i_share i) 0 (i_rest i))))
            (left_behind_selected now timeout s) s.

(** context deadline handed to an action: the task's own timeout, or the worker default when 0 *)
Definition action_timeout (dflt own : Z) : Z := if Z.eqb own 0 then dflt else own.

(* ------------------------------------------------------------------ operations as data *)
Inductive sop :=
| OCreateTask (r : trec) | OCreateIns (r : irec)
| OBatchCreateTasks (l : list trec) (fail_at : option nat)
| OPatchTask (id st rs : Z) (tr : list Z)
| OPatchIns (id : Z) (share : option (list (Z * Z))) (st : Z) (cmd : option (Z * list Z)) (must_cmd : bool)
            (wk rs : Z) (must_rs : bool)
| OUpdateTask (r : trec) | OUpdateIns (r : irec)
| OBatchUpdateIns (l : list irec) (fail_at : option nat)
| OBatchUpdateTasks (l : list trec) (fail_at : option nat)
| OGetTask (id : Z) | OGetIns (id : Z)
| OListIns (f : ifilter) | OListTasks (f : tfilter)
| ODeleteTasks (ids : list Z) | ODeleteInss (ids : list Z)
| OAge (d : Z)
| OExpiredRound | OLeftBehindRound (timeout : Z).

Definition sstep (now : Z) (s : store) (o : sop) : store * reply :=
  match o with
  | OCreateTask r => create_task now s r
  | OCreateIns r => create_ins now s r
  | OBatchCreateTasks l f => batch_create_tasks now s l f
  | OPatchTask id st rs tr => patch_task now s id st rs tr
  | OPatchIns id sh st cmd mc wk rs mr => patch_ins now s id sh st cmd mc wk rs mr
  | OUpdateTask r => update_task now s r
  | OUpdateIns r => update_ins now s r
  | OBatchUpdateIns l f => batch_update_ins now s l f
  | OBatchUpdateTasks l f => batch_update_tasks now s l f
  | OGetTask id => (s, get_task s id)
  | OGetIns id => (s, get_ins s id)
  | OListIns f => (s, RInss (list_ins s f))
  | OListTasks f => (s, RTasks (list_tasks now s f))
  | ODeleteTasks ids => (delete_tasks s ids, ROk)
  | ODeleteInss ids => (delete_inss s ids, ROk)
  | OAge d => (age s d, ROk)
  | OExpiredRound => (expired_round now s, ROk)
  | OLeftBehindRound to => (left_behind_round now to s, ROk)
  end.

(* ------------------------------------------------------------------ worker key (keeper.CheckWorkerKey) *)
(** bytes of the key as integers; accepted iff it matches ^.+-(\d+)$ with the number in 0..255.
    '.' does not match a newline (10); the regexp is greedy, so the LAST '-' followed by
    digits only is the split point: the suffix after the last '-' must be a non-empty digit
    string and the prefix before it non-empty and newline-free... (.+ may contain '-') *)
Definition is_digit (c : Z) : bool := (48 <=? c) && (c <=? 57).

Fixpoint digits_value (l : list Z) (acc : Z) : Z :=
  match l with [] => acc | c :: r => digits_value r (acc * 10 + (c - 48)) end.

(** split at the last '-' : returns (prefix, suffix) *)
Fixpoint split_last_dash (l : list Z) : option (list Z * list Z) :=
  match l with
  | [] => None
  | c :: r =>
      match split_last_dash r with
      | Some (p, s) => Some (c :: p, s)
      | None => if Z.eqb c 45 then Some ([], r) else None
      end
  end.

Definition check_worker_key (key : list Z) : option Z :=
  match split_last_dash key with
  | Some (p, s) =>
      match p, s with
      | _ :: _, _ :: _ =>
          if forallb is_digit s && forallb (fun c => negb (Z.eqb c 10)) p
          then let v := digits_value s 0 in
               (* strconv.Atoi fails beyond int64; any such value is > 255 anyway *)
               if v <=? 255 then Some v else None
          else None
      | _, _ => None
      end
  | None => None
  end.
