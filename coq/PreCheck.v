(** PreCheck: TaskInstance.DoPreCheck (pkg/entity/task.go).  Checks live in a Go map,
    so when several checks are met any of them may be the one that fires: the model
    returns the SET of possible outcomes. *)
From Coq Require Import List ZArith Bool Arith.
From FF Require Import Sx StoreModel.
Import ListNotations.
Local Open Scope Z_scope.

(** source: 1 vars, 2 share-data; op: 1 in, 2 not-in; act: 1 skip, 2 block, other = invalid *)
Record cond := mkCond { c_src : Z; c_key : Z; c_vals : list Z; c_op : Z }.
Record chk := mkChk { k_act : Z; k_conds : list cond }.

Definition kv_lookup (d : list (Z * Z)) (k : Z) : option Z :=
  match find (fun p => Z.eqb (fst p) k) d with Some p => Some (snd p) | None => None end.

Definition cond_met (vars share : list (Z * Z)) (c : cond) : bool :=
  match kv_lookup (if Z.eqb (c_src c) 1 then vars else share) (c_key c) with
  | None => false
  | Some v => if Z.eqb (c_op c) 1 then zin v (c_vals c)
              else if Z.eqb (c_op c) 2 then negb (zin v (c_vals c)) else false
  end.

Definition chk_met (vars share : list (Z * Z)) (k : chk) : bool := forallb (cond_met vars share) (k_conds k).

(* status codes as stored: 3 ending 4 success 5 failed 6 canceled 10 skipped 8 blocked 9 continue *)
(** finished tasks, and (since the fix commit) tasks resumed in status ending (3), are not pre-checked *)
Definition last_state (st : Z) : bool := zin st [4; 5; 6; 10; 3].

(** outcome of one firing check: 10 skipped, 8 blocked, -1 error (invalid act) *)
Definition fire (k : chk) : Z := if Z.eqb (k_act k) 1 then 10 else if Z.eqb (k_act k) 2 then 8 else -1.

Definition can_fire (st : Z) (vars share : list (Z * Z)) (k : chk) : bool :=
  negb (Z.eqb (k_act k) 2 && Z.eqb st 9) && chk_met vars share k.

(** possible results: [] = inactive (run normally) *)
Definition pre_outcomes (st : Z) (checks : list chk) (vars share : list (Z * Z)) : list Z :=
  if last_state st then [] else map fire (filter (can_fire st vars share) checks).

(* ------------------------------------------------------------------ sx glue *)
Definition cond_of_sx (s : sx) : option cond :=
  match s with
  | L [I src; I key; vals; I op] => option_map (fun v => mkCond src key v op) (sx_ints vals)
  | _ => None
  end.
Definition chk_of_sx (s : sx) : option chk :=
  match s with
  | L [I act; L cs] => option_map (mkChk act) (opt_map cond_of_sx cs)
  | _ => None
  end.
Definition kvs_of_sx (s : sx) : option (list (Z * Z)) :=
  match s with
  | L l => opt_map (fun x => match x with L [I k; I v] => Some (k, v) | _ => None end) l
  | _ => None
  end.

(** case = (status checks vars share observed) ; observed = 0 inactive | 10 | 8 | -1 *)
Definition check_precheck (c : sx) : verdict :=
  match c with
  | L [I st; L cks; vars; share; I obs] =>
      match opt_map chk_of_sx cks, kvs_of_sx vars, kvs_of_sx share with
      | Some ks, Some v, Some sh =>
          let outs := pre_outcomes st ks v sh in
          if match outs with [] => Z.eqb obs 0 | _ => zin obs outs end then OkCase
          else Mismatch 1 (of_ints outs)
      | _, _, _ => BadCase 2
      end
  | _ => BadCase 1
  end.

(** C13 on one DoPreCheck call: finished tasks are left alone, a continued task is not blocked
    again, a met skip check fires, and nothing fires when nothing is met - i.e. the observed
    outcome is one the outcome set allows *)
Definition monitor_precheck (c : sx) : option bool :=
  match check_precheck c with OkCase => Some true | Mismatch _ _ => Some false | BadCase _ => None end.
