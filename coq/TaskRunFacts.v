From Coq Require Import List ZArith Bool Arith Lia.
From FF Require Import Sx StoreModel StoreCheck TaskRun.
Import ListNotations.
Local Open Scope Z_scope.

Lemma run_acc_app p a b :
  run_acc p (a ++ b) = match run_acc p a with Some q => run_acc q b | None => None end.
Proof.
  revert p; induction a as [|e a IH]; intros p; simpl; [reflexivity|].
  destruct (acc_step p e); [apply IH|reflexivity].
Qed.

Definition not_tx (e : tev) : bool := match e with TX => false | _ => true end.

Lemma step_tx p : acc_step p TX = Some p.
Proof. destruct p; reflexivity. Qed.


Ltac split_all :=
  repeat (match goal with
          | |- context [match ?x with _ => _ end] => destruct x eqn:?
          | |- context [if ?b then _ else _] => destruct b eqn:?
          end); simpl; try discriminate.

Ltac fix_eqb :=
  repeat match goal with
         | H : Z.eqb ?o 0 = true |- _ => apply Z.eqb_eq in H; subst
         end.

Ltac into_tac :=
  intros; fix_eqb;
  first [ discriminate
        | left; split; [reflexivity|congruence]
        | right; eexists; reflexivity
        | right; reflexivity
        | congruence ].

(** which events lead into which program counter *)
Lemma into_NeedRunStart p e :
  acc_step p e = Some NeedRunStart -> (e = TX /\ p = NeedRunStart) \/ exists r, e = TP 2 r true.
Proof. unfold acc_step. destruct p; destruct e as [ph|ph o|st r ok| |]; split_all; into_tac. Qed.

Lemma start_run_needs p q : acc_step p (TS 1) = Some q -> p = NeedRunStart.
Proof. unfold acc_step. destruct p; simpl; congruence. Qed.

Lemma filter_snoc {A} (f : A -> bool) l x : filter f (l ++ [x]) = filter f l ++ (if f x then [x] else []).
Proof. rewrite filter_app. simpl. destruct (f x); reflexivity. Qed.

Lemma reach_NeedRunStart evs : forall p0,
  run_acc p0 evs = Some NeedRunStart ->
  (p0 = NeedRunStart /\ filter not_tx evs = []) \/
  exists pre r, filter not_tx evs = pre ++ [TP 2 r true].
Proof.
  induction evs as [|e evs IH] using rev_ind; intros p0 H.
  - simpl in H. injection H as ->. left; auto.
  - rewrite run_acc_app in H. destruct (run_acc p0 evs) as [q|] eqn:Hq; [|discriminate].
    cbn [run_acc] in H. destruct (acc_step q e) as [q'|] eqn:Hs; [|discriminate]. injection H as ->.
    rewrite filter_snoc. apply into_NeedRunStart in Hs as [[-> ->]|[r ->]].
    + simpl. rewrite app_nil_r. apply IH. exact Hq.
    + right. exists (filter not_tx evs), r. reflexivity.
Qed.

(** C02 (a), write-ahead: in every accepted stream the main action starts only directly after
    an acknowledged 'running' write of the same run (writes by others aside). *)
Theorem accepted_write_ahead pre post :
  run_acc Idle (pre ++ TS 1 :: post) <> None ->
  exists pre' r, filter not_tx pre = pre' ++ [TP 2 r true].
Proof.
  intros H. rewrite run_acc_app in H. destruct (run_acc Idle pre) as [p|] eqn:Hp; [|congruence].
  cbn [run_acc] in H. destruct (acc_step p (TS 1)) as [q|] eqn:Hs; [|congruence].
  apply start_run_needs in Hs. subst p.
  apply reach_NeedRunStart in Hp as [[Hc _]|Hp]; [discriminate|exact Hp].
Qed.

(** ... and never after a failed one: a failed 'running' write leads to the failure write only *)
Theorem failed_running_write_no_start p r :
  acc_step p (TP 2 r false) <> None -> acc_step p (TP 2 r false) = Some NeedFail.
Proof. unfold acc_step. destruct p; split_all; congruence. Qed.

Theorem NeedFail_only_failure_write e q :
  acc_step NeedFail e = Some q -> e = TX \/ e = TCrash \/ exists st ok, e = TP st true ok /\ is_fail_st st = true.
Proof.
  unfold acc_step. destruct e as [ph|ph o|st r ok| |]; try (intros; auto; fail); try discriminate.
  destruct r; [|destruct st as [|[[?|?|]|[?|?|]|]|]; discriminate].
  destruct (is_fail_st st) eqn:E.
  - intros _. right. right. exists st, ok. auto.
  - destruct st as [|[[?|?|]|[?|?|]|]|]; simpl in *; discriminate.
Qed.

(** C03, containment: a phase that returns an error or panics puts the run into the state whose
    only continuation is the failed/canceled write (with a reason) of that same task *)
Theorem phase_error_leads_to_fail p ph o q :
  acc_step p (TE ph o) = Some q -> o <> 0 -> q = NeedFail.
Proof.
  intros H Ho. apply Z.eqb_neq in Ho. revert H. unfold acc_step.
  destruct p; split_all; intros; try congruence.
Qed.

(** C02 (c): a success write is accepted only when the run is past the main action:
    directly after the after-hook returned ok, or after the acknowledged 'ending' write
    (no after-hook), or as the resumption of a task persisted as 'ending'. *)
Theorem success_write_needs p r ok q :
  acc_step p (TP 4 r ok) = Some q -> p = NeedSuccess \/ p = NeedAfterOrSuccess \/ p = Idle.
Proof. unfold acc_step. destruct p; split_all; intros; auto; discriminate. Qed.

Lemma into_NeedSuccess p e :
  acc_step p e = Some NeedSuccess -> (e = TX /\ p = NeedSuccess) \/ e = TE 2 0.
Proof. unfold acc_step. destruct p; destruct e as [ph|ph o|st r ok| |]; split_all; into_tac. Qed.

Lemma into_NeedAfterOrSuccess p e :
  acc_step p e = Some NeedAfterOrSuccess -> (e = TX /\ p = NeedAfterOrSuccess) \/ exists r, e = TP 3 r true.
Proof. unfold acc_step. destruct p; destruct e as [ph|ph o|st r ok| |]; split_all; into_tac. Qed.

Lemma ending_write_needs p r ok q : acc_step p (TP 3 r ok) = Some q -> p = NeedEnding.
Proof. unfold acc_step. destruct p; split_all; intros; auto; discriminate. Qed.

Lemma into_NeedEnding p e :
  acc_step p e = Some NeedEnding -> (e = TX /\ p = NeedEnding) \/ e = TE 1 0.
Proof. unfold acc_step. destruct p; destruct e as [ph|ph o|st r ok| |]; split_all; into_tac. Qed.

(* non-vacuity: a full run with hooks, and a failing one *)
Example accepts_full_run :
  accepts [TS 0; TE 0 0; TP 2 false true; TS 1; TE 1 0; TP 3 false true; TS 2; TE 2 0; TP 4 false true] = true.
Proof. reflexivity. Qed.
Example accepts_failed_run :
  accepts [TP 2 false true; TS 1; TE 1 2; TP 5 true true] = true.
Proof. reflexivity. Qed.
Example rejects_start_without_running : accepts [TS 1; TE 1 0] = false.
Proof. reflexivity. Qed.
