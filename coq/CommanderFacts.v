From Coq Require Import List ZArith Bool Arith Lia.
From FF Require Import Sx StoreModel StoreCheck Commander.
Import ListNotations.
Local Open Scope Z_scope.

(** the rejection rules of C11, one by one *)
Theorem reject_empty s kind alive : admission s kind [] alive = CRej EEmpty.
Proof. reflexivity. Qed.

Theorem reject_unknown_ids s kind ids alive :
  ids <> [] -> length ids <> length (found_tasks s ids) -> admission s kind ids alive = CRej ENotFound.
Proof.
  intros Hne Hl. unfold admission. destruct ids as [|x r]; [congruence|].
  destruct (Nat.eqb_spec (length (x :: r)) (length (found_tasks s (x :: r)))); [contradiction|reflexivity].
Qed.

(** an accepted command: all ids name tasks of ONE instance, which has no pending command; for cancel
    it is running and its worker alive; for retry/continue the stored worker is alive, or it is
    replaced by an alive one (and some worker is alive) *)
Theorem accepted_spec s kind ids alive ws cmd :
  admission s kind ids alive = CAcc ws cmd ->
  ids <> [] /\ cmd = (kind, ids) /\
  exists t0 i, In t0 (found_tasks s ids) /\ (forall t, In t (found_tasks s ids) -> t_ins t = t_ins t0) /\
    find (fun i => Z.eqb (i_id i) (t_ins t0)) (insts s) = Some i /\ i_cmd i = None /\
    (kind = 2 -> i_status i = 3 /\ zin (i_worker i) alive = true /\ ws = [i_worker i]) /\
    (kind <> 2 -> (zin (i_worker i) alive = true /\ ws = [i_worker i]) \/ (zin (i_worker i) alive = false /\ ws = alive /\ alive <> [])).
Proof.
  unfold admission. destruct ids as [|x r]; [discriminate|]. set (ids := x :: r).
  destruct (negb (Nat.eqb (length ids) (length (found_tasks s ids)))); [discriminate|].
  destruct (found_tasks s ids) as [|t0 ft] eqn:Hf; [discriminate|].
  destruct (negb (forallb (fun t => Z.eqb (t_ins t) (t_ins t0)) (t0 :: ft))) eqn:Hsame; [discriminate|].
  apply negb_false_iff in Hsame. rewrite forallb_forall in Hsame.
  destruct (find (fun i => Z.eqb (i_id i) (t_ins t0)) (insts s)) as [i|] eqn:Hi; [|discriminate].
  intros H. split; [discriminate|].
  assert (Hcommon : forall t, In t (t0 :: ft) -> t_ins t = t_ins t0) by (intros t Ht; apply Z.eqb_eq, Hsame, Ht).
  assert (Hin0 : In t0 (t0 :: ft)) by (left; reflexivity).
  destruct (Z.eqb_spec kind 2) as [Hk|Hk].
  - destruct (zin (i_worker i) alive) eqn:Ha; simpl in H; [|discriminate].
    destruct (Z.eqb_spec (i_status i) 3) as [Hs|Hs]; simpl in H; [|discriminate].
    destruct (i_cmd i) eqn:Hc; [discriminate|]. injection H as <- <-. split; [reflexivity|].
    exists t0, i. split; [exact Hin0|]. split; [exact Hcommon|]. split; [exact Hi|]. split; [exact Hc|].
    split; [intros _; split; [exact Hs|split; [exact Ha|reflexivity]]|intros X; contradiction].
  - destruct (zin (i_worker i) alive) eqn:Ha; simpl in H.
    + destruct (i_cmd i) eqn:Hc; [discriminate|]. injection H as <- <-. split; [reflexivity|].
      exists t0, i. split; [exact Hin0|]. split; [exact Hcommon|]. split; [exact Hi|]. split; [exact Hc|].
      split; [intros X; contradiction|intros _; left; split; [exact Ha|reflexivity]].
    + destruct alive as [|a al]; [discriminate|]. destruct (i_cmd i) eqn:Hc; [discriminate|]. injection H as <- <-.
      split; [reflexivity|]. exists t0, i. split; [exact Hin0|]. split; [exact Hcommon|]. split; [exact Hi|]. split; [exact Hc|].
      split; [intros X; contradiction|]. intros _. right. split; [exact Ha|]. split; [reflexivity|discriminate].
Qed.

Theorem reject_pending s kind ids alive t0 ft i c :
  ids <> [] -> found_tasks s ids = t0 :: ft -> length ids = length (t0 :: ft) ->
  (forall t, In t (t0 :: ft) -> t_ins t = t_ins t0) ->
  find (fun i => Z.eqb (i_id i) (t_ins t0)) (insts s) = Some i -> i_cmd i = Some c ->
  zin (i_worker i) alive = true -> (kind = 2 -> i_status i = 3) ->
  admission s kind ids alive = CRej EPending.
Proof.
  intros Hne Hf Hl Hsame Hi Hc Ha Hrun. unfold admission. destruct ids as [|x r]; [congruence|].
  rewrite Hf. rewrite Hl, Nat.eqb_refl. simpl negb at 1. cbv iota.
  assert (E : forallb (fun t => Z.eqb (t_ins t) (t_ins t0)) (t0 :: ft) = true).
  { apply forallb_forall. intros t Ht. apply Z.eqb_eq, Hsame, Ht. }
  rewrite E. simpl negb. cbv iota. rewrite Hi, Ha, Hc. simpl.
  destruct (Z.eqb_spec kind 2) as [Hk|Hk]; [|reflexivity].
  rewrite (Hrun Hk). reflexivity.
Qed.

Theorem reject_cancel_dead_worker s ids alive t0 ft i :
  ids <> [] -> found_tasks s ids = t0 :: ft -> length ids = length (t0 :: ft) ->
  (forall t, In t (t0 :: ft) -> t_ins t = t_ins t0) ->
  find (fun i => Z.eqb (i_id i) (t_ins t0)) (insts s) = Some i -> zin (i_worker i) alive = false ->
  admission s 2 ids alive = CRej EDeadWorker.
Proof.
  intros Hne Hf Hl Hsame Hi Ha. unfold admission. destruct ids as [|x r]; [congruence|].
  rewrite Hf. rewrite Hl, Nat.eqb_refl. simpl negb at 1. cbv iota.
  assert (E : forallb (fun t => Z.eqb (t_ins t) (t_ins t0)) (t0 :: ft) = true).
  { apply forallb_forall. intros t Ht. apply Z.eqb_eq, Hsame, Ht. }
  rewrite E. simpl negb. cbv iota. rewrite Hi, Ha. reflexivity.
Qed.

Theorem reject_no_alive s kind ids t0 ft i :
  kind <> 2 -> ids <> [] -> found_tasks s ids = t0 :: ft -> length ids = length (t0 :: ft) ->
  (forall t, In t (t0 :: ft) -> t_ins t = t_ins t0) ->
  find (fun i => Z.eqb (i_id i) (t_ins t0)) (insts s) = Some i ->
  admission s kind ids [] = CRej ENoAlive.
Proof.
  intros Hk Hne Hf Hl Hsame Hi. unfold admission. destruct ids as [|x r]; [congruence|].
  rewrite Hf. rewrite Hl, Nat.eqb_refl. simpl negb at 1. cbv iota.
  assert (E : forallb (fun t => Z.eqb (t_ins t) (t_ins t0)) (t0 :: ft) = true).
  { apply forallb_forall. intros t Ht. apply Z.eqb_eq, Hsame, Ht. }
  rewrite E. simpl negb. cbv iota. rewrite Hi. apply Z.eqb_neq in Hk. rewrite Hk. reflexivity.
Qed.

Example admit_example :
  admission (mkS [mkI 9 1 5 0 None None 0 (L [])] [mkT 1 9 1 [] 30 5 0 [] 0 (L []); mkT 2 9 2 [] 30 4 0 [] 0 (L [])]) 1 [1] [1; 2]
  = CAcc [1] (1, [1]).
Proof. reflexivity. Qed.
