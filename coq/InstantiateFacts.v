From Coq Require Import List ZArith Bool Arith Lia Permutation.
From FF Require Import Sx StoreModel StoreFacts Instantiate.
Import ListNotations.
Local Open Scope Z_scope.

Definition gidsD (dag : list dtask) : list Z := map d_gid dag.

(** invariant of every prefix of instantiation: records are distinct DAG tasks *)
Definition Inv (dag : list dtask) (have : list Z) : Prop := NoDup have /\ incl have (gidsD dag).

Lemma zin_In x l : zin x l = true <-> In x l.
Proof.
  unfold zin. rewrite existsb_exists. split.
  - intros [y [Hy E]]. apply Z.eqb_eq in E. subst. exact Hy.
  - intros H. exists x. split; [exact H|apply Z.eqb_refl].
Qed.

Lemma missing_spec dag have d : In d (missing dag have) <-> In d dag /\ ~ In (d_gid d) have.
Proof.
  unfold missing. rewrite filter_In. split; intros [H1 H2]; split; auto.
  - intros Hin. apply zin_In in Hin. rewrite Hin in H2. discriminate.
  - destruct (zin (d_gid d) have) eqn:E; [apply zin_In in E; contradiction|reflexivity].
Qed.

Lemma NoDup_map_filter (dag : list dtask) f : NoDup (gidsD dag) -> NoDup (map d_gid (filter f dag)).
Proof.
  unfold gidsD. induction dag as [|d r IH]; simpl; intros H; [constructor|].
  inversion H as [|? ? Hn Hr]; subst. destruct (f d); simpl; [|apply IH; exact Hr].
  constructor; [|apply IH; exact Hr]. intros Hin. apply Hn.
  apply in_map_iff in Hin as [x [E Hx]]. apply filter_In in Hx as [Hx _]. rewrite <- E. apply in_map. exact Hx.
Qed.

Lemma NoDup_firstn {A} (l : list A) k : NoDup l -> NoDup (firstn k l).
Proof.
  revert k; induction l as [|x r IH]; intros [|k] H; simpl; try constructor.
  - inversion H as [|? ? Hn Hr]; subst. intros Hin. apply Hn. eapply In_firstn. exact Hin.
  - inversion H; subst. apply IH. assumption.
Qed.

Lemma NoDup_app_intro {A} (a b : list A) :
  NoDup a -> NoDup b -> (forall x, In x a -> In x b -> False) -> NoDup (a ++ b).
Proof.
  induction a as [|x a IH]; intros Ha Hb Hd; simpl; [exact Hb|].
  inversion Ha as [|? ? Hn Ha']; subst. constructor.
  - intros Hin. apply in_app_or in Hin as [Hin|Hin]; [contradiction|]. apply (Hd x); [left; reflexivity|exact Hin].
  - apply IH; [exact Ha'|exact Hb|]. intros y Hy Hy'. apply (Hd y); [right; exact Hy|exact Hy'].
Qed.

Lemma round_inv dag have cut : NoDup (gidsD dag) -> Inv dag have -> Inv dag (round dag have cut).
Proof.
  intros ND [Hn Hi]. unfold round. destruct (Nat.eqb (length dag) (length have)); [split; assumption|].
  set (new := match cut with Some k => firstn k (missing dag have) | None => missing dag have end).
  assert (Hsub : forall d, In d new -> In d (missing dag have)).
  { intros d Hd. unfold new in Hd. destruct cut; [eapply In_firstn; exact Hd|exact Hd]. }
  assert (Hnd : NoDup (map d_gid new)).
  { unfold new. destruct cut as [k|].
    - rewrite <- firstn_map. apply NoDup_firstn. apply NoDup_map_filter. exact ND.
    - apply NoDup_map_filter. exact ND. }
  split.
  - apply NoDup_app_intro; [exact Hn|exact Hnd|].
    intros x Hx Hx'. apply in_map_iff in Hx' as [d [E Hd]]. apply Hsub in Hd. apply missing_spec in Hd as [_ Hd].
    subst x. contradiction.
  - intros x Hx. apply in_app_or in Hx as [Hx|Hx]; [apply Hi; exact Hx|].
    apply in_map_iff in Hx as [d [E Hd]]. apply Hsub in Hd. apply missing_spec in Hd as [Hd _].
    subst x. apply in_map. exact Hd.
Qed.

Lemma rounds_inv dag cuts : forall have, NoDup (gidsD dag) -> Inv dag have -> Inv dag (rounds dag have cuts).
Proof.
  unfold rounds. induction cuts as [|k r IH]; intros have ND H; simpl; [exact H|].
  apply IH; [exact ND|apply round_inv; assumption].
Qed.

(** a complete round from a state satisfying the invariant yields exactly one record per task *)
Theorem full_round_complete dag have :
  NoDup (gidsD dag) -> Inv dag have ->
  let h := round dag have None in
  NoDup h /\ (forall g, In g h <-> In g (gidsD dag)).
Proof.
  intros ND [Hn Hi]. cbv zeta. pose proof (round_inv dag have None ND (conj Hn Hi)) as [Hn' Hi'].
  split; [exact Hn'|]. intros g. split; [apply Hi'|]. intros Hg. unfold round.
  destruct (Nat.eqb (length dag) (length have)) eqn:E.
  - (* same number of distinct ids inside the DAG's ids: same set *)
    apply Nat.eqb_eq in E.
    assert (Hlen : (length (gidsD dag) <= length have)%nat) by (unfold gidsD; rewrite map_length; lia).
    apply (NoDup_length_incl Hn Hlen Hi). exact Hg.
  - destruct (in_dec Z.eq_dec g have) as [Hh|Hh]; [apply in_or_app; left; exact Hh|].
    apply in_or_app. right. apply in_map_iff in Hg as [d [Eg Hd]]. subst g.
    apply in_map. apply missing_spec. split; assumption.
Qed.

(** C05: however many interrupted rounds precede it, a complete round leaves exactly one record
    per DAG task - no more and no fewer *)
Theorem instantiation_idempotent dag cuts :
  NoDup (gidsD dag) ->
  let h := round dag (rounds dag [] cuts) None in
  NoDup h /\ (forall g, In g h <-> In g (gidsD dag)).
Proof.
  intros ND. apply full_round_complete; [exact ND|]. apply rounds_inv; [exact ND|].
  split; [constructor|intros x []].
Qed.

(** ... and a further round changes nothing *)
Theorem complete_round_stable dag have :
  NoDup (gidsD dag) -> NoDup have -> (forall g, In g have <-> In g (gidsD dag)) ->
  round dag have None = have.
Proof.
  intros ND Hn Hs. unfold round.
  assert (E : length dag = length have).
  { unfold gidsD in *. rewrite <- (map_length d_gid dag). apply Nat.le_antisymm.
    - apply NoDup_incl_length; [exact ND|intros x Hx; apply Hs; exact Hx].
    - apply NoDup_incl_length; [exact Hn|intros x Hx; apply Hs; exact Hx]. }
  rewrite E, Nat.eqb_refl. reflexivity.
Qed.

Theorem new_record_timeout dflt d :
  snd (new_record dflt d) = if Z.eqb (d_timeout d) 0 then dflt else d_timeout d.
Proof. reflexivity. Qed.

Example instantiate_example :
  round [mkD 1 [] 0; mkD 2 [1] 5; mkD 3 [1; 2] 0] (round [mkD 1 [] 0; mkD 2 [1] 5; mkD 3 [1; 2] 0] [] (Some 1%nat)) None = [1; 2; 3].
Proof. reflexivity. Qed.
