From Coq Require Import List ZArith Bool Arith Lia.
From FF Require Import Sx StoreModel StoreCheck PreCheck ShareData.
Import ListNotations.
Local Open Scope Z_scope.

Lemma lookup_filter_other (d : dict) k k' :
  k' <> k -> kv_lookup (filter (fun p => negb (Z.eqb (fst p) k)) d) k' = kv_lookup d k'.
Proof.
  intros Hne. unfold kv_lookup. induction d as [|[a b] r IH]; simpl; [reflexivity|].
  destruct (Z.eqb_spec a k); simpl.
  - subst a. destruct (Z.eqb_spec k k'); [congruence|]. exact IH.
  - destruct (Z.eqb a k'); [reflexivity|exact IH].
Qed.

Lemma lookup_filter_same (d : dict) k :
  kv_lookup (filter (fun p => negb (Z.eqb (fst p) k)) d) k = None.
Proof.
  unfold kv_lookup. induction d as [|[a b] r IH]; simpl; [reflexivity|].
  destruct (Z.eqb_spec a k); simpl; [exact IH|].
  destruct (Z.eqb_spec a k); [contradiction|exact IH].
Qed.

Lemma get_set_same d k v : d_get (d_set d k v) k = Some v.
Proof. unfold d_get, d_set, kv_lookup. simpl. rewrite Z.eqb_refl. reflexivity. Qed.

Lemma get_set_other d k v k' : k' <> k -> d_get (d_set d k v) k' = d_get d k'.
Proof.
  intros H. unfold d_get, d_set. unfold kv_lookup at 1. simpl.
  destruct (Z.eqb_spec k k'); [congruence|]. fold (kv_lookup (filter (fun p => negb (Z.eqb (fst p) k)) d) k').
  apply lookup_filter_other. exact H.
Qed.

(** Set returned and the save succeeded: memory = store = old[k:=v] *)
Theorem set_ok s k v fixed :
  let s' := sd_set fixed s k v true in
  mem s' = stored s' /\ d_get (mem s') k = Some v /\ (forall k', k' <> k -> d_get (mem s') k' = d_get (mem s) k').
Proof.
  simpl. split; [reflexivity|]. split; [apply get_set_same|]. intros k' H. apply get_set_other, H.
Qed.

(** the save failed: the in-memory view is exactly what it was before, the store is untouched *)
Theorem set_failed_rolls_back s k v :
  let s' := sd_set true s k v false in
  dict_equiv (mem s') (mem s) /\ stored s' = stored s.
Proof.
  simpl. split; [|reflexivity]. intros k'. destruct (d_get (mem s) k) as [old|] eqn:E.
  - destruct (Z.eq_dec k' k) as [->|Hne].
    + rewrite get_set_same. symmetry. exact E.
    + apply get_set_other. exact Hne.
  - unfold d_get, d_del. destruct (Z.eq_dec k' k) as [->|Hne].
    + rewrite lookup_filter_same. symmetry. exact E.
    + apply lookup_filter_other. exact Hne.
Qed.

(** refutation for the pinned code: overwrite of an existing key + failed save lost the old value *)
Theorem unfixed_rollback_refuted :
  exists s k v, d_get (mem (sd_set false s k v false)) k <> d_get (mem s) k.
Proof. exists (mkSd [(1, 5)] [(1, 5)]), 1, 7. vm_compute. discriminate. Qed.

(** sets through ONE live dictionary never lose each other's keys: after any sequence of
    acknowledged sets, every key set before is still stored *)
Theorem sets_keep_keys : forall (ops : list (Z * Z)) s k0,
  d_get (stored s) k0 <> None -> mem s = stored s ->
  d_get (stored (fold_left (fun acc kv => sd_set true acc (fst kv) (snd kv) true) ops s)) k0 <> None.
Proof.
  induction ops as [|[k v] r IH]; intros s k0 H E; simpl; [exact H|].
  apply IH; simpl; [|reflexivity].
  destruct (Z.eq_dec k0 k) as [->|Hne]; [rewrite get_set_same; discriminate|].
  rewrite get_set_other by exact Hne. rewrite E. exact H.
Qed.

Example set_example : mem (sd_set true (mkSd [(1, 5)] [(1, 5)]) 1 7 false) = [(1, 5)].
Proof. reflexivity. Qed.
