(** Sx glue, acceptance and monitor for the Mutex LTS (C10). *)
From Coq Require Import List ZArith Bool Lia Arith.
From FF Require Import Sx Mutex.
Import ListNotations.
Local Open Scope Z_scope.

Definition mres_of_z (z : Z) : option mres :=
  match z with 0 => Some MOk | 1 => Some MFail | 2 => Some MLost | _ => None end.

Definition mlabel_of_sx (s : sx) : option mlabel :=
  match s with
  | L [I 1; I d] => Some (MTick d)
  | L [I 2] => Some MSweep
  | L [I 3; I h; I ttl; I ident] => Some (LockCall (Z.to_nat h) ttl ident)
  | L [I 4; I h; I r] => option_map (FindOp (Z.to_nat h)) (mres_of_z r)
  | L [I 5; I h; I r] => option_map (InsertOp (Z.to_nat h)) (mres_of_z r)
  | L [I 6; I h; I r] => option_map (CasOp (Z.to_nat h)) (mres_of_z r)
  | L [I 7; I h] => Some (SpinTick (Z.to_nat h))
  | L [I 8; I h] => Some (CtxDone (Z.to_nat h))
  | L [I 9; I h; I c] => Some (LockRet (Z.to_nat h) c)
  | L [I 10; I h; I r] => option_map (UnlockOp (Z.to_nat h)) (mres_of_z r)
  | L [I 11; I h; I c] => Some (UnlockRet (Z.to_nat h) c)
  | _ => None
  end.

Fixpoint maccept (s : mst) (ls : list sx) (idx : Z) : verdict :=
  match ls with
  | [] => OkCase
  | x :: r =>
      match mlabel_of_sx x with
      | None => BadCase (100 + idx)
      | Some l => match mstep true s l with
                  | Some s' => maccept s' r (idx + 1)
                  | None => Mismatch idx (L [])
                  end
      end
  end.

Definition check_mutex (c : sx) : verdict :=
  match c with L ls => maccept minit ls 0 | _ => BadCase 1 end.

(* ------------------------------------------------------------------ monitor on what the implementation returned *)
(** per handle: holding (Lock returned nil, Unlock not yet nil), the expiry it may rely on
    (time of its Lock call's last database operation + ttl is an upper bound we do not need:
    the monitor uses the TTL given at the call), and its identity. *)
Record hmon := { hm_holds : bool; hm_since : Z; hm_ttl : Z; hm_ident : Z; hm_acq : Z (* time the lock was obtained *) }.
Definition hm0 := {| hm_holds := false; hm_since := 0; hm_ttl := 0; hm_ident := 0; hm_acq := 0 |}.
Fixpoint hmget (l : list hmon) (k : nat) : hmon :=
  match l, k with [], _ => hm0 | x :: _, O => x | _ :: t, S k' => hmget t k' end.
Fixpoint hmset (l : list hmon) (k : nat) (v : hmon) : list hmon :=
  match l, k with
  | [], O => [v] | [], S k' => hm0 :: hmset [] k' v
  | _ :: t, O => v :: t | x :: t, S k' => x :: hmset t k' v
  end.

(** a holder is certainly still unexpired while now < (time of its last database operation before
    Lock returned) + ttl; we use the time of the LockRet label minus nothing, i.e. a LOWER bound on
    the expiry is acq + ttl - slack where acq = time of the last operation: conservative choice:
    holds-unexpired iff now < hm_acq + hm_ttl - 100 *)
Definition hm_unexpired (now : Z) (x : hmon) : bool := hm_holds x && (now <? hm_acq x + hm_ttl x - 100).

Fixpoint mmon (now : Z) (hs : list hmon) (lastop : list (nat * Z)) (ls : list sx) (idx : Z) : list (Z * Z) :=
  match ls with
  | [] => []
  | x :: r =>
      match mlabel_of_sx x with
      | Some (MTick d) => mmon (now + d) hs lastop r (idx + 1)
      | Some (LockCall h ttl ident) =>
          mmon now (hmset hs h {| hm_holds := false; hm_since := now; hm_ttl := ttl; hm_ident := ident; hm_acq := now |}) lastop r (idx + 1)
      | Some (FindOp h res) =>
          (* the expiry a successful acquisition stores is computed right after this read: read time + ttl;
             hm_since = 1 marks "the last operation of the call was a read" (a nil return then is an adoption
             of a reentrant lock, whose expiry is the other holder's) *)
          let x0 := hmget hs h in
          let code := match res with MOk => 0 | MFail => 1 | MLost => 2 end in
          mmon now (hmset hs h {| hm_holds := hm_holds x0; hm_since := 1; hm_ttl := hm_ttl x0; hm_ident := hm_ident x0; hm_acq := now |})
               ((h, code) :: filter (fun p => negb (Nat.eqb (fst p) h)) lastop) r (idx + 1)
      | Some (InsertOp h res) | Some (CasOp h res) =>
          let x0 := hmget hs h in
          let code := match res with MOk => 0 | MFail => 1 | MLost => 2 end in
          mmon now (hmset hs h {| hm_holds := hm_holds x0; hm_since := 0; hm_ttl := hm_ttl x0; hm_ident := hm_ident x0; hm_acq := hm_acq x0 |})
               ((h, code) :: filter (fun p => negb (Nat.eqb (fst p) h)) lastop) r (idx + 1)
      | Some (LockRet h code) =>
          let x0 := hmget hs h in
          let hs' := hmset hs h {| hm_holds := Z.eqb code 0; hm_since := hm_since x0;
                                   hm_ttl := (if Z.eqb (hm_since x0) 1 then 0 else hm_ttl x0);
                                   hm_ident := hm_ident x0; hm_acq := hm_acq x0 |} in
          (* mutual exclusion at the moment a Lock succeeds *)
          let clash := existsb (fun k => negb (Nat.eqb k h) && hm_unexpired now (hmget hs' k) && hm_unexpired now (hmget hs' h)
                                         && negb (negb (Z.eqb (hm_ident (hmget hs' k)) 0) && Z.eqb (hm_ident (hmget hs' k)) (hm_ident (hmget hs' h))))
                               (seq 0 (length hs')) in
          (* honesty: Lock does not report success when its last database operation failed *)
          let dishonest := Z.eqb code 0 &&
                           existsb (fun p => Nat.eqb (fst p) h && negb (Z.eqb (snd p) 0)) lastop in
          (if clash then [(idx, 1)] else []) ++ (if dishonest then [(idx, 2)] else []) ++ mmon now hs' lastop r (idx + 1)
      | Some (UnlockRet h code) =>
          let x0 := hmget hs h in
          (* Unlock by an unexpired current holder succeeds *)
          let bad := hm_unexpired now x0 && negb (Z.eqb code 0) && negb (Z.eqb code 1) in
          (* a successful Unlock frees the key: the handle stops holding, and so does every handle that holds
             through the same non-empty reentrant identity (they are one holder of the key, which is now free;
             a later Unlock through one of them finds it already unlocked, like a second Unlock) *)
          let drop (y : hmon) := {| hm_holds := false; hm_since := hm_since y; hm_ttl := hm_ttl y; hm_ident := hm_ident y; hm_acq := hm_acq y |} in
          let hs' := if Z.eqb code 0
                     then map (fun y => if negb (Z.eqb (hm_ident x0) 0) && Z.eqb (hm_ident y) (hm_ident x0) then drop y else y)
                              (hmset hs h (drop x0))
                     else hs in
          (if bad then [(idx, 4)] else []) ++ mmon now hs' lastop r (idx + 1)
      | _ => mmon now hs lastop r (idx + 1)
      end
  end.

Definition monitor_mutex (c : sx) : option bool :=
  match c with L ls => Some (match mmon 0 [] [] ls 0 with [] => true | _ => false end) | _ => None end.

Definition explain_mutex (c : sx) : sx :=
  match c with L ls => L (map (fun p => L [I 10; I (fst p); I (snd p); I 0]) (mmon 0 [] [] ls 0)) | _ => L [] end.
