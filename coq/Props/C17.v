(** C17 — variables and parameters.  [dag_run_vars] = Dag.Run's variable resolution,
    [render] = DagInstanceVars.Render over the parameter tree (token level: literal chunks,
    {{name}} placeholders, substituted values).  The same trees go through the real code in
    memory, after the DAG was reloaded from the store, and through the real watch round into
    task_instance.params (family vars).  Execution-time templates (text/template over vars and
    shared data) are not modelled: the 'tmpl' engine scenarios check them in the harness
    (monitor clause (17,_): wrong rendering, or an action that runs although its template could
    not be rendered). *)
From Coq Require Import List ZArith Bool Arith.
From FF Require Import Sx StoreModel StoreCheck PreCheck Vars VarsFacts.
Import ListNotations.
Local Open Scope Z_scope.

Theorem C17_vars_are_the_declared_names : forall decl spec, map fst (dag_run_vars decl spec) = map fst decl.
Proof. exact run_vars_names. Qed.
Print Assumptions C17_vars_are_the_declared_names.

Theorem C17_var_value : forall decl spec n dflt,
  In (n, dflt) decl ->
  In (n, match kv_lookup spec n with Some v => if Z.eqb v 0 then dflt else v | None => dflt end)
     (dag_run_vars decl spec).
Proof. exact run_vars_value. Qed.
Print Assumptions C17_var_value.

Theorem C17_undeclared_caller_keys_ignored : forall decl spec k v,
  ~ In k (map fst decl) -> dag_run_vars decl ((k, v) :: spec) = dag_run_vars decl spec.
Proof. exact run_vars_ignores_undeclared. Qed.
Print Assumptions C17_undeclared_caller_keys_ignored.

(** no placeholder of a declared variable survives, in any string at any depth under maps and lists *)
Theorem C17_render_closes_all_holes : forall vs p, open_holes vs (render vs p) = [].
Proof. exact render_closes_all_holes. Qed.
Print Assumptions C17_render_closes_all_holes.

Theorem C17_render_scalars_untouched : forall vs,
  (forall z, render vs (PInt z) = PInt z) /\ (forall b, render vs (PBool b) = PBool b) /\ render vs PNil = PNil.
Proof. exact render_scalars. Qed.
Print Assumptions C17_render_scalars_untouched.

Theorem C17_other_tokens_untouched : forall vs t,
  match t with THole v => kv_lookup vs v = None | TVal _ => True | TLit _ => True end -> subst_tok vs t = t.
Proof. exact render_keeps_other_tokens. Qed.
Print Assumptions C17_other_tokens_untouched.

Theorem C17_declared_placeholder_replaced : forall vs v x, kv_lookup vs v = Some x -> subst_tok vs (THole v) = TVal x.
Proof. exact render_replaces_declared. Qed.
Print Assumptions C17_declared_placeholder_replaced.
