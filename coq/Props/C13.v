(** C13 — pre-checks: skipped enables dependents like success, blocked enables nothing. *)
From Coq Require Import List ZArith Bool Arith.
From FF Require Import Sx TaskTree TaskTreeFacts StoreModel PreCheck PreCheckFacts Engine EngineFacts EngineSettle EngineRefute.
Import ListNotations.

Theorem C13_skipped_like_success : forall t u,
  status_of t u = TSkipped \/ status_of t u = TSuccess -> gnode_ok t (Some u) = true.
Proof. exact skipped_like_success. Qed.
Print Assumptions C13_skipped_like_success.

Theorem C13_blocked_enables_nothing : forall t u,
  status_of t u = TBlocked -> gnode_ok t (Some u) = false.
Proof. exact blocked_enables_nothing. Qed.
Print Assumptions C13_blocked_enables_nothing.

(** DoPreCheck ([pre_outcomes] = the set of possible outcomes, Go map order being arbitrary) *)
Theorem C13_terminal_inactive : forall st checks vars share,
  last_state st = true -> pre_outcomes st checks vars share = [].
Proof. exact terminal_inactive. Qed.
Print Assumptions C13_terminal_inactive.

Theorem C13_continue_never_blocked : forall checks vars share, ~ In 8%Z (pre_outcomes 9 checks vars share).
Proof. exact continue_never_blocked. Qed.
Print Assumptions C13_continue_never_blocked.

Theorem C13_met_skip_fires : forall st checks vars share k,
  last_state st = false -> In k checks -> k_act k = 1%Z -> chk_met vars share k = true ->
  In 10%Z (pre_outcomes st checks vars share).
Proof. exact met_skip_fires. Qed.
Print Assumptions C13_met_skip_fires.

Theorem C13_met_block_fires : forall st checks vars share k,
  last_state st = false -> st <> 9%Z -> In k checks -> k_act k = 2%Z -> chk_met vars share k = true ->
  In 8%Z (pre_outcomes st checks vars share).
Proof. exact met_block_fires. Qed.
Print Assumptions C13_met_block_fires.

Theorem C13_nothing_met_inactive : forall st checks vars share,
  (forall k, In k checks -> chk_met vars share k = false) -> pre_outcomes st checks vars share = [].
Proof. exact nothing_met_inactive. Qed.
Print Assumptions C13_nothing_met_inactive.

Theorem C13_outcomes_range : forall st checks vars share o,
  In o (pre_outcomes st checks vars share) -> o = 10%Z \/ o = 8%Z \/ o = (-1)%Z.
Proof. exact outcomes_are_skip_block_or_error. Qed.
Print Assumptions C13_outcomes_range.

(** --- engine level (Engine, see C01.v for the scope).  A push whose skip (block) check fires records the
    verdict and runs nothing; a finished task - skipped included - keeps its status, and enables its
    dependents exactly as success does ([done] is what [parents_done] asks for, C01); a blocked task has no
    run and has not started its main action until a continue command re-arms it; a continued task cannot be
    blocked by the push while it can still be skipped.  (Which check holds is the environment's choice in
    the model; that the verdict written is one DoPreCheck allows is the theorem about [pre_outcomes] above
    and the monitor clause (13,5) on every journal.) --- *)

Theorem C13_engine_verdict_runs_nothing : forall tasks deps cq nn ls s t sn s',
  run tasks deps true cq nn boot ls = Some s ->
  step tasks deps true cq nn s (PushSkip t sn) = Some s' \/ step tasks deps true cq nn s (PushBlock t sn) = Some s' ->
  (store s' t = SSkipped \/ store s' t = SBlocked) /\ runs s' t = RNone /\ started s' t = false /\
  (forall x, runs s' x = runs s x) /\ (forall x, started s' x = started s x).
Proof.
  intros tasks deps cq nn ls s t sn s' Hr Hs.
  exact (push_verdict_runs_nothing tasks deps cq nn s t sn s' (inv_reach tasks deps cq nn ls boot s (inv_boot deps) Hr) Hs).
Qed.
Print Assumptions C13_engine_verdict_runs_nothing.

Theorem C13_engine_blocked_waits : forall tasks deps cq nn ls s t,
  run tasks deps true cq nn boot ls = Some s -> store s t = SBlocked ->
  started s t = false /\ ~ writing (runs s t).
Proof.
  intros tasks deps cq nn ls s t Hr Hst.
  pose proof (inv_reach tasks deps cq nn ls boot s (inv_boot deps) Hr) as HI.
  split; [eapply blocked_not_started; eassumption|eapply blocked_has_no_run; eassumption].
Qed.
Print Assumptions C13_engine_blocked_waits.

Theorem C13_engine_skipped_is_final : forall tasks deps cq nn ls s l s' t,
  run tasks deps true cq nn boot ls = Some s -> step tasks deps true cq nn s l = Some s' ->
  store s t = SSkipped -> store s' t = SSkipped.
Proof.
  intros tasks deps cq nn ls s l s' t Hr Hs Hst.
  rewrite (done_final tasks deps cq nn s l s' t (inv_reach tasks deps cq nn ls boot s (inv_boot deps) Hr) Hs); [exact Hst|rewrite Hst; reflexivity].
Qed.
Print Assumptions C13_engine_skipped_is_final.

Theorem C13_engine_continue_bypasses_block_only : forall tasks deps v cq nn s t,
  step tasks deps v cq nn s (PushBlock t SContinue) = None.
Proof. intros. cbn. destruct (remove1 (t, SContinue) (pushq s)); reflexivity. Qed.
Print Assumptions C13_engine_continue_bypasses_block_only.

(** under the hypotheses of the settle theorem: a task recorded skipped or blocked holds no token at all *)
Theorem C13_engine_verdict_task_idle : forall tasks deps validate (rank : Z -> nat),
  NoDup tasks ->
  (forall t d, In d (deps t) -> (rank d < rank t)%nat) ->
  (forall t d, In t tasks -> In d (deps t) -> In d tasks) ->
  forall ls s t, run tasks deps validate true true boot ls = Some s ->
  store s t = SSkipped \/ store s t = SBlocked -> runs s t = RNone /\ ~ inpend s t.
Proof.
  intros tasks deps validate rank Hnd Hrank Hclosed ls s t Hr Hst.
  apply (verdict_task_has_no_run tasks deps s t); [|exact Hst].
  exact (invq_reach tasks deps validate rank Hnd Hrank Hclosed ls boot s (invq_boot tasks deps) Hr).
Qed.
Print Assumptions C13_engine_verdict_task_idle.

(** the hypotheses are met: a history in which a task is blocked, continued and run, and its dependent skipped *)
Example C13_engine_history :
  obs12 (run [1; 2]%Z deps12 true true true boot w_block_continue_1) = Some (true, IBlocked, SBlocked, SInit, false, false) /\
  obs12 (run [1; 2]%Z deps12 true true true boot (w_block_continue_1 ++ w_block_continue_2)) = Some (true, ISuccess, SSuccess, SSkipped, true, false).
Proof. exact settle_with_prechecks_met. Qed.
