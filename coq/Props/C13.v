(** C13 — pre-checks: skipped enables dependents like success, blocked enables nothing. *)
From Coq Require Import List ZArith Bool Arith.
From FF Require Import Sx TaskTree TaskTreeFacts StoreModel PreCheck PreCheckFacts.
Import ListNotations.

Theorem C13_skipped_like_success : forall t u,
  status_of t u = TSkipped \/ status_of t u = TSuccess -> gnode_ok t (Some u) = true.
Proof. exact skipped_like_success. Qed.
Print Assumptions C13_skipped_like_success.

Theorem C13_blocked_enables_nothing : forall t u,
  status_of t u = TBlocked -> gnode_ok t (Some u) = false.
Proof. exact blocked_enables_nothing. Qed.
Print Assumptions C13_blocked_enables_nothing.

(** DoPreCheck ([pre_outcomes] = the set of possible outcomes, Go map order being arbitrary) *)
Theorem C13_terminal_inactive : forall st checks vars share,
  last_state st = true -> pre_outcomes st checks vars share = [].
Proof. exact terminal_inactive. Qed.
Print Assumptions C13_terminal_inactive.

Theorem C13_continue_never_blocked : forall checks vars share, ~ In 8%Z (pre_outcomes 9 checks vars share).
Proof. exact continue_never_blocked. Qed.
Print Assumptions C13_continue_never_blocked.

Theorem C13_met_skip_fires : forall st checks vars share k,
  last_state st = false -> In k checks -> k_act k = 1%Z -> chk_met vars share k = true ->
  In 10%Z (pre_outcomes st checks vars share).
Proof. exact met_skip_fires. Qed.
Print Assumptions C13_met_skip_fires.

Theorem C13_met_block_fires : forall st checks vars share k,
  last_state st = false -> st <> 9%Z -> In k checks -> k_act k = 2%Z -> chk_met vars share k = true ->
  In 8%Z (pre_outcomes st checks vars share).
Proof. exact met_block_fires. Qed.
Print Assumptions C13_met_block_fires.

Theorem C13_nothing_met_inactive : forall st checks vars share,
  (forall k, In k checks -> chk_met vars share k = false) -> pre_outcomes st checks vars share = [].
Proof. exact nothing_met_inactive. Qed.
Print Assumptions C13_nothing_met_inactive.

Theorem C13_outcomes_range : forall st checks vars share o,
  In o (pre_outcomes st checks vars share) -> o = 10%Z \/ o = 8%Z \/ o = (-1)%Z.
Proof. exact outcomes_are_skip_block_or_error. Qed.
Print Assumptions C13_outcomes_range.
