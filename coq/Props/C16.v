(** C16 — DAG validation: accepted iff ids unique, dependencies exist, graph acyclic.
    [build_gen true] is the model of BuildRootNode as repaired by the "fix:" commit,
    [build_root_unfixed] the code at the pinned commit.  [valid_dag t] =
    NoDup ids /\ every dependency names a task /\ t <> [] /\ a rank function exists
    along which every dependency strictly decreases (which excludes every
    dependency path from a task to itself, [C16_ranked_acyclic]). *)
From Coq Require Import List ZArith Bool Arith.
From FF Require Import Sx TaskTree TaskTreeFacts TreeFuel.
From FF Require Engine EngineSettle EngineDag.
Import ListNotations.

(** Accepted => valid, for every task list and every fuel. *)
Theorem C16_accept_sound : forall fuel t, build_gen true fuel t = None -> valid_dag t.
Proof. exact build_accept_sound. Qed.
Print Assumptions C16_accept_sound.

(** Valid => accepted, for every task list, provided the explicit fuel of the
    level-order check did not run out (the correspondence run reports any
    out-of-fuel outcome of the model as a mismatch). *)
Theorem C16_accept_complete : forall fuel t,
  valid_dag t -> cycle_check fuel t <> None -> build_gen true fuel t = None.
Proof. exact build_accept_complete. Qed.
Print Assumptions C16_accept_complete.

(** The two together: the decision is exactly validity. *)
Theorem C16_accept_iff : forall fuel t, cycle_check fuel t <> None ->
  (build_gen true fuel t = None <-> valid_dag t).
Proof.
  intros fuel t Hf; split; [apply build_accept_sound|intros H; apply build_accept_complete; assumption].
Qed.
Print Assumptions C16_accept_iff.

(** The fuel the model really uses ([default_fuel t] = number of tasks + 2 levels) never runs out on a valid
    DAG: every node queued in level k ends a dependency chain of k+1 distinct tasks. *)
Theorem C16_fuel_adequate : forall t, valid_dag t -> cycle_check (default_fuel t) t <> None.
Proof. exact valid_fuel_adequate. Qed.
Print Assumptions C16_fuel_adequate.

(** Hence, with no hypothesis about fuel: the repaired BuildRootNode accepts exactly the valid DAGs. *)
Theorem C16_build_root_iff : forall t, build_root t = None <-> valid_dag t.
Proof. exact build_root_iff. Qed.
Print Assumptions C16_build_root_iff.

(** A ranked graph has no cycle anywhere. *)
Theorem C16_ranked_acyclic : forall t, ranked t -> forall a, ~ dep_path t a a.
Proof. exact ranked_acyclic. Qed.
Print Assumptions C16_ranked_acyclic.

(** A valid DAG has at least one task without dependencies. *)
Theorem C16_valid_has_start : forall t,
  NoDup (gids t) -> closed t -> t <> [] -> ranked t -> children t None <> [].
Proof. exact ranked_has_start. Qed.
Print Assumptions C16_valid_has_start.

(** Refutation for the code at the pinned commit: it accepted a task list with a
    cycle that no start node reaches (the witness replayed against the real
    CreateDag is the finding repaired by the fix commit). *)
Theorem C16_unfixed_refuted :
  exists t a, build_root_unfixed t = None /\ dep_path t a a.
Proof. exists rootless_cycle_witness, 1%Z. exact unfixed_accepts_cycle. Qed.
Print Assumptions C16_unfixed_refuted.

Theorem C16_fixed_rejects_witness : build_root rootless_cycle_witness = Some BCycle.
Proof. exact fixed_rejects_witness. Qed.
Print Assumptions C16_fixed_rejects_witness.

(** The consequence the property draws from validation, end to end (C16 + C03): for every task list that
    BuildRootNode accepts, the engine (Engine LTS, histories with commands at quiescent points that re-arm a
    task) settles the instance at every quiescent point, and records it success only when every task of the
    DAG ran to success or was skipped - no task of an accepted DAG is out of the scheduler's reach. *)
Theorem C16_accepted_dag_settles : forall (t : tree), build_root t = None ->
  forall validate ls s, Engine.run (gids t) (deps_of t) validate true true (Engine.boot) ls = Some s ->
  EngineSettle.Quiescent (gids t) s ->
  Engine.ins s <> Engine.IRunning /\
  (Engine.ins s = Engine.ISuccess <-> forall x, In x (gids t) -> Engine.done (Engine.store s x) = true) /\
  (Engine.ins s = Engine.IFailed -> exists x, In x (gids t) /\ Engine.store s x = Engine.SFailed) /\
  (Engine.ins s = Engine.IBlocked -> exists x, In x (gids t) /\ Engine.store s x = Engine.SBlocked).
Proof. exact EngineDag.accepted_dag_settles. Qed.
Print Assumptions C16_accepted_dag_settles.
