(** C02 — main action at most once per attempt, after 'running' is durably stored.
    Theorems about [TaskRun.acc_step], the program counter of one executor run
    (TaskInstance.Run + handleTaskError); every real journal, projected onto every
    task, must be accepted by it (correspondence [check_runs]).  The clauses that
    need the whole engine (at most one start per attempt across duplicate pushes,
    restarts and commands) are the monitor clauses (2,2) (2,4) of [EngineMon]. *)
From Coq Require Import List ZArith Bool Arith.
From FF Require Import Sx StoreModel StoreCheck TaskRun TaskRunFacts Engine EngineFacts EngineSettle EngineLive.
Import ListNotations.
Local Open Scope Z_scope.

(** write-ahead, for every accepted stream and every position of a main-action start *)
Theorem C02_write_ahead : forall pre post,
  run_acc Idle (pre ++ TS 1 :: post) <> None ->
  exists pre' r, filter not_tx pre = pre' ++ [TP 2 r true].
Proof. exact accepted_write_ahead. Qed.
Print Assumptions C02_write_ahead.

(** a 'running' write that was not acknowledged is followed by the failure write, never by the action *)
Theorem C02_failed_running_write : forall p r,
  acc_step p (TP 2 r false) <> None -> acc_step p (TP 2 r false) = Some NeedFail.
Proof. exact failed_running_write_no_start. Qed.
Print Assumptions C02_failed_running_write.

Theorem C02_after_failure_only_failure_write : forall e q,
  acc_step NeedFail e = Some q -> e = TX \/ e = TCrash \/ exists st ok, e = TP st true ok /\ is_fail_st st = true.
Proof. exact NeedFail_only_failure_write. Qed.
Print Assumptions C02_after_failure_only_failure_write.

(** success is written only past the main action: after the after-hook returned ok, or after the
    acknowledged 'ending' write when there is no after-hook, or resuming a task persisted as ending *)
Theorem C02_success_write_needs : forall p r ok q,
  acc_step p (TP 4 r ok) = Some q -> p = NeedSuccess \/ p = NeedAfterOrSuccess \/ p = Idle.
Proof. exact success_write_needs. Qed.
Print Assumptions C02_success_write_needs.

Theorem C02_NeedSuccess_after_ok : forall p e,
  acc_step p e = Some NeedSuccess -> (e = TX /\ p = NeedSuccess) \/ e = TE 2 0.
Proof. exact into_NeedSuccess. Qed.
Print Assumptions C02_NeedSuccess_after_ok.

Theorem C02_ending_after_run_ok : forall p e,
  acc_step p e = Some NeedEnding -> (e = TX /\ p = NeedEnding) \/ e = TE 1 0.
Proof. exact into_NeedEnding. Qed.
Print Assumptions C02_ending_after_run_ok.

Theorem C02_after_or_success_after_ending_ack : forall p e,
  acc_step p e = Some NeedAfterOrSuccess -> (e = TX /\ p = NeedAfterOrSuccess) \/ exists r, e = TP 3 r true.
Proof. exact into_NeedAfterOrSuccess. Qed.
Print Assumptions C02_after_or_success_after_ending_ack.

(** a phase that errors or panics leads to the failure write of the same task (containment, also C03) *)
Theorem C02_phase_error_contained : forall p ph o q,
  acc_step p (TE ph o) = Some q -> o <> 0 -> q = NeedFail.
Proof. exact phase_error_leads_to_fail. Qed.
Print Assumptions C02_phase_error_contained.

(** --- engine level (Engine: persisted task and instance statuses, the parser's tree and event queue, the
    pushes in progress with their pre-check verdicts, the executor's registered runs and the deliveries
    under way, the retry and continue commands in their phases, crash and restart, the watchdog - one
    instance as a transition system at the granularity of single store writes and goroutine hand-overs;
    scope: pre-checks (skip / block), failures in every phase, retry and continue commands also while the
    instance is busy, no-op commands; not: cancel, failing writes).  The statements hold for every history
    in which no delivery is accepted, and no pre-check verdict written, on the strength of a stale snapshot
    or next to another delivery of the same task ([validate = true], the other switches arbitrary); the code
    as it is admits both after a retry command re-initialised a busy instance, and then every one of them
    fails ([..._refuted]; known finding F-dup-push, reproduced on the real code).  Journals of the real
    engine in this scope are checked to be histories of Engine ([EngineCheck.check_core]) and the hypothesis
    is monitored on them. --- *)

(** at most one main-action start per attempt, across duplicate pushes, crashes and restarts: a start
    requires that none happened in the attempt, and only the retry command of that task opens a new attempt *)
Theorem C02_engine_once_per_attempt : forall tasks deps cq nn ls s t s',
  run tasks deps true cq nn boot ls = Some s -> step tasks deps true cq nn s (MainStart t) = Some s' ->
  started s t = false /\ started s' t = true.
Proof.
  intros tasks deps cq nn ls s t s' Hr Hs.
  exact (main_start_once tasks deps cq nn s t s' (inv_reach tasks deps cq nn ls boot s (inv_boot deps) Hr) Hs).
Qed.
Print Assumptions C02_engine_once_per_attempt.

(** ... and only when 'running' is the task's persisted status, written by this very run *)
Theorem C02_engine_start_after_running_stored : forall tasks deps cq nn ls s t s',
  run tasks deps true cq nn boot ls = Some s -> step tasks deps true cq nn s (MainStart t) = Some s' ->
  store s t = SRunning.
Proof.
  intros tasks deps cq nn ls s t s' Hr Hs.
  exact (main_start_after_running tasks deps cq nn s t s' (inv_reach tasks deps cq nn ls boot s (inv_boot deps) Hr) Hs).
Qed.
Print Assumptions C02_engine_start_after_running_stored.

Theorem C02_engine_attempt_ends_only_by_retry : forall tasks deps cq nn s l s' t,
  step tasks deps true cq nn s l = Some s' -> started s t = true -> l <> Rearm t -> started s' t = true.
Proof. exact started_kept. Qed.
Print Assumptions C02_engine_attempt_ends_only_by_retry.

Theorem C02_engine_unvalidated_refuted :
  exists s, run [1; 2; 3]%Z deps3 false false true boot witness_dup = Some s /\
            started s 2 = true /\ exists s', step [1; 2; 3]%Z deps3 false false true s (MainStart 2) = Some s'.
Proof.
  destruct unvalidated_refuted as (s & Hr & _ & Hst & H2 & _). exists s. repeat split; assumption.
Qed.
Print Assumptions C02_engine_unvalidated_refuted.

(** with commands issued and picked up at quiescent points the code as it is needs no hypothesis about
    deliveries ([validate] arbitrary): at most one main-action start per attempt, crashes and restarts included *)
Theorem C02_engine_quiet_commands_once_per_attempt : forall tasks deps validate (rank : Z -> nat),
  NoDup tasks ->
  (forall t d, In d (deps t) -> (rank d < rank t)%nat) ->
  (forall t d, In t tasks -> In d (deps t) -> In d tasks) ->
  forall ls s t s', run tasks deps validate true true boot ls = Some s ->
  step tasks deps validate true true s (MainStart t) = Some s' -> started s t = false /\ started s' t = true.
Proof.
  intros tasks deps validate rank Hnd Hrank Hclosed ls s t s' Hr Hs.
  apply (quiet_main_start_once tasks deps validate s t s'); [| |exact Hs].
  - exact (invq_reach tasks deps validate rank Hnd Hrank Hclosed ls boot s (invq_boot tasks deps) Hr).
  - exact (sinv_reach tasks deps validate rank Hnd Hrank Hclosed ls boot s (invq_boot tasks deps) sinv_boot Hr).
Qed.
Print Assumptions C02_engine_quiet_commands_once_per_attempt.

Theorem C02_engine_quiet_commands_attempt_ends_only_by_retry : forall tasks deps validate s l s' t,
  step tasks deps validate true true s l = Some s' -> started s t = true -> l <> Rearm t -> started s' t = true.
Proof. exact quiet_started_kept. Qed.
Print Assumptions C02_engine_quiet_commands_attempt_ends_only_by_retry.

(** The executor never holds two deliveries of one task - whatever is pushed, however often the same task object
    is handed over, with any number of workers (ExecReg): no two concurrent runs of a task by duplicate pushes. *)
From FF Require Import ExecReg ExecRegFacts.

Theorem C02_executor_one_delivery_per_task : forall nworkers f ls s,
  xrun nworkers false (xinit f) ls = Some s -> NoDup (owners s).
Proof. exact one_delivery_per_task. Qed.
Print Assumptions C02_executor_one_delivery_per_task.

Theorem C02_executor_registered_has_owner : forall nworkers f ls s t,
  xrun nworkers false (xinit f) ls = Some s -> reg s t = true ->
  (exists d, held s = Some d /\ dt d = t) \/ (exists d ph, In (d, ph) (work s) /\ dt d = t).
Proof. exact registered_has_owner. Qed.
Print Assumptions C02_executor_registered_has_owner.
