(** C08 — leader election.  [Keeper.step U true] is the election protocol of keeper/mongo as
    repaired by the fix commits, at single-database-operation granularity, for any number of
    keepers, with failed and lost-reply operations, clock advances, TTL sweeps, close and crash.
    Journals of 2-4 real keepers interleaved operation by operation must be accepted by it
    (correspondence), and the monitor judges the implementation's own database reports. *)
From Coq Require Import List ZArith Bool Lia Arith.
From FF Require Import Sx Keeper.
Import ListNotations.
Local Open Scope Z_scope.

(** (1) two keepers never both hold an unexpired lease - every reachable state, every label sequence *)
Theorem C08_unique_lease : forall U ls s k1 k2,
  run U true init ls = Some s -> valid U s k1 -> valid U s k2 -> k1 = k2.
Proof. exact C08_unique_lease. Qed.
Print Assumptions C08_unique_lease.

(** (2) a leader with an unexpired lease still owns the record: nobody displaced it, not even
    another keeper's Close *)
Theorem C08_leader_not_displaced : forall U ls s k,
  run U true init ls = Some s -> valid U s k -> rec s = Some {| holder := k; upd := lease (K s k) |}.
Proof. exact leader_not_displaced. Qed.
Print Assumptions C08_leader_not_displaced.

(** (3) a keeper that lost the lease reports non-leader after its next election round *)
Theorem C08_lost_lease_reports_non_leader : forall U s k r s',
  kpc (K s k) = GoRenew ->
  (match rec s with Some c => holder c <> k | None => True end) ->
  step U true s (Renew k r) = Some s' -> flag (K s' k) = false.
Proof. exact lost_lease_reports_non_leader. Qed.
Print Assumptions C08_lost_lease_reports_non_leader.

(** (4) when no record exists, or the record is older than the unhealthy period, a keeper that
    performs an uninterrupted round becomes leader *)
Theorem C08_round_on_absent_record_wins : forall U s k s1 s2,
  rec s = None -> kpc (K s k) = Idle -> flag (K s k) = false ->
  step U true s (CampRead k) = Some s1 -> step U true s1 (Insert k Ok) = Some s2 ->
  flag (K s2 k) = true /\ rec s2 = Some {| holder := k; upd := now s |}.
Proof. exact round_on_absent_record_wins. Qed.
Print Assumptions C08_round_on_absent_record_wins.

Theorem C08_round_on_stale_record_wins : forall U s k c s1 s2,
  rec s = Some c -> holder c <> k -> upd c < now s - U -> kpc (K s k) = Idle -> flag (K s k) = false ->
  step U true s (CampRead k) = Some s1 -> step U true s1 (Cas k Ok) = Some s2 ->
  flag (K s2 k) = true /\ rec s2 = Some {| holder := k; upd := now s |}.
Proof. exact round_on_stale_record_wins. Qed.
Print Assumptions C08_round_on_stale_record_wins.

(** the code at the pinned commit (compare-and-set on the worker key only): two unexpired leaders *)
Theorem C08_unfixed_refuted : exists s, run 5 false init witness = Some s /\ two_leaders 5 s = true.
Proof. exact C08_unique_lease_refuted. Qed.
Print Assumptions C08_unfixed_refuted.
