(** C12 — cancel.  Tree-level facts: a canceled task enables nothing downstream, and a task that
    did not finish hands no children to the executor.  The engine-level clause (nothing
    downstream of a cancelled in-flight task starts until it is retried) is monitor clause (12,1). *)
From Coq Require Import List ZArith Bool Arith.
From FF Require Import Sx TaskTree TaskTreeFacts.
Import ListNotations.

Theorem C12_canceled_enables_nothing : forall t u, status_of t u = TCanceled -> gnode_ok t (Some u) = false.
Proof. exact canceled_enables_nothing. Qed.
Print Assumptions C12_canceled_enables_nothing.

Theorem C12_unfinished_hands_out_nothing : forall t g s t' ids,
  next_ids t g s = Some (t', ids, true) -> s <> TInit -> can_exec_child_st s = false -> ids = [].
Proof. exact next_ids_unfinished_none. Qed.
Print Assumptions C12_unfinished_hands_out_nothing.

Theorem C12_pushed_children_have_done_parents : forall t g s t' ids v p,
  next_ids t g s = Some (t', ids, true) -> s <> TInit ->
  In v ids -> In p (parents t' v) -> gnode_ok t' p = true.
Proof. exact next_ids_children_done. Qed.
Print Assumptions C12_pushed_children_have_done_parents.
