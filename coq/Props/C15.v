(** C15 — life cycles.  [task_edge] / [ins_edge] are the relations the journal monitor checks
    every persisted status change against (clause (15,_)); these theorems show they say what
    the property says. *)
From Coq Require Import List ZArith Bool Arith.
From FF Require Import Sx StoreModel StoreCheck PreCheck EngineMon LifeCycleFacts TaskRun TaskRunFacts Engine EngineFacts EngineSettle EngineLive.
Import ListNotations.
Local Open Scope Z_scope.

Theorem C15_finished_task_final : forall a b, fin_st a = true -> task_edge a b = true -> b = a.
Proof. exact task_finished_final. Qed.
Print Assumptions C15_finished_task_final.

Theorem C15_running_only_from_init_or_continue : forall a,
  task_edge a sRunning = true -> a = sInit \/ a = sContinue \/ a = sRunning.
Proof. exact running_only_from_init_or_continue. Qed.
Print Assumptions C15_running_only_from_init_or_continue.

Theorem C15_success_only_from_ending : forall a, task_edge a sSuccess = true -> a = sEnding \/ a = sSuccess.
Proof. exact success_only_from_ending. Qed.
Print Assumptions C15_success_only_from_ending.

Theorem C15_instance_success_final : forall o b, ins_edge o iSuccess b = true -> b = iSuccess.
Proof. exact ins_success_final. Qed.
Print Assumptions C15_instance_success_final.

Theorem C15_rearm_only_by_command : forall o a,
  (a = iFailed \/ a = iBlocked) -> ins_edge o a iRunning = true -> o = 2.
Proof. exact ins_rearm_only_by_command. Qed.
Print Assumptions C15_rearm_only_by_command.

Theorem C15_back_to_init_only_by_watchdog : forall o, ins_edge o iScheduled iInit = true -> o = 4.
Proof. exact ins_back_to_init_only_by_watchdog. Qed.
Print Assumptions C15_back_to_init_only_by_watchdog.

Theorem C15_scheduled_only_by_dispatch : forall o, ins_edge o iInit iScheduled = true -> o = 5 \/ o = 9.
Proof. exact ins_scheduled_only_by_dispatch. Qed.
Print Assumptions C15_scheduled_only_by_dispatch.

(** within one executor run the status writes follow the cycle: ending only after the main action
    returned ok, success only past ending (see C02), failure after any error *)
Theorem C15_run_ending_after_run_ok : forall p e,
  acc_step p e = Some NeedEnding -> (e = TX /\ p = NeedEnding) \/ e = TE 1 0.
Proof. exact into_NeedEnding. Qed.
Print Assumptions C15_run_ending_after_run_ok.

(** --- engine level (Engine: persisted task and instance statuses, the parser's tree and event queue, the
    pushes in progress with their pre-check verdicts, the executor's registered runs and the deliveries
    under way, the retry and continue commands in their phases, crash and restart, the watchdog - one
    instance as a transition system at the granularity of single store writes and goroutine hand-overs;
    scope: pre-checks (skip / block), failures in every phase, retry and continue commands also while the
    instance is busy, no-op commands; not: cancel, failing writes).  The statements hold for every history
    in which no delivery is accepted, and no pre-check verdict written, on the strength of a stale snapshot
    or next to another delivery of the same task ([validate = true], the other switches arbitrary); the code
    as it is admits both after a retry command re-initialised a busy instance, and then every one of them
    fails ([..._refuted]; known finding F-dup-push, reproduced on the real code).  Journals of the real
    engine in this scope are checked to be histories of Engine ([EngineCheck.check_core]) and the hypothesis
    is monitored on them. --- *)

(** a finished task (success or skipped) is never given another status *)
Theorem C15_engine_finished_final : forall tasks deps cq nn ls s l s' t,
  run tasks deps true cq nn boot ls = Some s -> step tasks deps true cq nn s l = Some s' ->
  done (Engine.store s t) = true -> Engine.store s' t = Engine.store s t.
Proof.
  intros tasks deps cq nn ls s l s' t Hr Hs.
  exact (done_final tasks deps cq nn s l s' t (inv_reach tasks deps cq nn ls boot s (inv_boot deps) Hr) Hs).
Qed.
Print Assumptions C15_engine_finished_final.

Theorem C15_engine_unvalidated_refuted :
  exists s s', run [1; 2; 3]%Z deps3 false false true boot (firstn 24 witness_dup) = Some s /\
               step [1; 2; 3]%Z deps3 false false true s (StartWrite 2) = Some s' /\
               Engine.store s 2 = SSuccess /\ Engine.store s' 2 = SRunning.
Proof. exact success_overwritten_refuted. Qed.
Print Assumptions C15_engine_unvalidated_refuted.

(** the same with a pre-check: a duplicate push records 'skipped' next to a delivery that is already registered;
    the registered run then overwrites it with 'running' *)
Theorem C15_engine_skipped_overwritten_refuted :
  exists s s', run [1; 2; 3]%Z deps3 false false true boot witness_dup_skip = Some s /\
               step [1; 2; 3]%Z deps3 false false true s (StartWrite 2) = Some s' /\
               Engine.store s 2 = SSkipped /\ Engine.store s' 2 = SRunning.
Proof. exact skipped_overwritten_refuted. Qed.
Print Assumptions C15_engine_skipped_overwritten_refuted.

(** with commands issued and picked up at quiescent points: finality for the code as it is ([validate] arbitrary) *)
Theorem C15_engine_quiet_commands_finished_final : forall tasks deps validate (rank : Z -> nat),
  NoDup tasks ->
  (forall t d, In d (deps t) -> (rank d < rank t)%nat) ->
  (forall t d, In t tasks -> In d (deps t) -> In d tasks) ->
  forall ls s l s' t, run tasks deps validate true true boot ls = Some s ->
  step tasks deps validate true true s l = Some s' -> done (Engine.store s t) = true -> Engine.store s' t = Engine.store s t.
Proof.
  intros tasks deps validate rank Hnd Hrank Hclosed ls s l s' t Hr Hs.
  apply (quiet_done_final tasks deps validate s l s' t); [|exact Hs].
  exact (invq_reach tasks deps validate rank Hnd Hrank Hclosed ls boot s (invq_boot tasks deps) Hr).
Qed.
Print Assumptions C15_engine_quiet_commands_finished_final.
