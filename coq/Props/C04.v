(** C04 — crash recovery.  After a restart the worker rebuilds its tree from the store
    (InitialDagIns); these theorems say what that fresh tree can hand to the executor.
    Settling after the restart, no second start of a started main action, no phase of a
    finished task and no duplicate records are the monitor clauses (4,_) and (2,2) of
    [EngineMon], evaluated on crash / prefix-restore journals. *)
From Coq Require Import List ZArith Bool Arith.
From FF Require Import Sx TaskTree TaskTreeFacts StoreModel StoreCheck TaskRun TaskRunFacts.
Import ListNotations.

(** a task persisted as running / success / skipped / failed / canceled / blocked is not executable *)
Theorem C04_not_executable_status : forall t g,
  match status_of t g with
  | TRunning | TSuccess | TSkipped | TFailed | TCanceled | TBlocked => executable t g = false
  | _ => True
  end.
Proof. exact not_executable_status. Qed.
Print Assumptions C04_not_executable_status.

(** everything a fresh tree pushes is init / retrying / continue / ending *)
Theorem C04_pushed_status : forall t l v,
  executable_ids t = Some l -> In v l -> executable_st (status_of t v) = true.
Proof. exact executable_ids_status. Qed.
Print Assumptions C04_pushed_status.

(** a run never starts the main action except right after its own acknowledged 'running' write:
    in particular a run resumed in 'ending' (program counter Idle) cannot start it *)
Theorem C04_no_main_action_without_running_write : forall p q, acc_step p (TS 1) = Some q -> p = NeedRunStart.
Proof. exact start_run_needs. Qed.
Print Assumptions C04_no_main_action_without_running_write.
