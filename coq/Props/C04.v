(** C04 — crash recovery.  After a restart the worker rebuilds its tree from the store
    (InitialDagIns); these theorems say what that fresh tree can hand to the executor.
    Settling after the restart, no second start of a started main action, no phase of a
    finished task and no duplicate records are the monitor clauses (4,_) and (2,2) of
    [EngineMon], evaluated on crash / prefix-restore journals. *)
From Coq Require Import List ZArith Bool Arith.
From FF Require Import Sx TaskTree TaskTreeFacts StoreModel StoreCheck TaskRun TaskRunFacts Engine EngineFacts EngineSettle EngineRefute.
Import ListNotations.

(** a task persisted as running / success / skipped / failed / canceled / blocked is not executable *)
Theorem C04_not_executable_status : forall t g,
  match status_of t g with
  | TRunning | TSuccess | TSkipped | TFailed | TCanceled | TBlocked => executable t g = false
  | _ => True
  end.
Proof. exact not_executable_status. Qed.
Print Assumptions C04_not_executable_status.

(** everything a fresh tree pushes is init / retrying / continue / ending *)
Theorem C04_pushed_status : forall t l v,
  executable_ids t = Some l -> In v l -> executable_st (status_of t v) = true.
Proof. exact executable_ids_status. Qed.
Print Assumptions C04_pushed_status.

(** a run never starts the main action except right after its own acknowledged 'running' write:
    in particular a run resumed in 'ending' (program counter Idle) cannot start it *)
Theorem C04_no_main_action_without_running_write : forall p q, acc_step p (TS 1) = Some q -> p = NeedRunStart.
Proof. exact start_run_needs. Qed.
Print Assumptions C04_no_main_action_without_running_write.

(** --- engine level (Engine, see C01.v for the scope; [Crash] is a label of the system: the tree, the
    registered runs, the queued completion events and the deliveries under way are lost at any point,
    the restart rebuilds from the store).  Across crashes: a main action that had started is not started
    again in the same attempt and a finished task never leaves 'success' (every history without a stale
    accepted delivery); the instance is settled at every quiescent point, a task left 'running' by the
    crash being what the watchdog settles (histories with [cmdquiet] and [nonoop]). --- *)

Theorem C04_engine_no_second_start_after_restart : forall tasks deps cq nn ls1 s1 ls2 s2 t s',
  run tasks deps true cq nn boot ls1 = Some s1 -> started s1 t = true ->
  run tasks deps true cq nn s1 (Crash :: ls2) = Some s2 -> ~ In (Rearm t) ls2 ->
  step tasks deps true cq nn s2 (MainStart t) = Some s' -> False.
Proof.
  intros tasks deps cq nn ls1 s1 ls2 s2 t s' Hr1 Hst Hr2 Hnr Hs.
  pose proof (inv_reach tasks deps cq nn ls1 boot s1 (inv_boot deps) Hr1) as HI1.
  pose proof (inv_reach tasks deps cq nn (Crash :: ls2) s1 s2 HI1 Hr2) as HI2.
  destruct (main_start_once tasks deps cq nn s2 t s' HI2 Hs) as (Hf & _).
  assert (Hk : forall ls a b, run tasks deps true cq nn a ls = Some b -> started a t = true -> ~ In (Rearm t) ls -> started b t = true).
  { induction ls as [|l ls IH]; cbn; intros a b Hrun Ha Hni.
    - inversion Hrun; subst. exact Ha.
    - destruct (step tasks deps true cq nn a l) as [a'|] eqn:E; [|discriminate].
      apply (IH a' b Hrun); [|intros Hin; apply Hni; right; exact Hin].
      apply (started_kept tasks deps cq nn a l a' t E Ha). intros ->. apply Hni. left. reflexivity. }
  assert (Hni : ~ In (Rearm t) (Crash :: ls2)) by (intros [H|H]; [discriminate|contradiction]).
  rewrite (Hk (Crash :: ls2) s1 s2 Hr2 Hst Hni) in Hf. discriminate.
Qed.
Print Assumptions C04_engine_no_second_start_after_restart.

Theorem C04_engine_settles_across_crashes : forall tasks deps validate (rank : Z -> nat),
  NoDup tasks ->
  (forall t d, In d (deps t) -> (rank d < rank t)%nat) ->
  (forall t d, In t tasks -> In d (deps t) -> In d tasks) ->
  forall ls s, run tasks deps validate true true boot ls = Some s -> Quiescent tasks s ->
  ins s <> IRunning /\
  (ins s = ISuccess <-> forall t, In t tasks -> done (store s t) = true) /\
  (ins s = IFailed -> exists t, In t tasks /\ store s t = SFailed) /\
  (ins s = IBlocked -> exists t, In t tasks /\ store s t = SBlocked).
Proof.
  intros tasks deps validate rank Hnd Hrank Hclosed ls s Hr Hq.
  apply (settled tasks deps s); [|exact Hq].
  exact (invq_reach tasks deps validate rank Hnd Hrank Hclosed ls boot s (invq_boot tasks deps) Hr).
Qed.
Print Assumptions C04_engine_settles_across_crashes.

(** a task the crash left recorded running with no run is settled by the watchdog, nothing else is needed *)
Theorem C04_engine_orphan_settled_by_watchdog : forall tasks deps validate (rank : Z -> nat),
  NoDup tasks ->
  (forall t d, In d (deps t) -> (rank d < rank t)%nat) ->
  (forall t d, In t tasks -> In d (deps t) -> In d tasks) ->
  forall ls s t, run tasks deps validate true true boot ls = Some s -> store s t = SRunning -> runs s t = RNone ->
  exists s', step tasks deps validate true true s (WdFail t) = Some s' /\ ins s' = IFailed /\ store s' t = SFailed.
Proof.
  intros tasks deps validate rank Hnd Hrank Hclosed ls s t Hr Hst Hrn.
  apply (orphan_settled_by_watchdog tasks deps validate s t); try assumption.
  exact (invq_reach tasks deps validate rank Hnd Hrank Hclosed ls boot s (invq_boot tasks deps) Hr).
Qed.
Print Assumptions C04_engine_orphan_settled_by_watchdog.

(** the hypotheses are met by a history through a crash in the middle of a main action *)
Example C04_engine_crash_history :
  exists s, run [1]%Z nodeps true true true boot w_crash = Some s /\ Quiescent [1]%Z s /\ ins s = IFailed /\ started s 1%Z = true.
Proof. exact settle_after_crash_met. Qed.
