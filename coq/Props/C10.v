(** C10 — distributed mutex.  [Mutex.mstep true] is MongoMutex (Lock / spinLock / Unlock) as
    repaired by the three fix commits, for one key and any number of handles, at
    single-database-operation granularity with failed and lost-reply operations in the spin loop,
    clock advances and TTL sweeps.  Journals of 2-4 real handles (real time, 100 ms spin ticker)
    must be accepted by it; the monitor judges the implementation's own return values.
    Owner of the key = the reentrant identity when non-empty, else the handle: a successful
    Unlock releases the key for every handle sharing it. *)
From Coq Require Import List ZArith Bool Lia Arith.
From FF Require Import Sx Mutex MutexFacts.
Import ListNotations.
Local Open Scope Z_scope.

Theorem C10_mutual_exclusion : forall ls s h1 h2,
  mrun true minit ls = Some s -> holds_now s h1 -> holds_now s h2 -> h1 <> h2 ->
  h_ident (H s h1) = h_ident (H s h2) /\ h_ident (H s h1) <> 0.
Proof. exact mutual_exclusion. Qed.
Print Assumptions C10_mutual_exclusion.

Theorem C10_lock_success_is_honest : forall ls s h,
  mrun true minit ls = Some s -> h_pc (H s h) = MRet 0 -> h_holds (H s h) = true ->
  exists e i, h_detail (H s h) = Some (e, i) /\
    (m_now s < e -> exists d, m_doc s = Some d /\ d_exp d = e /\ d_id d = h_ident (H s h)).
Proof. exact lock_success_is_honest. Qed.
Print Assumptions C10_lock_success_is_honest.

Theorem C10_failed_operation_is_reported : forall s h first,
  h_pc (H (after_spin_err true s h first) h) = MRet 1.
Proof. exact failed_operation_is_reported. Qed.
Print Assumptions C10_failed_operation_is_reported.

Theorem C10_takeover_only_after_expiry : forall ls s h old e1 ident ttl first,
  mrun true minit ls = Some s -> h_pc (H s h) = MCasNext old e1 ident ttl first -> old < m_now s.
Proof. exact takeover_only_after_expiry. Qed.
Print Assumptions C10_takeover_only_after_expiry.

Theorem C10_unlock_by_holder : forall s h e i d s',
  h_pc (H s h) = MIdle -> h_detail (H s h) = Some (e, i) -> m_doc s = Some d -> d_exp d = e ->
  mstep true s (UnlockOp h MOk) = Some s' -> m_doc s' = None /\ h_pc (H s' h) = MRet 0.
Proof. exact unlock_by_holder. Qed.
Print Assumptions C10_unlock_by_holder.

Theorem C10_unlock_after_takeover : forall s h e i d s',
  h_pc (H s h) = MIdle -> h_detail (H s h) = Some (e, i) -> m_doc s = Some d -> d_exp d <> e ->
  mstep true s (UnlockOp h MOk) = Some s' -> m_doc s' = Some d /\ h_pc (H s' h) = MRet 3.
Proof. exact unlock_after_takeover. Qed.
Print Assumptions C10_unlock_after_takeover.

Theorem C10_cancel_returns_ctx_error : forall s h ttl ident s',
  h_pc (H s h) = MWait ttl ident -> mstep true s (CtxDone h) = Some s' -> h_pc (H s' h) = MRet 2.
Proof. exact cancel_returns_ctx_error. Qed.
Print Assumptions C10_cancel_returns_ctx_error.

Theorem C10_acquires_once_free : forall s h ttl ident s1 s2 s3,
  h_pc (H s h) = MWait ttl ident -> m_doc s = None ->
  mstep true s (SpinTick h) = Some s1 -> mstep true s1 (FindOp h MOk) = Some s2 -> mstep true s2 (InsertOp h MOk) = Some s3 ->
  h_pc (H s3 h) = MRet 0 /\ h_holds (H s3 h) = true /\ exists d, m_doc s3 = Some d /\ d_owner d = h /\ d_exp d = m_now s + ttl.
Proof. exact acquires_once_free. Qed.
Print Assumptions C10_acquires_once_free.

Theorem C10_unfixed_refuted :
  (exists s, mrun false minit [LockCall 0 5000 0; FindOp 0 MOk; InsertOp 0 MOk; LockRet 0 0;
                               LockCall 1 5000 0; FindOp 1 MOk; SpinTick 1; FindOp 1 MFail; LockRet 1 0] = Some s
             /\ h_holds (H s 0) = true /\ h_holds (H s 1) = true /\ m_now s < 5000) /\
  (exists s, mrun false minit [LockCall 0 1000 0; FindOp 0 MOk; InsertOp 0 MOk; LockRet 0 0; MTick 2000;
                               LockCall 1 5000 0; FindOp 1 MOk; MTick 7; CasOp 1 MOk; LockRet 1 0;
                               UnlockOp 1 MOk; UnlockRet 1 3] = Some s /\ m_doc s <> None).
Proof. exact unfixed_refuted. Qed.
Print Assumptions C10_unfixed_refuted.
