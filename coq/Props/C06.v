(** C06 — worker isolation.  The worker's three own-duty reads carry its key; the store's
    list with a worker key returns only that worker's instances.  That every own-duty read
    is worker-filtered and every own-duty write hits an own instance is monitor clause (6,_),
    and the harness compares foreign documents byte for byte before/after. *)
From Coq Require Import List ZArith Bool Arith.
From FF Require Import Sx StoreModel StoreFacts.
Import ListNotations.
Local Open Scope Z_scope.

Theorem C06_list_returns_only_own : forall s f r,
  if_worker f <> 0 -> In r (list_ins s f) -> i_worker r = if_worker f.
Proof. exact list_ins_worker. Qed.
Print Assumptions C06_list_returns_only_own.

(** a patch of one instance leaves every other instance and all tasks unchanged *)
Theorem C06_patch_touches_one_instance : forall now s id share st cmd must_cmd wk rs must_rs,
  let s' := fst (patch_ins now s id share st cmd must_cmd wk rs must_rs) in
  tasks s' = tasks s /\
  (forall id', id' <> id -> get_ins s' id' = get_ins s id') /\
  (forall r, get_ins s id = RIns r ->
     get_ins s' id = RIns (mkI (i_id r)
                              (if Z.eqb wk 0 then i_worker r else wk)
                              (if Z.eqb st 0 then i_status r else st)
                              (if must_rs || negb (Z.eqb rs 0) then rs else i_reason r)
                              (match cmd with Some c => Some c | None => if must_cmd then None else i_cmd r end)
                              (match share with Some d => Some d | None => i_share r end)
                              now (i_rest r))) /\
  length (insts s') = length (insts s).
Proof. exact patch_ins_frame. Qed.
Print Assumptions C06_patch_touches_one_instance.
