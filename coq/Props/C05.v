(** C05 — instantiation is idempotent.  [round] models the record-creation loop of
    parseScheduleDagIns (compare counts, create the absent ones in DAG order, one insert at a
    time).  That the records the real code creates carry the DAG's definition (dependencies,
    timeout or the worker default, status init) and that exactly one record per task exists when
    the instance is marked running are monitor clauses (5,_), evaluated on journals whose
    instantiation batch is interrupted in the database and resumed. *)
From Coq Require Import List ZArith Bool Arith.
From FF Require Import Sx StoreModel Instantiate InstantiateFacts.
Import ListNotations.
Local Open Scope Z_scope.

Theorem C05_instantiation_idempotent : forall dag cuts,
  NoDup (gidsD dag) ->
  let h := round dag (rounds dag [] cuts) None in
  NoDup h /\ (forall g, In g h <-> In g (gidsD dag)).
Proof. exact instantiation_idempotent. Qed.
Print Assumptions C05_instantiation_idempotent.

Theorem C05_interrupted_rounds_keep_invariant : forall dag cuts have,
  NoDup (gidsD dag) -> Inv dag have -> Inv dag (rounds dag have cuts).
Proof. exact rounds_inv. Qed.
Print Assumptions C05_interrupted_rounds_keep_invariant.

Theorem C05_complete_round_stable : forall dag have,
  NoDup (gidsD dag) -> NoDup have -> (forall g, In g have <-> In g (gidsD dag)) -> round dag have None = have.
Proof. exact complete_round_stable. Qed.
Print Assumptions C05_complete_round_stable.

Theorem C05_record_timeout : forall dflt d,
  snd (new_record dflt d) = if Z.eqb (d_timeout d) 0 then dflt else d_timeout d.
Proof. exact new_record_timeout. Qed.
Print Assumptions C05_record_timeout.
