(** C03 — verdict lemmas (pure, every tree): a failed / blocked / running verdict of
    ComputeStatus always has a witness task in that state.  Settling and
    containment are judged on every engine journal by the monitor clauses (3,_)
    of [EngineMon]. *)
From Coq Require Import List ZArith Bool Arith.
From FF Require Import Sx TaskTree TaskTreeFacts Engine EngineFacts EngineSettle EngineRefute EngineLive.
Import ListNotations.

Theorem C03_failed_has_witness : forall t v,
  compute_status t = Some (TrFailed, v) -> status_of t v = TFailed \/ status_of t v = TCanceled.
Proof. exact compute_status_failed_witness. Qed.
Print Assumptions C03_failed_has_witness.

Theorem C03_blocked_has_witness : forall t v,
  compute_status t = Some (TrBlocked, v) -> status_of t v = TBlocked.
Proof. exact compute_status_blocked_witness. Qed.
Print Assumptions C03_blocked_has_witness.

Theorem C03_running_has_witness : forall t v,
  compute_status t = Some (TrRunning, v) -> is_active_st (status_of t v) = true.
Proof. exact compute_status_running_witness. Qed.
Print Assumptions C03_running_has_witness.

(** --- engine level (Engine, see C01.v for the scope): whenever the owning worker has nothing in flight for
    the instance, no command is stored or being executed and no task is recorded running, the instance is
    settled and the verdict agrees with its tasks (success exactly when every task is success or skipped,
    failed only with a failed task, blocked only with a blocked task) - for every DAG (unique ids, dependencies among the tasks,
    acyclic as witnessed by a rank), every outcome of every phase, every interleaving of runs, parser and
    command watcher, every crash point and every watchdog intervention.  Hypotheses on the history: commands
    are issued and picked up only while nothing is in flight ([cmdquiet]) and every executed command re-armed
    a task ([nonoop]); nothing is assumed about deliveries ([validate] arbitrary).  Each hypothesis is
    necessary: the three [..._refuted] theorems are histories of the unrestricted system ending quiescent
    and unsettled or wrongly settled; all three were replayed on the real code (known findings
    F-stale-completion-event, F-retry-in-unregister-window, F-cmd-crash-noop / F-noop-cmd). --- *)

Theorem C03_engine_settles_and_agrees : forall tasks deps validate (rank : Z -> nat),
  NoDup tasks ->
  (forall t d, In d (deps t) -> (rank d < rank t)%nat) ->
  (forall t d, In t tasks -> In d (deps t) -> In d tasks) ->
  forall ls s, run tasks deps validate true true boot ls = Some s -> Quiescent tasks s ->
  ins s <> IRunning /\
  (ins s = ISuccess <-> forall t, In t tasks -> done (store s t) = true) /\
  (ins s = IFailed -> exists t, In t tasks /\ store s t = SFailed) /\
  (ins s = IBlocked -> exists t, In t tasks /\ store s t = SBlocked).
Proof.
  intros tasks deps validate rank Hnd Hrank Hclosed ls s Hr Hq.
  apply (settled tasks deps s); [|exact Hq].
  exact (invq_reach tasks deps validate rank Hnd Hrank Hclosed ls boot s (invq_boot tasks deps) Hr).
Qed.
Print Assumptions C03_engine_settles_and_agrees.

(** ... and the engine never hangs with work in flight: in every state of such a history that is not quiet - or in
    which a re-initialisation is due - a step of the engine itself is enabled (no command, crash or watchdog is
    needed).  So the engine can only come to rest in the settled states of the theorem above. *)
Theorem C03_engine_never_stuck : forall tasks deps validate (rank : Z -> nat),
  NoDup tasks ->
  (forall t d, In d (deps t) -> (rank d < rank t)%nat) ->
  (forall t d, In t tasks -> In d (deps t) -> In d tasks) ->
  forall ls s, run tasks deps validate true true boot ls = Some s ->
  quiet tasks s = false \/ ph s = PInit \/ ph s = PDown ->
  exists l s', operator l = false /\ step tasks deps validate true true s l = Some s'.
Proof.
  intros tasks deps validate rank Hnd Hrank Hclosed ls s Hr Hq.
  apply (engine_not_stuck tasks deps validate s); [|exact Hq].
  exact (invq_reach tasks deps validate rank Hnd Hrank Hclosed ls boot s (invq_boot tasks deps) Hr).
Qed.
Print Assumptions C03_engine_never_stuck.

(** ... only finitely many steps of its own can follow one another (a measure - a weight per task read off its
    status and the place of its token, plus a term for a pending re-initialisation - strictly decreases with each;
    the steps of the operator / command watcher, the watchdog and a crash are the environment's) ... *)
Theorem C03_engine_own_steps_bounded : forall tasks deps validate (rank : Z -> nat),
  NoDup tasks ->
  (forall t d, In d (deps t) -> (rank d < rank t)%nat) ->
  (forall t d, In t tasks -> In d (deps t) -> In d tasks) ->
  forall ls0 s ls s', run tasks deps validate true true boot ls0 = Some s ->
  run tasks deps validate true true s ls = Some s' -> forallb (fun l => negb (operator l)) ls = true ->
  (length ls + measure tasks s' <= measure tasks s)%nat.
Proof.
  intros tasks deps validate rank Hnd Hrank Hclosed ls0 s ls s' Hr0 Hr Hall.
  apply (engine_steps_bounded tasks deps validate rank Hnd Hrank Hclosed ls s s'); try assumption.
  exact (invq_reach tasks deps validate rank Hnd Hrank Hclosed ls0 boot s (invq_boot tasks deps) Hr0).
Qed.
Print Assumptions C03_engine_own_steps_bounded.

(** ... and where they end - no command stored, no task left recorded running - the instance is settled.  This is
    "every started instance settles" for the restricted system under weak fairness of the engine's goroutines: its
    own steps are finitely many, one is enabled as long as anything is in flight, and rest is a settled state. *)
Theorem C03_engine_rest_is_settled : forall tasks deps validate (rank : Z -> nat),
  NoDup tasks ->
  (forall t d, In d (deps t) -> (rank d < rank t)%nat) ->
  (forall t d, In t tasks -> In d (deps t) -> In d tasks) ->
  forall ls s, run tasks deps validate true true boot ls = Some s ->
  (forall l s', step tasks deps validate true true s l = Some s' -> operator l = true) ->
  cmd s = false -> (forall t, In t tasks -> store s t <> SRunning) ->
  ins s <> IRunning /\
  (ins s = ISuccess <-> forall t, In t tasks -> done (store s t) = true) /\
  (ins s = IFailed -> exists t, In t tasks /\ store s t = SFailed) /\
  (ins s = IBlocked -> exists t, In t tasks /\ store s t = SBlocked).
Proof.
  intros tasks deps validate rank Hnd Hrank Hclosed ls s Hr Hrest Hc Hnr.
  apply (rest_is_settled tasks deps validate s); try assumption.
  exact (invq_reach tasks deps validate rank Hnd Hrank Hclosed ls boot s (invq_boot tasks deps) Hr).
Qed.
Print Assumptions C03_engine_rest_is_settled.

Theorem C03_engine_stale_event_refuted :
  exists s, run [1]%Z nodeps true false true boot w_stale_event = Some s /\
            Quiescent [1]%Z s /\ ins s = IFailed /\ store s 1%Z = SInit.
Proof. exact stale_event_refuted. Qed.
Print Assumptions C03_engine_stale_event_refuted.

Theorem C03_engine_unregister_window_refuted :
  exists s, run [1]%Z nodeps true false true boot w_window = Some s /\
            Quiescent [1]%Z s /\ ins s = IFailed /\ store s 1%Z = SRetrying.
Proof. exact unregister_window_refuted. Qed.
Print Assumptions C03_engine_unregister_window_refuted.

Theorem C03_engine_noop_after_crash_refuted :
  exists s, run [1]%Z nodeps true true false boot w_noop_after_crash = Some s /\
            Quiescent [1]%Z s /\ ins s = IRunning /\ store s 1%Z = SRetrying.
Proof. exact noop_after_crash_refuted. Qed.
Print Assumptions C03_engine_noop_after_crash_refuted.

(** The executor's registration protocol (ExecReg: Push, init goroutine, workers, cancel map; deliveries aliased
    to task objects, any number of workers, every history).  With nothing in the executor's hands nothing is
    registered, so a re-armed task is accepted; the executor only ever waits behind running actions. *)
From FF Require Import ExecReg ExecRegFacts.

Theorem C03_executor_idle_accepts_every_task : forall nworkers f ls s d r,
  xrun nworkers false (xinit f) ls = Some s -> idle s = true -> initq s = d :: r ->
  exists s', xstep nworkers false s XInitTake = Some s' /\ held s' = Some d /\ reg s' (dt d) = true.
Proof. exact idle_executor_accepts. Qed.
Print Assumptions C03_executor_idle_accepts_every_task.

Theorem C03_executor_no_run_no_backlog : forall nworkers f ls s,
  (0 < nworkers)%nat -> xrun nworkers false (xinit f) ls = Some s -> internal_enabled nworkers s = false ->
  work s = [] -> held s = None /\ initq s = [].
Proof. exact no_run_no_backlog. Qed.
Print Assumptions C03_executor_no_run_no_backlog.

(** the code before fix de0061a: a refused delivery stays registered (the duppath history) *)
Theorem C03_executor_leak_refuted :
  exists s, xrun 1 true (xinit (fun _ => SContinue)) w_leak = Some s /\ idle s = true /\ reg s 5%Z = true.
Proof. exact leak_refuted. Qed.
Print Assumptions C03_executor_leak_refuted.

(** the executor's own steps (init goroutine, hand-over, status check) are bounded by a measure: it comes to rest,
    and at rest it waits only behind running actions (C03_executor_no_run_no_backlog) *)
From FF Require Import ExecRegLive.
Theorem C03_executor_own_steps_bounded : forall nworkers leak ls s s',
  forallb is_internal ls = true -> xrun nworkers leak s ls = Some s' -> (length ls + xmeasure s' <= xmeasure s)%nat.
Proof. exact own_steps_bounded. Qed.
Print Assumptions C03_executor_own_steps_bounded.
