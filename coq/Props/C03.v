(** C03 — verdict lemmas (pure, every tree): a failed / blocked / running verdict of
    ComputeStatus always has a witness task in that state.  Settling and
    containment are judged on every engine journal by the monitor clauses (3,_)
    of [EngineMon]. *)
From Coq Require Import List ZArith Bool Arith.
From FF Require Import Sx TaskTree TaskTreeFacts.
Import ListNotations.

Theorem C03_failed_has_witness : forall t v,
  compute_status t = Some (TrFailed, v) -> status_of t v = TFailed \/ status_of t v = TCanceled.
Proof. exact compute_status_failed_witness. Qed.
Print Assumptions C03_failed_has_witness.

Theorem C03_blocked_has_witness : forall t v,
  compute_status t = Some (TrBlocked, v) -> status_of t v = TBlocked.
Proof. exact compute_status_blocked_witness. Qed.
Print Assumptions C03_blocked_has_witness.

Theorem C03_running_has_witness : forall t v,
  compute_status t = Some (TrRunning, v) -> is_active_st (status_of t v) = true.
Proof. exact compute_status_running_witness. Qed.
Print Assumptions C03_running_has_witness.
