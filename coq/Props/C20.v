(** C20 — shutdown.  The synchronisation skeleton of DefExecutor and DefParser (locks, channels, wait
    groups; [Shutdown]) as transition systems over counters: every interleaving of pushes, hand-offs,
    action ends, queued parser events (queue empty, partly full, full) and Close is a run of these
    systems.  Safety: no send on a closed channel; Close returns only after every started action run has
    ended and stored its status; afterwards nothing runs and nothing starts.  Liveness: while Close is in
    progress an internal step is always enabled and every internal step decreases a measure, so Close
    returns on every schedule in which enabled goroutines keep running.  The two earlier lock disciplines
    of the parser have reachable deadlocks (witnesses checked by computation); both hangs were reproduced
    on the real code (fix commits 57f3a0c, 601f589).

    The tie to the code: [ShutdownCheck] compares the skeleton of each modelled function, read from the
    current source text on every run, with the one the model was written from; the engine scenarios
    (kinds close, closepre, closefull, crash) run the real Close at every scheduling point and the
    monitor clauses (20,_) of [EngineMon] check the journals (start after Close returned, run alive when it
    returned, unstored outcome, hang); 'resumed exactly as after a crash' is clauses (4,_) and (2,2) on
    the same journals after the restart. *)
From Coq Require Import List Arith Bool.
From FF Require Import Shutdown ShutdownFacts.
Import ListNotations.

(** --- executor --- *)

Theorem C20_executor_no_send_on_closed_channel : forall workers, 0 < workers -> forall ls s,
  erun (einit workers) ls = Some s -> e_panicked s = false.
Proof. exact executor_no_panic. Qed.
Print Assumptions C20_executor_no_send_on_closed_channel.

(** when Close has returned every started action run has ended and its status was stored (workerDo
    returned), every worker and the init goroutine are gone *)
Theorem C20_executor_close_waits_for_runs : forall workers, 0 < workers -> forall ls s,
  erun (einit workers) ls = Some s -> e_cl s = ERet ->
  e_started s = e_stored s /\ e_run s = 0 /\ e_idle s = 0 /\ e_gone s = workers /\ e_init s = IExited.
Proof. exact executor_close_waits. Qed.
Print Assumptions C20_executor_close_waits_for_runs.

(** and whatever is pushed afterwards, no action run is started any more *)
Theorem C20_executor_nothing_starts_after_close : forall workers, 0 < workers -> forall ls1 ls2 s s',
  erun (einit workers) ls1 = Some s -> e_cl s = ERet -> erun s ls2 = Some s' ->
  e_cl s' = ERet /\ e_started s' = e_started s /\ e_run s' = 0.
Proof. exact executor_closed_for_good. Qed.
Print Assumptions C20_executor_nothing_starts_after_close.

(** Close does not get stuck (given at least one worker) ... *)
Theorem C20_executor_close_progress : forall workers, 0 < workers -> forall ls s,
  erun (einit workers) ls = Some s -> eclosing s = true -> eenabled s = true.
Proof.
  intros workers Hw ls s Hr. apply (executor_progress workers Hw).
  exact (einv_reach workers Hw ls _ s (einv_init workers Hw) Hr).
Qed.
Print Assumptions C20_executor_close_progress.

(** ... every run of internal steps while it is in progress is no longer than the measure, and Close can return *)
Theorem C20_executor_close_terminates : forall workers, 0 < workers -> forall ls s,
  erun (einit workers) ls = Some s -> eclosing s = true ->
  (forall ls' s', ecrun s ls' = Some s' -> length ls' <= emeasure s) /\
  (exists ls' s', Forall (fun l => einternal l = true) ls' /\ erun s ls' = Some s' /\ e_cl s' = ERet /\ length ls' <= emeasure s).
Proof.
  intros workers Hw ls s Hr Hc.
  pose proof (einv_reach workers Hw ls _ s (einv_init workers Hw) Hr) as HI. split.
  - intros ls' s' H. exact (executor_runs_bounded workers Hw ls' s s' HI H).
  - exact (executor_close_returns workers Hw (emeasure s) s HI Hc (le_n _)).
Qed.
Print Assumptions C20_executor_close_terminates.

(** --- parser (current code) --- *)

Theorem C20_parser_no_send_on_closed_channel : forall cap fan ls s,
  prun 2 cap fan pinit ls = Some s -> panicked s = false.
Proof. exact parser_no_panic. Qed.
Print Assumptions C20_parser_no_send_on_closed_channel.

(** once Close has returned the worker has exited, its queue is empty, nobody waits to send, and that
    stays so whatever calls arrive afterwards *)
Theorem C20_parser_closed_for_good : forall cap fan ls1 ls2 s s',
  prun 2 cap fan pinit ls1 = Some s -> cl s = CRet -> prun 2 cap fan s ls2 = Some s' ->
  cl s' = CRet /\ wk s' = WExited /\ q s' = 0 /\ bs s' = 0 /\ bw s' = 0 /\ rd s' = 0 /\ wr s' = false.
Proof. exact parser_closed_for_good. Qed.
Print Assumptions C20_parser_closed_for_good.

Theorem C20_parser_close_progress : forall cap fan ls s,
  prun 2 cap fan pinit ls = Some s -> closing s = true -> enabled 2 cap fan s = true.
Proof.
  intros cap fan ls s Hr. apply parser_progress.
  exact (pinv_reach cap fan ls _ s (pinv_init cap) Hr).
Qed.
Print Assumptions C20_parser_close_progress.

Theorem C20_parser_close_terminates : forall cap fan ls s,
  prun 2 cap fan pinit ls = Some s -> closing s = true ->
  (forall ls' s', crun cap fan s ls' = Some s' -> length ls' <= measure fan s) /\
  (exists ls' s', Forall (fun l => internal l = true) ls' /\ prun 2 cap fan s ls' = Some s' /\ cl s' = CRet /\ length ls' <= measure fan s).
Proof.
  intros cap fan ls s Hr Hc.
  pose proof (pinv_reach cap fan ls _ s (pinv_init cap) Hr) as HI. split.
  - intros ls' s' H. exact (parser_runs_bounded cap fan ls' s s' HI H).
  - exact (parser_close_returns cap fan (measure fan s) s HI Hc (le_n _)).
Qed.
Print Assumptions C20_parser_close_terminates.

(** --- the earlier lock disciplines deadlock (capacity 50 as in the code) --- *)

Theorem C20_pinned_parser_close_refuted :
  exists ls s, prun 0 50 60 pinit ls = Some s /\ closing s = true /\
               forall ls' s', prun 0 50 60 s ls' = Some s' -> cl s' <> CRet.
Proof.
  destruct pinned_parser_close_deadlocks as (s & Hr & Hs & Hc).
  exists witness0, s. split; [exact Hr|]. split.
  - unfold stuck in Hs. apply andb_true_iff in Hs. apply Hs.
  - exact (stuck_never_returns 0 50 60 s Hs Hc).
Qed.
Print Assumptions C20_pinned_parser_close_refuted.

Theorem C20_full_queue_parser_close_refuted :
  exists ls s, prun 1 50 60 pinit ls = Some s /\ closing s = true /\ q s = 50 /\
               forall ls' s', prun 1 50 60 s ls' = Some s' -> cl s' <> CRet.
Proof.
  destruct full_queue_parser_close_deadlocks as (s & Hr & Hs & Hc).
  exists witness1, s. split; [exact Hr|]. split; [|split].
  - unfold stuck in Hs. apply andb_true_iff in Hs. apply Hs.
  - assert (E : prun 1 50 60 pinit witness1 = Some s) by exact Hr. vm_compute in E. inversion E. reflexivity.
  - exact (stuck_never_returns 1 50 60 s Hs Hc).
Qed.
Print Assumptions C20_full_queue_parser_close_refuted.

(** non-vacuity: a reachable state of the current code in which Close is in progress with a full queue and a
    sender waiting for room *)
Example C20_nonvacuous :
  exists s, prun 2 50 60 pinit witness2 = Some s /\ bs s = 1 /\ q s = 50 /\ closing s = true /\ stuck 2 50 60 s = false.
Proof. exact witness2_current. Qed.
