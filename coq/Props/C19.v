(** C19 — Store contract: round-trips, isolated patches, exact filters, honest errors.
    Theorems about [StoreModel] (the reference the real store/mongo is compared
    against call by call over an in-memory MongoDB wire server). *)
From Coq Require Import List ZArith Bool Arith.
From FF Require Import Sx StoreModel StoreFacts.
Import ListNotations.
Local Open Scope Z_scope.

(** create-then-get returns every field unchanged (updatedAt := now), nothing else moves *)
Theorem C19_create_get_task : forall now s r,
  has_task s (t_id r) = false ->
  let s' := fst (create_task now s r) in
  snd (create_task now s r) = ROk /\ get_task s' (t_id r) = RTask (with_upd_t r now) /\ insts s' = insts s.
Proof. exact create_get_task. Qed.
Print Assumptions C19_create_get_task.

Theorem C19_create_get_ins : forall now s r,
  has_ins s (i_id r) = false ->
  let s' := fst (create_ins now s r) in
  snd (create_ins now s r) = ROk /\ get_ins s' (i_id r) = RIns (with_upd_i r now) /\ tasks s' = tasks s.
Proof. exact create_get_ins. Qed.
Print Assumptions C19_create_get_ins.

(** duplicate key => conflict, store unchanged; missing key => not found *)
Theorem C19_duplicate_conflict : forall now s r,
  has_task s (t_id r) = true -> create_task now s r = (s, RConflict).
Proof. exact create_duplicate_conflict. Qed.
Print Assumptions C19_duplicate_conflict.

Theorem C19_duplicate_conflict_ins : forall now s r,
  has_ins s (i_id r) = true -> create_ins now s r = (s, RConflict).
Proof. exact create_ins_duplicate_conflict. Qed.
Print Assumptions C19_duplicate_conflict_ins.

Theorem C19_get_missing : forall s id, has_task s id = false -> get_task s id = RNotFound.
Proof. exact get_missing_not_found. Qed.
Print Assumptions C19_get_missing.

Theorem C19_update_missing : forall now s r,
  has_task s (t_id r) = false -> update_task now s r = (s, RNotFound).
Proof. exact update_missing_not_found. Qed.
Print Assumptions C19_update_missing.

(** a task patch changes only the supplied fields of one record *)
Theorem C19_patch_task_frame : forall now s id st rs tr,
  id <> 0 ->
  let s' := fst (patch_task now s id st rs tr) in
  insts s' = insts s /\
  (forall id', id' <> id -> get_task s' id' = get_task s id') /\
  (forall r, get_task s id = RTask r ->
     get_task s' id = RTask (mkT (t_id r) (t_ins r) (t_gid r) (t_deps r) (t_timeout r)
                                 (if Z.eqb st 0 then t_status r else st)
                                 (if Z.eqb rs 0 then t_reason r else rs)
                                 (match tr with [] => t_traces r | _ => tr end) now (t_rest r))) /\
  (get_task s id = RNotFound -> get_task s' id = RNotFound) /\
  length (tasks s') = length (tasks s).
Proof. exact patch_task_frame. Qed.
Print Assumptions C19_patch_task_frame.

(** an instance patch never clears worker, command, shared data, status or reason it was not given *)
Theorem C19_patch_ins_frame : forall now s id share st cmd must_cmd wk rs must_rs,
  let s' := fst (patch_ins now s id share st cmd must_cmd wk rs must_rs) in
  tasks s' = tasks s /\
  (forall id', id' <> id -> get_ins s' id' = get_ins s id') /\
  (forall r, get_ins s id = RIns r ->
     get_ins s' id = RIns (mkI (i_id r)
                              (if Z.eqb wk 0 then i_worker r else wk)
                              (if Z.eqb st 0 then i_status r else st)
                              (if must_rs || negb (Z.eqb rs 0) then rs else i_reason r)
                              (match cmd with Some c => Some c | None => if must_cmd then None else i_cmd r end)
                              (match share with Some d => Some d | None => i_share r end)
                              now (i_rest r))) /\
  length (insts s') = length (insts s).
Proof. exact patch_ins_frame. Qed.
Print Assumptions C19_patch_ins_frame.

(** list queries return exactly the matching records *)
Theorem C19_list_tasks_exact : forall now s f r,
  In r (list_tasks now s f) <-> In r (tasks s) /\ task_matches now f r = true.
Proof. exact list_tasks_exact. Qed.
Print Assumptions C19_list_tasks_exact.

Theorem C19_list_ins_exact : forall s f r,
  if_limit f <= 0 -> (In r (list_ins s f) <-> In r (insts s) /\ ins_matches f r = true).
Proof. exact list_ins_exact_nolimit. Qed.
Print Assumptions C19_list_ins_exact.

Theorem C19_list_ins_limit : forall s f,
  0 < if_limit f -> list_ins s f = firstn (Z.to_nat (if_limit f)) (filter (ins_matches f) (insts s)).
Proof. exact list_ins_limit. Qed.
Print Assumptions C19_list_ins_limit.

(** a failing element of a batch write is reported to the caller *)
Theorem C19_batch_update_ins_reports : forall now l s k,
  (k < length l)%nat -> snd (batch_update_ins now s l (Some k)) = RErr.
Proof. exact batch_update_ins_reports. Qed.
Print Assumptions C19_batch_update_ins_reports.

Theorem C19_batch_update_tasks_reports : forall now l s k,
  (k < length l)%nat -> snd (batch_update_tasks now s l (Some k)) = RErr.
Proof. exact batch_update_tasks_reports. Qed.
Print Assumptions C19_batch_update_tasks_reports.

Theorem C19_batch_create_tasks_reports : forall now l s k,
  (k < length l)%nat -> snd (batch_create_tasks now s l (Some k)) = RErr.
Proof. exact batch_create_tasks_reports. Qed.
Print Assumptions C19_batch_create_tasks_reports.

(** worker key accepted iff  name-N  (name non-empty, no newline; N decimal, 0..255) *)
Theorem C19_worker_key_sound : forall key v,
  check_worker_key key = Some v ->
  exists p s, key = p ++ 45 :: s /\ p <> [] /\ s <> [] /\ forallb is_digit s = true /\
              ~ In 10 p /\ v = digits_value s 0 /\ v <= 255.
Proof. exact worker_key_sound. Qed.
Print Assumptions C19_worker_key_sound.

Theorem C19_worker_key_complete : forall p s,
  p <> [] -> s <> [] -> forallb is_digit s = true -> ~ In 10 p -> digits_value s 0 <= 255 ->
  check_worker_key (p ++ 45 :: s) = Some (digits_value s 0).
Proof. exact worker_key_complete. Qed.
Print Assumptions C19_worker_key_complete.

(** ids generated under different worker numbers differ (bit layout of the id) *)
Theorem C19_ids_differ : forall t1 s1 m1 t2 s2 m2,
  0 <= m1 < 65536 -> 0 <= m2 < 65536 -> m1 <> m2 -> flake_id t1 s1 m1 <> flake_id t2 s2 m2.
Proof. exact flake_ids_differ. Qed.
Print Assumptions C19_ids_differ.
