(** C18 — shared data and traces.  [sd_set true] models ShareData.Set as repaired by the fix
    commit (memory + stored dictionary, whole-dictionary save).  Durability against the store
    history, visibility to later tasks and traces are monitor clauses (18,_). *)
From Coq Require Import List ZArith Bool Arith.
From FF Require Import Sx StoreModel StoreCheck PreCheck ShareData ShareDataFacts ShareDataConc.
Import ListNotations.
Local Open Scope Z_scope.

Theorem C18_set_ok : forall s k v fixed,
  let s' := sd_set fixed s k v true in
  mem s' = stored s' /\ d_get (mem s') k = Some v /\ (forall k', k' <> k -> d_get (mem s') k' = d_get (mem s) k').
Proof. exact set_ok. Qed.
Print Assumptions C18_set_ok.

Theorem C18_set_failed_rolls_back : forall s k v,
  let s' := sd_set true s k v false in
  dict_equiv (mem s') (mem s) /\ stored s' = stored s.
Proof. exact set_failed_rolls_back. Qed.
Print Assumptions C18_set_failed_rolls_back.

Theorem C18_unfixed_rollback_refuted :
  exists s k v, d_get (mem (sd_set false s k v false)) k <> d_get (mem s) k.
Proof. exact unfixed_rollback_refuted. Qed.
Print Assumptions C18_unfixed_rollback_refuted.

Theorem C18_sets_keep_keys : forall (ops : list (Z * Z)) s k0,
  d_get (stored s) k0 <> None -> mem s = stored s ->
  d_get (stored (fold_left (fun acc kv => sd_set true acc (fst kv) (snd kv) true) ops s)) k0 <> None.
Proof. exact sets_keep_keys. Qed.
Print Assumptions C18_sets_keep_keys.

(** --- concurrent Sets (ShareDataConc: any number of tasks calling Set in parallel, every interleaving of
    their mutex acquisitions, in-memory writes, saves - succeeding or failing - and returns).  Whenever no Set
    is inside its critical section the in-memory view is exactly what is stored; a stored key is never lost;
    a Set that saved successfully returns with its value in the store; a Set whose save failed leaves the view
    as it was.  The variant that saves outside the mutex loses a key ([..._refuted]).  The tie to the source:
    the synchronisation skeleton of ShareData.Set / Get (family skel, ids 13, 14) and the differential run of
    the sequential function (family sharedata). --- *)

Theorem C18_concurrent_view_is_store : forall d ls s,
  crun true (cinit d) ls = Some s -> c_lock s = None -> dict_equiv (c_mem s) (c_stored s).
Proof. exact free_agrees. Qed.
Print Assumptions C18_concurrent_view_is_store.

Theorem C18_concurrent_keys_never_lost : forall d ls s l s' k,
  crun true (cinit d) ls = Some s -> cstep true s l = Some s' -> d_get (c_stored s) k <> None -> d_get (c_stored s') k <> None.
Proof.
  intros d ls s l s' k Hr. apply stored_key_kept. exact (cinv_reach ls _ _ (cinv_init d) Hr).
Qed.
Print Assumptions C18_concurrent_keys_never_lost.

Theorem C18_concurrent_set_returns_stored : forall d ls s i k v s',
  crun true (cinit d) ls = Some s -> c_pc s i = TSaved k v true -> cstep true s (CReturn i) = Some s' ->
  d_get (c_stored s') k = Some v.
Proof. exact set_returns_stored. Qed.
Print Assumptions C18_concurrent_set_returns_stored.

Theorem C18_concurrent_failed_set_rolled_back : forall d ls s i k v,
  crun true (cinit d) ls = Some s -> c_pc s i = TSaved k v false -> dict_equiv (c_mem s) (c_stored s).
Proof. exact failed_set_rolled_back. Qed.
Print Assumptions C18_concurrent_failed_set_rolled_back.

Theorem C18_save_outside_mutex_refuted :
  exists s, crun false (cinit []) w_lost_key = Some s /\ c_lock s = None /\
            d_get (c_mem s) 2 = Some 22 /\ d_get (c_stored s) 2 = None.
Proof. exact unlocked_save_refuted. Qed.
Print Assumptions C18_save_outside_mutex_refuted.

(** Two dictionary objects for one instance (ShareDataStale): the tasks of the live tree and the tasks pushed by a
    re-initialisation (retry / continue command).  With ONE shared dictionary a stored key is never lost; with the
    snapshot the command watcher listed - the code as it is - it is (known finding F-C18-stale-sharedata-after-command,
    reproduced on the real code by kind sharecmd). *)
From FF Require Import ShareDataStale.

Theorem C18_shared_dictionary_keeps_keys : forall ls s k,
  stored s = live s -> has_key (stored s) k -> has_key (stored (srun true s ls)) k.
Proof. exact shared_dictionary_keeps_keys. Qed.
Print Assumptions C18_shared_dictionary_keeps_keys.

Theorem C18_stale_snapshot_refuted :
  exists ls, let s := srun false (sinit []) ls in
             d_get (stored (srun false (sinit []) (firstn 2 ls))) 1%Z = Some 10%Z /\ d_get (stored s) 1%Z = None /\ d_get (stored s) 2%Z = Some 20%Z.
Proof. exact stale_snapshot_refuted. Qed.
Print Assumptions C18_stale_snapshot_refuted.
