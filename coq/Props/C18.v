(** C18 — shared data and traces.  [sd_set true] models ShareData.Set as repaired by the fix
    commit (memory + stored dictionary, whole-dictionary save).  Durability against the store
    history, visibility to later tasks and traces are monitor clauses (18,_). *)
From Coq Require Import List ZArith Bool Arith.
From FF Require Import Sx StoreModel StoreCheck PreCheck ShareData ShareDataFacts.
Import ListNotations.
Local Open Scope Z_scope.

Theorem C18_set_ok : forall s k v fixed,
  let s' := sd_set fixed s k v true in
  mem s' = stored s' /\ d_get (mem s') k = Some v /\ (forall k', k' <> k -> d_get (mem s') k' = d_get (mem s) k').
Proof. exact set_ok. Qed.
Print Assumptions C18_set_ok.

Theorem C18_set_failed_rolls_back : forall s k v,
  let s' := sd_set true s k v false in
  dict_equiv (mem s') (mem s) /\ stored s' = stored s.
Proof. exact set_failed_rolls_back. Qed.
Print Assumptions C18_set_failed_rolls_back.

Theorem C18_unfixed_rollback_refuted :
  exists s k v, d_get (mem (sd_set false s k v false)) k <> d_get (mem s) k.
Proof. exact unfixed_rollback_refuted. Qed.
Print Assumptions C18_unfixed_rollback_refuted.

Theorem C18_sets_keep_keys : forall (ops : list (Z * Z)) s k0,
  d_get (stored s) k0 <> None -> mem s = stored s ->
  d_get (stored (fold_left (fun acc kv => sd_set true acc (fst kv) (snd kv) true) ops s)) k0 <> None.
Proof. exact sets_keep_keys. Qed.
Print Assumptions C18_sets_keep_keys.
