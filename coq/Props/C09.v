(** C09 — membership.  Heartbeat part of the Keeper LTS and the Init start-up protocol. *)
From Coq Require Import List ZArith Bool Lia Arith.
From FF Require Import Sx Keeper.
Import ListNotations.
Local Open Scope Z_scope.

(** AliveNodes / IsAlive report exactly the workers whose heartbeat is younger than the period *)
Theorem C09_alive_set_spec : forall U s n k,
  In k (alive_set U s n) <-> (k < n)%nat /\ exists u, HB s k = Some u /\ now s - u < U.
Proof. exact alive_set_spec. Qed.
Print Assumptions C09_alive_set_spec.

Theorem C09_beat_makes_alive : forall U, 0 < U -> forall s k s', step U true s (Beat k Ok) = Some s' -> alive U s' k = true.
Proof. exact beat_makes_alive. Qed.
Print Assumptions C09_beat_makes_alive.

Theorem C09_alive_until_period : forall U s k u, HB s k = Some u -> now s - u < U -> alive U s k = true.
Proof. exact alive_until_period. Qed.
Print Assumptions C09_alive_until_period.

Theorem C09_silent_worker_expires : forall U s k u, HB s k = Some u -> U <= now s - u -> alive U s k = false.
Proof. exact silent_worker_expires. Qed.
Print Assumptions C09_silent_worker_expires.

Theorem C09_close_removes_at_once : forall U s k s', step U true s (CloseBeat k) = Some s' -> alive U s' k = false.
Proof. exact close_removes_at_once. Qed.
Print Assumptions C09_close_removes_at_once.

(** a store-side TTL sweep never changes the reported set *)
Theorem C09_sweep_keeps_alive_set : forall U s k s' j,
  step U true s (SweepHb k) = Some s' -> alive U s' j = alive U s j.
Proof. exact sweep_keeps_alive_set. Qed.
Print Assumptions C09_sweep_keeps_alive_set.

(** the worker is registered before its Init returns, and the start-up counter never goes negative *)
Theorem C09_init_returns_registered : forall ls s,
  irun true ist0 ls = Some s -> returned s = true -> hb_stored s = true /\ panicked s = false.
Proof. exact init_returns_registered. Qed.
Print Assumptions C09_init_returns_registered.

Theorem C09_init_protocol_unfixed_refuted :
  (exists s, irun false ist0 [IElectRound; IBeatFail; IElectRound; IReturn] = Some s /\ returned s = true /\ hb_stored s = false) /\
  (exists s, irun false ist0 [IElectRound; IBeatFail; IElectRound; IBeatOk] = Some s /\ panicked s = true).
Proof. exact init_protocol_unfixed_refuted. Qed.
Print Assumptions C09_init_protocol_unfixed_refuted.
