(** C07 — Dispatch assigns each pending instance to exactly one live worker, evenly.
    Statements only; every proof is [exact <lemma>] into DispatchFacts. *)
From Coq Require Import List ZArith Bool Arith.
From FF Require Import Sx Dispatch DispatchFacts.
Import ListNotations.

(** No pending instance: nothing is touched, no error (whatever the alive set). *)
Theorem C07_no_pending : forall limit insts alive,
  has_init insts = false -> dispatch_round limit insts alive = (insts, DOk).
Proof. exact round_no_pending. Qed.
Print Assumptions C07_no_pending.

(** Pending instances but no live worker: nothing is assigned, the round reports an error. *)
Theorem C07_no_alive : forall limit insts,
  has_init insts = true -> dispatch_round limit insts [] = (insts, DNoAlive).
Proof. exact round_no_alive. Qed.
Print Assumptions C07_no_alive.

(** Otherwise the round succeeds and is [assign]. *)
Theorem C07_round : forall limit insts alive,
  has_init insts = true -> alive <> [] ->
  dispatch_round limit insts alive = (assign limit 0 alive insts, DOk).
Proof. exact round_assigns. Qed.
Print Assumptions C07_round.

(** Position-wise description of the result, for every list of instances, every
    alive list and every per-round limit: an instance that is not init is unchanged;
    the first [limit] init instances (store order) become scheduled on
    alive[rank mod |alive|]; init instances beyond the limit are unchanged.
    Nothing is added or removed. *)
Theorem C07_assign_spec : forall limit alive l i d,
  i < length l ->
  let x := nth i l d in
  let y := nth i (assign limit 0 alive l) d in
  (is_init (ist x) = false -> y = x) /\
  (is_init (ist x) = true -> limit <= rank l i -> y = x) /\
  (is_init (ist x) = true -> rank l i < limit ->
     y = mkIns (iid x) IScheduled (nth (rank l i mod length alive) alive 0%Z)).
Proof. exact assign_spec. Qed.
Print Assumptions C07_assign_spec.

Theorem C07_same_length : forall limit c alive l, length (assign limit c alive l) = length l.
Proof. exact assign_length. Qed.
Print Assumptions C07_same_length.

(** Every worker handed out is a member of the alive list of that moment. *)
Theorem C07_worker_alive : forall (alive : list Z) r,
  alive <> [] -> In (nth (r mod length alive) alive 0%Z) alive.
Proof. exact assigned_worker_alive. Qed.
Print Assumptions C07_worker_alive.

(** The workers written by a round (projection of before/after) are the round-robin
    sequence of length min(limit, #pending) ... *)
Theorem C07_written_projection : forall limit alive l c,
  written limit c alive l =
  flat_map (fun p : ins * ins =>
              if is_init (ist (fst p)) && negb (is_init (ist (snd p))) then [iwk (snd p)] else [])
           (combine l (assign limit c alive l)).
Proof. exact written_projection. Qed.
Print Assumptions C07_written_projection.

Theorem C07_written_round : forall limit alive l,
  written limit 0 alive l = handed (length alive) (Nat.min limit (count_init l)) alive.
Proof. exact written_round. Qed.
Print Assumptions C07_written_round.

(** ... and in that sequence per-worker counts differ by at most one. *)
Theorem C07_balanced : forall alive m w1 w2,
  NoDup alive -> In w1 alive -> In w2 alive ->
  count_occ Z.eq_dec (handed (length alive) m alive) w1 <=
  S (count_occ Z.eq_dec (handed (length alive) m alive) w2).
Proof. exact handed_balanced. Qed.
Print Assumptions C07_balanced.

(** The boolean monitor used on implementation runs ([mon_dispatch]: unchanged
    on no-pending / no-alive with the right error class; otherwise same length,
    every pair either untouched or (same id, scheduled, alive worker), exactly
    min(limit, #pending) instances moved, per-worker counts within one) is
    satisfied by every round of the model, for every input. *)
Theorem C07_model_satisfies_monitor : forall limit insts alive,
  NoDup alive ->
  let '(out, e) := dispatch_round limit insts alive in
  mon_dispatch limit insts alive (match e with DOk => 0 | DNoAlive => 1 end)%Z out = true.
Proof. exact model_satisfies_monitor. Qed.
Print Assumptions C07_model_satisfies_monitor.
