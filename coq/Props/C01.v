(** C01 — Dependency order.  Part A (unconditional, every tree, every status
    assignment): whatever the scheduler's tree walk hands to the executor has all
    its dependencies success/skipped in the tree.  The engine-level statement
    (every action phase start sees every dependency recorded success/skipped in
    the store) is the monitor [EngineMon.mstep] clause (1,_), evaluated on every
    journal of the real engine; its proof over an engine LTS is not part of this
    file (see DESIGN.md, partial). *)
From Coq Require Import List ZArith Bool Arith.
From FF Require Import Sx TaskTree TaskTreeFacts.
Import ListNotations.

Theorem C01_executable_ids_parents_done : forall t l v p,
  executable_ids t = Some l -> In v l -> In p (parents t v) -> gnode_ok t p = true.
Proof. exact executable_ids_parents_done. Qed.
Print Assumptions C01_executable_ids_parents_done.

Theorem C01_executable_ids_status : forall t l v,
  executable_ids t = Some l -> In v l -> executable_st (status_of t v) = true.
Proof. exact executable_ids_status. Qed.
Print Assumptions C01_executable_ids_status.

Theorem C01_next_ids_children_done : forall t g s t' ids v p,
  next_ids t g s = Some (t', ids, true) -> s <> TInit ->
  In v ids -> In p (parents t' v) -> gnode_ok t' p = true.
Proof. exact next_ids_children_done. Qed.
Print Assumptions C01_next_ids_children_done.

Theorem C01_unfinished_enables_nothing : forall t g s t' ids,
  next_ids t g s = Some (t', ids, true) -> s <> TInit -> can_exec_child_st s = false -> ids = [].
Proof. exact next_ids_unfinished_none. Qed.
Print Assumptions C01_unfinished_enables_nothing.
