(** C01 — Dependency order.  Part A (unconditional, every tree, every status
    assignment): whatever the scheduler's tree walk hands to the executor has all
    its dependencies success/skipped in the tree.  The engine-level statement
    (every action phase start sees every dependency recorded success/skipped in
    the store) is the monitor [EngineMon.mstep] clause (1,_), evaluated on every
    journal of the real engine; its proof over an engine LTS is not part of this
    file (see DESIGN.md, partial). *)
From Coq Require Import List ZArith Bool Arith.
From FF Require Import Sx TaskTree TaskTreeFacts Engine EngineFacts EngineSettle EngineLive.
Import ListNotations.

Theorem C01_executable_ids_parents_done : forall t l v p,
  executable_ids t = Some l -> In v l -> In p (parents t v) -> gnode_ok t p = true.
Proof. exact executable_ids_parents_done. Qed.
Print Assumptions C01_executable_ids_parents_done.

Theorem C01_executable_ids_status : forall t l v,
  executable_ids t = Some l -> In v l -> executable_st (status_of t v) = true.
Proof. exact executable_ids_status. Qed.
Print Assumptions C01_executable_ids_status.

Theorem C01_next_ids_children_done : forall t g s t' ids v p,
  next_ids t g s = Some (t', ids, true) -> s <> TInit ->
  In v ids -> In p (parents t' v) -> gnode_ok t' p = true.
Proof. exact next_ids_children_done. Qed.
Print Assumptions C01_next_ids_children_done.

Theorem C01_unfinished_enables_nothing : forall t g s t' ids,
  next_ids t g s = Some (t', ids, true) -> s <> TInit -> can_exec_child_st s = false -> ids = [].
Proof. exact next_ids_unfinished_none. Qed.
Print Assumptions C01_unfinished_enables_nothing.

(** --- engine level (Engine: persisted task and instance statuses, the parser's tree and event queue, the
    pushes in progress with their pre-check verdicts, the executor's registered runs and the deliveries
    under way, the retry and continue commands in their phases, crash and restart, the watchdog - one
    instance as a transition system at the granularity of single store writes and goroutine hand-overs;
    scope: pre-checks (skip / block), failures in every phase, retry and continue commands also while the
    instance is busy, no-op commands; not: cancel, failing writes).  The statements hold for every history
    in which no delivery is accepted, and no pre-check verdict written, on the strength of a stale snapshot
    or next to another delivery of the same task ([validate = true], the other switches arbitrary); the code
    as it is admits both after a retry command re-initialised a busy instance, and then every one of them
    fails ([..._refuted]; known finding F-dup-push, reproduced on the real code).  Journals of the real
    engine in this scope are checked to be histories of Engine ([EngineCheck.check_core]) and the hypothesis
    is monitored on them. --- *)

Theorem C01_engine_dependency_order : forall tasks deps cq nn ls s t s',
  run tasks deps true cq nn boot ls = Some s -> step tasks deps true cq nn s (MainStart t) = Some s' ->
  parents_done deps (store s) t = true.
Proof.
  intros tasks deps cq nn ls s t s' Hr Hs.
  exact (main_start_parents_done tasks deps cq nn s t s' (inv_reach tasks deps cq nn ls boot s (inv_boot deps) Hr) Hs).
Qed.
Print Assumptions C01_engine_dependency_order.

(** and a dependency that is recorded finished (success or skipped) keeps that status *)
Theorem C01_engine_dependency_stays_done : forall tasks deps cq nn ls s l s' d,
  run tasks deps true cq nn boot ls = Some s -> step tasks deps true cq nn s l = Some s' ->
  done (store s d) = true -> store s' d = store s d.
Proof.
  intros tasks deps cq nn ls s l s' d Hr Hs.
  exact (done_final tasks deps cq nn s l s' d (inv_reach tasks deps cq nn ls boot s (inv_boot deps) Hr) Hs).
Qed.
Print Assumptions C01_engine_dependency_stays_done.

Theorem C01_engine_unvalidated_refuted :
  exists s, run [1; 2; 3]%Z deps3 false false true boot witness_dup = Some s /\
            (exists s', step [1; 2; 3]%Z deps3 false false true s (MainStart 3) = Some s') /\ parents_done deps3 (store s) 3 = false.
Proof.
  destruct unvalidated_refuted as (s & Hr & _ & _ & _ & H3 & Hp). exists s. repeat split; assumption.
Qed.
Print Assumptions C01_engine_unvalidated_refuted.

(** with commands issued and picked up at quiescent points the code as it is needs no hypothesis about
    deliveries ([validate] arbitrary, also false): no stale or duplicate delivery can arise *)
Theorem C01_engine_quiet_commands_dependency_order : forall tasks deps validate (rank : Z -> nat),
  NoDup tasks ->
  (forall t d, In d (deps t) -> (rank d < rank t)%nat) ->
  (forall t d, In t tasks -> In d (deps t) -> In d tasks) ->
  forall ls s t s', run tasks deps validate true true boot ls = Some s ->
  step tasks deps validate true true s (MainStart t) = Some s' -> parents_done deps (store s) t = true.
Proof.
  intros tasks deps validate rank Hnd Hrank Hclosed ls s t s' Hr Hs.
  apply (quiet_main_start_parents_done tasks deps validate s t s'); [|exact Hs].
  exact (invq_reach tasks deps validate rank Hnd Hrank Hclosed ls boot s (invq_boot tasks deps) Hr).
Qed.
Print Assumptions C01_engine_quiet_commands_dependency_order.
