(** C11 — commands.  [admission] is the admission decision of the commander (executeCommand + the
    Retry / Continue / Cancel methods of the instance) as repaired by the fix commit; the real
    commander is compared with it over the real store and real membership (family commander).
    Execution by the owning worker (exact targets, nothing else changed, executed once then
    cleared) is judged on engine journals by monitor clauses (11,1) (11,2). *)
From Coq Require Import List ZArith Bool Arith.
From FF Require Import Sx StoreModel StoreCheck Commander CommanderFacts.
Import ListNotations.
Local Open Scope Z_scope.

Theorem C11_reject_empty : forall s kind alive, admission s kind [] alive = CRej EEmpty.
Proof. exact reject_empty. Qed.
Print Assumptions C11_reject_empty.

Theorem C11_reject_unknown_ids : forall s kind ids alive,
  ids <> [] -> length ids <> length (found_tasks s ids) -> admission s kind ids alive = CRej ENotFound.
Proof. exact reject_unknown_ids. Qed.
Print Assumptions C11_reject_unknown_ids.

Theorem C11_accepted_spec : forall s kind ids alive ws cmd,
  admission s kind ids alive = CAcc ws cmd ->
  ids <> [] /\ cmd = (kind, ids) /\
  exists t0 i, In t0 (found_tasks s ids) /\ (forall t, In t (found_tasks s ids) -> t_ins t = t_ins t0) /\
    find (fun i => Z.eqb (i_id i) (t_ins t0)) (insts s) = Some i /\ i_cmd i = None /\
    (kind = 2 -> i_status i = 3 /\ zin (i_worker i) alive = true /\ ws = [i_worker i]) /\
    (kind <> 2 -> (zin (i_worker i) alive = true /\ ws = [i_worker i]) \/ (zin (i_worker i) alive = false /\ ws = alive /\ alive <> [])).
Proof. exact accepted_spec. Qed.
Print Assumptions C11_accepted_spec.

Theorem C11_reject_pending : forall s kind ids alive t0 ft i c,
  ids <> [] -> found_tasks s ids = t0 :: ft -> length ids = length (t0 :: ft) ->
  (forall t, In t (t0 :: ft) -> t_ins t = t_ins t0) ->
  find (fun i => Z.eqb (i_id i) (t_ins t0)) (insts s) = Some i -> i_cmd i = Some c ->
  zin (i_worker i) alive = true -> (kind = 2 -> i_status i = 3) ->
  admission s kind ids alive = CRej EPending.
Proof. exact reject_pending. Qed.
Print Assumptions C11_reject_pending.

Theorem C11_reject_cancel_dead_worker : forall s ids alive t0 ft i,
  ids <> [] -> found_tasks s ids = t0 :: ft -> length ids = length (t0 :: ft) ->
  (forall t, In t (t0 :: ft) -> t_ins t = t_ins t0) ->
  find (fun i => Z.eqb (i_id i) (t_ins t0)) (insts s) = Some i -> zin (i_worker i) alive = false ->
  admission s 2 ids alive = CRej EDeadWorker.
Proof. exact reject_cancel_dead_worker. Qed.
Print Assumptions C11_reject_cancel_dead_worker.

Theorem C11_reject_no_alive : forall s kind ids t0 ft i,
  kind <> 2 -> ids <> [] -> found_tasks s ids = t0 :: ft -> length ids = length (t0 :: ft) ->
  (forall t, In t (t0 :: ft) -> t_ins t = t_ins t0) ->
  find (fun i => Z.eqb (i_id i) (t_ins t0)) (insts s) = Some i ->
  admission s kind ids [] = CRej ENoAlive.
Proof. exact reject_no_alive. Qed.
Print Assumptions C11_reject_no_alive.
