(** C14 — watchdog.  Theorems about the two sweeps over StoreModel (selection exact, never
    early, nothing else changed when the sweep is not interleaved with the owner) and the
    deadline rule.  The real rounds are run against the real store (family watchdog, as
    operations 17/18 of store traces), interleavings with the owning worker are engine
    journals judged by monitor clauses (14,_) and (15,_). *)
From Coq Require Import List ZArith Bool Arith.
From FF Require Import Sx StoreModel StoreFacts WatchdogFacts.
Import ListNotations.
Local Open Scope Z_scope.

Theorem C14_expired_selected_iff : forall now s r,
  In r (expired_selected now s) <-> In r (tasks s) /\ t_status r = 2 /\ t_upd r <= now - 5 - t_timeout r.
Proof. exact expired_selected_iff. Qed.
Print Assumptions C14_expired_selected_iff.

Theorem C14_never_early_never_other_status : forall now s r,
  In r (expired_selected now s) -> t_status r = 2 /\ now >= t_upd r + t_timeout r + 5.
Proof. exact expired_never_early. Qed.
Print Assumptions C14_never_early_never_other_status.

Theorem C14_expired_round_frame : forall now s id,
  id <> 0 -> (forall r, In r (tasks s) -> t_id r <> 0) ->
  (forall r, In r (expired_selected now s) -> t_id r <> id) ->
  get_task (expired_round now s) id = get_task s id.
Proof. exact expired_round_frame. Qed.
Print Assumptions C14_expired_round_frame.

Theorem C14_left_behind_selected_iff : forall now timeout s i,
  0 < now - timeout ->
  (In i (left_behind_selected now timeout s) <-> In i (insts s) /\ i_status i = 2 /\ i_upd i <= now - timeout).
Proof. exact left_behind_selected_iff. Qed.
Print Assumptions C14_left_behind_selected_iff.

Theorem C14_started_not_sent_back : forall now timeout s i,
  0 < now - timeout -> In i (left_behind_selected now timeout s) -> i_status i = 2 /\ i_upd i + timeout <= now.
Proof. exact started_not_sent_back. Qed.
Print Assumptions C14_started_not_sent_back.

Theorem C14_action_timeout : forall dflt own, action_timeout dflt own = (if Z.eqb own 0 then dflt else own).
Proof. exact action_timeout_spec. Qed.
Print Assumptions C14_action_timeout.
