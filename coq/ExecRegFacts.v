(** ExecRegFacts: the registration protocol of the executor, for every history of pushes, hand-overs, runs and
    status changes, any number of workers, any aliasing of deliveries to task objects. *)
From Coq Require Import List ZArith Bool Arith Lia Permutation.
Import ListNotations.
From FF Require Import Engine ExecReg.
Local Open Scope Z_scope.

Lemma dl_eqb_eq a b : dl_eqb a b = true <-> a = b.
Proof.
  destruct a as [t o], b as [t' o']; unfold dl_eqb; cbn. rewrite andb_true_iff, Z.eqb_eq, Nat.eqb_eq.
  split; [intros [-> ->]; reflexivity | intros E; inversion E; auto].
Qed.
Lemma wph_eqb_eq a b : wph_eqb a b = true <-> a = b.
Proof. destruct a, b; cbn; split; intro H; try reflexivity; try discriminate. Qed.

Lemma takeout_perm x l l' : takeout x l = Some l' -> Permutation l (x :: l').
Proof.
  revert l'; induction l as [|y r IH]; cbn; intros l' H; [discriminate|].
  destruct (dl_eqb (fst y) (fst x) && wph_eqb (snd y) (snd x)) eqn:E.
  - inversion H; subst. apply andb_true_iff in E as [E1 E2]. apply dl_eqb_eq in E1. apply wph_eqb_eq in E2.
    destruct x, y; cbn in *; subst; apply Permutation_refl.
  - destruct (takeout x r) as [r'|] eqn:T; [|discriminate]. inversion H; subst.
    eapply perm_trans; [apply perm_skip, IH; reflexivity | apply perm_swap].
Qed.
Lemma takeout_length x l l' : takeout x l = Some l' -> length l = S (length l').
Proof. intros H. apply takeout_perm in H. apply Permutation_length in H. exact H. Qed.

Definition wtasks (w : list (dl * wph)) : list Z := map (fun p => dt (fst p)) w.

Section F.
  Variable nworkers : nat.

  Record XInv (s : xs) : Prop := {
    x_nodup : NoDup (owners s);                                 (* one holder per task *)
    x_reg : forall t, reg s t = true <-> In t (owners s);       (* registered = somebody is responsible *)
    x_cap : (length (work s) <= nworkers)%nat }.

  Lemma xinv_init f : XInv (xinit f).
  Proof. split; cbn; [constructor | intros t; split; [discriminate | tauto] | lia]. Qed.

  Lemma upd_false_reg (r : Z -> bool) (t : Z) (l : list Z) :
    NoDup (t :: l) -> (forall x, r x = true <-> In x (t :: l)) -> forall x, upd r t false x = true <-> In x l.
  Proof.
    intros ND R x. unfold upd. destruct (Z.eqb x t) eqn:E.
    - apply Z.eqb_eq in E; subst. split; [discriminate|]. intros I. inversion ND; subst; contradiction.
    - apply Z.eqb_neq in E. rewrite R. cbn. split; [intros [A|A]; [congruence | exact A] | auto].
  Qed.

  (** every step of the code as it is (leak = false) keeps the invariant *)
  Lemma xinv_step s l s' : XInv s -> xstep nworkers false s l = Some s' -> XInv s'.
  Proof.
    intros [ND R C] H. destruct l as [t o| | |d|d v|d|o v]; cbn [xstep] in H.
    - inversion H; subst. split; assumption.
    - destruct (held s) eqn:Hh; [discriminate|]. destruct (initq s) as [|d r] eqn:Hq; [discriminate|].
      destruct (reg s (dt d)) eqn:Hr; inversion H; subst; clear H.
      + split; unfold owners in *; cbn; rewrite ?Hh in *; assumption.
      + assert (NI : ~ In (dt d) (owners s)) by (intro I; apply R in I; congruence).
        unfold owners in *; rewrite Hh in *; cbn in *. split; cbn.
        * constructor; assumption.
        * intros t. unfold upd. destruct (Z.eqb t (dt d)) eqn:E.
          -- apply Z.eqb_eq in E; subst. split; auto.
          -- apply Z.eqb_neq in E. rewrite R. split; [auto | intros [A|A]; [congruence | exact A]].
        * exact C.
    - destruct (held s) as [d|] eqn:Hh; [|discriminate].
      destruct (Nat.ltb (length (work s)) nworkers) eqn:L; [|discriminate]. inversion H; subst; clear H.
      apply Nat.ltb_lt in L. unfold owners in *; rewrite Hh in *; cbn [app held work set_held set_work reg] in *.
      assert (P : Permutation (dt d :: map (fun p => dt (fst p)) (work s)) (map (fun p => dt (fst p)) (work s ++ [(d, WTaken)]))).
      { rewrite map_app; cbn. apply Permutation_cons_append. }
      split; cbn.
      + eapply Permutation_NoDup; [exact P | exact ND].
      + intros t. rewrite R. split; intro I; [eapply Permutation_in; [exact P | exact I] | eapply Permutation_in; [apply Permutation_sym, P | exact I]].
      + rewrite app_length; cbn; lia.
    - destruct (takeout (d, WTaken) (work s)) as [w'|] eqn:T; [|discriminate].
      pose proof (takeout_perm _ _ _ T) as P. pose proof (takeout_length _ _ _ T) as Ln.
      destruct (exec (objs s (dob d))); inversion H; subst; clear H.
      + assert (P3 : Permutation (owners s) (owners (set_work s (w' ++ [(d, WRun)])))).
        { unfold owners; cbn. apply Permutation_app_head.
          eapply perm_trans; [apply Permutation_map, P|]. cbn. rewrite map_app; cbn. apply Permutation_cons_append. }
        split.
        * eapply Permutation_NoDup; [exact P3 | exact ND].
        * intros t. cbn [reg set_work]. rewrite R. split; intro I; [eapply Permutation_in; [exact P3|exact I] | eapply Permutation_in; [apply Permutation_sym, P3|exact I]].
        * cbn. rewrite app_length; cbn. lia.
      + assert (P3 : Permutation (owners s) (dt d :: owners (set_reg (set_work s w') (upd (reg s) (dt d) false)))).
        { unfold owners; cbn. eapply perm_trans; [apply Permutation_app_head, Permutation_map, P|]. cbn.
          apply Permutation_sym, Permutation_middle. }
        assert (ND' : NoDup (dt d :: owners (set_reg (set_work s w') (upd (reg s) (dt d) false)))) by (eapply Permutation_NoDup; [exact P3|exact ND]).
        split.
        * inversion ND'; assumption.
        * cbn [reg set_reg]. apply upd_false_reg; [exact ND'|]. intros x. rewrite R.
          split; intro I; [eapply Permutation_in; [exact P3|exact I] | eapply Permutation_in; [apply Permutation_sym, P3|exact I]].
        * cbn. lia.
    - destruct (takeout (d, WRun) (work s)); [|discriminate]. inversion H; subst. split; assumption.
    - destruct (takeout (d, WRun) (work s)) as [w'|] eqn:T; [|discriminate].
      pose proof (takeout_perm _ _ _ T) as P. pose proof (takeout_length _ _ _ T) as Ln. inversion H; subst; clear H.
      set (s' := set_entries _ _).
      assert (P3 : Permutation (owners s) (dt d :: owners s')).
      { unfold owners, s'; cbn. eapply perm_trans; [apply Permutation_app_head, Permutation_map, P|]. cbn.
        apply Permutation_sym, Permutation_middle. }
      assert (ND' : NoDup (dt d :: owners s')) by (eapply Permutation_NoDup; [exact P3|exact ND]).
      split.
      + inversion ND'; assumption.
      + unfold s' at 1; cbn [reg set_reg set_entries]. apply upd_false_reg; [exact ND'|]. intros x. rewrite R.
        split; intro I; [eapply Permutation_in; [exact P3|exact I] | eapply Permutation_in; [apply Permutation_sym, P3|exact I]].
      + unfold s'; cbn. lia.
    - inversion H; subst. split; assumption.
  Qed.

  Theorem xinv_reach f ls s : xrun nworkers false (xinit f) ls = Some s -> XInv s.
  Proof.
    assert (G : forall ls s0 s1, XInv s0 -> xrun nworkers false s0 ls = Some s1 -> XInv s1).
    { induction ls0 as [|l r IH]; cbn; intros s0 s1 I H; [inversion H; subst; exact I|].
      destruct (xstep nworkers false s0 l) as [s2|] eqn:E; [|discriminate]. eapply IH; [eapply xinv_step; eassumption | exact H]. }
    intros H. eapply G; [apply xinv_init | exact H].
  Qed.

  (** 1. a registration always has an owner: the init goroutine holding the delivery for a worker, or a worker *)
  Theorem registered_has_owner f ls s t :
    xrun nworkers false (xinit f) ls = Some s -> reg s t = true ->
    (exists d, held s = Some d /\ dt d = t) \/ (exists d ph, In (d, ph) (work s) /\ dt d = t).
  Proof.
    intros H Rg. apply xinv_reach in H. apply (x_reg _ H) in Rg. unfold owners in Rg. apply in_app_or in Rg as [I|I].
    - destruct (held s) as [d|]; [|contradiction]. left. exists d. cbn in I. destruct I as [I|[]]. auto.
    - right. apply in_map_iff in I as [[d ph] [E I]]. exists d, ph. auto.
  Qed.

  (** 2. never two deliveries of one task in the hands of the executor: no two concurrent runs of a task *)
  Theorem one_delivery_per_task f ls s :
    xrun nworkers false (xinit f) ls = Some s -> NoDup (owners s).
  Proof. intros H. apply xinv_reach in H. exact (x_nodup _ H). Qed.

  (** 3. with nothing in the executor's hands nothing is registered ... *)
  Theorem idle_means_unregistered f ls s t :
    xrun nworkers false (xinit f) ls = Some s -> idle s = true -> reg s t = false.
  Proof.
    intros H I. apply xinv_reach in H. destruct (reg s t) eqn:E; [|reflexivity].
    apply (x_reg _ H) in E. unfold owners, idle in *. destruct (held s); [discriminate|]. destruct (work s); [contradiction|discriminate].
  Qed.

  (** ... so the next delivery of any task is registered, not dropped: a re-armed task is accepted *)
  Theorem idle_executor_accepts f ls s d r :
    xrun nworkers false (xinit f) ls = Some s -> idle s = true -> initq s = d :: r ->
    exists s', xstep nworkers false s XInitTake = Some s' /\ held s' = Some d /\ reg s' (dt d) = true.
  Proof.
    intros H I Q. pose proof (idle_means_unregistered _ _ _ (dt d) H I) as Rg.
    unfold idle in I. cbn. destruct (held s) eqn:Hh; [discriminate|]. rewrite Q, Rg.
    eexists; split; [reflexivity|]. cbn. split; [reflexivity|]. unfold upd. rewrite Z.eqb_refl. reflexivity.
  Qed.

  (** 4. the executor only ever waits behind running actions: when no step of its own is enabled, every busy
      worker is inside a run, a held delivery means all workers are busy, and a blocked pusher means a held one *)
  Theorem executor_waits_only_for_runs f ls s :
    xrun nworkers false (xinit f) ls = Some s -> internal_enabled nworkers s = false ->
    (forall d ph, In (d, ph) (work s) -> ph = WRun) /\
    (held s <> None -> length (work s) = nworkers) /\
    (initq s <> [] -> held s <> None).
  Proof.
    intros H E. apply xinv_reach in H. unfold internal_enabled in E.
    apply orb_false_iff in E as [E E3]. apply orb_false_iff in E as [E1 E2]. split; [|split].
    - intros d ph I. destruct ph; [|reflexivity]. exfalso.
      assert (X : existsb (fun p => wph_eqb (snd p) WTaken) (work s) = true) by (apply existsb_exists; exists (d, WTaken); auto).
      congruence.
    - intros N. destruct (held s); [|congruence]. apply Nat.ltb_ge in E2. pose proof (x_cap _ H). lia.
    - intros N. destruct (held s); [discriminate|]. destruct (initq s); [congruence|discriminate].
  Qed.

  (** ... in particular with no action running (and at least one worker) everything pushed has been dealt with *)
  Corollary no_run_no_backlog f ls s :
    (0 < nworkers)%nat -> xrun nworkers false (xinit f) ls = Some s -> internal_enabled nworkers s = false ->
    work s = [] -> held s = None /\ initq s = [].
  Proof.
    intros Pn H E W. destruct (executor_waits_only_for_runs _ _ _ H E) as [_ [A B]].
    assert (Hh : held s = None). { destruct (held s) eqn:X; [|reflexivity]. rewrite W in A. cbn in A. assert (0 = nworkers)%nat by (apply A; discriminate). lia. }
    split; [exact Hh|]. destruct (initq s) eqn:Q; [reflexivity|]. exfalso. apply B; [discriminate | exact Hh].
  Qed.
End F.

(** 5. the code before fix de0061a (leak = true): the history of the directed kind duppath.  One worker; object 1 is
    task 5's, handed over twice (two paths), object 2 is task 3's, handed over in between. *)
Definition d5 := {| dt := 5; dob := 1%nat |}.
Definition d3 := {| dt := 3; dob := 2%nat |}.
Definition w_leak : list xl :=
  [XPush 5 1; XInitTake; XHand; XCheck d5;          (* first t5: registered, handed to the worker, running *)
   XPush 3 2; XInitTake;                            (* t3: registered, waits for the worker *)
   XPush 5 1;                                       (* second t5 (same object): its pusher waits behind t3 *)
   XSet d5 SFailed; XEnd d5;                        (* the first run fails and leaves the cancel map *)
   XHand; XInitTake;                                (* t3 goes to the worker; second t5 is REGISTERED (nothing is registered for t5) *)
   XCheck d3; XSet d3 SSuccess; XEnd d3;
   XHand; XCheck d5].                               (* second t5: the object says failed - refused *)

Theorem leak_refuted :
  exists s, xrun 1 true (xinit (fun _ => SContinue)) w_leak = Some s /\ idle s = true /\ reg s 5 = true.
Proof. eexists; split; [vm_compute; reflexivity | split; vm_compute; reflexivity]. Qed.

(** ... and the same history on the code as it is ends with nothing registered *)
Example no_leak_same_history :
  exists s, xrun 1 false (xinit (fun _ => SContinue)) w_leak = Some s /\ idle s = true /\ reg s 5 = false /\ entries s = [(1%nat, SFailed); (2%nat, SSuccess)].
Proof. eexists; split; [vm_compute; reflexivity | repeat split; vm_compute; reflexivity]. Qed.
