(** Engine, part 4: between two interventions of the operator, the watchdog or a crash the engine performs
    only finitely many steps.  A measure (a weight per task, read off its persisted status and the place of its
    token, plus a term for a pending re-initialisation) strictly decreases with every step of the engine
    itself in every state of the restricted system.  With [engine_not_stuck] (a step of the engine is always
    enabled off quiescence) and [settled]: under weak fairness every history of the restricted system in
    which the environment eventually stays away reaches a quiescent state, and that state is settled. *)
From Coq Require Import List ZArith Bool Lia Permutation.
From FF Require Import Engine EngineFacts EngineSettle.
Import ListNotations.
Local Open Scope Z_scope.

Definition has (l : list (Z * est)) (t : Z) : bool := existsb (fun p => Z.eqb (fst p) t) l.

(** the weight of a task: where it is on its way through one attempt *)
Definition tw5 (r : rpc) (e p q : bool) (st : est) : nat :=
  match r with
  | RQueued SRetrying => 54 | RQueued SContinue => 42 | RQueued _ => 34
  | RRunning => 32 | RInMain => 30 | REnding => 28
  | RDone SInit => 52 | RDone _ => 26
  | RNone =>
      if e then (match st with SInit => 50 | _ => 24 end)
      else if p then (match st with SRetrying => 56 | SContinue => 44 | _ => 36 end)
      else if q then (match st with SRetrying => 58 | SContinue => 46 | _ => 38 end)
      else (match st with SRetrying => 60 | SContinue => 48 | SInit => 40 | SEnding => 39 | _ => 0 end)
  end%nat.

Definition tw (s : eng) (t : Z) : nat := tw5 (runs s t) (has (evq s) t) (has (pend s) t) (has (pushq s) t) (store s t).
Definition pw (p : phase) : nat := match p with PDown => 2 | PInit => 1 | _ => 0 end%nat.

Fixpoint sumw (f : Z -> nat) (l : list Z) : nat := match l with [] => 0 | x :: r => f x + sumw f r end%nat.

Lemma sumw_le f g l : (forall x, In x l -> (g x <= f x)%nat) -> (sumw g l <= sumw f l)%nat.
Proof.
  induction l as [|x r IH]; cbn; intros H; [lia|].
  pose proof (H x (or_introl eq_refl)). assert (sumw g r <= sumw f r)%nat by (apply IH; intros y Hy; apply H; right; exact Hy). lia.
Qed.

Lemma sumw_lt f g l x0 : (forall x, In x l -> (g x <= f x)%nat) -> In x0 l -> (g x0 < f x0)%nat -> (sumw g l < sumw f l)%nat.
Proof.
  induction l as [|x r IH]; cbn; intros H Hin Hlt; [contradiction|].
  pose proof (H x (or_introl eq_refl)) as Hx.
  assert (Hr : forall y, In y r -> (g y <= f y)%nat) by (intros y Hy; apply H; right; exact Hy).
  destruct Hin as [->|Hin].
  - pose proof (sumw_le f g r Hr). lia.
  - pose proof (IH Hr Hin Hlt). lia.
Qed.

Lemma has_in l t : has l t = true <-> exists sn, In (t, sn) l.
Proof.
  unfold has. rewrite existsb_exists. split.
  - intros ((x, sn) & Hin & He). cbn in He. apply Z.eqb_eq in He. subst x. exists sn. exact Hin.
  - intros (sn & Hin). exists (t, sn). split; [exact Hin|apply Z.eqb_refl].
Qed.

Lemma has_false l t : has l t = false <-> forall sn, ~ In (t, sn) l.
Proof.
  split.
  - intros H sn Hin. assert (has l t = true) by (apply has_in; exists sn; exact Hin). congruence.
  - intros H. destruct (has l t) eqn:E; [|reflexivity]. apply has_in in E. destruct E as (sn & Hin). exfalso. exact (H sn Hin).
Qed.

Lemma has_app l1 l2 t : has (l1 ++ l2) t = has l1 t || has l2 t.
Proof. unfold has. apply existsb_app. Qed.

Lemma has_snap f N t : has (snap f N) t = existsb (Z.eqb t) N.
Proof.
  unfold has, snap. induction N as [|x r IH]; cbn; [reflexivity|]. rewrite IH. f_equal. apply Z.eqb_sym.
Qed.

Lemma has_remove1_other p l l' t : remove1 p l = Some l' -> t <> fst p -> has l' t = has l t.
Proof.
  revert l'. induction l as [|y r IH]; cbn; intros l' H Hne; [discriminate|].
  destruct (Z.eqb (fst y) (fst p) && est_eqb (snd y) (snd p)) eqn:E.
  - inv H. apply andb_true_iff in E. destruct E as (E & _). apply Z.eqb_eq in E.
    destruct (Z.eqb_spec (fst y) t); [congruence|reflexivity].
  - destruct (remove1 p r) as [r'|] eqn:E'; [|discriminate]. inv H. unfold has in *. cbn. rewrite (IH r' eq_refl Hne). reflexivity.
Qed.

Lemma has_remove1_same p l l' : remove1 p l = Some l' -> NoDup (map fst l) -> has l' (fst p) = false.
Proof.
  intros Hr Hnd. destruct (remove1_nodup p l l' Hr Hnd) as (_ & Hni).
  apply has_false. intros sn Hin. apply Hni. eapply in_map_fst. exact Hin.
Qed.

Lemma has_single t v x : has [(t, v)] x = Z.eqb t x.
Proof. unfold has. cbn. rewrite orb_false_r. reflexivity. Qed.

Lemma nodup_app_l {A} (a b : list A) : NoDup (a ++ b) -> NoDup a.
Proof.
  induction a as [|x r IH]; cbn; intros H; [constructor|]. inversion H as [|y z Hy Hz]; subst.
  constructor; [intros Hin; apply Hy; apply in_or_app; left; exact Hin|apply IH; exact Hz].
Qed.

Lemma nodup_fst_app_l (a b : list (Z * est)) : NoDup (map fst (a ++ b)) -> NoDup (map fst a).
Proof. rewrite map_app. apply nodup_app_l. Qed.

Lemma nodup_fst_app_disj (a b : list (Z * est)) t : NoDup (map fst (a ++ b)) -> has a t = true -> has b t = false.
Proof.
  intros Hnd Ha. apply has_false. intros sn Hb. apply has_in in Ha. destruct Ha as (sa & Ha).
  rewrite map_app in Hnd. revert Hnd. generalize (in_map_fst _ _ _ Ha) (in_map_fst _ _ _ Hb).
  generalize (map fst a) (map fst b). intros la lb. induction la as [|x r IH]; cbn; intros H1 H2 Hnd; [contradiction|].
  inversion Hnd as [|y z Hy Hz]; subst. destruct H1 as [->|H1].
  - apply Hy. apply in_or_app. right. exact H2.
  - apply IH; assumption.
Qed.

Global Arguments has _ _ : simpl never.

Section Live.
  Variable tasks : list Z.
  Variable deps : Z -> list Z.
  Variable validate : bool.
  Variable rank : Z -> nat.
  Hypothesis Hnd : NoDup tasks.
  Hypothesis Hrank : forall t d, In d (deps t) -> (rank d < rank t)%nat.
  Hypothesis Hclosed : forall t d, In t tasks -> In d (deps t) -> In d tasks.

  Notation stepq := (step tasks deps validate true true).
  Notation InvQ := (InvQ tasks deps).

  Definition measure (s : eng) : nat := (pw (ph s) + sumw (tw s) tasks)%nat.

  Definition same_at (s s' : eng) (x : Z) : Prop :=
    runs s' x = runs s x /\ store s' x = store s x /\ has (evq s') x = has (evq s) x /\
    has (pend s') x = has (pend s) x /\ has (pushq s') x = has (pushq s) x.

  Lemma tw_same s s' x : same_at s s' x -> tw s' x = tw s x.
  Proof. intros (A & B & C & D & E). unfold tw. rewrite A, B, C, D, E. reflexivity. Qed.

  (** one task moves forward, nothing else changes *)
  Lemma one_task s s' t :
    ph s' = ph s -> (forall x, x <> t -> same_at s s' x) -> In t tasks -> (tw s' t < tw s t)%nat -> (measure s' < measure s)%nat.
  Proof.
    intros Hp Hf Hin Hlt. unfold measure. rewrite Hp.
    assert (sumw (tw s') tasks < sumw (tw s) tasks)%nat; [|lia].
    apply (sumw_lt _ _ _ t); [|exact Hin|exact Hlt].
    intros x _. destruct (Z.eq_dec x t) as [->|Hne]; [lia|]. rewrite (tw_same s s' x (Hf x Hne)). lia.
  Qed.

  (** a registered run moves on: only its registration (and perhaps the task's status) changes *)
  Lemma run_step_measure s t st' r' :
    InvQ s -> runs s t <> RNone -> r' <> RNone -> In t tasks ->
    (forall e p q v v', tw5 r' e p q v' < tw5 (runs s t) e p q v)%nat ->
    (measure (set_runs (set_store s (upd (store s) t st')) (upd (runs s) t r')) < measure s)%nat.
  Proof.
    intros HI Hr Hr' Hin Hlt. apply (one_task _ _ t); [reflexivity| |exact Hin|].
    - intros x Hne. unfold same_at. cbn. rewrite !upd_other by exact Hne. repeat split; reflexivity.
    - unfold tw. cbn. rewrite !upd_same. apply Hlt.
  Qed.

  Lemma run_step_measure_nostore s t r' :
    InvQ s -> runs s t <> RNone -> r' <> RNone -> In t tasks ->
    (forall e p q v v', tw5 r' e p q v' < tw5 (runs s t) e p q v)%nat ->
    (measure (set_runs s (upd (runs s) t r')) < measure s)%nat.
  Proof.
    intros HI Hr Hr' Hin Hlt. apply (one_task _ _ t); [reflexivity| |exact Hin|].
    - intros x Hne. unfold same_at. cbn. rewrite !upd_other by exact Hne. repeat split; reflexivity.
    - unfold tw. cbn. rewrite !upd_same. apply Hlt.
  Qed.

  Lemma measure_set_started s v : measure (set_started s v) = measure s.
  Proof. reflexivity. Qed.

  Lemma in_tasks_of_run s t : InvQ s -> runs s t <> RNone -> In t tasks.
  Proof. intros HI Hr. pose proof (q5 _ _ s HI t) as H. destruct (runs s t); try congruence; tauto. Qed.

  Lemma accept_measure s t sn p' :
    InvQ s -> remove1 (t, sn) (pend s) = Some p' ->
    (measure (set_pend (set_runs s (upd (runs s) t (RQueued sn))) p') < measure s)%nat.
  Proof.
    intros HI Hr. pose proof (remove1_mem _ _ _ Hr) as Hmem.
    assert (Hmem' : In (t, sn) (dl s)) by (unfold dl; apply in_or_app; right; exact Hmem).
    destruct (q1 _ _ s HI t sn Hmem') as (Hsn & Hex & Hrn & Hnev & Hin).
    apply (one_task _ _ t); [reflexivity| |exact Hin|].
    - intros x Hne. unfold same_at. cbn. rewrite upd_other by exact Hne. repeat split; try reflexivity.
      apply (has_remove1_other _ _ _ _ Hr). exact Hne.
    - unfold tw. cbn. rewrite upd_same, Hrn.
      assert (He : has (evq s) t = false). { apply has_false. intros st Hx. apply Hnev. exists st. exact Hx. }
      assert (Hp : has (pend s) t = true). { apply has_in. exists sn. exact Hmem. }
      rewrite He, Hp. subst sn. destruct (store s t); cbn in Hex |- *; try discriminate; lia.
  Qed.

  Lemma pushq_not_pend s t sn : InvQ s -> In (t, sn) (pushq s) -> has (pend s) t = false.
  Proof.
    intros HI Hin. apply (nodup_fst_app_disj (pushq s) (pend s) t (q2 _ _ s HI)). apply has_in. exists sn. exact Hin.
  Qed.

  Lemma pushrun_measure s t sn q' :
    InvQ s -> remove1 (t, sn) (pushq s) = Some q' ->
    (measure (set_pend (set_pushq s q') (pend s ++ [(t, sn)])) < measure s)%nat.
  Proof.
    intros HI Hr. pose proof (remove1_mem _ _ _ Hr) as Hmem.
    assert (Hmem' : In (t, sn) (dl s)) by (unfold dl; apply in_or_app; left; exact Hmem).
    destruct (q1 _ _ s HI t sn Hmem') as (Hsn & Hex & Hrn & Hnev & Hin).
    apply (one_task _ _ t); [reflexivity| |exact Hin|].
    - intros x Hne. unfold same_at. cbn. repeat split; try reflexivity.
      + rewrite has_app, has_single. destruct (Z.eqb_spec t x); [congruence|]. apply orb_false_r.
      + apply (has_remove1_other _ _ _ _ Hr). exact Hne.
    - unfold tw. cbn. rewrite Hrn.
      assert (He : has (evq s) t = false). { apply has_false. intros st Hx. apply Hnev. exists st. exact Hx. }
      rewrite He, (pushq_not_pend s t sn HI Hmem), has_app, has_single, Z.eqb_refl, orb_true_r.
      assert (Hq : has (pushq s) t = true). { apply has_in. exists sn. exact Hmem. } rewrite Hq.
      subst sn. destruct (store s t); cbn in Hex |- *; try discriminate; lia.
  Qed.

  Lemma push_verdict_measure s t sn v q' :
    InvQ s -> remove1 (t, sn) (pushq s) = Some q' -> v = SSkipped \/ v = SBlocked ->
    (measure (push_verdict s t v q') < measure s)%nat.
  Proof.
    intros HI Hr Hv. pose proof (remove1_mem _ _ _ Hr) as Hmem.
    assert (Hmem' : In (t, sn) (dl s)) by (unfold dl; apply in_or_app; left; exact Hmem).
    destruct (q1 _ _ s HI t sn Hmem') as (Hsn & Hex & Hrn & Hnev & Hin).
    apply (one_task _ _ t); [reflexivity| |exact Hin|].
    - intros x Hne. unfold same_at, push_verdict. cbn. rewrite upd_other by exact Hne. repeat split; try reflexivity.
      + rewrite has_app, has_single. destruct (Z.eqb_spec t x); [congruence|]. apply orb_false_r.
      + apply (has_remove1_other _ _ _ _ Hr). exact Hne.
    - unfold tw, push_verdict. cbn. rewrite upd_same, Hrn, has_app, has_single, Z.eqb_refl, orb_true_r.
      assert (He : has (evq s) t = false). { apply has_false. intros st Hx. apply Hnev. exists st. exact Hx. }
      assert (Hq : has (pushq s) t = true). { apply has_in. exists sn. exact Hmem. }
      rewrite He, (pushq_not_pend s t sn HI Hmem), Hq.
      subst sn. destruct Hv; subst v; destruct (store s t); cbn in Hex |- *; try discriminate; lia.
  Qed.

  Lemma finish_measure s t ev :
    InvQ s -> runs s t = RDone ev ->
    (measure (set_evq (set_runs s (upd (runs s) t RNone)) (evq s ++ [(t, ev)])) < measure s)%nat.
  Proof.
    intros HI Hr. assert (Hlive : runs s t <> RNone) by congruence.
    pose proof (q5 _ _ s HI t) as H5. rewrite Hr in H5. destruct H5 as (Hst & Hev & Hin).
    apply (one_task _ _ t); [reflexivity| |exact Hin|].
    - intros x Hne. unfold same_at. cbn. rewrite upd_other by exact Hne. repeat split; try reflexivity.
      rewrite has_app, has_single. destruct (Z.eqb_spec t x); [congruence|]. apply orb_false_r.
    - unfold tw. cbn. rewrite upd_same, Hr, has_app, has_single, Z.eqb_refl, orb_true_r, Hst.
      destruct ev; cbn; lia.
  Qed.
  Lemma tw5_pushq_le st e : exec st = true -> (tw5 RNone e false true st <= tw5 RNone e false false st)%nat.
  Proof. destruct st, e; cbn; try discriminate; lia. Qed.

  Lemma rebuild_measure pb s :
    InvQ s -> ph s = PInit \/ ph s = PDown -> (measure (set_ph (initial tasks deps pb s) PIdle) < measure s)%nat.
  Proof.
    intros HI Hph.
    assert (Hq : ph s <> PIdle) by (destruct Hph; congruence).
    destruct (q10 _ _ s HI Hq) as (Qe & Qd & Qr). destruct (dl_nil s Qd) as (Qq & Qp).
    assert (Hpw : (pw PIdle < pw (ph s))%nat) by (destruct Hph as [-> | ->]; cbn; lia).
    unfold measure. cbn [ph set_ph].
    assert (Hle : (sumw (tw (set_ph (initial tasks deps pb s) PIdle)) tasks <= sumw (tw s) tasks)%nat); [|lia].
    apply sumw_le. intros x Hx. unfold initial.
    destruct (filter (pushable deps (store s)) tasks) as [|e ex] eqn:EL.
    - destruct (verdict_of tasks deps pb (store s)); unfold tw; cbn; lia.
    - assert (HL : forall y, In y (e :: ex) -> pushable deps (store s) y = true).
      { intros y Hy. rewrite <- EL in Hy. apply filter_In in Hy. apply Hy. }
      remember (e :: ex) as L. clear HeqL EL.
      unfold tw. cbn. rewrite Qr, Qe, Qp, Qq. cbn [app]. rewrite has_snap.
      assert (He : has [] x = false) by reflexivity. rewrite He.
      destruct (existsb (Z.eqb x) L) eqn:Eex; [|lia].
      apply tw5_pushq_le. apply existsb_exists in Eex. destruct Eex as (y & Hy & Hxy). apply Z.eqb_eq in Hxy. subst y.
      pose proof (HL x Hy) as Hp. unfold pushable in Hp. apply andb_true_iff in Hp. apply Hp.
  Qed.
  Lemma restartidle_measure s : ph s = PDown -> (measure (set_ph s PIdle) < measure s)%nat.
  Proof. intros Hp. unfold measure. cbn. rewrite Hp. cbn. unfold tw. cbn. lia. Qed.

  (** what the handling of the head event pushes (the same facts as in [invq_deliver_push]) *)
  Lemma dl_next_spec s t0 st r N :
    InvQ s -> evq s = (t0, st) :: r ->
    N = (if done st then filter (pushable deps (upd (know s) t0 st)) (children tasks deps t0) else if est_eqb st SInit then [t0] else []) ->
    forall c, In c N ->
      In c tasks /\ exec (store s c) = true /\ runs s c = RNone /\ has r c = false /\ has (pend s) c = false /\ has (pushq s) c = false.
  Proof.
    intros HI Heq HN c Hc.
    destruct (dl_head tasks deps s t0 st r HI Heq) as (H0st & H0r & H0ev & H0in).
    destruct (dl_tree tasks deps s t0 st r HI Heq) as (Htree & H0pd & H0ex).
    pose proof (dl_ph tasks deps s t0 st r HI Heq) as Hph.
    assert (Hnodl : forall x, ~ inpend s x -> has (pend s) x = false /\ has (pushq s) x = false).
    { intros x Hx. split; apply has_false; intros sn Hin; apply Hx; exists sn; unfold dl; apply in_or_app; [right|left]; exact Hin. }
    subst N. destruct (done st) eqn:Ed.
    - apply filter_In in Hc. destruct Hc as (Hch & Hpu). unfold children in Hch. apply filter_In in Hch. destruct Hch as (Hct & Hdep).
      apply existsb_exists in Hdep. destruct Hdep as (d & Hd & Hdt). apply Z.eqb_eq in Hdt. subst d.
      unfold pushable in Hpu. apply andb_true_iff in Hpu. destruct Hpu as (Hex & Hpd).
      assert (Hne : c <> t0). { intros ->. exact (not_self_dep deps rank Hrank t0 Hd). }
      assert (Hnf : ~ (runs s c <> RNone \/ evfor s c \/ inpend s c)).
      { intros H. destruct (q6 _ _ s HI c H) as (_ & B & _). unfold parents_done in B. rewrite forallb_forall in B.
        specialize (B t0 Hd). rewrite (dl_notdone tasks deps s t0 st r HI Heq) in B. discriminate. }
      rewrite upd_other in Hex by exact Hne.
      assert (Hks : know s c = store s c).
      { destruct (q7 _ _ s HI Htree c Hct) as [H|[H|[H|[H|H]]]].
        - exact H.
        - exfalso. apply Hnf. left. exact H.
        - exfalso. apply Hnf. right. left. exact H.
        - destruct H as (H & _). rewrite H in Hex. discriminate.
        - destruct H as (_ & H). exfalso. apply H. exact Hph. }
      destruct (Hnodl c) as (A & B); [intros H; apply Hnf; right; right; exact H|].
      repeat split; try assumption.
      + rewrite <- Hks. exact Hex.
      + destruct (runs s c) eqn:E; [reflexivity| | | | |]; exfalso; apply Hnf; left; congruence.
      + apply has_false. intros st' Hin. apply Hnf. right. left. apply (dl_evfor_r s t0 st r Heq c Hne). exists st'. exact Hin.
    - destruct (est_eqb st SInit) eqn:Ei; [|destruct Hc]. apply est_eqb_eq in Ei. destruct Hc as [<-|[]].
      destruct (Hnodl t0) as (A & B); [intros (sn & H); exact (dl_pend_not0 tasks deps s t0 st r HI Heq sn H)|].
      repeat split; try assumption.
      + rewrite H0st, Ei. reflexivity.
      + apply has_false. exact (dl_r_not0 tasks deps s t0 st r HI Heq).
  Qed.
  Lemma has_cons_other (p : Z * est) l x : fst p <> x -> has (p :: l) x = has l x.
  Proof. intros H. unfold has. cbn. destruct (Z.eqb_spec (fst p) x); [contradiction|reflexivity]. Qed.
  Lemma has_cons_same (p : Z * est) l : has (p :: l) (fst p) = true.
  Proof. unfold has. cbn. rewrite Z.eqb_refl. reflexivity. Qed.

  (** the parser worker handles the head event *)
  Lemma deliver_measure_gen s s' t0 st r N :
    InvQ s -> evq s = (t0, st) :: r ->
    N = (if done st then filter (pushable deps (upd (know s) t0 st)) (children tasks deps t0) else if est_eqb st SInit then [t0] else []) ->
    runs s' = runs s -> store s' = store s -> pend s' = pend s -> evq s' = r -> ph s' = ph s ->
    (pushq s' = pushq s ++ snap (store s) N \/ (N = [] /\ pushq s' = pushq s)) ->
    (measure s' < measure s)%nat.
  Proof.
    intros HI Heq HN Hru Hst Hpe Hev Hph Hpq0.
    assert (Hpq : forall x, has (pushq s') x = has (pushq s) x || existsb (Z.eqb x) N).
    { intros x. destruct Hpq0 as [E|(E1 & E2)].
      - rewrite E, has_app, has_snap. reflexivity.
      - rewrite E2, E1. cbn. rewrite orb_false_r. reflexivity. }
    clear Hpq0.
    destruct (dl_head tasks deps s t0 st r HI Heq) as (H0st & H0r & H0ev & H0in).
    pose proof (dl_next_spec s t0 st r N HI Heq HN) as Hspec.
    assert (H0pend : has (pend s) t0 = false /\ has (pushq s) t0 = false).
    { split; apply has_false; intros sn Hin; apply (dl_pend_not0 tasks deps s t0 st r HI Heq sn); unfold dl; apply in_or_app; [right|left]; exact Hin. }
    destruct H0pend as (H0p & H0q).
    assert (H0r' : has r t0 = false) by (apply has_false; exact (dl_r_not0 tasks deps s t0 st r HI Heq)).
    assert (Hlt0 : (tw s' t0 < tw s t0)%nat).
    { unfold tw. rewrite Hru, Hst, Hpe, Hev, Hpq, Heq.
      change (has ((t0, st) :: r) t0) with (has ((t0, st) :: r) (fst (t0, st))). rewrite has_cons_same.
      rewrite H0r, H0r', H0p, H0q, H0st. cbn [orb].
      assert (HN0 : existsb (Z.eqb t0) N = true -> st = SInit).
      { intros E. apply existsb_exists in E. destruct E as (y & Hy & Hxy). apply Z.eqb_eq in Hxy. subst y.
        destruct (Hspec t0 Hy) as (_ & A & _). rewrite H0st in A.
        subst N. destruct (done st) eqn:Ed.
        - exfalso. apply filter_In in Hy. destruct Hy as (Hch & _). unfold children in Hch. apply filter_In in Hch. destruct Hch as (_ & Hd).
          apply existsb_exists in Hd. destruct Hd as (d & Hd & Hdt). apply Z.eqb_eq in Hdt. subst d. exact (not_self_dep deps rank Hrank t0 Hd).
        - destruct (est_eqb st SInit) eqn:Ei; [apply est_eqb_eq; exact Ei|destruct Hy]. }
      destruct (existsb (Z.eqb t0) N) eqn:EN.
      + rewrite (HN0 eq_refl). cbn. lia.
      + unfold ev_st in H0ev. destruct H0ev as [E|[E|[E|[E|E]]]]; rewrite E in *; cbn; lia. }
    unfold measure. rewrite Hph.
    assert (sumw (tw s') tasks < sumw (tw s) tasks)%nat; [|lia].
    apply (sumw_lt _ _ _ t0); [|exact H0in|exact Hlt0].
    intros x Hx. destruct (Z.eq_dec x t0) as [->|Hne]; [lia|].
    unfold tw. rewrite Hru, Hst, Hpe, Hev, Hpq, Heq.
    rewrite (has_cons_other (t0, st) r x) by (cbn; congruence).
    destruct (existsb (Z.eqb x) N) eqn:EN.
    - apply existsb_exists in EN. destruct EN as (y & Hy & Hxy). apply Z.eqb_eq in Hxy. subst y.
      destruct (Hspec x Hy) as (_ & A & B & C & D & E). rewrite B, C, D, E. cbn [orb]. apply tw5_pushq_le. exact A.
    - rewrite orb_false_r. lia.
  Qed.

  (** every step of the engine itself strictly decreases the measure *)
  Theorem engine_step_decreases s l s' :
    InvQ s -> stepq s l = Some s' -> operator l = false -> (measure s' < measure s)%nat.
  Proof.
    intros HI HS Hop. destruct l; cbn in Hop; try discriminate; cbn in HS.
    - (* Accept *)
      destruct (remove1 (t, s0) (pend s)) as [p'|] eqn:Er; [|discriminate].
      destruct (guard_ok validate s t s0); [|discriminate]. inv HS. apply accept_measure; assumption.
    - (* Drop *)
      destruct (remove1 (t, s0) (pend s)) as [p'|] eqn:Er; [|discriminate].
      rewrite (guard_of_q1 tasks deps validate s t s0 HI (remove1_mem _ _ _ Er)) in HS. discriminate.
    - (* StartWrite *)
      destruct (runs s t) as [|sn| | | |ev] eqn:Er; try discriminate.
      assert (Hlive : runs s t <> RNone) by congruence. pose proof (in_tasks_of_run s t HI Hlive) as Hin.
      destruct sn; try discriminate; inv HS.
      + apply run_step_measure; try assumption; [discriminate|]. intros. rewrite Er. cbn. lia.
      + apply run_step_measure_nostore; try assumption; [discriminate|]. intros. rewrite Er. cbn. lia.
      + unfold end_run. apply run_step_measure; try assumption; [discriminate|]. intros. rewrite Er. cbn. lia.
      + apply run_step_measure; try assumption; [discriminate|]. intros. rewrite Er. cbn. lia.
    - (* MainStart *)
      destruct (runs s t) eqn:Er; try discriminate. inv HS.
      assert (Hlive : runs s t <> RNone) by congruence. pose proof (in_tasks_of_run s t HI Hlive) as Hin.
      rewrite measure_set_started. apply run_step_measure_nostore; try assumption; [discriminate|]. intros. rewrite Er. cbn. lia.
    - (* MainOk *)
      destruct (runs s t) eqn:Er; try discriminate. inv HS.
      assert (Hlive : runs s t <> RNone) by congruence. pose proof (in_tasks_of_run s t HI Hlive) as Hin.
      apply run_step_measure; try assumption; [discriminate|]. intros. rewrite Er. cbn. lia.
    - (* MainErr *)
      destruct (runs s t) eqn:Er; try discriminate. inv HS.
      assert (Hlive : runs s t <> RNone) by congruence. pose proof (in_tasks_of_run s t HI Hlive) as Hin.
      unfold end_run. apply run_step_measure; try assumption; [discriminate|]. intros. rewrite Er. cbn. lia.
    - (* AfterOk *)
      destruct (runs s t) eqn:Er; try discriminate. inv HS.
      assert (Hlive : runs s t <> RNone) by congruence. pose proof (in_tasks_of_run s t HI Hlive) as Hin.
      unfold end_run. apply run_step_measure; try assumption; [discriminate|]. intros. rewrite Er. cbn. lia.
    - (* AfterErr *)
      destruct (runs s t) eqn:Er; try discriminate. inv HS.
      assert (Hlive : runs s t <> RNone) by congruence. pose proof (in_tasks_of_run s t HI Hlive) as Hin.
      unfold end_run. apply run_step_measure; try assumption; [discriminate|]. intros. rewrite Er. cbn. lia.
    - (* BeforeErr *)
      destruct (runs s t) as [|sn| | | |ev] eqn:Er; try discriminate.
      assert (Hlive : runs s t <> RNone) by congruence. pose proof (in_tasks_of_run s t HI Hlive) as Hin.
      destruct sn; try discriminate; inv HS;
        (unfold end_run; apply run_step_measure; try assumption; [discriminate|]; intros; rewrite Er; cbn; lia).
    - (* RetryErr *)
      destruct (runs s t) as [|sn| | | |ev] eqn:Er; try discriminate.
      assert (Hlive : runs s t <> RNone) by congruence. pose proof (in_tasks_of_run s t HI Hlive) as Hin.
      destruct sn; try discriminate. inv HS.
      unfold end_run. apply run_step_measure; try assumption; [discriminate|]. intros. rewrite Er. cbn. lia.
    - (* Finish *)
      destruct (runs s t) as [|sn| | | |ev] eqn:Er; try discriminate. inv HS. apply finish_measure; assumption.
    - (* Deliver *)
      destruct (evq s) as [|(t0, st) r] eqn:Eq; [discriminate|].
      destruct (dl_tree tasks deps s t0 st r HI Eq) as (Htree & Hpd & _). rewrite Htree, Hpd in HS. cbn in HS.
      match type of HS with (match ?nx with _ => _ end) = _ => remember nx as N eqn:EN end.
      destruct N as [|n0 N'].
      + destruct (verdict_of tasks deps pb (upd (know s) t0 st)); inv HS;
          (apply (deliver_measure_gen s _ t0 st r [] HI Eq EN); try reflexivity; right; split; reflexivity).
      + inv HS. apply (deliver_measure_gen s _ t0 st r (n0 :: N') HI Eq EN); try reflexivity. left. reflexivity.
    - (* PushRun *)
      destruct (remove1 (t, s0) (pushq s)) as [q'|] eqn:Er; [|discriminate]. inv HS. apply pushrun_measure; assumption.
    - (* PushSkip *)
      destruct (remove1 (t, s0) (pushq s)) as [q'|] eqn:Er; [|discriminate].
      match type of HS with (if ?b then _ else _) = _ => destruct b; [|discriminate] end. inv HS.
      eapply push_verdict_measure; [exact HI|exact Er|left; reflexivity].
    - (* PushBlock *)
      destruct (remove1 (t, s0) (pushq s)) as [q'|] eqn:Er; [|discriminate].
      match type of HS with (if ?b then _ else _) = _ => destruct b; [|discriminate] end. inv HS.
      eapply push_verdict_measure; [exact HI|exact Er|right; reflexivity].
    - (* Rebuild *)
      destruct (ph s) eqn:Ep; try discriminate.
      + inv HS. apply rebuild_measure; [exact HI|left; exact Ep].
      + destruct (ins s); try discriminate. inv HS. apply rebuild_measure; [exact HI|right; exact Ep].
    - (* RestartIdle *)
      destruct (ph s) eqn:Ep; try discriminate. destruct (ins s); try discriminate; inv HS; apply restartidle_measure; exact Ep.
  Qed.

  (** hence: from any state of the restricted system, at most [measure s] steps of the engine itself can follow one
      another *)
  Theorem engine_steps_bounded ls : forall s s',
    InvQ s -> run tasks deps validate true true s ls = Some s' -> forallb (fun l => negb (operator l)) ls = true ->
    (length ls + measure s' <= measure s)%nat.
  Proof.
    induction ls as [|l r IH]; cbn; intros s s' HI HR Hall; [inv HR; lia|].
    destruct (stepq s l) as [s1|] eqn:E; [|discriminate]. apply andb_true_iff in Hall. destruct Hall as (Hl & Hr).
    assert (Hop : operator l = false) by (destruct (operator l); [discriminate|reflexivity]).
    pose proof (engine_step_decreases s l s1 HI E Hop).
    pose proof (IH s1 s' (invq_step tasks deps validate rank Hnd Hrank Hclosed s l s1 HI E) HR Hr). lia.
  Qed.
  (** where the engine comes to rest: no step of its own is enabled only in quiet states with no re-initialisation due *)
  Theorem rest_is_quiet s :
    InvQ s -> (forall l s', stepq s l = Some s' -> operator l = true) ->
    quiet tasks s = true /\ ph s <> PInit /\ ph s <> PDown.
  Proof.
    intros HI Hrest.
    assert (H : ~ (quiet tasks s = false \/ ph s = PInit \/ ph s = PDown)).
    { intros H. destruct (engine_not_stuck tasks deps validate s HI H) as (l & s' & Hop & Hs). rewrite (Hrest l s' Hs) in Hop. discriminate. }
    repeat split.
    - destruct (quiet tasks s) eqn:E; [reflexivity|]. exfalso. apply H. left. reflexivity.
    - intros E. apply H. right. left. exact E.
    - intros E. apply H. right. right. exact E.
  Qed.

  (** C03 as a liveness statement about the restricted system: the engine's own steps are finitely many
      ([engine_steps_bounded]), and where they end - with no command stored and no task left recorded running -
      the instance is settled and the verdict agrees with its tasks *)
  Theorem rest_is_settled s :
    InvQ s -> (forall l s', stepq s l = Some s' -> operator l = true) -> cmd s = false ->
    (forall t, In t tasks -> store s t <> SRunning) ->
    ins s <> IRunning /\
    (ins s = ISuccess <-> forall t, In t tasks -> done (store s t) = true) /\
    (ins s = IFailed -> exists t, In t tasks /\ store s t = SFailed) /\
    (ins s = IBlocked -> exists t, In t tasks /\ store s t = SBlocked).
  Proof.
    intros HI Hrest Hc Hnr. destruct (rest_is_quiet s HI Hrest) as (Hq & Hp1 & Hp2).
    apply (settled tasks deps s HI). repeat split; try assumption.
    destruct (ph s) eqn:Ep; try congruence. pose proof (g3 _ _ s HI Ep). congruence.
  Qed.
  (** with commands at quiescent points the code as it is needs no hypothesis about deliveries ([validate] arbitrary):
      C01 - a main action starts only when every dependency is recorded finished; C15/C13 - a finished task (success
      or skipped) is never given another status *)
  Theorem quiet_main_start_parents_done s t s' : InvQ s -> stepq s (MainStart t) = Some s' -> parents_done deps (store s) t = true.
  Proof.
    intros HI HS. cbn in HS. destruct (runs s t) eqn:Er; try discriminate.
    apply (inflight_pdone_store tasks deps s t HI). left. congruence.
  Qed.

  Lemma store_initial_q pb s t : store (initial tasks deps pb s) t = store s t.
  Proof.
    unfold initial. destruct (filter (pushable deps (store s)) tasks); [destruct (verdict_of tasks deps pb (store s))|]; reflexivity.
  Qed.

  Theorem quiet_done_final s l s' t : InvQ s -> stepq s l = Some s' -> done (store s t) = true -> store s' t = store s t.
  Proof.
    intros HI HS Hst.
    assert (Hlive : forall x, writing (runs s x) -> x <> t).
    { intros x Hx ->. destruct (writing_store tasks deps s t HI Hx) as (A & _). congruence. }
    assert (Hw : forall x v, x <> t -> upd (store s) x v t = store s t).
    { intros x v Hx. apply upd_other. congruence. }
    assert (Hpv : forall x sn, In (x, sn) (pushq s) -> x <> t).
    { intros x sn Hin ->. assert (Hin' : In (t, sn) (dl s)) by (unfold dl; apply in_or_app; left; exact Hin).
      destruct (q1 _ _ s HI t sn Hin') as (A & B & _). subst sn. destruct (store s t); cbn in B, Hst; congruence. }
    destruct l; cbn in HS;
      try (repeat match goal with
             | H : match ?x with _ => _ end = Some _ |- _ => destruct x eqn:?; try discriminate
             end; inv HS; cbn; rewrite ?store_initial_q; try reflexivity;
           try (apply Hw; apply Hlive; match goal with H : runs s _ = _ |- _ => rewrite H; exact Logic.I end);
           try (apply Hw; intro; subst; match goal with H : store s _ = _ |- _ => rewrite H in Hst; discriminate end); fail).
    - (* PushSkip *)
      destruct (remove1 (t0, s0) (pushq s)) eqn:Er; [|discriminate].
      match type of HS with (if ?b then _ else _) = _ => destruct b; [|discriminate] end. inv HS. cbn. apply Hw.
      apply (Hpv t0 s0). eapply remove1_mem. exact Er.
    - (* PushBlock *)
      destruct (remove1 (t0, s0) (pushq s)) eqn:Er; [|discriminate].
      match type of HS with (if ?b then _ else _) = _ => destruct b; [|discriminate] end. inv HS. cbn. apply Hw.
      apply (Hpv t0 s0). eapply remove1_mem. exact Er.
  Qed.
  (** ... and C02 / C04: at most one main-action start per attempt.  The ghost flag [started] (set by MainStart, reset
      only by the retry command re-arming that task) is false whenever a run is about to start its main action. *)
  Record SInv (s : eng) : Prop := {
    s1 : forall t, started s t = true -> unstarted_st (store s t) = false;
    s2 : forall t, runs s t = RRunning -> started s t = false
  }.

  Lemma sinv_boot : SInv boot.
  Proof. constructor; cbn; intros; discriminate. Qed.

  Lemma started_initial_q pb s t : started (initial tasks deps pb s) t = started s t.
  Proof.
    unfold initial. destruct (filter (pushable deps (store s)) tasks); [destruct (verdict_of tasks deps pb (store s))|]; reflexivity.
  Qed.
  Lemma runs_initial_q pb s t : runs (initial tasks deps pb s) t = runs s t.
  Proof.
    unfold initial. destruct (filter (pushable deps (store s)) tasks); [destruct (verdict_of tasks deps pb (store s))|]; reflexivity.
  Qed.

  (** a step that leaves [started], the registrations and the statuses alone *)
  Lemma sinv_same s s' : SInv s -> (forall t, started s' t = started s t) -> (forall t, runs s' t = runs s t) ->
    (forall t, store s' t = store s t) -> SInv s'.
  Proof.
    intros HS A B C. constructor; intros t; rewrite ?A, ?B, ?C; apply HS.
  Qed.

  (** the run of [t] writes status [v] and moves to [r'] *)
  Lemma sinv_run_write s t v r' :
    SInv s -> (unstarted_st v = true -> started s t = false) -> (r' = RRunning -> started s t = false) ->
    SInv (set_runs (set_store s (upd (store s) t v)) (upd (runs s) t r')).
  Proof.
    intros HS Hv Hr. constructor; cbn; intros x.
    - destruct (Z.eq_dec x t) as [->|Hne].
      + rewrite upd_same. intros Hx. destruct (unstarted_st v) eqn:E; [|reflexivity]. rewrite (Hv eq_refl) in Hx. discriminate.
      + rewrite upd_other by exact Hne. apply (s1 s HS x).
    - destruct (Z.eq_dec x t) as [->|Hne].
      + rewrite upd_same. exact Hr.
      + rewrite upd_other by exact Hne. apply (s2 s HS x).
  Qed.

  Lemma sinv_step s l s' : InvQ s -> SInv s -> stepq s l = Some s' -> SInv s'.
  Proof.
    intros HI HS Hst. destruct l; cbn in Hst.
    - (* Accept *)
      destruct (remove1 (t, s0) (pend s)) as [p'|] eqn:Er; [|discriminate].
      destruct (guard_ok validate s t s0); [|discriminate]. inv Hst.
      constructor; cbn; intros x; [apply (s1 s HS x)|].
      destruct (Z.eq_dec x t) as [->|Hne]; [rewrite upd_same; discriminate|rewrite upd_other by exact Hne; apply (s2 s HS x)].
    - destruct (remove1 (t, s0) (pend s)) as [p'|]; [|discriminate]. destruct (guard_ok validate s t s0); [discriminate|].
      inv Hst. apply (sinv_same s); auto.
    - (* StartWrite *)
      pose proof (q5 _ _ s HI t) as H5.
      destruct (runs s t) as [|sn| | | |ev] eqn:Er; try discriminate.
      destruct H5 as (Hsn & Hex & _).
      assert (Hns : unstarted_st sn = true -> started s t = false).
      { intros Hu. destruct (started s t) eqn:E; [|reflexivity]. pose proof (s1 s HS t E) as H. rewrite Hsn in H. congruence. }
      destruct sn; try discriminate; inv Hst.
      + apply sinv_run_write; [exact HS|discriminate|intros _; apply Hns; reflexivity].
      + constructor; cbn; intros x; [apply (s1 s HS x)|].
        destruct (Z.eq_dec x t) as [->|Hne]; [rewrite upd_same; discriminate|rewrite upd_other by exact Hne; apply (s2 s HS x)].
      + unfold end_run. apply sinv_run_write; [exact HS|intros _; apply Hns; reflexivity|discriminate].
      + apply sinv_run_write; [exact HS|discriminate|intros _; apply Hns; reflexivity].
    - (* MainStart *)
      pose proof (q5 _ _ s HI t) as H5.
      destruct (runs s t) eqn:Er; try discriminate. inv Hst. destruct H5 as (Hsr & _).
      constructor; cbn; intros x.
      + destruct (Z.eq_dec x t) as [->|Hne]; [intros _; rewrite Hsr; reflexivity|rewrite upd_other by exact Hne; apply (s1 s HS x)].
      + destruct (Z.eq_dec x t) as [->|Hne]; [rewrite upd_same; discriminate|rewrite !upd_other by exact Hne; apply (s2 s HS x)].
    - destruct (runs s t) eqn:Er; try discriminate. inv Hst. apply sinv_run_write; [exact HS|discriminate|discriminate].
    - destruct (runs s t) eqn:Er; try discriminate. inv Hst. unfold end_run. apply sinv_run_write; [exact HS|discriminate|discriminate].
    - destruct (runs s t) eqn:Er; try discriminate. inv Hst. unfold end_run. apply sinv_run_write; [exact HS|discriminate|discriminate].
    - destruct (runs s t) eqn:Er; try discriminate. inv Hst. unfold end_run. apply sinv_run_write; [exact HS|discriminate|discriminate].
    - destruct (runs s t) as [|sn| | | |ev] eqn:Er; try discriminate. destruct sn; try discriminate; inv Hst;
        (unfold end_run; apply sinv_run_write; [exact HS|discriminate|discriminate]).
    - destruct (runs s t) as [|sn| | | |ev] eqn:Er; try discriminate. destruct sn; try discriminate. inv Hst.
      unfold end_run. apply sinv_run_write; [exact HS|discriminate|discriminate].
    - (* Finish *)
      destruct (runs s t) as [|sn| | | |ev] eqn:Er; try discriminate. inv Hst.
      constructor; cbn; intros x; [apply (s1 s HS x)|].
      destruct (Z.eq_dec x t) as [->|Hne]; [rewrite upd_same; discriminate|rewrite upd_other by exact Hne; apply (s2 s HS x)].
    - (* Deliver *)
      destruct (evq s) as [|(t0, st) r]; [discriminate|].
      destruct (tree s && parents_done deps (know s) t0); [|inv Hst; apply (sinv_same s); auto].
      match type of Hst with (match ?nx with _ => _ end) = _ => destruct nx end;
        [destruct (verdict_of tasks deps pb (upd (know s) t0 st))|]; inv Hst; apply (sinv_same s); auto.
    - destruct (remove1 (t, s0) (pushq s)); [|discriminate]. inv Hst. apply (sinv_same s); auto.
    - (* PushSkip *)
      destruct (remove1 (t, s0) (pushq s)) as [q'|] eqn:Er; [|discriminate].
      match type of Hst with (if ?b then _ else _) = _ => destruct b eqn:Eb; [|discriminate] end. inv Hst.
      apply andb_true_iff in Eb. destruct Eb as (Ec & _).
      assert (Hin : In (t, s0) (dl s)) by (unfold dl; apply in_or_app; left; eapply remove1_mem; exact Er).
      destruct (q1 _ _ s HI t s0 Hin) as (A & _).
      constructor; unfold push_verdict; cbn; intros x; [|apply (s2 s HS x)].
      destruct (Z.eq_dec x t) as [->|Hne]; [|rewrite upd_other by exact Hne; apply (s1 s HS x)].
      intros Hx. exfalso. pose proof (s1 s HS t Hx) as H. rewrite <- A in H. destruct s0; cbn in Ec, H; congruence.
    - (* PushBlock *)
      destruct (remove1 (t, s0) (pushq s)) as [q'|] eqn:Er; [|discriminate].
      match type of Hst with (if ?b then _ else _) = _ => destruct b eqn:Eb; [|discriminate] end. inv Hst.
      apply andb_true_iff in Eb. destruct Eb as (Ec & _).
      assert (Hin : In (t, s0) (dl s)) by (unfold dl; apply in_or_app; left; eapply remove1_mem; exact Er).
      destruct (q1 _ _ s HI t s0 Hin) as (A & _).
      constructor; unfold push_verdict; cbn; intros x; [|apply (s2 s HS x)].
      destruct (Z.eq_dec x t) as [->|Hne]; [|rewrite upd_other by exact Hne; apply (s1 s HS x)].
      intros Hx. exfalso. pose proof (s1 s HS t Hx) as H. rewrite <- A in H. destruct s0; cbn in Ec, H; congruence.
    - match type of Hst with (if ?b then _ else _) = _ => destruct b; [|discriminate] end. inv Hst. apply (sinv_same s); auto.
    - destruct (ph s); try discriminate. match type of Hst with (if ?b then _ else _) = _ => destruct b; [|discriminate] end.
      inv Hst. apply (sinv_same s); auto.
    - (* Rearm *)
      destruct (ph s) eqn:Ep; try discriminate. destruct (store s t) eqn:Est; try discriminate.
      destruct (existsb (Z.eqb t) tasks); [|discriminate]. inv Hst.
      assert (Hq : ph s <> PIdle) by congruence. destruct (q10 _ _ s HI Hq) as (_ & _ & Qr).
      constructor; cbn; intros x.
      + destruct (Z.eq_dec x t) as [->|Hne]; [rewrite upd_same; discriminate|rewrite !upd_other by exact Hne; apply (s1 s HS x)].
      + rewrite Qr. discriminate.
    - (* ContArm *)
      destruct (ph s) eqn:Ep; try discriminate. destruct (store s t) eqn:Est; try discriminate.
      destruct (existsb (Z.eqb t) tasks); [|discriminate]. inv Hst.
      constructor; cbn; intros x; [|apply (s2 s HS x)].
      destruct (Z.eq_dec x t) as [->|Hne]; [|rewrite upd_other by exact Hne; apply (s1 s HS x)].
      intros Hx. exfalso. pose proof (s1 s HS t Hx) as H. rewrite Est in H. discriminate.
    - destruct (ph s); try discriminate. destruct (armed s); [|discriminate]. inv Hst. apply (sinv_same s); auto.
    - (* Rebuild *)
      destruct (ph s); try discriminate.
      + inv Hst. apply (sinv_same s); auto; intros t; cbn; [apply started_initial_q|apply runs_initial_q|apply store_initial_q].
      + destruct (ins s); try discriminate. inv Hst.
        apply (sinv_same s); auto; intros t; cbn; [apply started_initial_q|apply runs_initial_q|apply store_initial_q].
    - destruct (ph s); try discriminate. destruct (ins s); try discriminate; inv Hst; apply (sinv_same s); auto.
    - (* WdFail *)
      destruct (store s t) eqn:Est; try discriminate. destruct (runs s t) eqn:Er; try discriminate. inv Hst.
      constructor; cbn; intros x; [|apply (s2 s HS x)].
      destruct (Z.eq_dec x t) as [->|Hne]; [rewrite upd_same; reflexivity|rewrite upd_other by exact Hne; apply (s1 s HS x)].
    - (* Crash *)
      inv Hst. constructor; cbn; intros x; [apply (s1 s HS x)|discriminate].
  Qed.

  Theorem sinv_reach ls : forall s s', InvQ s -> SInv s -> run tasks deps validate true true s ls = Some s' -> SInv s'.
  Proof.
    induction ls as [|l r IH]; cbn; intros s s' HI HS HR; [inv HR; exact HS|].
    destruct (stepq s l) as [s1'|] eqn:E; [|discriminate].
    apply (IH s1' s'); [eapply invq_step; eassumption|eapply sinv_step; eassumption|exact HR].
  Qed.

  Theorem quiet_main_start_once s t s' : InvQ s -> SInv s -> stepq s (MainStart t) = Some s' -> started s t = false /\ started s' t = true.
  Proof.
    intros HI HS Hst. cbn in Hst. destruct (runs s t) eqn:Er; try discriminate. inv Hst. cbn. rewrite upd_same.
    split; [apply (s2 s HS t Er)|reflexivity].
  Qed.
  (** ... and an attempt ends only when the retry command re-arms that very task *)
  Theorem quiet_started_kept s l s' t : stepq s l = Some s' -> started s t = true -> l <> Rearm t -> started s' t = true.
  Proof.
    intros HS Hst Hl. destruct l; cbn in HS;
      try (repeat match goal with
             | H : match ?x with _ => _ end = Some _ |- _ => destruct x eqn:?; try discriminate
             end; inv HS; cbn; rewrite ?started_initial_q; try exact Hst; fail).
    - destruct (runs s t0); try discriminate. inv HS. cbn.
      destruct (Z.eq_dec t t0) as [->|Hne]; [rewrite upd_same; reflexivity|rewrite upd_other by exact Hne; exact Hst].
    - destruct (ph s); try discriminate. destruct (store s t0); try discriminate.
      destruct (existsb (Z.eqb t0) tasks); [|discriminate]. inv HS. cbn.
      destruct (Z.eq_dec t t0) as [->|Hne]; [congruence|rewrite upd_other by exact Hne; exact Hst].
  Qed.
End Live.
