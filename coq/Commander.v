(** Commander: admission of retry / continue / cancel commands (pkg/mod/commander.go
    executeCommand + the perform closures; pkg/entity/dag.go Retry / Continue / Cancel), as
    repaired by the fix commit (no alive worker => error instead of a panic). *)
From Coq Require Import List ZArith Bool Arith Lia.
From FF Require Import Sx StoreModel StoreCheck.
Import ListNotations.
Local Open Scope Z_scope.

(** command kinds: 1 retry, 2 cancel, 3 continue; instance status codes as stored (3 = running) *)
Inductive cerr := EEmpty | ENotFound | EDifferentIns | ENoInstance | EPending | ENotRunning | EDeadWorker | ENoAlive.

Inductive cres :=
| CRej (e : cerr)
| CAcc (worker_candidates : list Z) (cmd : Z * list Z).  (* accepted: the instance gets this command and one of these workers *)

(** tasks found for the given ids, in store order (ListTaskInstance{IDs}) *)
Definition found_tasks (s : store) (ids : list Z) : list trec := filter (fun r => zin (t_id r) ids) (tasks s).

Definition admission (s : store) (kind : Z) (ids : list Z) (alive : list Z) : cres :=
  match ids with
  | [] => CRej EEmpty
  | _ =>
      let found := found_tasks s ids in
      if negb (Nat.eqb (length ids) (length found)) then CRej ENotFound
      else match found with
           | [] => CRej ENotFound
           | t0 :: _ =>
               if negb (forallb (fun t => Z.eqb (t_ins t) (t_ins t0)) found) then CRej EDifferentIns
               else match find (fun i => Z.eqb (i_id i) (t_ins t0)) (insts s) with
                    | None => CRej ENoInstance
                    | Some i =>
                        let worker_alive := zin (i_worker i) alive in
                        if Z.eqb kind 2 then
                          if negb worker_alive then CRej EDeadWorker
                          else if negb (Z.eqb (i_status i) 3) then CRej ENotRunning
                          else match i_cmd i with Some _ => CRej EPending | None => CAcc [i_worker i] (kind, ids) end
                        else
                          if negb worker_alive && match alive with [] => true | _ => false end then CRej ENoAlive
                          else match i_cmd i with
                               | Some _ => CRej EPending
                               | None => CAcc (if worker_alive then [i_worker i] else alive) (kind, ids)
                               end
                    end
           end
  end.

(* ------------------------------------------------------------------ sx glue *)
Definition cerr_code (e : cerr) : Z :=
  match e with EEmpty => 1 | ENotFound => 2 | EDifferentIns => 3 | ENoInstance => 4 | EPending => 5
             | ENotRunning => 6 | EDeadWorker => 7 | ENoAlive => 8 end.

(** case = (tasks insts kind ids alive observed-code observed-worker observed-cmd instance-id)
    observed-code 0 = accepted; the stored worker / cmd of the instance after the call follow *)
Definition check_admit (c : sx) : verdict :=
  match c with
  | L [L ts; L is; I kind; ids; alive; I code; I wk; cmd] =>
      match opt_map trec_of_sx ts, opt_map irec_of_sx is, sx_ints ids, sx_ints alive, cmd_of_sx cmd with
      | Some tl, Some il, Some idl, Some al, Some cm =>
          match admission (mkS il tl) kind idl al with
          | CRej e => if Z.eqb (cerr_code e) code then OkCase else Mismatch 1 (I (cerr_code e))
          | CAcc ws (k, l) =>
              if Z.eqb code 0 && zin wk ws
                 && match cm with Some (k', l') => Z.eqb k k' && list_eqb Z.eqb l l' | None => false end
              then OkCase else Mismatch 2 (L [of_ints ws; I k; of_ints l])
          end
      | _, _, _, _, _ => BadCase 2
      end
  | _ => BadCase 1
  end.
Definition monitor_admit (c : sx) : option bool :=
  match check_admit c with OkCase => Some true | Mismatch _ _ => Some false | BadCase _ => None end.
