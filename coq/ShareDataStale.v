(** ShareDataStale: two dictionary OBJECTS for one instance over one stored dictionary.  The tasks of a live task
    tree share the dictionary of the DagInstance they were pushed with; when the command watcher re-initialises
    the instance (retry / continue) it builds the new tree around the DagInstance it LISTED at the start of its
    round - a second dictionary object whose content is a snapshot.  A Set through either object writes the key
    into that object and saves the object's whole content (ShareData.Set; the per-object mutex of
    ShareDataConc serialises the Sets of one object, which is why each Set is one step here).

    [shared = true]: the re-initialisation keeps the live dictionary (both handles are one object);
    [shared = false]: the code as it is. *)
From Coq Require Import List ZArith Bool Lia.
From FF Require Import Sx StoreModel StoreCheck PreCheck ShareData ShareDataConc.
Import ListNotations.
Local Open Scope Z_scope.

Record ss := { live : dict; snap : dict; stored : dict }.

Inductive slabel :=
| SList                    (* the watcher lists the instance: the snapshot is what the store holds now *)
| SSetLive (k v : Z)       (* a task of the live tree stores a key *)
| SSetSnap (k v : Z).      (* a task pushed by the re-initialisation stores a key *)

Section S.
  Variable shared : bool.

  Definition sstep (s : ss) (l : slabel) : ss :=
    match l with
    | SList => {| live := live s; snap := stored s; stored := stored s |}
    | SSetLive k v => let d := d_set (live s) k v in {| live := d; snap := snap s; stored := d |}
    | SSetSnap k v =>
        if shared then let d := d_set (live s) k v in {| live := d; snap := snap s; stored := d |}
        else let d := d_set (snap s) k v in {| live := live s; snap := d; stored := d |}
    end.

  Definition srun (s : ss) (ls : list slabel) : ss := fold_left sstep ls s.
End S.

Definition sinit (d : dict) : ss := {| live := d; snap := d; stored := d |}.

Definition has_key (d : dict) (k : Z) : Prop := d_get d k <> None.

Lemma has_key_set d k v x : has_key d x -> has_key (d_set d k v) x.
Proof.
  unfold has_key. intros H. destruct (Z.eq_dec x k) as [->|Hne].
  - rewrite get_set_same. discriminate.
  - rewrite (get_set_other d k v x Hne). exact H.
Qed.

(** one shared dictionary: the store always holds what the live dictionary holds, and a stored key stays stored *)
Lemma shared_inv ls : forall s, stored s = live s -> stored (srun true s ls) = live (srun true s ls).
Proof. induction ls as [|l r IH]; intros s E; [exact E|]. cbn [srun fold_left]. apply IH. destruct l; cbn; congruence. Qed.

Theorem shared_dictionary_keeps_keys : forall ls s k,
  stored s = live s -> has_key (stored s) k -> has_key (stored (srun true s ls)) k.
Proof.
  induction ls as [|l r IH]; intros s k E H; [exact H|].
  change (srun true s (l :: r)) with (srun true (sstep true s l) r).
  apply IH.
  - destruct l; cbn; congruence.
  - destruct l; cbn; [exact H | rewrite <- E; apply has_key_set; exact H | rewrite <- E; apply has_key_set; exact H].
Qed.

(** the code as it is: list, a live task stores key 1 (its Set returns, the store holds it), a re-armed task
    stores key 2 through the snapshot - key 1 is gone from the store *)
Theorem stale_snapshot_refuted :
  exists ls, let s := srun false (sinit []) ls in
             d_get (stored (srun false (sinit []) (firstn 2 ls))) 1 = Some 10 /\ d_get (stored s) 1 = None /\ d_get (stored s) 2 = Some 20.
Proof. exists [SList; SSetLive 1 10; SSetSnap 2 20]. vm_compute. repeat split. Qed.

(** reusing the live dictionary only while a tree is live is not enough either: when the last live task finishes
    between the listing and the re-initialisation the snapshot is all there is - the lost update needs no second
    live handle, only a listing older than a Set *)
Theorem stale_listing_refuted :
  exists s, s = srun false (sinit []) [SList; SSetLive 1 10; SSetSnap 2 20] /\
            snap (srun false (sinit []) [SList; SSetLive 1 10]) = [] /\ d_get (stored s) 1 = None.
Proof. eexists; split; [reflexivity|]. vm_compute. split; reflexivity. Qed.
