(** ShareData: entity.ShareData.Set / Get (pkg/entity/dag.go) as repaired by the fix commit:
    the in-memory dictionary and the stored dictionary; Set saves the WHOLE dictionary. *)
From Coq Require Import List ZArith Bool Arith.
From FF Require Import Sx StoreModel StoreCheck PreCheck.
Import ListNotations.
Local Open Scope Z_scope.

Definition dict := list (Z * Z).

Definition d_get (d : dict) (k : Z) : option Z := kv_lookup d k.
Definition d_set (d : dict) (k v : Z) : dict := (k, v) :: filter (fun p => negb (Z.eqb (fst p) k)) d.
Definition d_del (d : dict) (k : Z) : dict := filter (fun p => negb (Z.eqb (fst p) k)) d.

Record sd := mkSd { mem : dict; stored : dict }.

(** Set k v with the outcome of the save: ok => both hold old[k:=v]; failed => memory exactly as before *)
Definition sd_set (fixed : bool) (s : sd) (k v : Z) (save_ok : bool) : sd :=
  let m' := d_set (mem s) k v in
  if save_ok then mkSd m' m'
  else mkSd (if fixed then match d_get (mem s) k with Some old => d_set (mem s) k old | None => d_del (mem s) k end
             else d_del (mem s) k)
            (stored s).

Definition dict_equiv (a b : dict) : Prop := forall k, d_get a k = d_get b k.

(* sx glue: case = (initial-dict ((k v ok)...) final-mem-lookups) *)
Fixpoint run_sets (s : sd) (ops : list sx) : option sd :=
  match ops with
  | [] => Some s
  | L [I k; I v; I ok] :: r => run_sets (sd_set true s k v (Z.eqb ok 1)) r
  | _ => None
  end.

Fixpoint sorted_insert (p : Z * Z) (l : dict) : dict :=
  match l with
  | [] => [p]
  | q :: r => if fst p <? fst q then p :: l else q :: sorted_insert p r
  end.
Definition canon (d : dict) : dict := fold_right sorted_insert [] d.
Definition sx_of_dict (d : dict) : sx := L (map (fun kv => L [I (fst kv); I (snd kv)]) (canon d)).

(** case = (initial ops observed-final-memory) ; dictionaries as sorted ((k v)...) *)
Definition check_sharedata (c : sx) : verdict :=
  match c with
  | L [init; L ops; obs] =>
      match kvs_of_sx init with
      | Some d0 =>
          match run_sets (mkSd d0 d0) ops with
          | Some s => if sx_eqb (sx_of_dict (mem s)) obs then OkCase else Mismatch 1 (sx_of_dict (mem s))
          | None => BadCase 3
          end
      | None => BadCase 2
      end
  | _ => BadCase 1
  end.
Definition monitor_sharedata (c : sx) : option bool :=
  match check_sharedata c with OkCase => Some true | Mismatch _ _ => Some false | BadCase _ => None end.
