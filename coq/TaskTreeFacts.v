(** Facts about TaskTree: correctness of BuildRootNode's validation (C16) and of the
    restricted walk's users (C01 part A, C03 verdict lemmas, C13). *)
From Coq Require Import List ZArith Bool Arith Lia Wf_nat.
From FF Require Import Sx TaskTree.
Import ListNotations.

(* ------------------------------------------------------------------ basics *)
Lemma gnode_eqb_spec a b : reflect (a = b) (gnode_eqb a b).
Proof.
  destruct a as [x|], b as [y|]; simpl; try (constructor; congruence).
  destruct (Z.eqb_spec x y); constructor; congruence.
Qed.

Lemma gnode_eq_dec (a b : gnode) : {a = b} + {a <> b}.
Proof. destruct (gnode_eqb_spec a b); [left|right]; assumption. Qed.

Lemma gmem_In a l : gmem a l = true <-> In a l.
Proof.
  unfold gmem. rewrite existsb_exists. split.
  - intros [x [Hx He]]. destruct (gnode_eqb_spec a x); [subst; auto|discriminate].
  - intros H. exists a. split; auto. destruct (gnode_eqb_spec a a); congruence.
Qed.

Lemma gmem_false a l : gmem a l = false <-> ~ In a l.
Proof. rewrite <- gmem_In. destruct (gmem a l); split; congruence. Qed.

Lemma find_node_nodup (t : tree) n :
  NoDup (gids t) -> In n t -> find_node t (gid n) = Some n.
Proof.
  unfold find_node, gids. induction t as [|x t IH]; simpl; intros Hnd H; [tauto|].
  inversion Hnd as [|? ? Hn Hnd']; subst.
  destruct H as [->|H].
  - now rewrite Z.eqb_refl.
  - destruct (Z.eqb_spec (gid x) (gid n)) as [E|_].
    + exfalso. apply Hn. rewrite E. apply in_map; assumption.
    + apply IH; assumption.
Qed.

Lemma find_node_some (t : tree) g n : find_node t g = Some n -> In n t /\ gid n = g.
Proof.
  unfold find_node. intros H. apply find_some in H as [H1 H2]. apply Z.eqb_eq in H2. auto.
Qed.

Lemma first_dup_spec l : forall seen,
  first_dup seen l = false -> NoDup l /\ forall x, In x l -> ~ In x seen.
Proof.
  induction l as [|x r IH]; intros seen H; simpl in *.
  - split; [constructor|intros ? []].
  - destruct (zmem x seen) eqn:E; [discriminate|].
    apply IH in H as [H1 H2]. split.
    + constructor; [|exact H1]. intros Hin. apply (H2 x Hin). left; reflexivity.
    + intros y [<-|Hy].
      * intros Hs. apply zmem_In in Hs. congruence.
      * intros Hs. apply (H2 y Hy). right; exact Hs.
Qed.

Lemma first_dup_complete l : forall seen,
  NoDup l -> (forall x, In x l -> ~ In x seen) -> first_dup seen l = false.
Proof.
  induction l as [|x r IH]; intros seen Hnd Hd; simpl; [reflexivity|].
  inversion Hnd as [|? ? Hx Hr]; subst.
  destruct (zmem x seen) eqn:E.
  - apply zmem_In in E. exfalso. apply (Hd x); [left; reflexivity|exact E].
  - apply IH; [exact Hr|]. intros y Hy [<-|Hs]; [contradiction|]. apply (Hd y); [right; exact Hy|exact Hs].
Qed.

Definition closed (t : tree) : Prop := forall n d, In n t -> In d (ndeps n) -> In d (gids t).

Lemma has_dangling_false t : has_dangling t = false <-> closed t.
Proof.
  unfold has_dangling, closed. split.
  - intros H n d Hn Hd.
    destruct (zmem d (gids t)) eqn:E; [apply zmem_In; exact E|].
    assert (X : existsb (fun n => existsb (fun d => negb (zmem d (gids t))) (ndeps n)) t = true).
    { apply existsb_exists. exists n. split; [exact Hn|]. apply existsb_exists. exists d. split; [exact Hd|].
      rewrite E. reflexivity. }
    congruence.
  - intros H. destruct (existsb _ t) eqn:E; [|reflexivity].
    apply existsb_exists in E as [n [Hn E]]. apply existsb_exists in E as [d [Hd E]].
    apply negb_true_iff in E. specialize (H n d Hn Hd). apply zmem_In in H. congruence.
Qed.

Section G.
  Variable t : tree.
  Hypothesis nodup : NoDup (gids t).

  Lemma deps_of_node n : In n t -> deps_of t (gid n) = ndeps n.
  Proof. intros H. unfold deps_of. now rewrite (find_node_nodup t n nodup H). Qed.

  Lemma child_of_parent n p : In n t -> In p (parents t (gid n)) -> In (gid n) (children t p).
  Proof.
    intros Ht Hp. unfold parents in Hp. rewrite (deps_of_node n Ht) in Hp.
    destruct (ndeps n) as [|d ds] eqn:Hd.
    - destruct Hp as [<-|[]]. simpl. apply in_map_iff. exists n. split; auto.
      apply filter_In. split; auto. now rewrite Hd.
    - apply in_map_iff in Hp as [u [<- Hu]]. simpl. apply in_flat_map. exists n. split; auto.
      apply in_map_iff. exists u. split; auto. apply filter_In. split.
      + rewrite Hd. exact Hu.
      + apply Z.eqb_refl.
  Qed.

  Lemma parent_of_child c p : In c (children t p) ->
    exists n, In n t /\ gid n = c /\ In p (parents t c).
  Proof.
    destruct p as [u|]; simpl; intros H.
    - apply in_flat_map in H as [n [Hn H]]. apply in_map_iff in H as [x [<- Hx]].
      apply filter_In in Hx as [Hx1 Hx2]. apply Z.eqb_eq in Hx2. subst x.
      exists n. repeat split; auto. unfold parents. rewrite (deps_of_node n Hn).
      destruct (ndeps n) eqn:E; [destruct Hx1|]. apply in_map. exact Hx1.
    - apply in_map_iff in H as [n [<- Hn]]. apply filter_In in Hn as [Hn1 Hn2].
      exists n. repeat split; auto. unfold parents. rewrite (deps_of_node n Hn1).
      destruct (ndeps n); [left; reflexivity|discriminate].
  Qed.

  Lemma children_in_gids c p : In c (children t p) -> In c (gids t).
  Proof. intros H. apply parent_of_child in H as [n [Hn [<- _]]]. apply in_map. exact Hn. Qed.

  (* ---------------------------------------------------------------- soundness *)
  (** every occurrence of a node in [visited] has all its parents later in the list *)
  Definition WFv (visited : list gnode) : Prop :=
    forall pre v rest, visited = pre ++ Some v :: rest ->
      forall p, In p (parents t v) -> In p rest.

  Lemma complete_In visited v : complete t visited v = true <-> forall p, In p (parents t v) -> In p visited.
  Proof.
    unfold complete. rewrite forallb_forall. split; intros H p Hp; specialize (H p Hp); apply gmem_In; exact H.
  Qed.

  Lemma WFv_cons visited cur : WFv visited -> complete t visited cur = true -> WFv (Some cur :: visited).
  Proof.
    intros W C pre v rest E p Hp. destruct pre as [|a pre]; simpl in E.
    - injection E as E1 E2. subst. apply (proj1 (complete_In _ _) C). exact Hp.
    - injection E as E1 E2. subst a. eapply W; eauto.
  Qed.

  Lemma level_WFv todo : forall visited inc next,
    WFv visited -> WFv (fst (fst (level t todo visited inc next))).
  Proof.
    induction todo as [|cur rest IH]; intros visited inc next W; simpl; [exact W|].
    destruct (complete t visited cur) eqn:C; apply IH; [apply WFv_cons; assumption|exact W].
  Qed.

  Lemma bfs_WFv fuel : forall todo visited inc v' i',
    WFv visited -> bfs fuel t todo visited inc = Some (v', i') -> WFv v'.
  Proof.
    induction fuel as [|f IH]; intros todo visited inc v' i' W H; simpl in H; [discriminate|].
    destruct todo as [|c r]; [injection H as <- <-; exact W|].
    pose proof (level_WFv (c :: r) visited inc [] W) as W1.
    destruct (level t (c :: r) visited inc []) as [[v1 i1] n1]. simpl in W1. eapply IH; eassumption.
  Qed.

  Lemma WFv_init : WFv [None].
  Proof.
    intros pre v rest E. destruct pre as [|a pre]; simpl in E; [discriminate|].
    injection E as _ E. destruct pre; discriminate.
  Qed.

  (** rank of a node = 1 + number of entries after its LAST occurrence *)
  Fixpoint rk (l : list gnode) (x : gnode) : nat :=
    match l with
    | [] => 0
    | y :: r => if gmem x r then rk r x else if gnode_eqb x y then S (length r) else 0
    end.

  Lemma rk_le l x : rk l x <= length l.
  Proof. induction l as [|y r IH]; simpl; [lia|]. destruct (gmem x r); [lia|]. destruct (gnode_eqb x y); lia. Qed.

  Lemma rk_suffix pre y rest x : In x rest -> rk (pre ++ y :: rest) x = rk rest x.
  Proof.
    intros H. induction pre as [|a pre IH]; simpl.
    - assert (E : gmem x rest = true) by (apply gmem_In; exact H). rewrite E. reflexivity.
    - assert (E : gmem x (pre ++ y :: rest) = true).
      { apply gmem_In. apply in_or_app. right. right. exact H. }
      rewrite E. exact IH.
  Qed.

  Lemma in_split_last (x : gnode) l : In x l -> exists pre rest, l = pre ++ x :: rest /\ ~ In x rest.
  Proof.
    induction l as [|y r IH]; intros H; [destruct H|].
    destruct (in_dec gnode_eq_dec x r) as [Hin|Hnin].
    - destruct (IH Hin) as (pre & rest & -> & Hn). exists (y :: pre), rest. split; [reflexivity|exact Hn].
    - destruct H as [->|H]; [|contradiction]. exists [], r. split; [reflexivity|exact Hnin].
  Qed.

  Lemma rk_last pre x rest : ~ In x rest -> rk (pre ++ x :: rest) x = S (length rest).
  Proof.
    intros H. induction pre as [|a pre IH]; simpl.
    - apply gmem_false in H. rewrite H. destruct (gnode_eqb_spec x x); congruence.
    - assert (E : gmem x (pre ++ x :: rest) = true).
      { apply gmem_In. apply in_or_app. right. left. reflexivity. }
      rewrite E. exact IH.
  Qed.

  Definition ranked (t : tree) : Prop :=
    exists rank : Z -> nat, forall n d, In n t -> In d (ndeps n) -> rank d < rank (gid n).

  Lemma WFv_ranked visited :
    WFv visited -> visited_all t visited = true -> ranked t.
  Proof.
    intros W A. exists (fun g => rk visited (Some g)). intros n d Hn Hd.
    unfold visited_all in A. rewrite forallb_forall in A. specialize (A n Hn). apply gmem_In in A.
    destruct (in_split_last _ _ A) as (pre & rest & E & Hnin).
    assert (Hp : In (Some d) (parents t (gid n))).
    { unfold parents. rewrite (deps_of_node n Hn). destruct (ndeps n) eqn:En; [destruct Hd|]. apply in_map. exact Hd. }
    pose proof (W pre (gid n) rest E (Some d) Hp) as Hin.
    rewrite E. rewrite (rk_suffix pre (Some (gid n)) rest (Some d) Hin), (rk_last pre (Some (gid n)) rest Hnin).
    pose proof (rk_le rest (Some d)). lia.
  Qed.

  (* ---------------------------------------------------------------- completeness *)
  Definition Pending (visited : list gnode) (queue : list Z) :=
    forall n, In n t -> ~ In (Some (gid n)) visited ->
              complete t visited (gid n) = true -> In (gid n) queue.

  Lemma complete_new visited cur v :
    complete t (Some cur :: visited) v = true ->
    complete t visited v = true \/ In (Some cur) (parents t v).
  Proof.
    intros H.
    destruct (in_dec gnode_eq_dec (Some cur) (parents t v)) as [Hin|Hnin]; [right; exact Hin|left].
    apply complete_In. intros p Hp. pose proof (proj1 (complete_In _ _) H p Hp) as [E|Hv]; [|exact Hv].
    subst p. contradiction.
  Qed.

  Lemma level_pending todo : forall visited inc next,
    Pending visited (todo ++ next) ->
    let '(v', _, n') := level t todo visited inc next in Pending v' n'.
  Proof.
    induction todo as [|cur rest IH]; intros visited inc next HP; simpl.
    - exact HP.
    - destruct (complete t visited cur) eqn:Hc.
      + apply IH. intros n Ht Hnv Hct.
        assert (Hne : gid n <> cur) by (intro E; apply Hnv; left; congruence).
        assert (Hnv' : ~ In (Some (gid n)) visited) by (intro; apply Hnv; right; assumption).
        destruct (complete_new _ _ _ Hct) as [Hold|Hpar].
        * specialize (HP n Ht Hnv' Hold). simpl in HP. destruct HP as [E|HP]; [congruence|].
          rewrite app_assoc. apply in_or_app. apply in_app_or in HP as [HP|HP].
          -- left. apply in_or_app; left; exact HP.
          -- left. apply in_or_app; right; exact HP.
        * apply in_or_app; right. apply in_or_app; right. exact (child_of_parent n (Some cur) Ht Hpar).
      + apply IH. intros n Ht Hnv Hct.
        specialize (HP n Ht Hnv Hct). simpl in HP. destruct HP as [E|HP]; [|exact HP].
        rewrite <- E in Hct. congruence.
  Qed.

  Lemma bfs_closed fuel : forall todo visited inc v' i',
    Pending visited todo -> bfs fuel t todo visited inc = Some (v', i') ->
    forall n, In n t -> complete t v' (gid n) = true -> In (Some (gid n)) v'.
  Proof.
    induction fuel as [|f IH]; intros todo visited inc v' i' HP Hb; simpl in Hb; [discriminate|].
    destruct todo as [|c r].
    - injection Hb as <- <-. intros n Ht Hc.
      destruct (in_dec gnode_eq_dec (Some (gid n)) visited) as [Hin|Hnin]; [exact Hin|].
      destruct (HP n Ht Hnin Hc).
    - pose proof (level_pending (c :: r) visited inc []) as HL. rewrite app_nil_r in HL. specialize (HL HP).
      destruct (level t (c :: r) visited inc []) as [[v1 i1] n1]. eapply IH; eassumption.
  Qed.

  Lemma level_incl todo : forall visited inc next x,
    In x visited -> In x (fst (fst (level t todo visited inc next))).
  Proof.
    induction todo as [|cur rest IH]; intros visited inc next x H; simpl; [exact H|].
    destruct (complete t visited cur); apply IH; [right; exact H|exact H].
  Qed.

  Lemma bfs_incl fuel : forall todo visited inc v' i' x,
    bfs fuel t todo visited inc = Some (v', i') -> In x visited -> In x v'.
  Proof.
    induction fuel as [|f IH]; intros todo visited inc v' i' x Hb Hx; simpl in Hb; [discriminate|].
    destruct todo as [|c r]; [injection Hb as <- <-; exact Hx|].
    pose proof (level_incl (c :: r) visited inc [] x Hx) as H1.
    destruct (level t (c :: r) visited inc []) as [[v1 i1] n1]. simpl in H1. eapply IH; eassumption.
  Qed.

  Lemma pending_init : Pending [None] (children t None).
  Proof.
    intros n Ht _ Hct. apply child_of_parent; auto.
    pose proof (proj1 (complete_In _ _) Hct) as Hc.
    unfold parents in *. rewrite (deps_of_node n Ht) in *. destruct (ndeps n) as [|d ds] eqn:Hd; [left; reflexivity|].
    exfalso. specialize (Hc (Some d) (or_introl eq_refl)). destruct Hc as [Hc|[]]. discriminate.
  Qed.

  Hypothesis Hclosed : closed t.

  Lemma ranked_all_visited fuel v' i' :
    ranked t -> cycle_check fuel t = Some (v', i') -> forall n, In n t -> In (Some (gid n)) v'.
  Proof.
    intros [rank Hr] Hc.
    assert (Hroot : In None v') by (eapply bfs_incl; [exact Hc|left; reflexivity]).
    pose proof (bfs_closed _ _ _ _ _ _ pending_init Hc) as Hcl.
    assert (forall k n, In n t -> rank (gid n) < k -> In (Some (gid n)) v').
    { induction k as [|k IH]; intros n Hn Hk; [lia|].
      apply Hcl; [exact Hn|]. apply complete_In. intros p Hp.
      unfold parents in Hp. rewrite (deps_of_node n Hn) in Hp. destruct (ndeps n) as [|d ds] eqn:Hd.
      - destruct Hp as [<-|[]]. exact Hroot.
      - apply in_map_iff in Hp as [u [<- Hu]].
        assert (Hu' : In u (gids t)) by (eapply Hclosed; [exact Hn|rewrite Hd; exact Hu]).
        apply in_map_iff in Hu' as [nu [Enu Hnu]]. rewrite <- Enu. apply IH; [exact Hnu|].
        assert (rank u < rank (gid n)) by (apply Hr; [exact Hn|rewrite Hd; exact Hu]). rewrite Enu. lia. }
    intros n Hn. apply (H (S (rank (gid n))) n Hn). lia.
  Qed.

  (** the incomplete set never contains a visited node, and only ever task ids *)
  Definition IncOk (visited : list gnode) (inc : list Z) : Prop :=
    forall x, In x inc -> ~ In (Some x) visited.

  Lemma visited_complete visited v : WFv visited -> In (Some v) visited -> complete t visited v = true.
  Proof.
    intros W H. apply in_split in H as (pre & rest & E). apply complete_In. intros p Hp.
    rewrite E. apply in_or_app. right. right. eapply W; eauto.
  Qed.

  Lemma level_incok todo : forall visited inc next,
    WFv visited -> IncOk visited inc ->
    let '(v', i', _) := level t todo visited inc next in WFv v' /\ IncOk v' i'.
  Proof.
    induction todo as [|cur rest IH]; intros visited inc next W Hi; simpl; [split; assumption|].
    destruct (complete t visited cur) eqn:C.
    - apply IH; [apply WFv_cons; assumption|].
      intros x Hx [E|Hv].
      + injection E as ->. apply remove_In in Hx. exact Hx.
      + apply in_remove in Hx as [Hx _]. exact (Hi x Hx Hv).
    - apply IH; [exact W|]. intros x [<-|Hx] Hv; [|exact (Hi x Hx Hv)].
      rewrite (visited_complete visited cur W Hv) in C. discriminate.
  Qed.

  Lemma bfs_incok fuel : forall todo visited inc v' i',
    WFv visited -> IncOk visited inc ->
    bfs fuel t todo visited inc = Some (v', i') -> IncOk v' i'.
  Proof.
    induction fuel as [|f IH]; intros todo visited inc v' i' W Hi H; simpl in H; [discriminate|].
    destruct todo as [|c r]; [injection H as <- <-; exact Hi|].
    pose proof (level_incok (c :: r) visited inc [] W Hi) as H1.
    destruct (level t (c :: r) visited inc []) as [[v1 i1] n1]. destruct H1 as [W1 Hi1]. eapply IH; eassumption.
  Qed.

  Lemma level_inc_ids todo : forall visited inc next,
    (forall x, In x todo -> In x (gids t)) -> (forall x, In x inc -> In x (gids t)) ->
    (forall x, In x next -> In x (gids t)) ->
    let '(_, i', n') := level t todo visited inc next in
    (forall x, In x i' -> In x (gids t)) /\ (forall x, In x n' -> In x (gids t)).
  Proof.
    induction todo as [|cur rest IH]; intros visited inc next Ht Hi Hn; cbn [level]; [split; assumption|].
    destruct (complete t visited cur).
    - apply IH.
      + intros x Hx. apply Ht. right. exact Hx.
      + intros x Hx. apply in_remove in Hx as [Hx _]. apply Hi. exact Hx.
      + intros x Hx. apply in_app_or in Hx as [Hx|Hx]; [apply Hn; exact Hx|eapply children_in_gids; exact Hx].
    - apply IH.
      + intros x Hx. apply Ht. right. exact Hx.
      + intros x [<-|Hx]; [apply Ht; left; reflexivity|apply Hi; exact Hx].
      + exact Hn.
  Qed.

  Lemma bfs_inc_ids fuel : forall todo visited inc v' i',
    (forall x, In x todo -> In x (gids t)) -> (forall x, In x inc -> In x (gids t)) ->
    bfs fuel t todo visited inc = Some (v', i') -> forall x, In x i' -> In x (gids t).
  Proof.
    induction fuel as [|f IH]; intros todo visited inc v' i' Ht Hi H; simpl in H; [discriminate|].
    destruct todo as [|c r]; [injection H as <- <-; exact Hi|].
    pose proof (level_inc_ids (c :: r) visited inc [] Ht Hi (fun x (F : In x []) => match F with end)) as H1.
    destruct (level t (c :: r) visited inc []) as [[v1 i1] n1]. destruct H1 as [Hi1 Hn1]. eapply (IH n1 v1 i1); [exact Hn1|exact Hi1|exact H].
  Qed.

  Lemma ranked_no_incomplete fuel v' i' :
    ranked t -> cycle_check fuel t = Some (v', i') -> i' = [].
  Proof.
    intros R Hc. pose proof (ranked_all_visited fuel v' i' R Hc) as Hall.
    assert (Hok : IncOk v' i').
    { eapply bfs_incok; [exact WFv_init| |exact Hc]. intros x []. }
    assert (Hids : forall x, In x i' -> In x (gids t)).
    { eapply bfs_inc_ids; [| |exact Hc]; [intros x Hx; eapply children_in_gids; exact Hx|intros x []]. }
    destruct i' as [|x r]; [reflexivity|]. exfalso.
    assert (Hx : In x (gids t)) by (apply Hids; left; reflexivity).
    apply in_map_iff in Hx as [n [<- Hn]]. apply (Hok (gid n)); [left; reflexivity|apply Hall; exact Hn].
  Qed.
End G.

(* ------------------------------------------------------------------ the C16 equivalence *)
Definition valid_dag (t : tree) : Prop :=
  NoDup (gids t) /\ closed t /\ t <> [] /\ ranked t.

Lemma ranked_has_start t : NoDup (gids t) -> closed t -> t <> [] -> ranked t -> children t None <> [].
Proof.
  intros ND CL NE [rank Hr].
  (* a task of minimal rank has no dependency *)
  assert (forall k n, In n t -> rank (gid n) < k -> exists m, In m t /\ ndeps m = []).
  { induction k as [|k IH]; intros n Hn Hk; [lia|].
    destruct (ndeps n) as [|d ds] eqn:Hd; [exists n; auto|].
    assert (Hd' : In d (gids t)) by (eapply CL; [exact Hn|rewrite Hd; left; reflexivity]).
    apply in_map_iff in Hd' as [m [Em Hm]].
    apply (IH m Hm). assert (rank d < rank (gid n)) by (apply Hr; [exact Hn|rewrite Hd; left; reflexivity]).
    rewrite Em. lia. }
  destruct t as [|n0 t']; [congruence|].
  destruct (H (S (rank (gid n0))) n0 (or_introl eq_refl)) as [m [Hm Hd]]; [lia|].
  intros E. assert (X : In (gid m) (children (n0 :: t') None)).
  { unfold children. apply in_map. apply filter_In. split; [exact Hm|rewrite Hd; reflexivity]. }
  rewrite E in X. destruct X.
Qed.

(** Soundness: whatever the fuel, an accepted task list is a valid DAG. *)
Theorem build_accept_sound fuel t : build_gen true fuel t = None -> valid_dag t.
Proof.
  unfold build_gen. intros H.
  destruct (first_dup [] (gids t)) eqn:Hd; [discriminate|].
  destruct (has_dangling t) eqn:Hg; [discriminate|].
  destruct (children t None) as [|c0 cs] eqn:Hc; [discriminate|].
  destruct (cycle_check fuel t) as [[visited inc]|] eqn:Hb; [|discriminate].
  destruct inc; [|discriminate]. simpl in H.
  destruct (visited_all t visited) eqn:Ha; [|discriminate].
  apply first_dup_spec in Hd as [ND _]. apply has_dangling_false in Hg.
  repeat split; auto.
  - intros ->. discriminate.
  - eapply WFv_ranked; [exact ND| |exact Ha]. eapply bfs_WFv; [apply WFv_init|exact Hb].
Qed.

(** Completeness: a valid DAG is accepted as soon as the fuel suffices. *)
Theorem build_accept_complete fuel t :
  valid_dag t -> cycle_check fuel t <> None -> build_gen true fuel t = None.
Proof.
  intros (ND & CL & NE & R) Hf. unfold build_gen.
  rewrite (first_dup_complete (gids t) [] ND (fun _ _ F => F)).
  rewrite (proj2 (has_dangling_false t) CL).
  pose proof (ranked_has_start t ND CL NE R) as Hs.
  destruct (children t None) as [|c0 cs] eqn:Hc; [congruence|]. rewrite <- Hc in *.
  destruct (cycle_check fuel t) as [[visited inc]|] eqn:Hb; [|congruence].
  rewrite (ranked_no_incomplete t ND CL fuel visited inc R Hb).
  assert (A : visited_all t visited = true).
  { unfold visited_all. apply forallb_forall. intros n Hn. apply gmem_In.
    eapply ranked_all_visited; eauto. }
  rewrite A. reflexivity.
Qed.

(** A rank function excludes every dependency cycle. *)
Inductive dep_path (t : tree) : Z -> Z -> Prop :=
| dp_step n d : In n t -> In d (ndeps n) -> dep_path t (gid n) d
| dp_trans a b c : dep_path t a b -> dep_path t b c -> dep_path t a c.

Theorem ranked_acyclic t : ranked t -> forall a, ~ dep_path t a a.
Proof.
  intros [rank Hr] a Hp.
  assert (forall x y, dep_path t x y -> rank y < rank x).
  { intros x y P. induction P as [n d Hn Hd|x y z _ IH1 _ IH2]; [apply Hr; assumption|lia]. }
  specialize (H a a Hp). lia.
Qed.

(** The code at the pinned commit accepted a list with a two-node cycle. *)
Definition rootless_cycle_witness : tree :=
  [mkNode 1 1 [2%Z] TInit; mkNode 2 2 [1%Z] TInit; mkNode 3 3 [] TInit].

Theorem unfixed_accepts_cycle :
  build_root_unfixed rootless_cycle_witness = None /\ dep_path rootless_cycle_witness 1%Z 1%Z.
Proof.
  split; [vm_compute; reflexivity|].
  apply (dp_trans _ 1%Z 2%Z 1%Z).
  - apply (dp_step rootless_cycle_witness (mkNode 1 1 [2%Z] TInit) 2%Z); simpl; auto.
  - apply (dp_step rootless_cycle_witness (mkNode 2 2 [1%Z] TInit) 1%Z); simpl; auto.
Qed.

Theorem fixed_rejects_witness : build_root rootless_cycle_witness = Some BCycle.
Proof. vm_compute. reflexivity. Qed.

(** Non-vacuity: a diamond is valid and accepted. *)
Definition diamond : tree :=
  [mkNode 1 1 [] TInit; mkNode 2 2 [1%Z] TInit; mkNode 3 3 [1%Z] TInit; mkNode 4 4 [2%Z; 3%Z] TInit].
Example diamond_accepted : build_root diamond = None.
Proof. vm_compute. reflexivity. Qed.

(* ------------------------------------------------------------------ users of the walk (C01 part A, C03, C13) *)
(** every id returned by GetExecutableTaskIds has all its parents success/skipped in the tree *)
Theorem executable_ids_parents_done t l v p :
  executable_ids t = Some l -> In v l -> In p (parents t v) -> gnode_ok t p = true.
Proof.
  unfold executable_ids. destruct (walk t (fun _ => false) (walk_fuel t)) as [[seq st]|]; [|discriminate].
  intros H Hv Hp. injection H as <-. apply filter_In in Hv as [_ He].
  unfold executable in He. apply andb_true_iff in He as [_ He].
  rewrite forallb_forall in He. apply He, Hp.
Qed.

Theorem executable_ids_status t l v :
  executable_ids t = Some l -> In v l -> executable_st (status_of t v) = true.
Proof.
  unfold executable_ids. destruct (walk t (fun _ => false) (walk_fuel t)) as [[seq st]|]; [|discriminate].
  intros H Hv. injection H as <-. apply filter_In in Hv as [_ He].
  unfold executable in He. apply andb_true_iff in He as [He _]. exact He.
Qed.

(** the children GetNextTaskIds returns for a task that ended success/skipped/... (anything but a
    retry that went back to init) have all their parents success/skipped in the updated tree *)
Theorem next_ids_children_done t g s t' ids v p :
  next_ids t g s = Some (t', ids, true) -> s <> TInit ->
  In v ids -> In p (parents t' v) -> gnode_ok t' p = true.
Proof.
  unfold next_ids. destruct (walk t (Z.eqb g) (walk_fuel t)) as [[seq found]|]; [|discriminate].
  destruct found; simpl; [|discriminate].
  intros H Hs Hv Hp.
  destruct s; try congruence; simpl in H; injection H as <- <-; try (destruct Hv; fail);
    apply filter_In in Hv as [_ He]; unfold executable in He; apply andb_true_iff in He as [_ He];
    rewrite forallb_forall in He; apply He, Hp.
Qed.

(** nothing is returned for a task that did not finish (failed, canceled, blocked, ...) *)
Theorem next_ids_unfinished_none t g s t' ids :
  next_ids t g s = Some (t', ids, true) -> s <> TInit -> can_exec_child_st s = false -> ids = [].
Proof.
  unfold next_ids. destruct (walk t (Z.eqb g) (walk_fuel t)) as [[seq found]|]; [|discriminate].
  destruct found; simpl; [|discriminate].
  intros H Hs Hc. destruct s; try congruence; simpl in Hc; try discriminate; simpl in H; injection H as <- <-; reflexivity.
Qed.

(** ComputeStatus: failed / blocked / running always comes with a witness node in that state *)
Lemma last_verdict_witness t seq : forall acc r v,
  last_verdict t seq acc = (r, v) ->
  acc = (r, v) \/
  (In v seq /\ match r with
               | TrFailed => status_of t v = TFailed \/ status_of t v = TCanceled
               | TrBlocked => status_of t v = TBlocked
               | TrRunning => is_active_st (status_of t v) = true
               | TrSuccess => False
               end).
Proof.
  induction seq as [|x seq IH]; intros acc r v H; simpl in H; [left; exact H|].
  destruct (status_of t x) eqn:E;
    try (injection H as <- <-; right; split; [left; reflexivity|rewrite E; reflexivity]);
    try (apply IH in H as [H|[H1 H2]]; [left; exact H|right; split; [right; exact H1|exact H2]]);
    try (apply IH in H as [H|[H1 H2]];
         [injection H as <- <-; right; split; [left; reflexivity|rewrite E; auto]
         |right; split; [right; exact H1|exact H2]]).
Qed.

Theorem compute_status_failed_witness t v :
  compute_status t = Some (TrFailed, v) -> status_of t v = TFailed \/ status_of t v = TCanceled.
Proof.
  unfold compute_status. destruct (walk t _ (walk_fuel t)) as [[seq st]|]; [|discriminate].
  intros H; injection H as H. apply last_verdict_witness in H as [H|[_ H]]; [discriminate|exact H].
Qed.

Theorem compute_status_blocked_witness t v :
  compute_status t = Some (TrBlocked, v) -> status_of t v = TBlocked.
Proof.
  unfold compute_status. destruct (walk t _ (walk_fuel t)) as [[seq st]|]; [|discriminate].
  intros H; injection H as H. apply last_verdict_witness in H as [H|[_ H]]; [discriminate|exact H].
Qed.

Theorem compute_status_running_witness t v :
  compute_status t = Some (TrRunning, v) -> is_active_st (status_of t v) = true.
Proof.
  unfold compute_status. destruct (walk t _ (walk_fuel t)) as [[seq st]|]; [|discriminate].
  intros H; injection H as H. apply last_verdict_witness in H as [H|[_ H]]; [discriminate|exact H].
Qed.

(** a skipped task enables its dependents exactly like a successful one (C13) *)
Theorem skipped_like_success t u :
  status_of t u = TSkipped \/ status_of t u = TSuccess -> gnode_ok t (Some u) = true.
Proof. intros [H|H]; simpl; rewrite H; reflexivity. Qed.

Theorem blocked_enables_nothing t u :
  status_of t u = TBlocked -> gnode_ok t (Some u) = false.
Proof. intros H; simpl; rewrite H; reflexivity. Qed.

(** statuses that the tree never hands to the executor: a task persisted as running (its main
    action had started), finished, failed, canceled or blocked is not executable (C04) *)
Theorem not_executable_status t g :
  match status_of t g with
  | TRunning | TSuccess | TSkipped | TFailed | TCanceled | TBlocked => executable t g = false
  | _ => True
  end.
Proof. unfold executable. destruct (status_of t g); simpl; auto. Qed.

(** marking children canceled (cancelChildTasks) makes them enable nothing downstream *)
Theorem canceled_enables_nothing t u : status_of t u = TCanceled -> gnode_ok t (Some u) = false.
Proof. intros H; simpl; rewrite H; reflexivity. Qed.
