(** C14: the watchdog sweeps select exactly the overdue records and change nothing else. *)
From Coq Require Import List ZArith Bool Arith Lia.
From FF Require Import Sx StoreModel StoreFacts.
Import ListNotations.
Local Open Scope Z_scope.

(** a task is selected by the expired sweep iff it is recorded running and its last update is
    at least timeout + 5 seconds old *)
Theorem expired_selected_iff now s r :
  In r (expired_selected now s) <->
  In r (tasks s) /\ t_status r = 2 /\ t_upd r <= now - 5 - t_timeout r.
Proof.
  unfold expired_selected. rewrite list_tasks_exact. unfold task_matches, expired. simpl.
  rewrite !andb_true_r. rewrite orb_false_r. split.
  - intros [Hin H]. apply andb_true_iff in H as [H1 H2].
    apply Z.eqb_eq in H1. apply Z.leb_le in H2. auto.
  - intros [Hin [H1 H2]]. split; [exact Hin|]. apply andb_true_iff. split; [apply Z.eqb_eq|apply Z.leb_le]; assumption.
Qed.

(** in particular never early and never in another status *)
Corollary expired_never_early now s r :
  In r (expired_selected now s) -> t_status r = 2 /\ now >= t_upd r + t_timeout r + 5.
Proof. intros H. apply expired_selected_iff in H as [_ [H1 H2]]. split; [exact H1|lia]. Qed.

Lemma expired_fold_other now sel : forall s id,
  id <> 0 -> (forall r, In r sel -> t_id r <> id) -> (forall r, In r sel -> t_id r <> 0) ->
  get_task (fold_left (fun acc r =>
               let acc1 := fst (patch_ins now acc (t_ins r) None 5 None false 0 0 false) in
               fst (patch_task now acc1 (t_id r) 5 1 [])) sel s) id = get_task s id.
Proof.
  induction sel as [|r rest IH]; intros s id Hid Hne Hnz; cbn [fold_left]; [reflexivity|].
  set (s1 := fst (patch_task now (fst (patch_ins now s (t_ins r) None 5 None false 0 0 false)) (t_id r) 5 1 [])).
  transitivity (get_task s1 id).
  - apply IH; [exact Hid|intros x Hx; apply Hne; right; exact Hx|intros x Hx; apply Hnz; right; exact Hx].
  - unfold s1.
    pose proof (patch_task_frame now (fst (patch_ins now s (t_ins r) None 5 None false 0 0 false)) (t_id r) 5 1 []
                  (Hnz r (or_introl eq_refl))) as (_ & Hother & _).
    rewrite Hother by (intro E; apply (Hne r (or_introl eq_refl)); congruence).
    unfold get_task. pose proof (patch_ins_frame now s (t_ins r) None 5 None false 0 0 false) as (Ht & _).
    cbv zeta in Ht. rewrite Ht. reflexivity.
Qed.

(** a task that the sweep did not select is left exactly as it was *)
Theorem expired_round_frame now s id :
  id <> 0 -> (forall r, In r (tasks s) -> t_id r <> 0) ->
  (forall r, In r (expired_selected now s) -> t_id r <> id) ->
  get_task (expired_round now s) id = get_task s id.
Proof.
  intros Hid Hnz Hne. unfold expired_round. apply expired_fold_other; auto.
  intros r Hr. apply Hnz. apply expired_selected_iff in Hr as [Hr _]. exact Hr.
Qed.

(** left-behind sweep: selected iff scheduled and not updated for the schedule timeout *)
Theorem left_behind_selected_iff now timeout s i :
  0 < now - timeout ->
  (In i (left_behind_selected now timeout s) <->
   In i (insts s) /\ i_status i = 2 /\ i_upd i <= now - timeout).
Proof.
  intros Hpos. unfold left_behind_selected. rewrite list_ins_exact_nolimit by (simpl; lia).
  unfold ins_matches. simpl. rewrite !andb_true_r. rewrite orb_false_r.
  destruct (Z.ltb_spec 0 (now - timeout)) as [Hlt|Hge]; [|lia]. simpl. split.
  - intros [Hin Hm]. apply andb_true_iff in Hm as [H1 H2].
    apply Z.eqb_eq in H1. apply Z.leb_le in H2. auto.
  - intros [Hin [H1 H2]]. split; [exact Hin|]. apply andb_true_iff. split; [apply Z.eqb_eq|apply Z.leb_le]; assumption.
Qed.

(** an instance that has been started (any status but scheduled), or has not waited long
    enough, is not selected *)
Corollary started_not_sent_back now timeout s i :
  0 < now - timeout -> In i (left_behind_selected now timeout s) -> i_status i = 2 /\ i_upd i + timeout <= now.
Proof. intros Hp H. apply (left_behind_selected_iff now timeout s i Hp) in H as [_ [H1 H2]]. split; [exact H1|lia]. Qed.

Theorem action_timeout_spec dflt own :
  action_timeout dflt own = (if Z.eqb own 0 then dflt else own).
Proof. reflexivity. Qed.

(* non-vacuity *)
Example expired_example :
  let s := mkS [mkI 9 1 3 0 None None 0 (L [])] [mkT 1 9 1 [] 30 2 0 [] 100 (L []); mkT 2 9 2 [] 30 2 0 [] 120 (L [])] in
  map (fun r => (t_id r, t_status r)) (tasks (expired_round 140 s)) = [(1, 5); (2, 2)]
  /\ map i_status (insts (expired_round 140 s)) = [5].
Proof. split; reflexivity. Qed.
