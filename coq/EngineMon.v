(** EngineMon: the engine properties as boolean functions of a journal.

    A journal is the totally ordered list of what one worker did in a scenario:
    every store call (operation, reply, origin, injected fault), every action
    phase start/end, every shared-data / trace call, harness calls, crashes,
    clock advances and quiescence points.  The persisted state at any position
    is reconstructed by running [StoreModel.sstep] over the store calls seen so
    far, so every monitor judges "recorded as ..." against the acknowledged
    store history, exactly as the properties are phrased. *)
From Coq Require Import List ZArith Bool Arith.
From FF Require Import Sx StoreModel StoreCheck PreCheck TaskRun Vars.
Import ListNotations.
Local Open Scope Z_scope.

(* status codes as stored (= tree code + 1) *)
Definition sInit := 1. Definition sRunning := 2. Definition sEnding := 3. Definition sSuccess := 4.
Definition sFailed := 5. Definition sCanceled := 6. Definition sRetrying := 7. Definition sBlocked := 8.
Definition sContinue := 9. Definition sSkipped := 10.
Definition iInit := 1. Definition iScheduled := 2. Definition iRunning := 3. Definition iBlocked := 4.
Definition iFailed := 5. Definition iSuccess := 6.
(* command names *)
Definition cRetry := 1. Definition cCancel := 2. Definition cContinue := 3.

Definition fin_st (s : Z) : bool := Z.eqb s sSuccess || Z.eqb s sSkipped.

Fixpoint aget {A} (d : A) (l : list (Z * A)) (k : Z) : A :=
  match l with [] => d | (k', v) :: r => if Z.eqb k k' then v else aget d r k end.
Definition aset {A} (l : list (Z * A)) (k : Z) (v : A) : list (Z * A) :=
  (k, v) :: filter (fun p => negb (Z.eqb (fst p) k)) l.

Definition find_task (s : store) (id : Z) : option trec := find (fun r => Z.eqb (t_id r) id) (tasks s).
Definition find_ins (s : store) (id : Z) : option irec := find (fun r => Z.eqb (i_id r) id) (insts s).
Definition tasks_of (s : store) (ins : Z) : list trec := filter (fun r => Z.eqb (t_ins r) ins) (tasks s).
Definition task_by_gid (s : store) (ins g : Z) : option trec :=
  find (fun r => Z.eqb (t_ins r) ins && Z.eqb (t_gid r) g) (tasks s).

(** violation = (property number, event index, clause code, subject id) *)
Definition viol := (Z * Z * Z * Z)%type.

Record mst := mkM {
  m_store : store;
  m_idx : Z;
  m_viol : list viol;
  m_crashed : bool;          (* a crash happened earlier in this journal *)
  m_closed : bool;           (* Close has returned in the live incarnation *)
  m_alive : list (Z * Z);    (* runs alive in the live incarnation: (task, phase) *)
  m_traced : list (Z * list Z);  (* task -> messages traced so far *)
  m_keys : list (Z * list Z);    (* instance -> shared-data keys stored so far *)
  m_flags : list (Z * Z);        (* (kind, id) -> value, see the kinds below *)
  m_cancelreq : list Z;          (* tasks whose in-flight run was cancelled by a processed command *)
  m_own : Z;                     (* the worker's own key (0 until seen) *)
  m_aux : list (Z * sx) }.       (* scenario facts: pre-checks per task (kind 1, graph id), variables per instance (kind 2) *)

Definition m0 : mst := mkM empty_store 0 [] false false [] [] [] [] [] 0 [].

Definition set_store m v := mkM v (m_idx m) (m_viol m) (m_crashed m) (m_closed m) (m_alive m) (m_traced m) (m_keys m) (m_flags m) (m_cancelreq m) (m_own m) (m_aux m).
Definition set_idx m v := mkM (m_store m) v (m_viol m) (m_crashed m) (m_closed m) (m_alive m) (m_traced m) (m_keys m) (m_flags m) (m_cancelreq m) (m_own m) (m_aux m).
Definition set_viol m v := mkM (m_store m) (m_idx m) v (m_crashed m) (m_closed m) (m_alive m) (m_traced m) (m_keys m) (m_flags m) (m_cancelreq m) (m_own m) (m_aux m).
Definition set_crashed m v := mkM (m_store m) (m_idx m) (m_viol m) v (m_closed m) (m_alive m) (m_traced m) (m_keys m) (m_flags m) (m_cancelreq m) (m_own m) (m_aux m).
Definition set_closed m v := mkM (m_store m) (m_idx m) (m_viol m) (m_crashed m) v (m_alive m) (m_traced m) (m_keys m) (m_flags m) (m_cancelreq m) (m_own m) (m_aux m).
Definition set_alive m v := mkM (m_store m) (m_idx m) (m_viol m) (m_crashed m) (m_closed m) v (m_traced m) (m_keys m) (m_flags m) (m_cancelreq m) (m_own m) (m_aux m).
Definition set_traced m v := mkM (m_store m) (m_idx m) (m_viol m) (m_crashed m) (m_closed m) (m_alive m) v (m_keys m) (m_flags m) (m_cancelreq m) (m_own m) (m_aux m).
Definition set_keys m v := mkM (m_store m) (m_idx m) (m_viol m) (m_crashed m) (m_closed m) (m_alive m) (m_traced m) v (m_flags m) (m_cancelreq m) (m_own m) (m_aux m).
Definition set_flags m v := mkM (m_store m) (m_idx m) (m_viol m) (m_crashed m) (m_closed m) (m_alive m) (m_traced m) (m_keys m) v (m_cancelreq m) (m_own m) (m_aux m).
Definition set_cancelreq m v := mkM (m_store m) (m_idx m) (m_viol m) (m_crashed m) (m_closed m) (m_alive m) (m_traced m) (m_keys m) (m_flags m) v (m_own m) (m_aux m).
Definition set_own m v := mkM (m_store m) (m_idx m) (m_viol m) (m_crashed m) (m_closed m) (m_alive m) (m_traced m) (m_keys m) (m_flags m) (m_cancelreq m) v (m_aux m).

Definition set_aux m v := mkM (m_store m) (m_idx m) (m_viol m) (m_crashed m) (m_closed m) (m_alive m) (m_traced m) (m_keys m) (m_flags m) (m_cancelreq m) (m_own m) v.

Definition add_viol (m : mst) (p c subj : Z) : mst := set_viol m ((p, m_idx m, c, subj) :: m_viol m).

(** flag kinds: 1 main-action starts since the last retrying write; 2 main action returned ok in this
    attempt; 3 last phase end (phase*10+outcome+1); 4 last status write (status*2+acknowledged);
    5 phase that ended in error/panic and awaits its terminal write (phase+1); 6 last share save failed;
    7 blocked and not continued; 8 finished (success/skipped stored); 9 some share save of the instance
    failed or lost its reply; 10 last trace patch of the task failed; 11 tasks changed by the command
    being processed for the instance; 12 instance was started (running stored) *)
Definition fkey (kind id : Z) : Z := kind * 1000000000 + id.
Definition fget (m : mst) (kind id : Z) : Z := aget 0 (m_flags m) (fkey kind id).
Definition fset (m : mst) (kind id v : Z) : mst := set_flags m (aset (m_flags m) (fkey kind id) v).
Definition fclear_kind (m : mst) (kind : Z) : mst :=
  set_flags m (filter (fun p => negb (Z.eqb (fst p / 1000000000) kind)) (m_flags m)).

(* ------------------------------------------------------------------ life cycles (C15) *)
Definition task_edge (a b : Z) : bool :=
  Z.eqb a b ||
  match a with
  | 1 (* init *) => zin b [sRunning; sFailed; sCanceled; sBlocked; sSkipped]
  | 2 (* running *) => zin b [sEnding; sFailed; sCanceled]
  | 3 (* ending *) => zin b [sSuccess; sFailed; sCanceled]
  | 5 | 6 (* failed, canceled *) => Z.eqb b sRetrying
  | 7 (* retrying *) => zin b [sInit; sFailed; sCanceled; sBlocked; sSkipped]
  | 8 (* blocked *) => Z.eqb b sContinue
  | 9 (* continue *) => zin b [sRunning; sFailed; sCanceled; sSkipped]
  | _ => false (* success, skipped: final *)
  end.

(** origin: 0 engine, 1 scheduled-watch, 2 cmd-watch, 3 watchdog(expired), 4 watchdog(left-behind),
    5 dispatcher, 6 commander, 7 start-up, 8 close, 9 scenario set-up (the dispatch round the harness runs) *)
Definition ins_edge (origin a b : Z) : bool :=
  Z.eqb a b ||
  match a with
  | 1 (* init *) => Z.eqb b iScheduled && zin origin [5; 9]
  | 2 (* scheduled *) => (Z.eqb b iRunning) || (Z.eqb b iInit && Z.eqb origin 4)
  | 3 (* running *) => zin b [iSuccess; iFailed; iBlocked]
  | 4 (* blocked *) => (Z.eqb b iRunning && Z.eqb origin 2) || Z.eqb b iFailed
  | 5 (* failed *) => (Z.eqb b iRunning && Z.eqb origin 2) || Z.eqb b iBlocked
  | _ => false (* success: final *)
  end.

Definition check_task_edges (m : mst) (origin : Z) (before after : store) : mst :=
  if Z.eqb origin 9 then m else
  fold_left (fun acc r =>
    match find_task before (t_id r) with
    | Some r0 => if task_edge (t_status r0) (t_status r) then acc
                 else add_viol acc 15 (100 * t_status r0 + t_status r) (t_id r)
    | None => if Z.eqb (t_status r) sInit then acc else add_viol acc 15 (t_status r) (t_id r)
    end) (tasks after) m.

Definition check_ins_edges (m : mst) (origin : Z) (before after : store) : mst :=
  if Z.eqb origin 9 then m (* scenario set-up writes (dispatch by the harness, foreign populations) *) else
  fold_left (fun acc r =>
    match find_ins before (i_id r) with
    | Some r0 => if ins_edge origin (i_status r0) (i_status r) then acc
                 else add_viol acc 15 (10000 + 100 * i_status r0 + i_status r) (i_id r)
    | None => if Z.eqb (i_status r) iInit then acc else add_viol acc 15 (10000 + i_status r) (i_id r)
    end) (insts after) m.

(* ------------------------------------------------------------------ verdict agreement (C03) *)
Definition verdict_ok (s : store) (i : irec) : bool :=
  let ts := tasks_of s (i_id i) in
  let all_fin := forallb (fun r => fin_st (t_status r)) ts in
  let some_fail := existsb (fun r => Z.eqb (t_status r) sFailed || Z.eqb (t_status r) sCanceled) ts in
  let some_blocked := existsb (fun r => Z.eqb (t_status r) sBlocked) ts in
  if Z.eqb (i_status i) iSuccess then all_fin
  else if Z.eqb (i_status i) iFailed then some_fail
  else if Z.eqb (i_status i) iBlocked then some_blocked
  else if Z.eqb (i_status i) iRunning then false
  else true.  (* init / scheduled: not started *)

Definition has_alive_run (m : mst) (ins : Z) : bool :=
  existsb (fun p => match find_task (m_store m) (fst p) with
                    | Some r => Z.eqb (t_ins r) ins | None => false end) (m_alive m).

Definition own_ins (m : mst) (i : irec) : bool := Z.eqb (m_own m) 0 || Z.eqb (i_worker i) (m_own m).

(** quiescence point of a run without crash: every started instance of this worker without a
    pending command and without a live run is settled and its verdict agrees with its tasks *)
Definition check_quiescent (m : mst) : mst :=
  if m_crashed m || m_closed m || Z.eqb (aget 0 (m_flags m) (14 * 1000000000)) 1 then m
  else fold_left (fun acc i =>
         match i_cmd i with
         | Some _ => acc
         | None =>
             if negb (own_ins acc i) || has_alive_run acc (i_id i) then acc
             else if verdict_ok (m_store acc) i then acc
             else add_viol acc 3 (i_status i + (if Z.eqb (fget acc 13 (i_id i)) 1 then 100 else 0)) (i_id i)
         end) (insts (m_store m)) m.

Fixpoint has_dup_gid (l : list trec) : bool :=
  match l with
  | [] => false
  | r :: rest => existsb (fun x => Z.eqb (t_ins x) (t_ins r) && Z.eqb (t_gid x) (t_gid r)) rest || has_dup_gid rest
  end.

(** final point of a run with crashes (after the fair completion driven by the harness) *)
Definition check_final (m : mst) : mst :=
  let m1 := if has_dup_gid (tasks (m_store m)) then add_viol m 4 3 0 else m in
  if negb (m_crashed m1) || m_closed m1 || Z.eqb (aget 0 (m_flags m1) (14 * 1000000000)) 1 then m1
  else fold_left (fun acc i =>
         match i_cmd i with
         | Some _ => acc
         | None =>
             if negb (own_ins acc i) || has_alive_run acc (i_id i) then acc
             else if verdict_ok (m_store acc) i then acc
             else add_viol acc 4 (i_status i + (if Z.eqb (fget acc 13 (i_id i)) 1 then 100 else 0)) (i_id i)
         end) (insts (m_store m1)) m1.

(* ------------------------------------------------------------------ dependency closure (C12) *)
Fixpoint ancestors (fuel : nat) (barrier : Z -> bool) (s : store) (ins : Z) (frontier acc : list Z) : list Z :=
  match fuel with
  | O => acc
  | S f =>
      match frontier with
      | [] => acc
      | g :: rest =>
          if zin g acc then ancestors f barrier s ins rest acc
          else match task_by_gid s ins g with
               | Some r => if barrier (t_id r) then ancestors f barrier s ins rest (g :: acc)   (* counted, not looked through *)
                           else ancestors f barrier s ins (t_deps r ++ rest) (g :: acc)
               | None => ancestors f barrier s ins rest (g :: acc)
               end
      end
  end.

(** upstream tasks of r, not looking through tasks the operator re-armed by a retry command
    after the cancellation ([barrier]) *)
Definition ancestor_tasks (barrier : Z -> bool) (s : store) (r : trec) : list trec :=
  let n := length (tasks s) in
  let gs := ancestors (S (n * n + n)) barrier s (t_ins r) (t_deps r) [] in
  filter (fun x => Z.eqb (t_ins x) (t_ins r) && zin (t_gid x) gs) (tasks s).

(** the DAG's definition of the task (scenario fact): effective timeout and dependencies *)
Definition declared (m : mst) (g : Z) : option (Z * list Z) :=
  match aget (L []) (m_aux m) (fkey 3 g) with
  | L [I to; deps] => match sx_ints deps with
                      | Some d => Some ((if Z.eqb to 0 then fget m 21 0 else to), d)
                      | None => None end
  | _ => None
  end.

(** C05: a record created by the scheduled-watch carries the DAG's definition of its task *)
Definition check_created (m : mst) (origin : Z) (l : list trec) : mst :=
  if negb (Z.eqb origin 1) then m else
  fold_left (fun acc r =>
    match declared acc (t_gid r) with
    | Some (to, deps) =>
        let acc := if Z.eqb (t_timeout r) to then acc else add_viol acc 5 1 (t_gid r) in
        let acc := if list_eqb Z.eqb (t_deps r) deps then acc else add_viol acc 5 4 (t_gid r) in
        if Z.eqb (t_status r) sInit then acc else add_viol acc 5 5 (t_gid r)
    | None => acc
    end) l m.

(** C05: exactly one record per DAG task once the instance is marked running *)
Definition check_instantiated (m : mst) (s' : store) (id : Z) : mst :=
  let ts := tasks_of s' id in
  let m := if has_dup_gid ts then add_viol m 5 2 id else m in
  fold_left (fun acc p =>
    (* every declared task (aux kind 3) must have a record *)
    if Z.eqb (fst p / 1000000000) 3 then
      let g := fst p mod 1000000000 in
      if existsb (fun r => Z.eqb (t_gid r) g) ts then acc else add_viol acc 5 3 id
    else acc) (m_aux m) m.

(* ------------------------------------------------------------------ processing of one event *)
Definition remove_one (p : Z * Z) (l : list (Z * Z)) : list (Z * Z) :=
  (fix go (l : list (Z * Z)) : list (Z * Z) :=
     match l with
     | [] => []
     | x :: r => if Z.eqb (fst x) (fst p) && Z.eqb (snd x) (snd p) then r else x :: go r
     end) l.

Definition subset (a b : list Z) : bool := forallb (fun x => zin x b) a.

(** effects and checks of an APPLIED store write *)
(** the cmd watcher's command-clearing write for a retry/continue that re-armed no task *)
Definition is_noop_cmd_write (m : mst) (origin : Z) (o : sop) (s : store) : bool :=
  match o with
  | OPatchIns id _ _ None true _ _ _ =>
      Z.eqb origin 2 && Z.eqb (fget m 11 id) 0 &&
      match find_ins s id with
      | Some i0 => match i_cmd i0 with
                   | Some (name, _) => Z.eqb name cRetry || Z.eqb name cContinue
                   | None => false
                   end
      | None => false
      end
  | _ => false
  end.

Definition on_write (m : mst) (origin : Z) (o : sop) (acked : bool) (s s' : store) : mst :=
  let m := check_task_edges m origin s s' in
  let noop := is_noop_cmd_write m origin o s in
  let m := let m1 := check_ins_edges m origin s s' in
           if noop then
             (* attribute life-cycle breaks of that write to the no-op command (distinct clause codes) *)
             set_viol m1 (map (fun v => match v with
                                        | (p, i, c, sj) => if Z.eqb p 15 && Z.eqb i (m_idx m1) && (10000 <=? c) && (c <? 20000)
                                                           then (p, i, c + 10000, sj) else v
                                        end) (m_viol m1))
           else m1 in
  let m := match o with
           | OPatchIns id _ st _ _ _ _ _ =>
               if noop && negb (Z.eqb st 0) then fset m 13 id 1 else m
           | _ => m
           end in
  (* watchdog sweeps (origins 3, 4) are read-then-unconditional-write: a write that lands on a record the
     owner changed in between is attributed to the sweep (distinct clause codes), and judged for C14 *)
  let m := if zin origin [3; 4] then
             set_viol m (map (fun v => match v with
                                       | (p, i, c, sj) => if Z.eqb p 15 && Z.eqb i (m_idx m) && (c <? 30000)
                                                          then (p, i, c + 30000, sj) else v
                                       end) (m_viol m))
           else m in
  let m := match o with
           | OPatchTask id st _ _ =>
               if Z.eqb origin 3 && Z.eqb st sFailed then
                 match find_task s id with
                 | Some r0 =>
                     let m := if Z.eqb (t_status r0) sRunning then m else add_viol m 14 3 id in
                     (* never before the task's timeout (own or worker default) plus the grace period;
                        2 s of slack for whole-second timestamps *)
                     match declared m (t_gid r0) with
                     | Some (to, _) => if Z.eqb (t_status r0) sRunning && (fget m 22 0 - t_upd r0 <? to + 5 - 2)
                                       then add_viol m 14 4 id else m
                     | None => m
                     end
                 | None => m
                 end
               else m
           | OUpdateIns r | OBatchUpdateIns [r] _ =>
               if Z.eqb origin 4 && Z.eqb (i_status r) iInit then
                 match find_ins s (i_id r) with
                 | Some i0 => if Z.eqb (i_status i0) iScheduled then m else add_viol m 14 2 (i_id r)
                 | None => m
                 end
               else m
           | _ => m
           end in
  (* per-task status changes *)
  let m := fold_left (fun acc r =>
     let old := match find_task s (t_id r) with Some r0 => t_status r0 | None => 0 end in
     if Z.eqb old (t_status r) then acc
     else
       let acc := if Z.eqb (t_status r) sSuccess
                  then (if Z.eqb (fget acc 2 (t_id r)) 1
                           && (let le := fget acc 3 (t_id r) in Z.eqb le 0 || Z.eqb (le mod 10) 1)
                        then acc else add_viol acc 2 3 (t_id r))
                  else acc in
       let acc := if Z.eqb (t_status r) sRetrying
                  then set_cancelreq (fset (fset (fset acc 15 (t_id r) 1) 1 (t_id r) 0) 2 (t_id r) 0)
                                     (filter (fun x => negb (Z.eqb x (t_id r))) (m_cancelreq acc))
                  else acc in
       let acc := if Z.eqb (t_status r) sBlocked then fset acc 7 (t_id r) 1 else acc in
       let acc := if Z.eqb (t_status r) sContinue then fset acc 7 (t_id r) 0 else acc in
       let acc := if fin_st (t_status r) then fset acc 8 (t_id r) 1 else acc in
       acc) (tasks s') m in
  let m := fold_left (fun acc i => if Z.eqb (i_status i) iRunning then fset acc 12 (i_id i) 1 else acc) (insts s') m in
  let m := match o with
           | OBatchCreateTasks l _ => check_created m origin l
           | OPatchIns id _ st _ _ _ _ _ =>
               if Z.eqb origin 1 && Z.eqb st iRunning then check_instantiated m s' id else m
           | _ => m
           end in
  match o with
  | OPatchTask id st rs tr =>
      let m := if Z.eqb st 0 then m else fset m 4 id (st * 2 + (if acked then 1 else 0)) in
      (* containment: the first status write after a failed phase is failed/canceled with a reason *)
      let m := if negb (Z.eqb st 0) && negb (Z.eqb (fget m 5 id) 0) && Z.eqb origin 0 then
                 fset (if (Z.eqb st sFailed || Z.eqb st sCanceled) && negb (Z.eqb rs 0) then m
                       else add_viol m 3 50 id) 5 id 0
               else m in
      (* traces: every message traced so far is in the stored log once the task settles *)
      let m := if Z.eqb origin 0 && zin st [sSuccess; sFailed; sCanceled] then
                 match find_task s' id with
                 | Some r => if subset (aget [] (m_traced m) id) (t_traces r) then m
                             else add_viol m 18 (if Z.eqb (fget m 20 id) 1 then 12 else 2) id
                 | None => m
                 end
               else m in
      let m := match tr with [] => m | _ => fset m 10 id 0 end in
      m
  | OPatchIns id sh st cmd must_cmd wk rs must_rs =>
      let m := match sh with
               | Some d =>
                   let keys := map fst d in
                   (* keys never lost; clause 7 when the write is not an action's Set (a watcher, the commander) *)
                   let m := if subset (aget [] (m_keys m) id) keys then m else add_viol m 18 (if Z.eqb origin 0 then 3 else 7) id in
                   let m := set_keys m (aset (m_keys m) id keys) in
                   let m := fset m 6 id (if acked then 0 else 1) in
                   if acked then m else fset m 9 id 1
               | None => m
               end in
      (* only the commander stores a command: any other writer doing so resurrects / invents one *)
      let m := match cmd with
               | Some _ => if zin origin [6; 9] then m else add_viol m 11 4 id
               | None => m
               end in
      (* a command is rejected while another one is pending: the commander never overwrites a stored command *)
      let m := match cmd, find_ins s id with
               | Some _, Some i0 => match i_cmd i0 with
                                    | Some _ => if Z.eqb origin 6 then add_viol m 11 6 id else m
                                    | None => m
                                    end
               | _, _ => m
               end in
      (* command processing by the cmd watcher: the clearing write *)
      if Z.eqb origin 2 && must_cmd && match cmd with None => true | Some _ => false end then
        match find_ins s id with
        | Some i0 =>
            match i_cmd i0 with
            | Some (name, targets) =>
                let m := if (Z.eqb name cRetry || Z.eqb name cContinue) && Z.eqb (fget m 11 id) 0
                            && negb (Z.eqb st 0) && negb (Z.eqb st (i_status i0))
                         then add_viol m 11 2 id else m in
                (* every eligible target the watcher read has been re-armed *)
                let m := if (Z.eqb name cRetry || Z.eqb name cContinue) && existsb (fun t => Z.eqb (fget m 30 t) 1) targets
                         then add_viol m 11 5 id else m in
                let m := fold_left (fun acc t => fset acc 30 t 0) targets m in
                let m := if Z.eqb name cCancel
                         then let hit := filter (fun t => existsb (fun p => Z.eqb (fst p) t) (m_alive m)) targets in
                              set_cancelreq m (hit ++ m_cancelreq m)
                         else m in
                fset m 11 id 0
            | None => m
            end
        | None => m
        end
      else m
  | OUpdateTask r =>
      if Z.eqb origin 2 then
        match find_task s (t_id r), find_ins s (t_ins r) with
        | Some r0, Some i0 =>
            match i_cmd i0 with
            | Some (name, targets) =>
                let ok := zin (t_id r) targets
                          && ((Z.eqb name cRetry && (Z.eqb (t_status r0) sFailed || Z.eqb (t_status r0) sCanceled) && Z.eqb (t_status r) sRetrying)
                              || (Z.eqb name cContinue && Z.eqb (t_status r0) sBlocked && Z.eqb (t_status r) sContinue))
                          && Z.eqb (t_gid r0) (t_gid r) && Z.eqb (t_ins r0) (t_ins r)
                          && list_eqb Z.eqb (t_deps r0) (t_deps r) && Z.eqb (t_timeout r0) (t_timeout r) in
                let m := if ok then m else add_viol m 11 1 (t_id r) in
                let m := fset m 30 (t_id r) 0 in
                fset (fset m 13 (t_ins r) 0) 11 (t_ins r) (fget m 11 (t_ins r) + 1)
            | None => add_viol m 11 3 (t_id r)
            end
        | _, _ => m
        end
      else m
  | _ => m
  end.

(** possible pre-check outcomes of task r if it were pushed now with in-memory status [st] *)
Definition pre_now (m : mst) (r : trec) (st : Z) : list Z :=
  match aget (L []) (m_aux m) (fkey 1 (t_gid r)), aget (L []) (m_aux m) (fkey 2 (t_ins r)) with
  | L cks, vars =>
      match opt_map chk_of_sx cks, kvs_of_sx vars with
      | Some ks, Some v =>
          let share := match find_ins (m_store m) (t_ins r) with
                       | Some i => match i_share i with Some d => d | None => [] end
                       | None => [] end in
          pre_outcomes st ks v share
      | _, _ => []
      end
  | _, _ => []
  end.

(** the shared data of the task's instance has not been saved since the task was last read from
    the store (so a pre-check evaluated at push time saw what the store holds now) *)
Definition pre_fresh (m : mst) (r : trec) : bool := fget m 17 (t_ins r) <? fget m 18 (t_id r).

Definition note_reads (m : mst) (reply : sx) : mst :=
  match reply with
  | L [I 6; L recs] =>
      fold_left (fun acc x => match trec_of_sx x with Some r => fset acc 18 (t_id r) (m_idx acc) | None => acc end) recs m
  | L [I 4; x] => match trec_of_sx x with Some r => fset m 18 (t_id r) (m_idx m) | None => m end
  | _ => m
  end.

(** per-task program counter of the executor run (TaskRun), kept in flag kind 19 *)
Definition pc_code (p : pc) : Z :=
  match p with
  | Idle => 0 | InBefore => 1 | NeedRunning => 2 | NeedRunStart => 3 | InRun => 4 | NeedEnding => 5
  | NeedAfterOrSuccess => 6 | InAfter => 7 | NeedSuccess => 8 | InRetry => 9 | NeedInit => 10 | NeedFail => 11
  end.
Definition pc_of_code (z : Z) : pc :=
  match z with
  | 1 => InBefore | 2 => NeedRunning | 3 => NeedRunStart | 4 => InRun | 5 => NeedEnding
  | 6 => NeedAfterOrSuccess | 7 => InAfter | 8 => NeedSuccess | 9 => InRetry | 10 => NeedInit | 11 => NeedFail
  | _ => Idle
  end.

Definition ev_tid (ev : sx) : option Z :=
  match ev with
  | L [I 1; _; op; _; _; _] =>
      match sop_of_sx op with
      | Some (OPatchTask id _ _ _) => Some id
      | Some (OUpdateTask r) => Some (t_id r)
      | _ => None
      end
  | L [I 2; I t; _; _; _; _; _] => Some t
  | L [I 3; I t; _; _; _] => Some t
  | _ => None
  end.

(** advance the run program counter of the task the event belongs to; a run that BEGINS for a task
    whose in-flight run was cancelled (and that was not retried since) violates C12 *)
Definition track_pc (m : mst) (ev : sx) : mst :=
  match ev_tid ev with
  | None => m
  | Some tid =>
      fold_left (fun acc te =>
        let p := pc_of_code (fget acc 19 tid) in
        match acc_step p te with
        | Some p' =>
            let acc := if pc_eqb p Idle && negb (pc_eqb p' Idle) && zin tid (m_cancelreq acc)
                       then add_viol acc 12 2 tid else acc in
            fset acc 19 tid (pc_code p')
        | None => fset acc 19 tid 0
        end) (project_event tid ev) m
  end.

Definition mstep0 (m : mst) (ev : sx) : mst :=
  let m := set_idx m (m_idx m + 1) in
  match ev with
  | L [I 1; I now; op; reply; I origin; I fault] =>
      match sop_of_sx op with
      | None => m   (* dag operations and the like *)
      | Some o =>
          (* own worker key: the first worker-filtered list of the start-up / watchers *)
          let m := match o with
                   | OListIns f => if Z.eqb (m_own m) 0 && negb (Z.eqb (if_worker f) 0) && zin origin [1; 2; 7]
                                   then set_own m (if_worker f) else m
                   | _ => m
                   end in
          (* worker isolation (C06): own-duty reads are worker-filtered, own-duty writes hit own instances *)
          let m := match o with
                   | OListIns f => if zin origin [1; 2; 7] && Z.eqb (if_worker f) 0 then add_viol m 6 1 0 else m
                   | OPatchIns id _ _ _ _ _ _ _ =>
                       if zin origin [0; 1; 2; 7] then
                         match find_ins (m_store m) id with
                         | Some i => if own_ins m i then m else add_viol m 6 2 id
                         | None => m
                         end
                       else m
                   | OUpdateTask r0 =>
                       if zin origin [0; 1; 2; 7] then
                         match find_task (m_store m) (t_id r0) with
                         | Some r => match find_ins (m_store m) (t_ins r) with
                                     | Some i => if own_ins m i then m else add_viol m 6 4 (t_id r0)
                                     | None => m
                                     end
                         | None => m
                         end
                       else m
                   | OPatchTask id _ _ _ =>
                       if zin origin [0; 1; 2; 7] then
                         match find_task (m_store m) id with
                         | Some r => match find_ins (m_store m) (t_ins r) with
                                     | Some i => if own_ins m i then m else add_viol m 6 3 id
                                     | None => m
                                     end
                         | None => m
                         end
                       else m
                   | _ => m
                   end in
          let m := if Z.eqb fault 1 then m else note_reads m reply in
          (* C14: the expired sweep never selects a task before its timeout (own or worker default) plus
             the grace period has elapsed since its last update, nor a task that is not running *)
          let m := match o, reply with
                   | OListTasks f, L [I 6; L recs] =>
                       if Z.eqb origin 3 && tf_expired f && negb (Z.eqb fault 1) then
                         fold_left (fun acc x =>
                           match trec_of_sx x with
                           | Some r1 =>
                               match find_task (m_store acc) (t_id r1), declared acc (t_gid r1) with
                               | Some r0, Some (to, _) =>
                                   if (now - t_upd r0 <? to + 5 - 2) || negb (Z.eqb (t_status r0) sRunning)
                                   then add_viol acc 14 5 (t_id r1) else acc
                               | _, _ => acc
                               end
                           | None => acc
                           end) recs m
                       else m
                   | _, _ => m
                   end in
          (* C11: the command watcher's read of the targeted eligible tasks - each task it returns is owed a
             re-arming write before the command may be cleared *)
          let m := match o, reply with
                   | OListTasks f, L [I 6; L recs] =>
                       if Z.eqb origin 2 && negb (Z.eqb fault 1)
                          && match tf_ids f with [] => false | _ => true end
                          && match tf_status f with [] => false | _ => true end
                       then fold_left (fun acc x => match trec_of_sx x with Some r1 => fset acc 30 (t_id r1) 1 | None => acc end) recs m
                       else m
                   | _, _ => m
                   end in
          (* C13: a task is recorded skipped / blocked by the engine only when a check really holds *)
          let m := match o with
                   | OPatchTask id st _ _ =>
                       if zin origin [0; 1; 2; 7] && zin st [sSkipped; sBlocked] then
                         match find_task (m_store m) id with
                         | Some r => if pre_fresh m r && negb (zin st (pre_now m r (t_status r)))
                                        && negb (Z.eqb (t_status r) st)
                                     then add_viol m 13 5 id else m
                         | None => m
                         end
                       else m
                   | _ => m
                   end in
          let m := match o with
                   | OPatchIns id (Some _) _ _ _ _ _ _ => if Z.eqb fault 1 then m else fset m 17 id (m_idx m)
                   | OPatchTask id st _ _ =>
                       (* remember the status the task had before it was marked running *)
                       if Z.eqb st sRunning && negb (Z.eqb fault 1) then
                         match find_task (m_store m) id with Some r => fset m 16 id (t_status r) | None => m end
                       else m
                   | _ => m
                   end in
          let m := if Z.eqb fault 0 then m else fset m 14 0 1 in
          if Z.eqb fault 1 then
            (* not applied *)
            match o with
            | OPatchTask id st rs tr =>
                let m := if Z.eqb st 0 then m else fset m 4 id (st * 2) in
                (* containment also when the terminal write itself fails: it must have been attempted *)
                let m := if negb (Z.eqb st 0) && negb (Z.eqb (fget m 5 id) 0) && Z.eqb origin 0 then
                           fset (if (Z.eqb st sFailed || Z.eqb st sCanceled) && negb (Z.eqb rs 0) then m
                                 else add_viol m 3 50 id) 5 id 0
                         else m in
                (* the run's terminal write itself failed: the run did not settle, its in-memory traces die with it *)
                let m := if zin st [sSuccess; sFailed; sCanceled] then set_traced m (aset (m_traced m) id []) else m in
                match tr with [] => m | _ => fset (if Z.eqb st 0 then fset m 20 id 1 else m) 10 id 1 end
            | OPatchIns id (Some _) _ _ _ _ _ _ => fset (fset m 6 id 1) 9 id 1
            | _ => m
            end
          else
            let m := fset m 22 0 now in
            let s := m_store m in
            let s' := fst (sstep now s o) in
            let acked := Z.eqb fault 0 && sx_eqb reply (L [I 0]) in
            on_write (set_store m s') origin o acked s s'
      end
  | L [I 2; I tid; I gid; I ph; I att; I dl; I ins] =>
      let s := m_store m in
      let m := if m_closed m then add_viol m 20 1 tid else m in
      let m := match find_task s tid with
               | None => add_viol m 1 9 tid
               | Some r =>
                   (* C01: every dependency is recorded success / skipped right now *)
                   let m := fold_left (fun acc d =>
                               match task_by_gid s (t_ins r) d with
                               | Some rd => if fin_st (t_status rd) then acc else add_viol acc 1 1 tid
                               | None => add_viol acc 1 2 tid
                               end) (t_deps r) m in
                   (* C12: nothing downstream of a cancelled in-flight task starts *)
                   let m := if negb (Z.eqb (fget m 15 tid) 1) then
                              let anc := ancestor_tasks (fun x => Z.eqb (fget m 15 x) 1) s r in
                              match filter (fun a => zin (t_id a) (m_cancelreq m)) anc with
                              | [] => m
                              | hit =>
                                  (* clause 11: the cancelled task was kept as success and the path down to the started
                                     task goes through a multi-parent task (children that were not executable when the
                                     cancelled task completed are not cancelled); clause 1: everything else *)
                                  if forallb (fun a => Z.eqb (t_status a) sSuccess) hit
                                     && existsb (fun x => (1 <? length (t_deps x))%nat) (r :: anc)
                                  then add_viol m 12 11 tid else add_viol m 12 1 tid
                              end
                            else m in
                   (* C14: the context handed to the action expires when the task's timeout elapses
                      (own timeout, filled with the worker default at instantiation); measured at phase
                      start in whole seconds, the run being a few milliseconds old *)
                   let m := if (0 <=? dl) && negb ((t_timeout r - 3 <=? dl) && (dl <=? t_timeout r)) && negb (Z.eqb (t_timeout r) 0)
                            then add_viol m 14 1 tid else m in
                   (* C02a: the main action starts only after 'running' was acknowledged by the store *)
                   let m := if Z.eqb ph 1 then
                              (if Z.eqb (t_status r) sRunning && Z.eqb (fget m 4 tid) (sRunning * 2 + 1) then m
                               else add_viol m 2 1 tid)
                            else m in
                   m
               end in
      (* C02b: at most one main-action start per attempt, never two at once *)
      let m := if Z.eqb ph 1 then
                 let n := fget m 1 tid + 1 in
                 let m := fset m 1 tid n in
                 let m := if 1 <? n then add_viol m 2 2 tid else m in
                 (* C04: a main action that had started before a crash is not started again *)
                 let m := if (1 <? n) && m_crashed m then add_viol m 4 4 tid else m in
                 if existsb (fun p => Z.eqb (fst p) tid && Z.eqb (snd p) 1) (m_alive m) then add_viol m 2 4 tid else m
               else m in
      (* C13: no phase runs while a skip check (or, unless continued, a block check) holds *)
      let m := match find_task s tid with
               | Some r =>
                   let st0 := if Z.eqb ph 0 then t_status r else if Z.eqb ph 1 then fget m 16 tid else 0 in
                   if zin st0 [sInit; sContinue; sRetrying] && pre_fresh m r
                      && match pre_now m r st0 with [] => false | _ => true end
                   then add_viol m 13 3 tid else m
               | None => m
               end in
      (* C04 / C13: a finished task never runs again; a blocked one waits for continue *)
      let m := if Z.eqb (fget m 8 tid) 1 then add_viol m 4 2 tid else m in
      let m := if Z.eqb (fget m 7 tid) 1 then add_viol m 13 2 tid else m in
      set_alive m ((tid, ph) :: m_alive m)
  | L [I 3; I tid; I gid; I ph; I outcome] =>
      let m := set_alive m (remove_one (tid, ph) (m_alive m)) in
      let m := fset m 3 tid (ph * 10 + outcome + 1) in
      let m := if Z.eqb ph 1 && Z.eqb outcome 0 then fset m 2 tid 1 else m in
      if Z.eqb outcome 0 then m else fset m 5 tid (ph + 1)
  | L [I 4; I tid; I k; I v; I ins; I bf; I bv; I af; I av] =>
      (* Set returned: value stored, or (save failed) in-memory view as before *)
      if Z.eqb (fget m 6 ins) 0 then
        match find_ins (m_store m) ins with
        | Some i => match i_share i with
                    | Some d => if existsb (fun kv => Z.eqb (fst kv) k && Z.eqb (snd kv) v) d then m else add_viol m 18 1 tid
                    | None => add_viol m 18 1 tid
                    end
        | None => m
        end
      else if Z.eqb bf af && (Z.eqb bf 0 || Z.eqb bv av) then m else add_viol m 18 4 tid
  | L [I 5; I tid; I k; I found; I v; I ins] =>
      (* Get: a later task sees every value stored before it *)
      if Z.eqb (fget m 9 ins) 1 then m
      else match find_ins (m_store m) ins with
           | Some i =>
               let d := match i_share i with Some d => d | None => [] end in
               match find (fun kv => Z.eqb (fst kv) k) d with
               | Some kv => if Z.eqb found 1 && Z.eqb (snd kv) v then m else add_viol m 18 5 tid
               | None => m
               end
           | None => m
           end
  | L [I 6; I tid; I msg; I prio] =>
      let m := set_traced m (aset (m_traced m) tid (msg :: aget [] (m_traced m) tid)) in
      if Z.eqb prio 0 && Z.eqb (fget m 10 tid) 0 then
        match find_task (m_store m) tid with
        | Some r => if zin msg (t_traces r) then m else add_viol m 18 6 tid
        | None => m
        end
      else m
  | L [I 9; I origin; I code] =>
      if Z.eqb origin 8 then
        let m := if negb (Z.eqb code 0) then add_viol m 20 4 code else m in
        let m := match m_alive m with [] => m | p :: _ => add_viol m 20 2 (fst p) end in
        let m := if existsb (fun p => Z.eqb (fst p / 1000000000) 5 && negb (Z.eqb (snd p) 0)) (m_flags m)
                 then add_viol m 20 3 0 else m in
        set_closed m true
      else m
  | L [I 20] =>
      (* buffered traces of runs that die in the crash are lost by design: forget them *)
      let m := set_traced m (filter (fun p => negb (existsb (fun a => Z.eqb (fst a) (fst p)) (m_alive m))
                                          && Z.eqb (fget m 19 (fst p)) 0) (m_traced m)) in
      fclear_kind (set_closed (set_alive (set_crashed m true) []) false) 5
  | L [I 22; I d] => set_store m (age (m_store m) d)
  | L [I 23] => check_quiescent m
  | L [I 24] => check_final (check_quiescent m)
  | L [I 26; I g; cks; I to; deps] =>
      set_aux m (aset (aset (m_aux m) (fkey 1 g) cks) (fkey 3 g) (L [I to; deps]))
  | L [I 33; I dflt] => fset m 21 0 dflt
  | L [I 34; I tid; I code] => add_viol m 17 code tid
  | L [I 27; I ins; vars] => set_aux m (aset (m_aux m) (fkey 2 ins) vars)
  | L [I 28] => add_viol m 20 9 0
  | L [I 35; I g; params] => set_aux m (aset (m_aux m) (fkey 4 g) params)
  | L [I 37; I ins; vars] => set_aux m (aset (m_aux m) (fkey 5 ins) vars)
  | L [I 36; I tid; I g; I ins; obs] =>
      (* C05: a record is created with the DAG's parameters of its task, the instance's variable values substituted *)
      match aget (I 0) (m_aux m) (fkey 4 g), aget (I 0) (m_aux m) (fkey 5 ins) with
      | I _, _ | _, I _ => m
      | params, vars =>
          match pv_of_sx 12 params, kvs_of_sx vars with
          | Some p, Some vs => if sx_eqb (sx_of_pv (render vs p)) obs then m else add_viol m 5 6 g
          | _, _ => add_viol m 5 7 g
          end
      end
  | _ => m
  end.

Definition mstep (m : mst) (ev : sx) : mst :=
  let m1 := mstep0 m ev in
  match ev with
  | L [I 20] => fclear_kind (fclear_kind m1 19) 11   (* a command interrupted by the crash is executed afresh: its re-arming count starts again *)
  | _ => track_pc m1 ev
  end.

Definition run_journal (evs : list sx) : mst := fold_left mstep evs m0.

Definition violations_of (p : Z) (m : mst) : list viol :=
  filter (fun v => match v with (q, _, _, _) => Z.eqb q p end) (m_viol m).

(** journal case = (header, events) *)
Definition monitor_journal (p : Z) (c : sx) : option bool :=
  match c with
  | L [_; L evs] => Some (match violations_of p (run_journal evs) with [] => true | _ => false end)
  | _ => None
  end.

Definition sx_of_viol (v : viol) : sx :=
  match v with (p, i, c, s) => L [I p; I i; I c; I s] end.

(** diagnostic: all violations of property p *)
Definition explain_journal (p : Z) (c : sx) : sx :=
  match c with
  | L [_; L evs] => L (map sx_of_viol (rev (violations_of p (run_journal evs))))
  | _ => L []
  end.

(* ------------------------------------------------------------------ correspondence: the real store's replies on
   engine traffic equal StoreModel's *)
Fixpoint journal_store_trace (evs : list sx) : list sx :=
  match evs with
  | [] => []
  | L [I 1; I now; op; reply; I origin; I fault] :: r =>
      match sop_of_sx op with
      | Some _ => if Z.eqb fault 1 then journal_store_trace r
                  else L [I now; op; (if Z.eqb fault 0 then reply else L [I 0])] :: journal_store_trace r
      | None => journal_store_trace r
      end
  | L [I 22; I d] :: r => L [I 0; L [I 16; I d]; L [I 0]] :: journal_store_trace r
  | _ :: r => journal_store_trace r
  end.

Definition check_journal_store (c : sx) : verdict :=
  match c with
  | L [_; L evs] => run_trace true empty_store (journal_store_trace evs) 0
  | _ => BadCase 1
  end.
