(** Engine: one dag instance in the hands of its owning worker - the persisted task statuses and the
    instance status, the parser's knowledge tree and its queue of completion events, the executor's
    registered runs and the deliveries on their way to it, the retry command in its phases, worker crash
    and restart, the watchdog - as a labelled transition system at the granularity of single store
    writes and of the hand-overs between goroutines.

    Scope: pre-checks (skip / block, decided when a task is pushed; which check holds is the environment's
    choice, the status rules of DoPreCheck are the model's), task failures in every phase, the retry and the
    continue command, crash and restart, the watchdog failing a task that is recorded running with no live
    run; store writes succeed.  (Cancel and failing writes are outside this model; the journal monitor
    covers them.)

    Three switches restrict the histories; with all three off the model is the code as it is:
    - [validate]: every accepted delivery, and every pre-check verdict written by a push, is based on the
      task's current persisted status (the executor's guard, cancelMap, only refuses a delivery while a run
      of the task is registered; a push writes its verdict unconditionally);
    - [cmdquiet]: a command is issued, and picked up by the parser, only while nothing is in flight for
      the instance (no registered run, no queued completion event, no delivery under way);
    - [nonoop]: an executed command re-armed at least one task. *)
From Coq Require Import List ZArith Bool Lia.
Import ListNotations.
Local Open Scope Z_scope.

Inductive est := SInit | SRunning | SEnding | SSuccess | SFailed | SRetrying | SSkipped | SBlocked | SContinue.
Definition est_eqb (a b : est) : bool :=
  match a, b with
  | SInit, SInit | SRunning, SRunning | SEnding, SEnding | SSuccess, SSuccess | SFailed, SFailed | SRetrying, SRetrying
  | SSkipped, SSkipped | SBlocked, SBlocked | SContinue, SContinue => true
  | _, _ => false
  end.
Lemma est_eqb_eq a b : est_eqb a b = true <-> a = b.
Proof. destruct a, b; cbn; split; intro H; try reflexivity; try discriminate. Qed.

Definition exec (s : est) : bool := match s with SInit | SRetrying | SEnding | SContinue => true | _ => false end.
Definition done (s : est) : bool := match s with SSuccess | SSkipped => true | _ => false end.
Definition active (s : est) : bool := match s with SSuccess | SSkipped | SFailed | SBlocked => false | _ => true end.
(** DoPreCheck: which snapshots can be skipped / blocked when pushed (a finished task and a task resumed in
    'ending' are not checked; a continued task is not blocked again) *)
Definition can_skip (s : est) : bool := match s with SInit | SRetrying | SContinue => true | _ => false end.
Definition can_block (s : est) : bool := match s with SInit | SRetrying => true | _ => false end.

(** the executor's view of a task: nothing / accepted with a snapshot / phases / terminal write done, the
    run still registered (the window between the last status write and cancelMap.Delete + EntryTaskIns) *)
Inductive rpc := RNone | RQueued (s : est) | RRunning | RInMain | REnding | RDone (ev : est).
Definition is_none (r : rpc) : bool := match r with RNone => true | _ => false end.

Inductive ist := IRunning | ISuccess | IFailed | IBlocked.
Inductive phase := PIdle | PArm | PInit | PDown.
Inductive tverdict := VRunning | VSuccess | VFailed | VBlocked.

Record eng := { store : Z -> est;        (* persisted task status *)
                know : Z -> est;         (* the parser's tree (meaningful while [tree]) *)
                runs : Z -> rpc;         (* the executor *)
                started : Z -> bool;     (* ghost: the main action started in the current attempt *)
                evq : list (Z * est);    (* completion events queued for the parser worker *)
                pushq : list (Z * est);  (* tasks a pusher has read (with that snapshot) and not yet pushed *)
                pend : list (Z * est);   (* deliveries (task, snapshot status) on their way to the executor *)
                ins : ist;               (* persisted instance status *)
                tree : bool;             (* the parser holds a tree for the instance *)
                ph : phase;              (* command / restart phase of the owning worker *)
                armed : bool;            (* the command being executed changed a task *)
                cmd : bool }.            (* a command is stored in the instance *)

Definition upd {A} (f : Z -> A) (k : Z) (v : A) : Z -> A := fun x => if Z.eqb x k then v else f x.

Definition set_store (s : eng) v := {| store := v; know := know s; runs := runs s; started := started s; evq := evq s; pushq := pushq s; pend := pend s; ins := ins s; tree := tree s; ph := ph s; armed := armed s; cmd := cmd s |}.
Definition set_know (s : eng) v := {| store := store s; know := v; runs := runs s; started := started s; evq := evq s; pushq := pushq s; pend := pend s; ins := ins s; tree := tree s; ph := ph s; armed := armed s; cmd := cmd s |}.
Definition set_runs (s : eng) v := {| store := store s; know := know s; runs := v; started := started s; evq := evq s; pushq := pushq s; pend := pend s; ins := ins s; tree := tree s; ph := ph s; armed := armed s; cmd := cmd s |}.
Definition set_started (s : eng) v := {| store := store s; know := know s; runs := runs s; started := v; evq := evq s; pushq := pushq s; pend := pend s; ins := ins s; tree := tree s; ph := ph s; armed := armed s; cmd := cmd s |}.
Definition set_evq (s : eng) v := {| store := store s; know := know s; runs := runs s; started := started s; evq := v; pushq := pushq s; pend := pend s; ins := ins s; tree := tree s; ph := ph s; armed := armed s; cmd := cmd s |}.
Definition set_pushq (s : eng) v := {| store := store s; know := know s; runs := runs s; started := started s; evq := evq s; pushq := v; pend := pend s; ins := ins s; tree := tree s; ph := ph s; armed := armed s; cmd := cmd s |}.
Definition set_pend (s : eng) v := {| store := store s; know := know s; runs := runs s; started := started s; evq := evq s; pushq := pushq s; pend := v; ins := ins s; tree := tree s; ph := ph s; armed := armed s; cmd := cmd s |}.
Definition set_ins (s : eng) v := {| store := store s; know := know s; runs := runs s; started := started s; evq := evq s; pushq := pushq s; pend := pend s; ins := v; tree := tree s; ph := ph s; armed := armed s; cmd := cmd s |}.
Definition set_tree (s : eng) v := {| store := store s; know := know s; runs := runs s; started := started s; evq := evq s; pushq := pushq s; pend := pend s; ins := ins s; tree := v; ph := ph s; armed := armed s; cmd := cmd s |}.
Definition set_ph (s : eng) v := {| store := store s; know := know s; runs := runs s; started := started s; evq := evq s; pushq := pushq s; pend := pend s; ins := ins s; tree := tree s; ph := v; armed := armed s; cmd := cmd s |}.
Definition set_armed (s : eng) v := {| store := store s; know := know s; runs := runs s; started := started s; evq := evq s; pushq := pushq s; pend := pend s; ins := ins s; tree := tree s; ph := ph s; armed := v; cmd := cmd s |}.
Definition set_cmd (s : eng) v := {| store := store s; know := know s; runs := runs s; started := started s; evq := evq s; pushq := pushq s; pend := pend s; ins := ins s; tree := tree s; ph := ph s; armed := armed s; cmd := v |}.

Inductive label :=
| Accept (t : Z) (s : est) | Drop (t : Z) (s : est)
| StartWrite (t : Z) | MainStart (t : Z) | MainOk (t : Z) | MainErr (t : Z) | AfterOk (t : Z) | AfterErr (t : Z)
| BeforeErr (t : Z)      (* the before-hook fails (it runs before 'running' is stored): init -> failed *)
| RetryErr (t : Z)       (* the retry-hook fails: retrying -> failed *)
| Finish (t : Z)         (* the run is unregistered and its completion event handed to the parser *)
| Deliver (pb : bool)    (* the parser worker handles the next completion event (executeNext); [pb]: when both a failed
                            and a blocked task are reached, the walk meets the blocked one last *)
| PushRun (t : Z) (s : est)    (* Executor.Push: no pre-check fires, the task is handed to the executor *)
| PushSkip (t : Z) (s : est)   (* ... a skip check fires: 'skipped' is stored, the parser is told *)
| PushBlock (t : Z) (s : est)  (* ... a block check fires: 'blocked' is stored, the parser is told *)
| CmdIssue               (* the commander stores a retry command *)
| CmdBegin               (* the parser's command watcher picks it up *)
| Rearm (t : Z)          (* ... re-arms a failed target: failed -> retrying *)
| ContArm (t : Z)        (* ... (continue command) re-arms a blocked target: blocked -> continue *)
| CmdPatch               (* ... clears the command and marks the instance running *)
| Rebuild (pb : bool)    (* InitialDagIns: after a command that re-armed a task, or at restart *)
| RestartIdle            (* restart of a worker whose instance is not recorded running: nothing is rebuilt *)
| WdFail (t : Z)         (* the watchdog fails a task recorded running with no live run, and the instance *)
| Crash.                 (* the worker dies: tree, runs, queued events and deliveries are gone *)

Fixpoint remove1 (p : Z * est) (l : list (Z * est)) : option (list (Z * est)) :=
  match l with
  | [] => None
  | x :: r => if Z.eqb (fst x) (fst p) && est_eqb (snd x) (snd p) then Some r
              else match remove1 p r with Some r' => Some (x :: r') | None => None end
  end.

Definition ist_of (v : tverdict) : ist :=
  match v with VRunning => IRunning | VSuccess => ISuccess | VFailed => IFailed | VBlocked => IBlocked end.

Section G.
  Variable tasks : list Z.
  Variable deps : Z -> list Z.
  Variable validate cmdquiet nonoop : bool.

  Definition parents_done (f : Z -> est) (t : Z) : bool := forallb (fun d => done (f d)) (deps t).
  Definition pushable (f : Z -> est) (t : Z) : bool := exec (f t) && parents_done f t.
  Definition children (t : Z) : list Z := filter (fun c => existsb (Z.eqb t) (deps c)) tasks.
  Definition snap (f : Z -> est) (l : list Z) : list (Z * est) := map (fun c => (c, f c)) l.

  (** TaskNode.ComputeStatus over the nodes the walk reaches (all parents done): running when one of them is
      neither finished nor failed nor blocked; else failed / blocked after the last such node the walk meets
      ([pb] = a blocked one, when there are both); else success *)
  Definition verdict_of (pb : bool) (f : Z -> est) : tverdict :=
    if existsb (fun t => parents_done f t && active (f t)) tasks then VRunning
    else
      let hf := existsb (fun t => parents_done f t && est_eqb (f t) SFailed) tasks in
      let hb := existsb (fun t => parents_done f t && est_eqb (f t) SBlocked) tasks in
      if hf && hb then (if pb then VBlocked else VFailed)
      else if hf then VFailed else if hb then VBlocked else VSuccess.

  Definition quiet (s : eng) : bool :=
    match evq s, pend s, pushq s with [], [], [] => forallb (fun t => is_none (runs s t)) tasks | _, _, _ => false end.

  (** the instance has been instantiated and marked running; the worker has not looked at it yet *)
  Definition boot : eng :=
    let st := fun _ : Z => SInit in
    {| store := st; know := st; runs := fun _ => RNone; started := fun _ => false; evq := []; pushq := []; pend := [];
       ins := IRunning; tree := false; ph := PDown; armed := false; cmd := false |}.

  Definition guard_ok (s : eng) (t : Z) (sn : est) : bool :=
    is_none (runs s t) && exec sn && (negb validate || est_eqb (store s t) sn).

  (** [validate] for a pre-check verdict: the snapshot is the task's persisted status and the executor holds
      nothing for the task (Push itself checks nothing: it writes the verdict unconditionally) *)
  Definition push_ok (s : eng) (t : Z) (sn : est) : bool :=
    negb validate || (est_eqb (store s t) sn && is_none (runs s t) && negb (existsb (fun p => Z.eqb (fst p) t) (pend s))).

  (** a run writes its last status [v]; it stays registered until [Finish] *)
  Definition end_run (s : eng) (t : Z) (v : est) : eng := set_runs (set_store s (upd (store s) t v)) (upd (runs s) t (RDone v)).

  (** InitialDagIns *)
  Definition initial (pb : bool) (s : eng) : eng :=
    match filter (pushable (store s)) tasks with
    | [] => match verdict_of pb (store s) with
            | VRunning => s
            | v => set_ins s (ist_of v)
            end
    | ex => set_pushq (set_tree (set_know s (store s)) true) (pushq s ++ snap (store s) ex)
    end.

  (** Push with a pre-check that fires: the verdict is stored and the parser is told, no run is registered *)
  Definition push_verdict (s : eng) (t : Z) (v : est) (q' : list (Z * est)) : eng :=
    set_evq (set_pushq (set_store s (upd (store s) t v)) q') (evq s ++ [(t, v)]).

  Definition step (s : eng) (l : label) : option eng :=
    match l with
    | Accept t sn =>
        match remove1 (t, sn) (pend s) with
        | Some p' => if guard_ok s t sn then Some (set_pend (set_runs s (upd (runs s) t (RQueued sn))) p') else None
        | None => None
        end
    | Drop t sn =>
        match remove1 (t, sn) (pend s) with
        | Some p' => if guard_ok s t sn then None else Some (set_pend s p')
        | None => None
        end
    | StartWrite t =>
        match runs s t with
        | RQueued SInit | RQueued SContinue => Some (set_runs (set_store s (upd (store s) t SRunning)) (upd (runs s) t RRunning))
        | RQueued SRetrying => Some (end_run s t SInit)   (* the retry hook ran; the task goes back to the parser as init *)
        | RQueued SEnding => Some (set_runs s (upd (runs s) t REnding))
        | _ => None
        end
    | MainStart t =>
        match runs s t with
        | RRunning => Some (set_started (set_runs s (upd (runs s) t RInMain)) (upd (started s) t true))
        | _ => None
        end
    | MainOk t =>
        match runs s t with
        | RInMain => Some (set_runs (set_store s (upd (store s) t SEnding)) (upd (runs s) t REnding))
        | _ => None
        end
    | MainErr t => match runs s t with RInMain => Some (end_run s t SFailed) | _ => None end
    | AfterOk t => match runs s t with REnding => Some (end_run s t SSuccess) | _ => None end
    | AfterErr t => match runs s t with REnding => Some (end_run s t SFailed) | _ => None end
    | BeforeErr t => match runs s t with RQueued SInit | RQueued SContinue => Some (end_run s t SFailed) | _ => None end
    | RetryErr t => match runs s t with RQueued SRetrying => Some (end_run s t SFailed) | _ => None end
    | Finish t =>
        match runs s t with
        | RDone ev => Some (set_evq (set_runs s (upd (runs s) t RNone)) (evq s ++ [(t, ev)]))
        | _ => None
        end
    | Deliver pb =>
        match evq s with
        | (t, st) :: r =>
            let s0 := set_evq s r in
            if tree s && parents_done (know s) t then
              let k' := upd (know s) t st in
              let s1 := set_know s0 k' in
              match (if done st then filter (pushable k') (children t) else if est_eqb st SInit then [t] else []) with
              | [] => match verdict_of pb k' with
                      | VRunning => Some s1
                      | v => Some (set_tree (set_ins s1 (ist_of v)) false)
                      end
              | next => Some (set_pushq s1 (pushq s ++ snap (store s) next))
              end
            else Some s0     (* no tree, or the node is not reached by the walk: an error is logged, nothing changes *)
        | [] => None
        end
    | PushRun t sn =>
        match remove1 (t, sn) (pushq s) with
        | Some q' => Some (set_pend (set_pushq s q') (pend s ++ [(t, sn)]))
        | None => None
        end
    | PushSkip t sn =>
        match remove1 (t, sn) (pushq s) with
        | Some q' => if can_skip sn && push_ok s t sn then Some (push_verdict s t SSkipped q') else None
        | None => None
        end
    | PushBlock t sn =>
        match remove1 (t, sn) (pushq s) with
        | Some q' => if can_block sn && push_ok s t sn then Some (push_verdict s t SBlocked q') else None
        | None => None
        end
    | CmdIssue =>
        if negb (cmd s) && (negb cmdquiet || quiet s) then Some (set_cmd s true) else None
    | CmdBegin =>
        match ph s with
        | PIdle => if cmd s && (negb cmdquiet || quiet s) then Some (set_armed (set_ph s PArm) false) else None
        | _ => None
        end
    | Rearm t =>
        match ph s, store s t with
        | PArm, SFailed => if existsb (Z.eqb t) tasks
                           then Some (set_armed (set_started (set_store s (upd (store s) t SRetrying)) (upd (started s) t false)) true)
                           else None
        | _, _ => None
        end
    | ContArm t =>
        match ph s, store s t with
        | PArm, SBlocked => if existsb (Z.eqb t) tasks
                            then Some (set_armed (set_store s (upd (store s) t SContinue)) true)
                            else None
        | _, _ => None
        end
    | CmdPatch =>
        match ph s with
        | PArm => if armed s then Some (set_ph (set_cmd (set_ins s IRunning) false) PInit)
                  else if nonoop then None
                  else Some (set_ph (set_cmd (set_ins s IRunning) false) PIdle)
        | _ => None
        end
    | Rebuild pb =>
        match ph s with
        | PInit => Some (set_ph (initial pb s) PIdle)
        | PDown => match ins s with IRunning => Some (set_ph (initial pb s) PIdle) | _ => None end
        | _ => None
        end
    | RestartIdle =>
        match ph s, ins s with
        | PDown, IRunning => None
        | PDown, _ => Some (set_ph s PIdle)
        | _, _ => None
        end
    | WdFail t =>
        match store s t, runs s t with
        | SRunning, RNone => Some (set_ins (set_store s (upd (store s) t SFailed)) IFailed)
        | _, _ => None
        end
    | Crash =>
        Some (set_armed (set_ph (set_tree (set_pushq (set_pend (set_evq (set_runs s (fun _ => RNone)) []) []) []) false) PDown) false)
    end.

  Fixpoint run (s : eng) (ls : list label) : option eng :=
    match ls with
    | [] => Some s
    | l :: t => match step s l with Some s' => run s' t | None => None end
    end.
End G.
