(** ShutdownCheck: the synchronisation skeletons the Shutdown transition systems were written from.
    The harness ([ffh skel]) extracts the skeleton of each function from the current source text; a
    difference means the model no longer describes the code (the theorems of ShutdownFacts then say
    nothing about it) and is reported as a broken correspondence.

    operation codes: 1 Lock 2 Unlock 3 RLock 4 RUnlock 5 defer 6 close 7 send 8 receive 9 Wait 10 Add 11 Done
    12 go{ 13 } 14 select{ 15 case 16 default 17 range{ 18 return 19 call 20 for{ 21 if{ 22 else
    object codes: 1 lock 2 closeCh 3 workerQueue 4 workerWg 5 senderWg 6 initQueue 7 initWg 8 cancelMap
    20 sendToChannel 21 EntryTaskIns 22 initWorkerTask 23 workerDo 24 executeNext 25 Push 26 DoPreCheck
    27 PatchTaskIns 28 goWorker 29 startWatcher 30 watchInitQueue 31 subWorkerQueue 32 initialRunningDagIns
    99 any other object that is synchronised on *)
From Coq Require Import List ZArith Bool.
From FF Require Import Sx.
Import ListNotations.
Local Open Scope Z_scope.

Definition skel_expected (f : Z) : option (list (Z * Z)) :=
  match f with
  (* DefParser.sendToChannel: read lock held for the whole body; closeCh tested first ([enter]: dropped when closed); non-blocking send
      ([enter]: q+1 when there is room); otherwise senderWg.Add and a goroutine that waits WITHOUT the lock for
      room or for closeCh ([enter]: bs+1; [BSend]; [BAbort]) *)
  | 1 => Some [(3, 1); (5, 0); (4, 1); (14, 0); (15, 0); (8, 2); (18, 0); (16, 0); (13, 0); (21, 0); (7, 3); (18, 0); (13, 0); (14, 0); (15, 0); (7, 3); (16, 0); (10, 5); (12, 0); (5, 0); (11, 5); (14, 0); (15, 0); (7, 3); (15, 0); (8, 2); (13, 0); (13, 0); (13, 0)]
  (* DefParser.Close: Lock; already closed -> Unlock, return; close(closeCh); Unlock ([CLock]); senderWg.Wait ([CSendersGone]
      needs bs = 0); close every queue; workerWg.Wait ([CReturn] needs the worker exited) *)
  | 2 => Some [(1, 1); (14, 0); (15, 0); (8, 2); (2, 1); (18, 0); (16, 0); (13, 0); (6, 2); (2, 1); (9, 5); (17, 3); (6, 3); (13, 0); (9, 4)]
  (* DefParser.goWorker: range over the queue ([WTake]; leaves the loop when the queue is closed and empty: [WExit]); workerDo;
      workerWg.Done *)
  | 3 => Some [(17, 3); (19, 23); (13, 0); (11, 4)]
  (* DefParser.EntryTaskIns: EntryTaskIns = sendToChannel ([ExtEnter], [WEnter]) *)
  | 4 => Some [(19, 20)]
  (* DefExecutor.Push: pre-check active: patch, EntryTaskIns, return (the parser worker enters a task again: [WNeed]/[WEnter]);
      otherwise RLock (deferred RUnlock), closeCh tested ([PushLock]), blocking send to initQueue ([InitRecv]) *)
  | 5 => Some [(19, 26); (21, 0); (18, 0); (13, 0); (21, 0); (19, 27); (21, 0); (18, 0); (13, 0); (19, 21); (18, 0); (13, 0); (3, 1); (5, 0); (4, 1); (14, 0); (15, 0); (8, 2); (18, 0); (16, 0); (13, 0); (7, 6)]
  (* DefExecutor.Close: Lock (deferred Unlock, deferred close(closeCh)); closeCh <- ; close(initQueue) ([ELock]); initWg.Wait
      ([EInitGone]); close(workerQueue); workerWg.Wait ([EReturn]) *)
  | 6 => Some [(1, 1); (5, 0); (2, 1); (5, 0); (6, 2); (7, 2); (6, 6); (9, 7); (6, 3); (9, 4)]
  (* DefExecutor.watchInitQueue: range over initQueue; initWorkerTask; initWg.Done ([InitExit]) *)
  | 7 => Some [(17, 6); (19, 22); (13, 0); (11, 7)]
  (* DefExecutor.subWorkerQueue: range over workerQueue; workerDo ([RunEnd]); workerWg.Done ([WorkerExit]) *)
  | 8 => Some [(17, 3); (19, 23); (13, 0); (11, 4)]
  (* DefExecutor.initWorkerTask: already in the cancel map: return ([InitDrop]); blocking send to workerQueue ([InitHandoff]) *)
  | 9 => Some [(21, 0); (18, 0); (13, 0); (18, 0); (19, 27); (18, 0); (7, 3)]
  (* DefExecutor.workerDo: not executable: return; run the action, store the status, EntryTaskIns ([RunEnd], then [ExtArrive] of the parser) *)
  | 10 => Some [(15, 0); (15, 0); (18, 0); (19, 21)]
  (* DefParser.Init: workerWg.Add for two watchers and every worker; the goroutines; initialRunningDagIns *)
  | 11 => Some [(10, 4); (12, 0); (19, 29); (13, 0); (10, 4); (12, 0); (19, 29); (13, 0); (20, 0); (10, 4); (12, 0); (19, 28); (13, 0); (13, 0); (19, 32)]
  (* DefExecutor.Init: initWg.Add, watchInitQueue; workerWg.Add, subWorkerQueue for every worker *)
  | 12 => Some [(10, 7); (12, 0); (19, 30); (13, 0); (20, 0); (10, 4); (12, 0); (19, 31); (13, 0); (13, 0)]
  (* ShareData.Set (pkg/entity/dag.go; object 9 = mutex, call 40 = Save): Lock, deferred Unlock, then - under the mutex -
      the save of the whole dictionary (the rollback in its error branch has no synchronisation): the transition system
      ShareDataConc with [locked_save = true] *)
  | 13 => Some [(1, 9); (5, 0); (2, 9); (21, 0); (19, 40); (13, 0)]
  (* ShareData.Get: (an early return before anything is touched); Lock, deferred Unlock; return *)
  | 14 => Some [(21, 0); (18, 0); (13, 0); (1, 9); (5, 0); (2, 9); (18, 0)]
  | _ => None
  end.

Definition pair_of_sx (s : sx) : option (Z * Z) :=
  match s with L [I a; I b] => Some (a, b) | _ => None end.

Definition pair_eqb (a b : Z * Z) : bool := Z.eqb (fst a) (fst b) && Z.eqb (snd a) (snd b).

(** case = (function-id ((op obj) ...)) *)
Definition check_skel (c : sx) : verdict :=
  match c with
  | L [I f; L ops] =>
      match opt_map pair_of_sx ops, skel_expected f with
      | Some got, Some want =>
          if list_eqb pair_eqb got want then OkCase
          else Mismatch f (L (map (fun p => L [I (fst p); I (snd p)]) want))
      | _, _ => BadCase 2
      end
  | _ => BadCase 1
  end.
Definition monitor_skel (c : sx) : option bool :=
  match check_skel c with OkCase => Some true | Mismatch _ _ => Some false | BadCase _ => None end.
