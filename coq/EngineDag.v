(** EngineDag: from DAG validation to the engine.  A task list accepted by BuildRootNode (C16: unique ids, known
    dependencies, acyclic) satisfies the hypotheses of the engine theorems, with the task ids as [tasks] and the
    dependency lists as [deps].  Hence, for every accepted DAG: the instance settles at every quiescent point, and
    it is recorded success only when every task of the DAG ran to success or was skipped - the consequence C16
    draws from validation ("every task of an accepted DAG is reachable by the scheduler"). *)
From Coq Require Import List ZArith Bool Arith Lia.
From FF Require Import Sx TaskTree TaskTreeFacts TreeFuel Engine EngineFacts EngineSettle.
Import ListNotations.

Lemma deps_of_in (t : TaskTree.tree) x d : In d (deps_of t x) -> exists n, In n t /\ gid n = x /\ In d (ndeps n).
Proof.
  unfold deps_of. destruct (find_node t x) as [n|] eqn:E; [|intros []].
  intros Hd. destruct (find_node_some t x n E) as (A & B). exists n. repeat split; assumption.
Qed.

Theorem valid_dag_engine_hyps (t : TaskTree.tree) : valid_dag t ->
  NoDup (gids t) /\
  (exists rank : Z -> nat, forall x d, In d (deps_of t x) -> (rank d < rank x)%nat) /\
  (forall x d, In x (gids t) -> In d (deps_of t x) -> In d (gids t)).
Proof.
  intros (ND & CL & _ & (rank & Hr)). repeat split.
  - exact ND.
  - exists rank. intros x d Hd. destruct (deps_of_in t x d Hd) as (n & A & B & C). subst x. apply (Hr n d A C).
  - intros x d _ Hd. destruct (deps_of_in t x d Hd) as (n & A & B & C). apply (CL n d A C).
Qed.

(** C16 + C03: for every task list that BuildRootNode accepts *)
Theorem accepted_dag_settles (t : TaskTree.tree) : build_root t = None ->
  forall validate ls s, Engine.run (gids t) (deps_of t) validate true true (boot) ls = Some s -> Quiescent (gids t) s ->
  ins s <> IRunning /\
  (ins s = ISuccess <-> forall x, In x (gids t) -> done (store s x) = true) /\
  (ins s = IFailed -> exists x, In x (gids t) /\ store s x = SFailed) /\
  (ins s = IBlocked -> exists x, In x (gids t) /\ store s x = SBlocked).
Proof.
  intros Hacc validate ls s Hr Hq.
  apply build_root_iff in Hacc. destruct (valid_dag_engine_hyps t Hacc) as (ND & (rank & Hrank) & Hcl).
  apply (settled (gids t) (deps_of t) s); [|exact Hq].
  exact (invq_reach (gids t) (deps_of t) validate rank ND Hrank Hcl ls boot s (invq_boot (gids t) (deps_of t)) Hr).
Qed.
