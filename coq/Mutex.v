(** Mutex: keeper/mongo/mutex.go (MongoMutex.Lock / spinLock / Unlock) for one key, as a labelled
    transition system at single-database-operation granularity.  [fixed = true] is the code as
    repaired by the three fix commits; [fixed = false] the pinned code (refutation witnesses). *)
From Coq Require Import List ZArith Bool Lia Arith.
From FF Require Import Sx.
Import ListNotations.
Local Open Scope Z_scope.

(** the lock document; [d_owner] is a ghost: the handle that wrote it *)
Record mdoc := { d_exp : Z; d_id : Z; d_owner : nat }.

Inductive mres := MOk | MFail | MLost.

(** return codes: 0 nil, 1 database error, 2 context error, 3 already-unlocked, 4 not locked *)
Inductive mpc :=
| MIdle
| MFindNext (ttl ident : Z) (first : bool)
| MInsertNext (exp ident ttl : Z) (first : bool)
| MCasNext (old exp1 ident ttl : Z) (first : bool)
| MWait (ttl ident : Z)
| MRet (code : Z).

Record hst := { h_detail : option (Z * Z); (* remembered (expiry, identity) *)
                h_pc : mpc;
                h_holds : bool;            (* ghost: Lock returned nil and the lock was not released since *)
                h_ident : Z }.             (* ghost: the reentrant identity of the call that obtained the lock *)
Definition h0 := {| h_detail := None; h_pc := MIdle; h_holds := false; h_ident := 0 |}.

Record mst := { m_now : Z; m_doc : option mdoc; m_hs : list hst }.
Definition minit := {| m_now := 0; m_doc := None; m_hs := [] |}.

Fixpoint hget (l : list hst) (k : nat) : hst :=
  match l, k with [], _ => h0 | x :: _, O => x | _ :: t, S k' => hget t k' end.
Fixpoint hset (l : list hst) (k : nat) (v : hst) : list hst :=
  match l, k with
  | [], O => [v] | [], S k' => h0 :: hset [] k' v
  | _ :: t, O => v :: t | x :: t, S k' => x :: hset t k' v
  end.

Inductive mlabel :=
| MTick (d : Z) | MSweep
| LockCall (h : nat) (ttl ident : Z)
| FindOp (h : nat) (r : mres)
| InsertOp (h : nat) (r : mres)
| CasOp (h : nat) (r : mres)
| SpinTick (h : nat) | CtxDone (h : nat)
| LockRet (h : nat) (code : Z)
| UnlockOp (h : nat) (r : mres)        (* the delete of Unlock; not issued when the handle has no detail *)
| UnlockRet (h : nat) (code : Z).

Section M.
  Variable fixed : bool.

  Definition H (s : mst) (h : nat) := hget (m_hs s) h.
  Definition setH (s : mst) (h : nat) (v : hst) := {| m_now := m_now s; m_doc := m_doc s; m_hs := hset (m_hs s) h v |}.
  Definition setDoc (s : mst) (d : option mdoc) := {| m_now := m_now s; m_doc := d; m_hs := m_hs s |}.

  (** ghost: a successful Unlock releases the key for every handle that shares the lock (reentrant
      co-holders remember the same expiry): the owner of the key is the identity, not the handle *)
  Definition release_all (s : mst) (e : Z) : mst :=
    {| m_now := m_now s; m_doc := m_doc s;
       m_hs := map (fun x => match h_detail x with
                             | Some (e', _) => if Z.eqb e' e then {| h_detail := h_detail x; h_pc := h_pc x; h_holds := false; h_ident := h_ident x |} else x
                             | None => x end) (m_hs s) |}.

  (** spinLock returned (nil, no new detail) or an error *)
  Definition after_spin_noacq (s : mst) (h : nat) (ttl ident : Z) : mst :=
    (* Lock: "already keep lock" test on lockDetail, else wait for the ticker *)
    match h_detail (H s h) with
    | Some _ => setH s h {| h_detail := h_detail (H s h); h_pc := MRet 0; h_holds := true; h_ident := h_ident (H s h) |}
    | None => setH s h {| h_detail := None; h_pc := MWait ttl ident; h_holds := h_holds (H s h); h_ident := h_ident (H s h) |}
    end.

  Definition after_spin_err (s : mst) (h : nat) (first : bool) : mst :=
    if first || fixed
    then setH s h {| h_detail := h_detail (H s h); h_pc := MRet 1; h_holds := h_holds (H s h); h_ident := h_ident (H s h) |}
    else setH s h {| h_detail := h_detail (H s h); h_pc := MRet 0; h_holds := true; h_ident := h_ident (H s h) |}.  (* pinned code: nil *)

  Definition acquired (s : mst) (h : nat) (exp ident call_ident : Z) : mst :=
    setH s h {| h_detail := Some (exp, ident); h_pc := MRet 0; h_holds := true; h_ident := call_ident |}.

  Definition mstep (s : mst) (l : mlabel) : option mst :=
    match l with
    | MTick d => if 0 <=? d then Some {| m_now := m_now s + d; m_doc := m_doc s; m_hs := m_hs s |} else None
    | MSweep => match m_doc s with
                | Some d => if d_exp d + 1000 <? m_now s then Some (setDoc s None) else None
                | None => None
                end
    | LockCall h ttl ident =>
        match h_pc (H s h) with
        | MIdle => Some (setH s h {| h_detail := (if fixed then None else h_detail (H s h));
                                     h_pc := MFindNext ttl ident true;
                                     h_holds := (if fixed then false else h_holds (H s h)); h_ident := h_ident (H s h) |})
        | _ => None
        end
    | FindOp h r =>
        match h_pc (H s h) with
        | MFindNext ttl ident first =>
            match r with
            | MFail | MLost => Some (after_spin_err s h first)
            | MOk =>
                match m_doc s with
                | None => Some (setH s h {| h_detail := h_detail (H s h); h_pc := MInsertNext (m_now s + ttl) ident ttl first; h_holds := h_holds (H s h); h_ident := h_ident (H s h) |})
                | Some d =>
                    if d_exp d <? m_now s
                    then Some (setH s h {| h_detail := h_detail (H s h); h_pc := MCasNext (d_exp d) (m_now s + ttl) ident ttl first; h_holds := h_holds (H s h); h_ident := h_ident (H s h) |})
                    else if negb (Z.eqb ident 0) && Z.eqb (d_id d) ident
                    then Some (acquired s h (d_exp d) (d_id d) ident)
                    else Some (after_spin_noacq s h ttl ident)
                end
            end
        | _ => None
        end
    | InsertOp h r =>
        match h_pc (H s h) with
        | MInsertNext exp ident ttl first =>
            match r with
            | MFail => Some (after_spin_err s h first)
            | _ =>
                match m_doc s with
                | Some _ => (* duplicate key: race lost *)
                    match r with MLost => Some (after_spin_err s h first) | _ => Some (after_spin_noacq s h ttl ident) end
                | None =>
                    let s1 := setDoc s (Some {| d_exp := exp; d_id := ident; d_owner := h |}) in
                    match r with
                    | MLost => Some (after_spin_err s1 h first)
                    | _ => Some (acquired s1 h exp ident ident)
                    end
                end
            end
        | _ => None
        end
    | CasOp h r =>
        match h_pc (H s h) with
        | MCasNext old exp1 ident ttl first =>
            match r with
            | MFail => Some (after_spin_err s h first)
            | _ =>
                match m_doc s with
                | Some d =>
                    if Z.eqb (d_exp d) old then
                      let stored := if fixed then exp1 else m_now s + ttl in
                      let s1 := setDoc s (Some {| d_exp := stored; d_id := ident; d_owner := h |}) in
                      match r with
                      | MLost => Some (after_spin_err s1 h first)
                      | _ => Some (acquired s1 h exp1 (d_id d) ident)
                      end
                    else match r with MLost => Some (after_spin_err s h first) | _ => Some (after_spin_noacq s h ttl ident) end
                | None => match r with MLost => Some (after_spin_err s h first) | _ => Some (after_spin_noacq s h ttl ident) end
                end
            end
        | _ => None
        end
    | SpinTick h =>
        match h_pc (H s h) with
        | MWait ttl ident => Some (setH s h {| h_detail := h_detail (H s h); h_pc := MFindNext ttl ident false; h_holds := h_holds (H s h); h_ident := h_ident (H s h) |})
        | _ => None
        end
    | CtxDone h =>
        match h_pc (H s h) with
        | MWait _ _ => Some (setH s h {| h_detail := h_detail (H s h); h_pc := MRet 2; h_holds := h_holds (H s h); h_ident := h_ident (H s h) |})
        | _ => None
        end
    | LockRet h code =>
        match h_pc (H s h) with
        | MRet c => if Z.eqb c code then Some (setH s h {| h_detail := h_detail (H s h); h_pc := MIdle; h_holds := h_holds (H s h); h_ident := h_ident (H s h) |}) else None
        | _ => None
        end
    | UnlockOp h r =>
        match h_pc (H s h), h_detail (H s h) with
        | MIdle, Some (e, i) =>
            match r with
            | MFail => Some (setH s h {| h_detail := Some (e, i); h_pc := MRet 1; h_holds := h_holds (H s h); h_ident := h_ident (H s h) |})
            | MLost => None   (* a lost reply of the delete is outside the fault model of C10 (failures during the spin loop) *)
            | _ =>
                match m_doc s with
                | Some d =>
                    if Z.eqb (d_exp d) e then
                      let s1 := setDoc s None in
                      match r with
                      | MLost => Some (setH s1 h {| h_detail := Some (e, i); h_pc := MRet 1; h_holds := h_holds (H s h); h_ident := h_ident (H s h) |})
                      | _ => Some (setH (release_all s1 e) h {| h_detail := None; h_pc := MRet 0; h_holds := false; h_ident := h_ident (H s h) |})
                      end
                    else Some (setH s h {| h_detail := Some (e, i); h_pc := MRet (match r with MLost => 1 | _ => 3 end); h_holds := h_holds (H s h); h_ident := h_ident (H s h) |})
                | None => Some (setH s h {| h_detail := Some (e, i); h_pc := MRet (match r with MLost => 1 | _ => 3 end); h_holds := h_holds (H s h); h_ident := h_ident (H s h) |})
                end
            end
        | _, _ => None
        end
    | UnlockRet h code =>
        match h_pc (H s h), h_detail (H s h) with
        | MRet c, _ => if Z.eqb c code then Some (setH s h {| h_detail := h_detail (H s h); h_pc := MIdle; h_holds := h_holds (H s h); h_ident := h_ident (H s h) |}) else None
        | MIdle, None => if Z.eqb code 4 then Some s else None     (* "the mutex is not locked": no database operation *)
        | _, _ => None
        end
    end.

  Fixpoint mrun (s : mst) (ls : list mlabel) : option mst :=
    match ls with
    | [] => Some s
    | l :: t => match mstep s l with Some s' => mrun s' t | None => None end
    end.
End M.

(** a handle really holds the key: Lock returned nil, not unlocked since, its remembered expiry not reached *)
Definition really_holds (s : mst) (h : nat) : bool :=
  h_holds (hget (m_hs s) h) &&
  match h_detail (hget (m_hs s) h) with Some (e, _) => m_now s <? e | None => true end.
