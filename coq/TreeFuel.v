(** TreeFuel: the explicit fuel of the level-order cycle check is adequate.  On a valid DAG (unique ids,
    ranked) every node queued in level k ends a dependency chain of k+1 distinct tasks, so there are at most
    [length t] non-empty levels and [default_fuel t = length t + 2] never runs out.  With it the decision
    theorem of C16 needs no fuel hypothesis. *)
From Coq Require Import List ZArith Bool Arith Lia.
From FF Require Import Sx TaskTree TaskTreeFacts.
Import ListNotations.

Section Fuel.
  Variable t : tree.
  Variable rank : Z -> nat.
  Hypothesis ND : NoDup (gids t).
  Hypothesis Hr : forall n d, In n t -> In d (ndeps n) -> rank d < rank (gid n).

  (** x ends a chain of k+1 tasks, each depending on the previous one *)
  Fixpoint chain (k : nat) (x : Z) : Prop :=
    match k with
    | O => In x (gids t)
    | S k' => exists n p, In n t /\ gid n = x /\ In p (ndeps n) /\ chain k' p
    end.

  Lemma chain_in k x : chain k x -> In x (gids t).
  Proof.
    destruct k; cbn; [auto|]. intros (n & p & Hn & Hg & _). subst x. apply in_map. exact Hn.
  Qed.

  Lemma chain_distinct k : forall x, chain k x ->
    exists l, NoDup l /\ length l = S k /\ incl l (gids t) /\ (forall y, In y l -> rank y <= rank x).
  Proof.
    induction k as [|k IH]; cbn; intros x Hc.
    - exists [x]. repeat split.
      + constructor; [intros []|constructor].
      + intros y [<-|[]]. exact Hc.
      + intros y [<-|[]]. lia.
    - destruct Hc as (n & p & Hn & Hg & Hp & Hcp). subst x.
      destruct (IH p Hcp) as (l & Hnd & Hlen & Hincl & Hrk).
      pose proof (Hr n p Hn Hp) as Hlt.
      exists (gid n :: l). repeat split.
      + constructor; [|exact Hnd]. intros Hin. specialize (Hrk _ Hin). lia.
      + cbn. rewrite Hlen. reflexivity.
      + intros y [<-|Hy]; [apply in_map; exact Hn|apply Hincl; exact Hy].
      + intros y [<-|Hy]; [lia|]. specialize (Hrk _ Hy). lia.
  Qed.

  Lemma chain_bound k x : chain k x -> S k <= length t.
  Proof.
    intros Hc. destruct (chain_distinct k x Hc) as (l & Hnd & Hlen & Hincl & _).
    rewrite <- Hlen. unfold gids in Hincl. rewrite <- (map_length gid t). apply NoDup_incl_length; assumption.
  Qed.

  Lemma in_children_some u x : In x (children t (Some u)) -> exists n, In n t /\ gid n = x /\ In u (ndeps n).
  Proof.
    cbn. intros H. apply in_flat_map in H. destruct H as (n & Hn & Hx).
    apply in_map_iff in Hx. destruct Hx as (d & Hd & Hf). apply filter_In in Hf. destruct Hf as (Hf & He).
    apply Z.eqb_eq in He. subst d. exists n. repeat split; auto.
  Qed.

  Lemma level_next todo : forall visited inc next v i n,
    level t todo visited inc next = (v, i, n) ->
    forall x, In x n -> In x next \/ exists cur, In cur todo /\ In x (children t (Some cur)).
  Proof.
    induction todo as [|cur rest IH]; cbn; intros visited inc next v i n H x Hx.
    - inversion H; subst. left. exact Hx.
    - destruct (complete t visited cur).
      + destruct (IH _ _ _ _ _ _ H x Hx) as [Hin|(c & Hc & Hxc)].
        * apply in_app_or in Hin. destruct Hin as [Hin|Hin]; [left; exact Hin|right; exists cur; split; [left; reflexivity|exact Hin]].
        * right. exists c. split; [right; exact Hc|exact Hxc].
      + destruct (IH _ _ _ _ _ _ H x Hx) as [Hin|(c & Hc & Hxc)]; [left; exact Hin|right; exists c; split; [right; exact Hc|exact Hxc]].
  Qed.

  (** the levels: every queued node of level k ends a chain of k+1 tasks *)
  Lemma bfs_adequate fuel : forall k todo visited inc,
    (forall x, In x todo -> chain k x) -> 1 <= fuel -> length t + 2 <= fuel + k -> bfs fuel t todo visited inc <> None.
  Proof.
    induction fuel as [|f IH]; intros k todo visited inc Hch H1 Hf; [lia|].
    destruct todo as [|x r]; [cbn; discriminate|].
    pose proof (chain_bound k x (Hch x (or_introl eq_refl))) as Hb.
    cbn [bfs]. destruct (level t (x :: r) visited inc []) as [[v i] n] eqn:EL.
    apply (IH (S k)); [|lia|lia].
    intros y Hy. destruct (level_next _ _ _ _ _ _ _ EL y Hy) as [[]|(cur & Hcur & Hyc)].
    destruct (in_children_some cur y Hyc) as (nn & Hn & Hg & Hd).
    cbn. exists nn, cur. repeat split; auto.
  Qed.

  Theorem cycle_check_fuel_adequate : cycle_check (default_fuel t) t <> None.
  Proof.
    unfold cycle_check, default_fuel. apply (bfs_adequate _ 0); [|lia|lia].
    intros x Hx. cbn. cbn in Hx. apply in_map_iff in Hx. destruct Hx as (n & <- & Hn). apply filter_In in Hn.
    apply in_map. apply Hn.
  Qed.
End Fuel.

Theorem valid_fuel_adequate t : valid_dag t -> cycle_check (default_fuel t) t <> None.
Proof.
  intros (ND & _ & _ & (rank & Hr)). exact (cycle_check_fuel_adequate t rank Hr).
Qed.

(** the decision of the repaired BuildRootNode, with the fuel the model really uses, is exactly validity *)
Theorem build_root_iff t : build_root t = None <-> valid_dag t.
Proof.
  unfold build_root. split; [apply build_accept_sound|].
  intros H. apply build_accept_complete; [exact H|apply valid_fuel_adequate; exact H].
Qed.

(** ... and the model never answers 'out of fuel' on a graph that passes the static checks and is ranked *)
Theorem build_root_never_out_of_fuel t : valid_dag t -> build_root t <> Some BOutOfFuel.
Proof. intros H. rewrite (proj2 (build_root_iff t) H). discriminate. Qed.
