(** Dispatch: one round of [DefDispatcher.Do] (pkg/mod/dispatcher.go) over the
    list of dag instances in store order.  Faithful to the code: the round lists
    at most [limit] instances in status init (store order), asks for the alive
    workers, and rewrites the i-th listed instance as scheduled on
    [alive[i mod |alive|]]. *)
From Coq Require Import List ZArith Bool Arith Lia.
From FF Require Import Sx.
Import ListNotations.

Inductive istatus := IInit | IScheduled | IRunning | IBlocked | IFailed | ISuccess.

Definition istatus_eqb (a b : istatus) : bool :=
  match a, b with
  | IInit, IInit | IScheduled, IScheduled | IRunning, IRunning
  | IBlocked, IBlocked | IFailed, IFailed | ISuccess, ISuccess => true
  | _, _ => false
  end.

Lemma istatus_eqb_eq a b : istatus_eqb a b = true <-> a = b.
Proof. destruct a, b; simpl; split; congruence. Qed.

Record ins := mkIns { iid : Z; ist : istatus; iwk : Z }.

Definition is_init (s : istatus) : bool := match s with IInit => true | _ => false end.

Inductive derr := DOk | DNoAlive.

(** [assign limit c alive l]: [c] = number of init instances already passed. *)
Fixpoint assign (limit c : nat) (alive : list Z) (l : list ins) : list ins :=
  match l with
  | [] => []
  | x :: t =>
      if is_init (ist x) then
        (if c <? limit
         then mkIns (iid x) IScheduled (nth (c mod length alive) alive 0%Z)
         else x) :: assign limit (S c) alive t
      else x :: assign limit c alive t
  end.

Definition has_init (l : list ins) : bool := existsb (fun x => is_init (ist x)) l.

Definition dispatch_round (limit : nat) (insts : list ins) (alive : list Z) : list ins * derr :=
  if negb (has_init insts) then (insts, DOk)
  else match alive with
       | [] => (insts, DNoAlive)
       | _ => (assign limit 0 alive insts, DOk)
       end.

(** The workers handed out by a round, in order. *)
Definition handed (n m : nat) (alive : list Z) : list Z :=
  map (fun r => nth (r mod n) alive 0%Z) (seq 0 m).

Definition count_init (l : list ins) : nat := length (filter (fun x => is_init (ist x)) l).

(* ------------------------------------------------------------------ sx glue *)
Definition istatus_of_z (z : Z) : option istatus :=
  match z with
  | 0%Z => Some IInit | 1%Z => Some IScheduled | 2%Z => Some IRunning
  | 3%Z => Some IBlocked | 4%Z => Some IFailed | 5%Z => Some ISuccess | _ => None
  end.
Definition z_of_istatus (s : istatus) : Z :=
  match s with IInit => 0 | IScheduled => 1 | IRunning => 2 | IBlocked => 3 | IFailed => 4 | ISuccess => 5 end%Z.

Definition ins_of_sx (s : sx) : option ins :=
  match s with
  | L [I i; I st; I w] => match istatus_of_z st with Some st' => Some (mkIns i st' w) | None => None end
  | _ => None
  end.
Definition sx_of_ins (x : ins) : sx := L [I (iid x); I (z_of_istatus (ist x)); I (iwk x)].

Definition ins_eqb (a b : ins) : bool :=
  Z.eqb (iid a) (iid b) && istatus_eqb (ist a) (ist b) && Z.eqb (iwk a) (iwk b).

(** case = (limit insts alive err insts') as observed on the implementation *)
Definition check_dispatch (c : sx) : verdict :=
  match c with
  | L [I limit; L insts; alive; I err; L insts'] =>
      match opt_map ins_of_sx insts, sx_ints alive, opt_map ins_of_sx insts' with
      | Some i, Some a, Some i' =>
          let '(o, e) := dispatch_round (Z.to_nat limit) i a in
          let ez := match e with DOk => 0%Z | DNoAlive => 1%Z end in
          if Z.eqb ez err && list_eqb ins_eqb o i' then OkCase
          else Mismatch 1 (L [I ez; L (map sx_of_ins o)])
      | _, _, _ => BadCase 2
      end
  | _ => BadCase 1
  end.

(* ------------------------------------------------------------------ monitor *)
(** The property C07 itself as a boolean function of what one round did to the
    collection (before, alive at that moment, error class, after). *)
Definition moved (p : ins * ins) : list Z :=
  if is_init (ist (fst p)) && negb (is_init (ist (snd p))) then [iwk (snd p)] else [].

Definition pair_ok (alive : list Z) (p : ins * ins) : bool :=
  let '(x, y) := p in
  if is_init (ist x) then
    ins_eqb x y ||
    (Z.eqb (iid y) (iid x) && istatus_eqb (ist y) IScheduled && existsb (Z.eqb (iwk y)) alive)
  else ins_eqb x y.

Definition balanced (alive given : list Z) : bool :=
  forallb (fun w1 => forallb (fun w2 =>
     count_occ Z.eq_dec given w1 <=? S (count_occ Z.eq_dec given w2)) alive) alive.

Definition mon_dispatch (limit : nat) (before : list ins) (alive : list Z) (err : Z) (after : list ins) : bool :=
  if has_init before then
    match alive with
    | [] => Z.eqb err 1 && list_eqb ins_eqb before after
    | _ =>
        let given := flat_map moved (combine before after) in
        Z.eqb err 0 && Nat.eqb (length before) (length after)
        && forallb (pair_ok alive) (combine before after)
        && Nat.eqb (length given) (Nat.min limit (count_init before))
        && balanced alive given
    end
  else Z.eqb err 0 && list_eqb ins_eqb before after.

Definition monitor_dispatch (c : sx) : option bool :=
  match c with
  | L [I limit; L insts; alive; I err; L insts'] =>
      match opt_map ins_of_sx insts, sx_ints alive, opt_map ins_of_sx insts' with
      | Some i, Some a, Some i' => Some (mon_dispatch (Z.to_nat limit) i a err i')
      | _, _, _ => None
      end
  | _ => None
  end.
