(** ExecReg: the executor's registration protocol (DefExecutor: Push -> initQueue -> the single init goroutine
    (initWorkerTask: cancelMap guard, registration) -> workerQueue -> a worker (workerDo: status check, run,
    de-registration, hand-over to the parser)), as a labelled transition system in which

    - a delivery is a pair (task, object): [InitialDagIns] hands the SAME task object to [Push] once per path
      that reaches the task, and a run mutates that object, so two deliveries can alias one status;
    - the object statuses can change at any time, by the run that owns the object ([XSet]) and by anyone
      else ([XMutate]: DoPreCheck of a later push, the parser);
    - [leak] selects the refusal path of workerDo: [false] = the code as it is (fix de0061a: the refused
      delivery is de-registered), [true] = the code before that fix (the registration is left behind).

    The Engine LTS merges guard, status check and registration into [guard_ok] / [Accept] / [Drop] and treats
    "no run registered" as [runs s t = RNone]; the theorems of ExecRegFacts are what justifies that reading. *)
From Coq Require Import List ZArith Bool Arith Lia.
Import ListNotations.
From FF Require Import Engine.
Local Open Scope Z_scope.

Record dl := { dt : Z; dob : nat }.
Definition dl_eqb (a b : dl) : bool := Z.eqb (dt a) (dt b) && Nat.eqb (dob a) (dob b).
Inductive wph := WTaken | WRun.
Definition wph_eqb (a b : wph) : bool := match a, b with WTaken, WTaken | WRun, WRun => true | _, _ => false end.

Record xs := { objs : nat -> est;             (* in-memory status of every task object *)
               initq : list dl;               (* pushers blocked on the (unbuffered) init queue, oldest first *)
               held : option dl;              (* registered by the init goroutine, waiting for a free worker *)
               reg : Z -> bool;               (* cancelMap *)
               work : list (dl * wph);        (* busy workers *)
               entries : list (nat * est) }.  (* completion events handed to the parser: object, its status then *)

Definition updn {A} (f : nat -> A) (k : nat) (v : A) : nat -> A := fun x => if Nat.eqb x k then v else f x.

Inductive xl :=
| XPush (t : Z) (o : nat)        (* Executor.Push reaches the init queue *)
| XInitTake                      (* the init goroutine takes the oldest delivery: drops it if the task is registered, else registers it *)
| XHand                          (* ... and hands it to a free worker *)
| XCheck (d : dl)                (* the worker looks at the object's status: refuses, or starts the run *)
| XSet (d : dl) (s : est)        (* the run stores a status (into the object) *)
| XEnd (d : dl)                  (* the run is over: de-registered, completion event handed to the parser *)
| XMutate (o : nat) (s : est).   (* somebody else writes the object's status *)

Fixpoint takeout (x : dl * wph) (l : list (dl * wph)) : option (list (dl * wph)) :=
  match l with
  | [] => None
  | y :: r => if dl_eqb (fst y) (fst x) && wph_eqb (snd y) (snd x) then Some r
              else match takeout x r with Some r' => Some (y :: r') | None => None end
  end.

Definition set_objs s v := {| objs := v; initq := initq s; held := held s; reg := reg s; work := work s; entries := entries s |}.
Definition set_initq s v := {| objs := objs s; initq := v; held := held s; reg := reg s; work := work s; entries := entries s |}.
Definition set_held s v := {| objs := objs s; initq := initq s; held := v; reg := reg s; work := work s; entries := entries s |}.
Definition set_reg s v := {| objs := objs s; initq := initq s; held := held s; reg := v; work := work s; entries := entries s |}.
Definition set_work s v := {| objs := objs s; initq := initq s; held := held s; reg := reg s; work := v; entries := entries s |}.
Definition set_entries s v := {| objs := objs s; initq := initq s; held := held s; reg := reg s; work := work s; entries := v |}.

Section X.
  Variable nworkers : nat.
  Variable leak : bool.

  Definition xinit (f : nat -> est) : xs :=
    {| objs := f; initq := []; held := None; reg := fun _ => false; work := []; entries := [] |}.

  Definition xstep (s : xs) (l : xl) : option xs :=
    match l with
    | XPush t o => Some (set_initq s (initq s ++ [{| dt := t; dob := o |}]))
    | XInitTake =>
        match held s, initq s with
        | None, d :: r =>
            if reg s (dt d) then Some (set_initq s r)
            else Some (set_held (set_reg (set_initq s r) (upd (reg s) (dt d) true)) (Some d))
        | _, _ => None
        end
    | XHand =>
        match held s with
        | Some d => if Nat.ltb (length (work s)) nworkers then Some (set_held (set_work s (work s ++ [(d, WTaken)])) None) else None
        | None => None
        end
    | XCheck d =>
        match takeout (d, WTaken) (work s) with
        | Some w' =>
            if exec (objs s (dob d)) then Some (set_work s (w' ++ [(d, WRun)]))
            else Some (set_reg (set_work s w') (if leak then reg s else upd (reg s) (dt d) false))
        | None => None
        end
    | XSet d v =>
        match takeout (d, WRun) (work s) with
        | Some _ => Some (set_objs s (updn (objs s) (dob d) v))
        | None => None
        end
    | XEnd d =>
        match takeout (d, WRun) (work s) with
        | Some w' => Some (set_entries (set_reg (set_work s w') (upd (reg s) (dt d) false)) (entries s ++ [(dob d, objs s (dob d))]))
        | None => None
        end
    | XMutate o v => Some (set_objs s (updn (objs s) o v))
    end.

  Fixpoint xrun (s : xs) (ls : list xl) : option xs :=
    match ls with
    | [] => Some s
    | l :: r => match xstep s l with Some s' => xrun s' r | None => None end
    end.

  (** the tasks somebody in the executor is responsible for *)
  Definition owners (s : xs) : list Z :=
    (match held s with Some d => [dt d] | None => [] end) ++ map (fun p => dt (fst p)) (work s).

  Definition idle (s : xs) : bool :=
    match held s, work s with None, [] => true | _, _ => false end.

  (** no step the executor takes by itself is enabled *)
  Definition internal_enabled (s : xs) : bool :=
    (match held s, initq s with None, _ :: _ => true | _, _ => false end)
    || (match held s with Some _ => Nat.ltb (length (work s)) nworkers | None => false end)
    || existsb (fun p => wph_eqb (snd p) WTaken) (work s).
End X.
