From Coq Require Import List ZArith Bool Arith Lia.
From FF Require Import Sx Dispatch.
Import ListNotations.

Lemma no_init_assign limit c alive l :
  has_init l = false -> assign limit c alive l = l.
Proof.
  revert c; induction l as [|x t IH]; intros c H; simpl in *; [reflexivity|].
  apply orb_false_iff in H as [H1 H2]. rewrite H1. f_equal. apply IH, H2.
Qed.

Lemma round_no_pending limit insts alive :
  has_init insts = false -> dispatch_round limit insts alive = (insts, DOk).
Proof. intros H; unfold dispatch_round; rewrite H; reflexivity. Qed.

Lemma round_no_alive limit insts :
  has_init insts = true -> dispatch_round limit insts [] = (insts, DNoAlive).
Proof. intros H; unfold dispatch_round; rewrite H; reflexivity. Qed.

Lemma round_assigns limit insts alive :
  has_init insts = true -> alive <> [] ->
  dispatch_round limit insts alive = (assign limit 0 alive insts, DOk).
Proof. intros H Ha; unfold dispatch_round; rewrite H; destruct alive; [congruence|reflexivity]. Qed.

(** rank of position i = number of init instances strictly before it *)
Definition rank (l : list ins) (i : nat) : nat := count_init (firstn i l).

Lemma assign_length limit c alive l : length (assign limit c alive l) = length l.
Proof. revert c; induction l as [|x t IH]; intros c; simpl; [reflexivity|].
  destruct (is_init (ist x)); simpl; rewrite IH; reflexivity. Qed.

Lemma assign_nth limit alive l : forall c i d, i < length l ->
  nth i (assign limit c alive l) d =
  let x := nth i l d in
  if is_init (ist x) && (c + rank l i <? limit)
  then mkIns (iid x) IScheduled (nth ((c + rank l i) mod length alive) alive 0%Z)
  else x.
Proof.
  induction l as [|x t IH]; intros c i d Hi; simpl in Hi; [lia|].
  destruct i as [|i].
  - simpl. unfold rank; simpl. rewrite Nat.add_0_r.
    destruct (is_init (ist x)) eqn:E; simpl; rewrite ?E; simpl; [|reflexivity].
    destruct (c <? limit); reflexivity.
  - cbn [assign]. unfold rank. cbn [firstn]. unfold count_init. cbn [filter].
    destruct (is_init (ist x)) eqn:E; cbn [nth length].
    + rewrite IH by lia. unfold rank, count_init. cbv zeta.
      replace (S c + length (filter (fun x0 => is_init (ist x0)) (firstn i t)))
        with (c + S (length (filter (fun x0 => is_init (ist x0)) (firstn i t)))) by lia.
      reflexivity.
    + rewrite IH by lia. reflexivity.
Qed.

(** Full functional description of a round that assigns. *)
Theorem assign_spec limit alive l i d :
  i < length l ->
  let x := nth i l d in
  let y := nth i (assign limit 0 alive l) d in
  (is_init (ist x) = false -> y = x) /\
  (is_init (ist x) = true -> limit <= rank l i -> y = x) /\
  (is_init (ist x) = true -> rank l i < limit ->
     y = mkIns (iid x) IScheduled (nth (rank l i mod length alive) alive 0%Z)).
Proof.
  intros Hi. cbv zeta. rewrite assign_nth by assumption. cbv zeta. simpl.
  repeat split; intros H.
  - rewrite H. reflexivity.
  - intros Hr. rewrite H. simpl. destruct (Nat.ltb_spec (rank l i) limit); [lia|reflexivity].
  - intros Hr. rewrite H. simpl. destruct (Nat.ltb_spec (rank l i) limit); [reflexivity|lia].
Qed.

Lemma assigned_worker_alive (alive : list Z) r :
  alive <> [] -> In (nth (r mod length alive) alive 0%Z) alive.
Proof.
  intros H. apply nth_In. apply Nat.mod_upper_bound. destruct alive; simpl; [congruence|lia].
Qed.

(* ------------------------------------------------------------- balance *)

Lemma count_occ_handed_step n m alive w :
  count_occ Z.eq_dec (handed n (S m) alive) w =
  count_occ Z.eq_dec (handed n m alive) w +
  (if Z.eq_dec (nth (m mod n) alive 0%Z) w then 1 else 0).
Proof.
  unfold handed. rewrite seq_S, map_app, count_occ_app. simpl.
  destruct (Z.eq_dec _ w); lia.
Qed.

(** Pointer form of round-robin: after m hand-outs, with m = q*n + r, r < n,
    the workers at index < r have q+1 and the others q. *)
Lemma handed_counts alive : NoDup alive -> forall m,
  let n := length alive in
  0 < n ->
  exists q r, m = q * n + r /\ r < n /\
    forall j, j < n ->
      count_occ Z.eq_dec (handed n m alive) (nth j alive 0%Z) = q + (if j <? r then 1 else 0).
Proof.
  intros ND m n Hn. induction m as [|m IH].
  - exists 0, 0. split; [lia|]. split; [lia|]. intros j Hj. reflexivity.
  - destruct IH as (q & r & Hm & Hr & Hc).
    assert (Hmod : m mod n = r).
    { symmetry. apply (Nat.mod_unique m n q r); [assumption|lia]. }
    destruct (Nat.eq_dec (S r) n) as [E|E].
    + exists (S q), 0. split; [lia|]. split; [lia|].
      intros j Hj. rewrite count_occ_handed_step, Hc, Hmod by assumption.
      destruct (Z.eq_dec (nth r alive 0%Z) (nth j alive 0%Z)) as [e|e].
      * apply NoDup_nth in e; try assumption; try (fold n; lia). subst j.
        destruct (Nat.ltb_spec r r); [lia|]. destruct (Nat.ltb_spec r 0); lia.
      * assert (j <> r) by congruence.
        destruct (Nat.ltb_spec j r); destruct (Nat.ltb_spec j 0); lia.
    + exists q, (S r). split; [lia|]. split; [lia|].
      intros j Hj. rewrite count_occ_handed_step, Hc, Hmod by assumption.
      destruct (Z.eq_dec (nth r alive 0%Z) (nth j alive 0%Z)) as [e|e].
      * apply NoDup_nth in e; try assumption; try (fold n; lia). subst j.
        destruct (Nat.ltb_spec r r); [lia|]. destruct (Nat.ltb_spec r (S r)); lia.
      * assert (j <> r) by congruence.
        destruct (Nat.ltb_spec j r); destruct (Nat.ltb_spec j (S r)); lia.
Qed.

Theorem handed_balanced alive m w1 w2 :
  NoDup alive -> In w1 alive -> In w2 alive ->
  count_occ Z.eq_dec (handed (length alive) m alive) w1 <=
  S (count_occ Z.eq_dec (handed (length alive) m alive) w2).
Proof.
  intros ND H1 H2.
  assert (Hn : 0 < length alive) by (destruct alive; simpl in *; [contradiction|lia]).
  destruct (handed_counts alive ND m Hn) as (q & r & _ & _ & Hc).
  apply (In_nth _ _ 0%Z) in H1 as (j1 & Hj1 & <-).
  apply (In_nth _ _ 0%Z) in H2 as (j2 & Hj2 & <-).
  rewrite !Hc by assumption.
  destruct (j1 <? r), (j2 <? r); lia.
Qed.

(** The workers that [assign] writes are exactly [handed n (min limit #init)]. *)
Fixpoint written (limit c : nat) (alive : list Z) (l : list ins) : list Z :=
  match l with
  | [] => []
  | x :: t =>
      if is_init (ist x) then
        (if c <? limit then [nth (c mod length alive) alive 0%Z] else []) ++ written limit (S c) alive t
      else written limit c alive t
  end.

Lemma written_is_handed limit alive l : forall c,
  written limit c alive l =
  map (fun r => nth (r mod length alive) alive 0%Z) (seq c (Nat.min (limit - c) (count_init l))).
Proof.
  induction l as [|x t IH]; intros c; simpl.
  - rewrite Nat.min_0_r. reflexivity.
  - unfold count_init in *. simpl. destruct (is_init (ist x)) eqn:E; simpl.
    + rewrite IH. destruct (Nat.ltb_spec c limit).
      * replace (limit - c) with (S (limit - S c)) by lia. simpl. reflexivity.
      * replace (limit - c) with 0 by lia. replace (limit - S c) with 0 by lia. reflexivity.
    + apply IH.
Qed.

Theorem written_round limit alive l :
  written limit 0 alive l = handed (length alive) (Nat.min limit (count_init l)) alive.
Proof. rewrite written_is_handed, Nat.sub_0_r. reflexivity. Qed.

(** [written] really is the projection of what [assign] changed: the list of
    workers of the instances that are init before and scheduled-by-this-round after. *)
Lemma written_projection limit alive l : forall c,
  written limit c alive l =
  flat_map (fun p : ins * ins =>
              if is_init (ist (fst p)) && negb (is_init (ist (snd p))) then [iwk (snd p)] else [])
           (combine l (assign limit c alive l)).
Proof.
  induction l as [|x t IH]; intros c; simpl; [reflexivity|].
  destruct (is_init (ist x)) eqn:E; simpl.
  - destruct (c <? limit); simpl; rewrite ?E; simpl; rewrite <- IH; reflexivity.
  - rewrite E. simpl. apply IH.
Qed.

(* Non-vacuity: a concrete round *)
Example dispatch_example :
  dispatch_round 1000
    [mkIns 1 IInit 0; mkIns 2 IRunning 7; mkIns 3 IInit 0; mkIns 4 IInit 0]%Z [7; 8]%Z
  = ([mkIns 1 IScheduled 7; mkIns 2 IRunning 7; mkIns 3 IScheduled 8; mkIns 4 IScheduled 7]%Z, DOk).
Proof. reflexivity. Qed.

(* ------------------------------------------------------------- model satisfies the monitor *)
Lemma ins_eqb_refl x : ins_eqb x x = true.
Proof. unfold ins_eqb. rewrite !Z.eqb_refl. destruct (ist x); reflexivity. Qed.

Lemma ins_eqb_eq x y : ins_eqb x y = true <-> x = y.
Proof.
  destruct x as [i s w], y as [i' s' w']; unfold ins_eqb; simpl. split.
  - intros H. apply andb_true_iff in H as [H H3]. apply andb_true_iff in H as [H1 H2].
    apply Z.eqb_eq in H1, H3. apply istatus_eqb_eq in H2. congruence.
  - intros H; inversion H; subst. rewrite !Z.eqb_refl. destruct s'; reflexivity.
Qed.

Lemma list_ins_eqb_refl l : list_eqb ins_eqb l l = true.
Proof. apply (list_eqb_eq ins_eqb ins_eqb_eq). reflexivity. Qed.

Lemma pairs_ok limit alive l : alive <> [] -> forall c,
  forallb (pair_ok alive) (combine l (assign limit c alive l)) = true.
Proof.
  intros Ha. induction l as [|x t IH]; intros c; simpl; [reflexivity|].
  destruct (is_init (ist x)) eqn:E; simpl; rewrite E.
  - destruct (c <? limit); simpl.
    + rewrite Z.eqb_refl. simpl.
      assert (H : existsb (Z.eqb (nth (c mod length alive) alive 0%Z)) alive = true).
      { apply existsb_exists. exists (nth (c mod length alive) alive 0%Z). split.
        - apply assigned_worker_alive, Ha.
        - apply Z.eqb_refl. }
      rewrite H, orb_true_r. apply IH.
    + rewrite ins_eqb_refl. apply IH.
  - rewrite ins_eqb_refl. apply IH.
Qed.

Lemma balanced_handed alive m : NoDup alive ->
  balanced alive (handed (length alive) m alive) = true.
Proof.
  intros ND. unfold balanced. apply forallb_forall; intros w1 H1.
  apply forallb_forall; intros w2 H2. apply Nat.leb_le. apply handed_balanced; assumption.
Qed.

Theorem model_satisfies_monitor limit insts alive :
  NoDup alive ->
  let '(out, e) := dispatch_round limit insts alive in
  mon_dispatch limit insts alive (match e with DOk => 0 | DNoAlive => 1 end)%Z out = true.
Proof.
  intros ND. unfold dispatch_round, mon_dispatch.
  destruct (has_init insts) eqn:Hi; simpl.
  - destruct alive as [|a0 alive'] eqn:Ea.
    + simpl. apply list_ins_eqb_refl.
    + rewrite <- Ea in *. assert (Hne : alive <> []) by (rewrite Ea; discriminate).
      fold (moved). 
      change (fun p : ins * ins => if is_init (ist (fst p)) && negb (is_init (ist (snd p))) then [iwk (snd p)] else []) with moved.
      replace (flat_map moved (combine insts (assign limit 0 alive insts)))
        with (written limit 0 alive insts) by (rewrite written_projection; reflexivity).
      rewrite assign_length, Nat.eqb_refl, pairs_ok by assumption.
      rewrite written_round. unfold handed at 1. rewrite map_length, seq_length, Nat.eqb_refl.
      rewrite balanced_handed by assumption. reflexivity.
  - apply list_ins_eqb_refl.
Qed.
