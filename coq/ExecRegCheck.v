(** ExecRegCheck: correspondence between ExecReg and the real DefExecutor.  The harness drives the real executor
    (real Push / initWorkerTask / workerDo / TaskInstance.Run; mock store and parser; an action whose main phase
    blocks until released) with pushes of aliased task objects, releases and status writes, and records what it
    sees at every quiescent point: the registered tasks (cancelMap), the objects inside an action, the number of
    pushers still blocked, the completion events handed to the parser, the in-memory statuses.

    The steps the executor takes by itself (init goroutine, worker status check, runs that do not reach the
    action) are not scheduled by the harness; the checker therefore follows the SET of model states that are
    consistent with the observations so far (all interleavings of those steps), and reports a mismatch when the
    set becomes empty. *)
From Coq Require Import List ZArith Bool Arith.
From FF Require Import Sx Engine EngineCheck ExecReg.
Import ListNotations.
Local Open Scope Z_scope.

Definition code_of (s : est) : Z :=
  match s with SInit => 1 | SRunning => 2 | SEnding => 3 | SSuccess => 4 | SFailed => 5 | SRetrying => 7
             | SBlocked => 8 | SContinue => 9 | SSkipped => 10 end.

Fixpoint zinsert (x : Z) (l : list Z) : list Z :=
  match l with [] => [x] | y :: r => if x <=? y then x :: l else y :: zinsert x r end.
Definition zsort (l : list Z) : list Z := fold_right zinsert [] l.

Record xobs := { o_reg : list Z; o_run : list Z; o_blocked : Z; o_ent : list Z; o_st : list Z }.

Section C.
  Variable nworkers : nat.
  Variable otask : list Z.       (* task of object 0, 1, ... *)

  Definition task_of (o : nat) : Z := nth o otask 0.
  Definition nobj : nat := length otask.
  Definition alltasks : list Z := otask.

  Definition observe (s : xs) : xobs :=
    {| o_reg := zsort (nodup Z.eq_dec (filter (reg s) alltasks));
       o_run := zsort (map (fun p => Z.of_nat (dob (fst p))) (filter (fun p => wph_eqb (snd p) WRun) (work s)));
       o_blocked := Z.of_nat (length (initq s));
       o_ent := zsort (map (fun e => Z.of_nat (fst e) * 16 + code_of (snd e)) (entries s));
       o_st := map (fun o => code_of (objs s o)) (seq 0 nobj) |}.

  Definition xobs_eqb (a b : xobs) : bool :=
    list_eqb Z.eqb (o_reg a) (o_reg b) && list_eqb Z.eqb (o_run a) (o_run b) && Z.eqb (o_blocked a) (o_blocked b)
    && list_eqb Z.eqb (o_ent a) (o_ent b) && list_eqb Z.eqb (o_st a) (o_st b).

  Definition dl_code (d : dl) : Z := dt d * 64 + Z.of_nat (dob d).
  (** two model states that the checker need not distinguish *)
  Definition xs_eqb (a b : xs) : bool :=
    xobs_eqb (observe a) (observe b)
    && list_eqb Z.eqb (map dl_code (initq a)) (map dl_code (initq b))
    && (match held a, held b with None, None => true | Some x, Some y => dl_eqb x y | _, _ => false end)
    && list_eqb Z.eqb (map (fun p => dl_code (fst p) * 2 + (if wph_eqb (snd p) WTaken then 0 else 1)) (work a))
                      (map (fun p => dl_code (fst p) * 2 + (if wph_eqb (snd p) WTaken then 0 else 1)) (work b)).

  Fixpoint add_new (s : xs) (l : list xs) : list xs :=
    match l with [] => [s] | y :: r => if xs_eqb s y then l else y :: add_new s r end.
  Definition union (a b : list xs) : list xs := fold_right add_new b a.

  Definition xseq (s : xs) (ls : list xl) : list xs :=
    match xrun nworkers false s ls with Some s' => [s'] | None => [] end.

  (** what a worker does with a delivery it has just taken, up to the point where the action blocks (the action
      "X" of the harness has no before / after / retry hook): *)
  Definition take (s : xs) (d : dl) : list xs :=
    match xstep nworkers false s (XCheck d) with
    | None => []
    | Some s1 =>
        if exec (objs s (dob d)) then
          match objs s (dob d) with
          | SInit | SContinue => xseq s1 [XSet d SRunning]                          (* blocks in the main action *)
          | SEnding => xseq s1 [XSet d SSuccess; XEnd d]
          | SRetrying => xseq s1 [XSet d SInit; XEnd d]
          | _ => []
          end
        else [s1]                                                                    (* refused *)
    end.

  (** one step of the executor's own; [] when none is enabled *)
  Definition internal (s : xs) : list xs :=
    xseq s [XInitTake] ++ xseq s [XHand]
    ++ flat_map (fun p => if wph_eqb (snd p) WTaken then take s (fst p) else []) (work s).

  (** all quiescent states reachable by the executor's own steps *)
  Fixpoint settle_all (fuel : nat) (front : list xs) (acc : list xs) : list xs :=
    match fuel with
    | O => acc
    | S f =>
        let quiet := filter (fun s => match internal s with [] => true | _ => false end) front in
        let next := fold_right (fun s a => union (internal s) a) [] front in
        match next with
        | [] => union quiet acc
        | _ => settle_all f next (union quiet acc)
        end
    end.

  Inductive xop := OPush (o : nat) | ORelease (o : nat) (ok : bool) | OMutate (o : nat) (v : est).

  Definition apply_op (s : xs) (op : xop) : list xs :=
    match op with
    | OPush o => xseq s [XPush (task_of o) o]
    | ORelease o ok =>
        let d := {| dt := task_of o; dob := o |} in
        if ok then xseq s [XSet d SEnding; XSet d SSuccess; XEnd d] else xseq s [XSet d SFailed; XEnd d]
    | OMutate o v => xseq s [XMutate o v]
    end.

  (** follow the candidate set through the recorded steps; [Some i] = no candidate explains step i *)
  Fixpoint follow (i : Z) (cands : list xs) (steps : list (xop * xobs)) : option Z :=
    match steps with
    | [] => None
    | (op, ob) :: r =>
        let after := fold_right (fun s a => union (settle_all 64 (apply_op s op) []) a) [] cands in
        match filter (fun s => xobs_eqb (observe s) ob) after with
        | [] => Some i
        | keep => follow (i + 1) keep r
        end
    end.
End C.

(* ---- decoding ---- *)
Definition xop_of_sx (c : sx) : option xop :=
  match c with
  | L [I 0; o] => match sx_nat o with Some o => Some (OPush o) | None => None end
  | L [I 1; o; b] => match sx_nat o, sx_bool b with Some o, Some b => Some (ORelease o b) | _, _ => None end
  | L [I 2; o; v] => match sx_nat o, v with Some o, I v => match est_of v with Some v => Some (OMutate o v) | None => None end | _, _ => None end
  | _ => None
  end.

Definition xobs_of_sx (c : sx) : option xobs :=
  match c with
  | L [r; u; I b; e; st] =>
      match sx_ints r, sx_ints u, sx_ints e, sx_ints st with
      | Some r, Some u, Some e, Some st => Some {| o_reg := r; o_run := u; o_blocked := b; o_ent := e; o_st := st |}
      | _, _, _, _ => None
      end
  | _ => None
  end.

Definition step_of_sx (c : sx) : option (xop * xobs) :=
  match c with
  | L [op; ob] => match xop_of_sx op, xobs_of_sx ob with Some op, Some ob => Some (op, ob) | _, _ => None end
  | _ => None
  end.

Definition obj_of_sx (c : sx) : option (Z * est) :=
  match c with L [I t; I v] => match est_of v with Some v => Some (t, v) | None => None end | _ => None end.

(** case: (nworkers ((task status) ...) ((op obs) ...)) *)
Definition check_execreg (c : sx) : verdict :=
  match c with
  | L [nw; L objs0; L steps] =>
      match sx_nat nw, opt_map obj_of_sx objs0, opt_map step_of_sx steps with
      | Some nw, Some ob, Some st =>
          let otask := map fst ob in
          let f := fun o => nth o (map snd ob) SInit in
          match follow nw otask 0 [xinit f] st with
          | None => OkCase
          | Some i => Mismatch 95 (L [I i])
          end
      | _, _, _ => BadCase 95
      end
  | _ => BadCase 95
  end.

(** the duppath history as a harness case would record it (one worker): accepted by the checker *)
Example check_execreg_duppath :
  check_execreg
    (L [I 1; L [L [I 5; I 9]; L [I 3; I 9]];
        L [L [L [I 0; I 0]; L [L [I 5]; L [I 0]; I 0; L []; L [I 2; I 9]]];        (* push t5: running *)
           L [L [I 0; I 1]; L [L [I 3; I 5]; L [I 0]; I 0; L []; L [I 2; I 9]]];    (* push t3: registered, held *)
           L [L [I 0; I 0]; L [L [I 3; I 5]; L [I 0]; I 1; L []; L [I 2; I 9]]];    (* push t5 again: blocked *)
           L [L [I 1; I 0; I 0]; L [L [I 3; I 5]; L [I 1]; I 0; L [I 5]; L [I 5; I 2]]];  (* t5 fails: t3 runs, 2nd t5 registered *)
           L [L [I 1; I 1; I 1]; L [L []; L []; I 0; L [I 5; I 20]; L [I 5; I 4]]]]])     (* t3 done: 2nd t5 refused, nothing registered *)
  = OkCase.
Proof. vm_compute. reflexivity. Qed.
