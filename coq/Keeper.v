(** Keeper: the election and membership protocol of keeper/mongo/mongo.go as a labelled
    transition system at the granularity of single database operations.  Labels: clock advance,
    TTL sweep, the operations of one election round (read / insert / compare-and-set / renew)
    with their outcome (ok, failed = not applied, lost = applied but error returned), close,
    crash, heartbeat operations and membership queries.  [fixed = true] is the code as
    repaired by the fix commits (compare-and-set on the updatedAt read; Close deletes only its
    own record); [fixed = false] the code at the pinned commit (refutation witness). *)
From Coq Require Import List ZArith Bool Lia Arith.
From FF Require Import Sx.
Import ListNotations.
Local Open Scope Z_scope.

(* ---------- tiny total map on nat keys ---------- *)
Section Map.
  Context {A : Type} (d : A).
  Fixpoint get (l : list A) (k : nat) : A :=
    match l, k with
    | [], _ => d
    | x :: _, O => x
    | _ :: t, S k' => get t k'
    end.
  Fixpoint set (l : list A) (k : nat) (v : A) : list A :=
    match l, k with
    | [], O => [v]
    | [], S k' => d :: set [] k' v
    | _ :: t, O => v :: t
    | x :: t, S k' => x :: set t k' v
    end.
  Lemma get_set_same l k v : get (set l k v) k = v.
  Proof. revert l; induction k as [|k IH]; intros [|x t]; simpl; auto. Qed.
  Lemma get_nil k : get [] k = d.
  Proof. destruct k; reflexivity. Qed.
  Lemma get_set_other l k k' v : k <> k' -> get (set l k v) k' = get l k'.
  Proof.
    revert l k'; induction k as [|k IH]; intros l k' H.
    - destruct l as [|x t]; destruct k' as [|k']; simpl; try congruence; auto using get_nil.
    - destruct l as [|x t]; destruct k' as [|k']; simpl; auto;
        try (rewrite IH by congruence); rewrite ?get_nil; auto; try (apply IH; congruence).
  Qed.
End Map.

(* ---------- election model ---------- *)
Definition key := nat.
Record erec := { holder : key; upd : Z }.
Inductive res := Ok | Fail | Lost.
Inductive pc := Idle | GoInsert | GoCas (old : key) (oupd : Z) | GoRenew.
Record kp := { flag : bool; lease : Z; kpc : pc }.
Definition kp0 := {| flag := false; lease := 0; kpc := Idle |}.
Record st := { now : Z; rec : option erec; kps : list kp; hbs : list (option Z) }.

Inductive label :=
| Tick (d : Z) | Sweep
| ElectBegin (k : key) | CampRead (k : key)
| Insert (k : key) (r : res) | Cas (k : key) (r : res) | Renew (k : key) (r : res)
| CloseLeader (k : key) | Crash (k : key)
| Beat (k : key) (r : res) | CloseBeat (k : key) | SweepHb (k : key)
| ObsFlag (k : key) (b : bool)                  (* IsLeader() observed on the implementation *)
| ObsAlive (ks : list key).                     (* AliveNodes() observed on the implementation *)

Section Elect.
  Variable U : Z.
  Variable fixed : bool.   (* false = code as it is; true = repaired compare-and-set / close *)

  Definition K (s : st) (k : key) := get kp0 (kps s) k.
  Definition setK (s : st) (k : key) (v : kp) := {| now := now s; rec := rec s; kps := set kp0 (kps s) k v; hbs := hbs s |}.
  Definition setRec (s : st) (r : option erec) := {| now := now s; rec := r; kps := kps s; hbs := hbs s |}.
  Definition HB (s : st) (k : key) : option Z := get None (hbs s) k.
  Definition setHb (s : st) (k : key) (v : option Z) := {| now := now s; rec := rec s; kps := kps s; hbs := set None (hbs s) k v |}.
  (** membership: the heartbeat is younger than the unhealthy period *)
  Definition alive (s : st) (k : key) : bool :=
    match HB s k with Some u => now s - u <? U | None => false end.
  Definition alive_set (s : st) (n : nat) : list key := filter (alive s) (seq 0 n).

  Definition step (s : st) (l : label) : option st :=
    match l with
    | Tick d => if 0 <=? d then Some {| now := now s + d; rec := rec s; kps := kps s; hbs := hbs s |} else None
    | Sweep => match rec s with
               | Some r => if upd r + U <? now s then Some (setRec s None) else None
               | None => None
               end
    | ElectBegin k =>
        match kpc (K s k) with
        | Idle => Some (setK s k {| flag := flag (K s k); lease := lease (K s k);
                                    kpc := if flag (K s k) then GoRenew else Idle |})
        | _ => None
        end
    | CampRead k =>
        match kpc (K s k), flag (K s k) with
        | Idle, false =>
            match rec s with
            | None => Some (setK s k {| flag := false; lease := lease (K s k); kpc := GoInsert |})
            | Some r =>
                if Nat.eqb (holder r) k then Some (setK s k {| flag := true; lease := upd r; kpc := Idle |})
                else if upd r <? now s - U then Some (setK s k {| flag := false; lease := lease (K s k); kpc := GoCas (holder r) (upd r) |})
                else Some s
            end
        | _, _ => None
        end
    | Insert k r =>
        match kpc (K s k) with
        | GoInsert =>
            match r, rec s with
            | Fail, _ => Some (setK s k {| flag := false; lease := lease (K s k); kpc := Idle |})
            | _, Some _ => Some (setK s k {| flag := false; lease := lease (K s k); kpc := Idle |}) (* duplicate key *)
            | Ok, None => Some (setK (setRec s (Some {| holder := k; upd := now s |})) k {| flag := true; lease := now s; kpc := Idle |})
            | Lost, None => Some (setK (setRec s (Some {| holder := k; upd := now s |})) k {| flag := false; lease := lease (K s k); kpc := Idle |})
            end
        | _ => None
        end
    | Cas k r =>
        match kpc (K s k) with
        | GoCas old oupd =>
            let idle f le := {| flag := f; lease := le; kpc := Idle |} in
            match r with
            | Fail => Some (setK s k (idle false (lease (K s k))))
            | _ =>
                match rec s with
                | Some c =>
                    if Nat.eqb (holder c) old && (negb fixed || (upd c =? oupd)) then
                      let s' := setRec s (Some {| holder := k; upd := now s |}) in
                      match r with
                      | Ok => Some (setK s' k (idle true (now s)))
                      | _ => Some (setK s' k (idle false (lease (K s k))))
                      end
                    else Some (setK s k (idle false (lease (K s k))))
                | None => Some (setK s k (idle false (lease (K s k))))
                end
            end
        | _ => None
        end
    | Renew k r =>
        match kpc (K s k) with
        | GoRenew =>
            let idle f le := {| flag := f; lease := le; kpc := Idle |} in
            match r with
            | Fail => Some (setK s k (idle false (lease (K s k))))
            | _ =>
                match rec s with
                | Some c =>
                    if Nat.eqb (holder c) k then
                      let s' := setRec s (Some {| holder := k; upd := now s |}) in
                      match r with
                      | Ok => Some (setK s' k (idle true (now s)))
                      | _ => Some (setK s' k (idle false (lease (K s k))))
                      end
                    else Some (setK s k (idle false (lease (K s k))))
                | None => Some (setK s k (idle false (lease (K s k))))
                end
            end
        | _ => None
        end
    | CloseLeader k =>
        if flag (K s k) then
          match rec s with
          | Some c => if negb fixed || Nat.eqb (holder c) k
                      then Some (setK (setRec s None) k kp0) else Some (setK s k kp0)
          | None => Some (setK s k kp0)
          end
        else Some (setK s k kp0)
    | Crash k => Some (setK s k kp0)
    | Beat k r => match r with
                  | Fail => Some s
                  | _ => Some (setHb s k (Some (now s)))   (* upsert updatedAt := now (ok or reply lost) *)
                  end
    | CloseBeat k => Some (setHb s k None)
    | SweepHb k => match HB s k with
                   | Some u => if u + U <? now s then Some (setHb s k None) else None
                   | None => None
                   end
    | ObsFlag k b => if Bool.eqb (flag (K s k)) b then Some s else None
    | ObsAlive ks => if list_eqb Nat.eqb ks (alive_set s (length (hbs s))) then Some s else None
    end.

  Fixpoint run (s : st) (ls : list label) : option st :=
    match ls with
    | [] => Some s
    | l :: t => match step s l with Some s' => run s' t | None => None end
    end.

  Definition init := {| now := 0; rec := None; kps := []; hbs := [] |}.

  Definition valid (s : st) (k : key) := flag (K s k) = true /\ now s < lease (K s k) + U.
  Definition Inv (s : st) := forall k, valid s k -> rec s = Some {| holder := k; upd := lease (K s k) |}.
  (* auxiliary: a pending compare-and-set snapshot is stale, and every lease is in the past *)
  Definition Aux (s : st) :=
    (forall k old ou, kpc (K s k) = GoCas old ou -> ou < now s - U) /\
    (forall k, lease (K s k) <= now s) /\
    (forall r, rec s = Some r -> upd r <= now s).
End Elect.

(* ---- the code as it is: two unexpired leaders (refutation witness, replayable) ---- *)
Definition witness : list label :=
  [ CampRead 0%nat; Insert 0%nat Ok;              (* A leader at t=0 *)
    Tick 6;                                (* A is late: lease (U=5) expired *)
    CampRead 1%nat;                            (* B reads the stale record *)
    ElectBegin 0%nat; Renew 0%nat Ok;              (* A renews at t=6: lease valid until 11 *)
    Cas 1%nat Ok ].                            (* B's compare-and-set on workerKey only succeeds *)

Definition two_leaders (U : Z) (s : st) :=
  andb (andb (flag (K s 0%nat)) (flag (K s 1%nat)))
       (andb (now s <? lease (K s 0%nat) + U) (now s <? lease (K s 1%nat) + U)).

Theorem C08_unique_lease_refuted :
  exists s, run 5 false init witness = Some s /\ two_leaders 5 s = true.
Proof. eexists; split; [vm_compute; reflexivity | vm_compute; reflexivity]. Qed.

(* same schedule on the repaired compare-and-set: B does not become leader *)
Example witness_fixed :
  exists s, run 5 true init witness = Some s /\ two_leaders 5 s = false.
Proof. eexists; split; [vm_compute; reflexivity | vm_compute; reflexivity]. Qed.

(* ---- repaired code: the lease invariant holds in every reachable state ---- *)
Section Proofs.
  Variable U : Z.
  Hypothesis Upos : 0 < U.

  Notation stepF := (step U true).

  Lemma K_setK s k v k' : K (setK s k v) k' = if Nat.eqb k k' then v else K s k'.
  Proof.
    unfold K, setK; simpl. destruct (Nat.eqb_spec k k') as [->|H].
    - apply get_set_same.
    - apply get_set_other; assumption.
  Qed.
  Lemma K_setRec s r k : K (setRec s r) k = K s k.  Proof. reflexivity. Qed.
  Lemma rec_setK s k v : rec (setK s k v) = rec s.  Proof. reflexivity. Qed.
  Lemma now_setK s k v : now (setK s k v) = now s.  Proof. reflexivity. Qed.

  Definition Stale (s : st) := forall k old ou, kpc (K s k) = GoCas old ou -> ou < now s - U.
  Definition KI (s : st) := Inv U s /\ Stale s.

  Lemma I_init : KI init.
  Proof.
    split.
    - intros k [Hf _]. unfold K, init in Hf; simpl in Hf. rewrite ?get_nil in Hf. discriminate.
    - intros k old ou H. unfold K, init in H; simpl in H. rewrite ?get_nil in H. discriminate.
  Qed.

  Ltac kcase k k' := rewrite ?K_setK, ?K_setRec in *; destruct (Nat.eqb_spec k k'); subst; simpl in *.

  Lemma erec_eta r : r = {| holder := holder r; upd := upd r |}.  Proof. destruct r; reflexivity. Qed.

  Lemma I_step s l s' : KI s -> stepF s l = Some s' -> KI s'.
  Proof.
    intros [HI HS] Hstep. destruct l; simpl in Hstep.
    - (* Tick *)
      destruct (0 <=? d) eqn:Hd; [|discriminate]. injection Hstep as <-. apply Z.leb_le in Hd.
      split.
      + intros k [Hf Hl]; simpl in *. apply (HI k). split; [exact Hf|]. unfold K in *; simpl in *. lia.
      + intros k old ou H. specialize (HS k old ou H). simpl. lia.
    - (* Sweep *)
      destruct (rec s) as [r|] eqn:Hr; [|discriminate].
      destruct (upd r + U <? now s) eqn:Hlt; [|discriminate]. injection Hstep as <-. apply Z.ltb_lt in Hlt.
      split.
      + intros k [Hf Hl]. exfalso. assert (V : valid U s k) by (split; assumption).
        specialize (HI k V). rewrite Hr in HI. injection HI as ->. simpl in Hlt. unfold K in *; simpl in *. lia.
      + exact HS.
    - (* ElectBegin *)
      destruct (kpc (K s k)) eqn:Hpc; try discriminate. injection Hstep as <-.
      split.
      + intros k' [Hf Hl]. kcase k k'; apply HI; split; assumption.
      + intros k' old ou H. kcase k k'; [|eapply HS; eassumption]. destruct (flag (K s k')); discriminate.
    - (* CampRead *)
      destruct (kpc (K s k)) eqn:Hpc; try discriminate.
      destruct (flag (K s k)) eqn:Hfl; try discriminate.
      destruct (rec s) as [r|] eqn:Hr.
      + destruct (Nat.eqb_spec (holder r) k) as [Hh|Hh].
        * injection Hstep as <-. split.
          -- intros k' [Hf Hl]. kcase k k'.
             ++ rewrite Hr. f_equal. destruct r; reflexivity.
             ++ apply HI; split; assumption.
          -- intros k' old ou H. kcase k k'; [discriminate|eapply HS; eassumption].
        * destruct (upd r <? now s - U) eqn:Hst; injection Hstep as <-.
          -- apply Z.ltb_lt in Hst. split.
             ++ intros k' [Hf Hl]. kcase k k'; [discriminate|apply HI; split; assumption].
             ++ intros k' old ou H. kcase k k'; [injection H as <- <-; exact Hst|eapply HS; eassumption].
          -- split; assumption.
      + injection Hstep as <-. split.
        * intros k' [Hf Hl]. kcase k k'; [discriminate|apply HI; split; assumption].
        * intros k' old ou H. kcase k k'; [discriminate|eapply HS; eassumption].
    - (* Insert *)
      destruct (kpc (K s k)) eqn:Hpc; try discriminate.
      assert (Hnone : forall k', k' <> k -> rec s = None -> ~ valid U s k').
      { intros k' _ Hn V. specialize (HI k' V). congruence. }
      destruct r; destruct (rec s) as [c|] eqn:Hr; injection Hstep as <-; split;
        try (intros k' [Hf Hl]; kcase k k';
             [ try discriminate; try reflexivity
             | try (apply HI; split; assumption);
               try (exfalso; apply (Hnone k'); [congruence|reflexivity|split; assumption]) ]);
        try (intros k' old ou H; kcase k k'; [discriminate|eapply HS; eassumption]).
    - (* Cas *)
      destruct (kpc (K s k)) eqn:Hpc; try discriminate.
      pose proof (HS k _ _ Hpc) as Hstale.
      destruct r.
      + (* Ok *)
        destruct (rec s) as [c|] eqn:Hr.
        * destruct (Nat.eqb (holder c) old && (upd c =? oupd)) eqn:Hm; (cbv beta iota zeta in Hstep; injection Hstep as <-).
          -- apply andb_true_iff in Hm as [_ Hu]. apply Z.eqb_eq in Hu.
             split.
             ++ intros k' [Hf Hl]. kcase k k'; [reflexivity|].
                exfalso. assert (V : valid U s k') by (split; assumption).
                specialize (HI k' V). rewrite Hr in HI. injection HI as ->. simpl in *. lia.
             ++ intros k' old' ou H. kcase k k'; [discriminate|eapply HS; eassumption].
          -- split.
             ++ intros k' [Hf Hl]. kcase k k'; [discriminate|apply HI; split; assumption].
             ++ intros k' old' ou H. kcase k k'; [discriminate|eapply HS; eassumption].
        * (cbv beta iota zeta in Hstep; injection Hstep as <-). split.
          -- intros k' [Hf Hl]. kcase k k'; [discriminate|apply HI; split; assumption].
          -- intros k' old' ou H. kcase k k'; [discriminate|eapply HS; eassumption].
      + (* Fail *)
        (cbv beta iota zeta in Hstep; injection Hstep as <-). split.
        * intros k' [Hf Hl]. kcase k k'; [discriminate|apply HI; split; assumption].
        * intros k' old' ou H. kcase k k'; [discriminate|eapply HS; eassumption].
      + (* Lost *)
        destruct (rec s) as [c|] eqn:Hr.
        * destruct (Nat.eqb (holder c) old && (upd c =? oupd)) eqn:Hm; (cbv beta iota zeta in Hstep; injection Hstep as <-).
          -- apply andb_true_iff in Hm as [_ Hu]. apply Z.eqb_eq in Hu.
             split.
             ++ intros k' [Hf Hl]. kcase k k'; [discriminate|].
                exfalso. assert (V : valid U s k') by (split; assumption).
                specialize (HI k' V). rewrite Hr in HI. injection HI as ->. simpl in *. lia.
             ++ intros k' old' ou H. kcase k k'; [discriminate|eapply HS; eassumption].
          -- split.
             ++ intros k' [Hf Hl]. kcase k k'; [discriminate|apply HI; split; assumption].
             ++ intros k' old' ou H. kcase k k'; [discriminate|eapply HS; eassumption].
        * (cbv beta iota zeta in Hstep; injection Hstep as <-). split.
          -- intros k' [Hf Hl]. kcase k k'; [discriminate|apply HI; split; assumption].
          -- intros k' old' ou H. kcase k k'; [discriminate|eapply HS; eassumption].
    - (* Renew *)
      destruct (kpc (K s k)) eqn:Hpc; try discriminate.
      assert (Hother : forall c k', rec s = Some c -> holder c = k -> k' <> k -> ~ valid U s k').
      { intros c k' Hr Hh Hne V. specialize (HI k' V). rewrite Hr in HI. injection HI as ->. simpl in Hh. congruence. }
      destruct r; try destruct (rec s) as [c|] eqn:Hr; try destruct (Nat.eqb_spec (holder c) k) as [Hh|Hh];
        (cbv beta iota zeta in Hstep; injection Hstep as <-); split;
        try (intros k' [Hf Hl]; kcase k k';
             [ try discriminate; try reflexivity
             | try (exfalso; apply (Hother c k'); [reflexivity|(reflexivity||assumption)|congruence|split; assumption]);
               try (apply HI; split; assumption) ]);
        try (intros k' old' ou H; kcase k k'; [discriminate|eapply HS; eassumption]).
    - (* CloseLeader *)
      assert (Hother : forall c k', rec s = Some c -> holder c = k -> k' <> k -> ~ valid U s k').
      { intros c k' Hr Hh Hne V. specialize (HI k' V). rewrite Hr in HI. injection HI as ->. simpl in Hh. congruence. }
      destruct (flag (K s k)) eqn:Hfl; try destruct (rec s) as [c|] eqn:Hr;
        try destruct (Nat.eqb_spec (holder c) k) as [Hh|Hh]; simpl in Hstep;
        (cbv beta iota zeta in Hstep; injection Hstep as <-); split;
        try (intros k' [Hf Hl]; kcase k k';
             [ try discriminate
             | try (exfalso; apply (Hother c k'); [reflexivity|(reflexivity||assumption)|congruence|split; assumption]);
               try (apply HI; split; assumption) ]);
        try (intros k' old' ou H; kcase k k'; [discriminate|eapply HS; eassumption]).
    - (* Crash *)
      (cbv beta iota zeta in Hstep; injection Hstep as <-). split.
      + intros k' [Hf Hl]. kcase k k'; [discriminate|apply HI; split; assumption].
      + intros k' old' ou H. kcase k k'; [discriminate|eapply HS; eassumption].
    - (* Beat *)
      destruct r; injection Hstep as <-; split; assumption.
    - (* CloseBeat *)
      injection Hstep as <-; split; assumption.
    - (* SweepHb *)
      destruct (HB s k) as [u|]; [|discriminate]. destruct (u + U <? now s); [|discriminate].
      injection Hstep as <-; split; assumption.
    - (* ObsFlag *)
      destruct (Bool.eqb (flag (K s k)) b); [|discriminate]. injection Hstep as <-; split; assumption.
    - (* ObsAlive *)
      destruct (list_eqb Nat.eqb ks (alive_set U s (length (hbs s)))); [|discriminate]. injection Hstep as <-; split; assumption.
  Qed.

  Theorem lease_invariant ls s : run U true init ls = Some s -> Inv U s.
  Proof.
    assert (G : forall ls s0, KI s0 -> run U true s0 ls = Some s -> KI s).
    { induction ls0 as [|l t IH]; simpl; intros s0 H0 Hr.
      - injection Hr as <-. exact H0.
      - destruct (stepF s0 l) eqn:Hs; [|discriminate]. eapply IH; [eapply I_step; eassumption|exact Hr]. }
    intros H. exact (proj1 (G ls init I_init H)).
  Qed.

  (* C08 (1): two keepers never both hold an unexpired lease *)
  Theorem C08_unique_lease ls s k1 k2 :
    run U true init ls = Some s -> valid U s k1 -> valid U s k2 -> k1 = k2.
  Proof.
    intros Hr V1 V2. pose proof (lease_invariant _ _ Hr) as HI.
    pose proof (HI k1 V1) as E1. pose proof (HI k2 V2) as E2. rewrite E1 in E2. injection E2 as ->. reflexivity.
  Qed.
End Proofs.

(* ------------------------------------------------------------------ more election facts (repaired code) *)
Section MoreFacts.
  Variable U : Z.
  Hypothesis Upos : 0 < U.

  (** C08 (2): while keeper k holds an unexpired lease the record names k with exactly that lease:
      nobody displaced it - also not another keeper's Close *)
  Theorem leader_not_displaced ls s k :
    run U true init ls = Some s -> valid U s k -> rec s = Some {| holder := k; upd := lease (K s k) |}.
  Proof. intros Hr V. exact (lease_invariant U ls s Hr k V). Qed.

  (** C08 (3): a renewal that finds the record naming somebody else (or no record) clears the flag *)
  Theorem lost_lease_reports_non_leader s k r s' :
    kpc (K s k) = GoRenew ->
    (match rec s with Some c => holder c <> k | None => True end) ->
    step U true s (Renew k r) = Some s' -> flag (K s' k) = false.
  Proof.
    intros Hpc Hrec Hst. simpl in Hst. rewrite Hpc in Hst.
    destruct r; try (injection Hst as <-; unfold K, setK; simpl; rewrite get_set_same; reflexivity);
      destruct (rec s) as [c|] eqn:Hr;
      try (destruct (Nat.eqb_spec (holder c) k) as [E|E]; [contradiction|]);
      injection Hst as <-; unfold K, setK, setRec; simpl; rewrite get_set_same; reflexivity.
  Qed.

  (** C08 (4): an uninterrupted round on an absent record makes the keeper leader *)
  Theorem round_on_absent_record_wins s k s1 s2 :
    rec s = None -> kpc (K s k) = Idle -> flag (K s k) = false ->
    step U true s (CampRead k) = Some s1 -> step U true s1 (Insert k Ok) = Some s2 ->
    flag (K s2 k) = true /\ rec s2 = Some {| holder := k; upd := now s |}.
  Proof.
    intros Hr Hpc Hf H1 H2. simpl in H1. rewrite Hpc, Hf, Hr in H1. injection H1 as <-.
    simpl in H2. unfold K at 1 in H2. unfold setK in H2. simpl in H2. rewrite get_set_same in H2. simpl in H2.
    rewrite Hr in H2. injection H2 as <-. split.
    - unfold K, setK, setRec. simpl. rewrite get_set_same. reflexivity.
    - reflexivity.
  Qed.

  (** ... and on a record older than the unhealthy period *)
  Theorem round_on_stale_record_wins s k c s1 s2 :
    rec s = Some c -> holder c <> k -> upd c < now s - U -> kpc (K s k) = Idle -> flag (K s k) = false ->
    step U true s (CampRead k) = Some s1 -> step U true s1 (Cas k Ok) = Some s2 ->
    flag (K s2 k) = true /\ rec s2 = Some {| holder := k; upd := now s |}.
  Proof.
    intros Hr Hh Hst Hpc Hf H1 H2. simpl in H1. rewrite Hpc, Hf, Hr in H1.
    destruct (Nat.eqb_spec (holder c) k) as [E|E]; [contradiction|].
    destruct (Z.ltb_spec (upd c) (now s - U)) as [L|L]; [|lia]. injection H1 as <-.
    simpl in H2. unfold K at 1 in H2. unfold setK in H2. simpl in H2. rewrite get_set_same in H2. simpl in H2.
    rewrite Hr in H2. rewrite Nat.eqb_refl, Z.eqb_refl in H2. simpl in H2. injection H2 as <-. split.
    - unfold K, setK, setRec. simpl. rewrite get_set_same. reflexivity.
    - reflexivity.
  Qed.

  (* ---------------------------------------------------------------- membership (C09) *)
  (** a store-side TTL sweep only removes heartbeats that are already outside the alive set *)
  Theorem sweep_keeps_alive_set s k s' j :
    step U true s (SweepHb k) = Some s' -> alive U s' j = alive U s j.
  Proof.
    simpl. destruct (HB s k) as [u|] eqn:E; [|discriminate].
    destruct (Z.ltb_spec (u + U) (now s)) as [L|L]; [|discriminate]. intros H; injection H as <-.
    unfold alive, HB, setHb. simpl. destruct (Nat.eq_dec k j) as [->|Hne].
    - rewrite get_set_same. unfold HB in E. rewrite E. destruct (Z.ltb_spec (now s - u) U); [lia|reflexivity].
    - rewrite get_set_other by assumption. reflexivity.
  Qed.

  (** a worker that has just stored a heartbeat is a member *)
  Theorem beat_makes_alive s k s' : step U true s (Beat k Ok) = Some s' -> alive U s' k = true.
  Proof.
    simpl. intros H; injection H as <-. unfold alive, HB, setHb. simpl. rewrite get_set_same.
    apply Z.ltb_lt. lia.
  Qed.

  (** and stays one as long as it beats again before the period elapses *)
  Theorem alive_until_period s k u : HB s k = Some u -> now s - u < U -> alive U s k = true.
  Proof. intros E L. unfold alive. rewrite E. apply Z.ltb_lt. exact L. Qed.

  (** a crashed worker (no more beats) is not reported once the period has elapsed *)
  Theorem silent_worker_expires s k u : HB s k = Some u -> U <= now s - u -> alive U s k = false.
  Proof. intros E L. unfold alive. rewrite E. apply Z.ltb_ge. exact L. Qed.

  (** a gracefully closed worker disappears at once *)
  Theorem close_removes_at_once s k s' : step U true s (CloseBeat k) = Some s' -> alive U s' k = false.
  Proof. simpl. intros H; injection H as <-. unfold alive, HB, setHb. simpl. rewrite get_set_same. reflexivity. Qed.

  (** the reported set is exactly the workers with a fresh heartbeat *)
  Theorem alive_set_spec s n k :
    In k (alive_set U s n) <-> (k < n)%nat /\ exists u, HB s k = Some u /\ now s - u < U.
  Proof.
    unfold alive_set. rewrite filter_In, in_seq. unfold alive. split.
    - intros [[_ Hk] H]. split; [lia|]. destruct (HB s k) as [u|]; [|discriminate]. exists u. split; [reflexivity|apply Z.ltb_lt; exact H].
    - intros [Hk [u [E L]]]. split; [lia|]. rewrite E. apply Z.ltb_lt. exact L.
  Qed.
End MoreFacts.

(* ------------------------------------------------------------------ the Init start-up protocol *)
(** wg = firstInitWg counter (starts at 2); each loop reports once when [once] (the repaired code)
    or on every round until Init completed (the pinned code) *)
Record ist := { wg : Z; completed : bool; returned : bool; hb_stored : bool; e_done : bool; b_done : bool; panicked : bool }.
Definition ist0 := {| wg := 2; completed := false; returned := false; hb_stored := false; e_done := false; b_done := false; panicked := false |}.
Inductive ilabel := IElectRound | IBeatOk | IBeatFail | IReturn.

Definition done (once : bool) (s : ist) (is_elect : bool) : ist :=
  if completed s then s
  else if once && (if is_elect then e_done s else b_done s) then s
  else {| wg := wg s - 1; completed := completed s; returned := returned s; hb_stored := hb_stored s;
          e_done := (if is_elect then true else e_done s); b_done := (if is_elect then b_done s else true);
          panicked := panicked s || (wg s - 1 <? 0) |}.

Definition istep (once : bool) (s : ist) (l : ilabel) : option ist :=
  match l with
  | IElectRound => Some (done once s true)
  | IBeatOk => let s1 := {| wg := wg s; completed := completed s; returned := returned s; hb_stored := true;
                            e_done := e_done s; b_done := b_done s; panicked := panicked s |} in
               Some (done once s1 false)
  | IBeatFail => Some s
  | IReturn => if (wg s <=? 0) && negb (returned s)
               then Some {| wg := wg s; completed := true; returned := true; hb_stored := hb_stored s;
                            e_done := e_done s; b_done := b_done s; panicked := panicked s |}
               else None
  end.

Fixpoint irun (once : bool) (s : ist) (ls : list ilabel) : option ist :=
  match ls with [] => Some s | l :: r => match istep once s l with Some s' => irun once s' r | None => None end end.

(** invariant of the repaired protocol: [completed] is set exactly when Init returns; until then the
    counter is 2 minus the number of loops that reported, the heartbeat loop reports only after a
    heartbeat was stored, and the counter never went negative *)
Definition b2z (b : bool) : Z := if b then 1 else 0.
Definition J (s : ist) : Prop :=
  completed s = returned s /\
  (returned s = false -> wg s = 2 - b2z (e_done s) - b2z (b_done s) /\ (b_done s = true -> hb_stored s = true) /\ panicked s = false) /\
  (returned s = true -> hb_stored s = true /\ panicked s = false).

Lemma J_init : J ist0.
Proof. unfold J, ist0; simpl. repeat split; try discriminate; reflexivity. Qed.

Lemma J_step s l s' : J s -> istep true s l = Some s' -> J s'.
Proof.
  destruct s as [w c r h e b p]. unfold J, b2z.
  cbn [wg completed returned hb_stored e_done b_done panicked]. intros (Hc & Hn & Hy) Hst. subst c.
  destruct l; unfold istep, done in Hst; cbn [wg completed returned hb_stored e_done b_done panicked] in Hst.
  1-3: destruct r, h, e, b, p; cbn [andb orb negb] in Hst; try discriminate; injection Hst as <-;
       cbn [wg completed returned hb_stored e_done b_done panicked];
       repeat split; intros; try discriminate; try reflexivity;
       try (destruct (Hn eq_refl) as (Hw & Hb & Hp)); try (destruct (Hy eq_refl) as (Hh & Hp));
       try discriminate; try lia; try (apply Z.ltb_ge; lia); auto.
  (* Init returns *)
  destruct ((w <=? 0) && negb r) eqn:G; [|discriminate]. injection Hst as <-.
  cbn [wg completed returned hb_stored e_done b_done panicked].
  apply andb_true_iff in G as [G1 G2]. apply Z.leb_le in G1. apply negb_true_iff in G2.
  destruct (Hn G2) as (Hw & Hb & Hp). split; [reflexivity|]. split; [discriminate|].
  intros _. split; [|exact Hp]. apply Hb. destruct e, b; try reflexivity; lia.
Qed.

(** C09: when Init returns a heartbeat of the worker is stored (it is a member), and the start-up
    counter never went negative (no panic) - for every order of election rounds, successful and
    failed heartbeat writes *)
Theorem init_returns_registered ls s :
  irun true ist0 ls = Some s -> returned s = true -> hb_stored s = true /\ panicked s = false.
Proof.
  assert (G : forall ls s0, J s0 -> irun true s0 ls = Some s -> J s).
  { induction ls0 as [|l t IH]; simpl; intros s0 H0 Hr.
    - injection Hr as <-. exact H0.
    - destruct (istep true s0 l) eqn:Hs; [|discriminate]. eapply IH; [eapply J_step; eassumption|exact Hr]. }
  intros Hr Hret. destruct (G ls ist0 J_init Hr) as (_ & _ & Hy). exact (Hy Hret).
Qed.

(** the pinned code: election round, failed heartbeat, second election round release Init with no
    heartbeat stored; one more successful heartbeat then drives the counter negative *)
Theorem init_protocol_unfixed_refuted :
  (exists s, irun false ist0 [IElectRound; IBeatFail; IElectRound; IReturn] = Some s /\ returned s = true /\ hb_stored s = false) /\
  (exists s, irun false ist0 [IElectRound; IBeatFail; IElectRound; IBeatOk] = Some s /\ panicked s = true).
Proof. split; eexists; vm_compute; repeat split; reflexivity. Qed.
