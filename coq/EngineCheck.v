(** EngineCheck: is the journal of a real engine run a history of Engine (the code as it is: all three
    switches off)?  The journal shows the store traffic and the action phases; the hand-overs between
    goroutines are not visible and are inferred:
    - a run's first write accepts the matching delivery under way;
    - a run is unregistered and its completion event queued right after its last status write (the harness
      lets a goroutine run on until it parks again, so nothing else happens in between);
    - completion events whose handling touches the store (a push reads the next tasks, a verdict patches the
      instance) are handled when that store call appears; events whose handling is silent are handled as soon
      as they reach the head of the queue;
    - the command watcher's phases are its store calls (read of the eligible targets = pick-up, re-arming
      writes, the clearing patch, the re-initialising read); a restart that finds the instance not running
      leaves no trace and is inserted where the next step needs it.
    Besides the labels, three things the model computes are compared with the journal: every verdict the
    parser writes for the instance, the set of tasks each push reads, and - at every point the harness found
    the real engine quiescent - that the model has nothing in flight either.
    - a push is inferred from what follows it: the pre-check verdict it writes, or the first write of the run
      it leads to (a push that the executor refuses leaves no trace and is resolved at the next quiescent point).
    Scope: scenarios marked 'core' (no cancel, no injected failures) with one dag instance.

    The verdict is the correspondence; the monitor says whether every accepted delivery carried the task's
    current persisted status ([validate], the hypothesis of the safety theorems in EngineFacts). *)
From Coq Require Import List ZArith Bool.
From FF Require Import Sx StoreModel StoreCheck Engine.
Import ListNotations.
Local Open Scope Z_scope.

Definition est_of (z : Z) : option est :=
  match z with 1 => Some SInit | 2 => Some SRunning | 3 => Some SEnding | 4 => Some SSuccess | 5 => Some SFailed
             | 7 => Some SRetrying | 8 => Some SBlocked | 9 => Some SContinue | 10 => Some SSkipped | _ => None end.

Fixpoint alookup (l : list (Z * list Z)) (k : Z) : list Z :=
  match l with [] => [] | (k', v) :: r => if Z.eqb k k' then v else alookup r k end.

(** every task record created in the journal *)
Fixpoint created (evs : list sx) : list trec :=
  match evs with
  | [] => []
  | L [I 1; I _; op; _; I _; I fault] :: r =>
      match sop_of_sx op with
      | Some (OBatchCreateTasks l _) => (if Z.eqb fault 0 then l else []) ++ created r
      | _ => created r
      end
  | _ :: r => created r
  end.

Definition deps_of (recs : list trec) : list (Z * list Z) :=
  map (fun r => (t_id r,
                 flat_map (fun g => map t_id (filter (fun x => Z.eqb (t_gid x) g && Z.eqb (t_ins x) (t_ins r)) recs)) (t_deps r)))
      recs.

Record acc := { a_ec : eng;
                a_stale : list Z;      (* deliveries accepted with a stale snapshot *)
                a_started : bool;      (* the instance was just marked running by the scheduler watch *)
                a_defer : bool }.      (* an initialisation found nothing executable and its verdict depends on the walk order: it is taken when the verdict is written *)

Inductive res := Ok (a : acc) | Rej (code : Z) (subject : Z).

Definition ins_code (i : ist) : Z := match i with IRunning => 3 | IBlocked => 4 | IFailed => 5 | ISuccess => 6 end.

Section A.
  Variable tasks : list Z.
  Variable depl : list (Z * list Z).
  Definition deps (t : Z) : list Z := alookup depl t.
  Notation stp := (step tasks deps false false false).

  Definition with_ec (a : acc) (s : eng) : acc := {| a_ec := s; a_stale := a_stale a; a_started := a_started a; a_defer := a_defer a |}.

  Definition do_step (a : acc) (l : label) (code subj : Z) : res :=
    match stp (a_ec a) l with
    | Some s' => Ok (with_ec a s')
    | None => Rej code subj
    end.

  Definition bind (r : res) (f : acc -> res) : res := match r with Ok a => f a | Rej c s => Rej c s end.

  (** what handling the head event would push; None when the queue is empty *)
  Definition head_effect (s : eng) : option (Z * list Z * bool) :=   (* task, pushes, verdict reached *)
    match evq s with
    | [] => None
    | (t, st) :: _ =>
        if tree s && parents_done deps (know s) t then
          let k' := upd (know s) t st in
          let pushes := if done st then filter (pushable deps k') (children tasks deps t)
                        else if est_eqb st SInit then [t] else [] in
          Some (t, pushes, match pushes, verdict_of tasks deps false k' with [], VRunning => false | [], _ => true | _, _ => false end)
        else Some (t, [], false)
    end.

  (** events whose handling is silent are handled as soon as they are at the head of the queue *)
  Fixpoint flush (fuel : nat) (a : acc) : res :=
    match fuel with
    | O => Ok a
    | S f =>
        match head_effect (a_ec a) with
        | Some (t, [], false) => bind (do_step a (Deliver false) 78 t) (flush f)
        | _ => Ok a
        end
    end.

  Definition flush_all (a : acc) : res := flush (S (length (evq (a_ec a)))) a.

  (** the run of [t] wrote its last status: it is unregistered, its event queued *)
  Definition finish (a : acc) (t : Z) : res := bind (do_step a (Finish t) 79 t) flush_all.

  Definition find_sn (l : list (Z * est)) (t : Z) : option est :=
    match find (fun p => Z.eqb (fst p) t) l with Some p => Some (snd p) | None => None end.

  (** the run of [t] that is about to write: it was delivered (pushed first, if the push has not been seen yet)
      with the snapshot it returns *)
  Definition ensure_queued (a : acc) (t : Z) : res * est :=
    match runs (a_ec a) t with
    | RQueued s => (Ok a, s)
    | RNone =>
        let accept (a0 : acc) (sn : est) : res :=
          match stp (a_ec a0) (Accept t sn) with
          | Some s' => Ok {| a_ec := s';
                             a_stale := if est_eqb (store (a_ec a0) t) sn then a_stale a0 else t :: a_stale a0;
                             a_started := a_started a0; a_defer := a_defer a0 |}
          | None => Rej 61 t
          end in
        match find_sn (pend (a_ec a)) t with
        | Some sn => (accept a sn, sn)
        | None =>
            match find_sn (pushq (a_ec a)) t with
            | Some sn => (bind (do_step a (PushRun t sn) 63 t) (fun a1 => accept a1 sn), sn)
            | None => (Rej 64 t, SInit)
            end
        end
    | _ => (Rej 62 t, SInit)
    end.

  Definition same_set (a b : list Z) : bool :=
    forallb (fun x => zin x b) a && forallb (fun x => zin x a) b.

  (** the push that reads exactly [ids] *)
  Definition deliver_push (a : acc) (ids : list Z) : res :=
    match head_effect (a_ec a) with
    | Some (t, pushes, _) =>
        match pushes with
        | [] => Rej 72 t
        | _ => if same_set pushes ids then bind (do_step a (Deliver false) 73 t) flush_all else Rej 74 t
        end
    | None => Rej 71 0
    end.

  (** the verdict patch [st] *)
  Definition deliver_verdict (a : acc) (st : Z) : res :=
    match head_effect (a_ec a) with
    | Some (t, [], true) =>
        bind (do_step a (Deliver (Z.eqb st 4)) 66 t) (fun a' => if Z.eqb (ins_code (ins (a_ec a'))) st then flush_all a' else Rej 67 t)
    | Some (t, _, _) => Rej 68 t
    | None => Rej 69 0
    end.

  Definition restart_idle_if_needed (a : acc) : acc :=
    match stp (a_ec a) RestartIdle with Some s' => with_ec a s' | None => a end.

  (** a push wrote a pre-check verdict *)
  Definition on_verdict (a : acc) (id : Z) (skip : bool) : res :=
    match find_sn (pushq (a_ec a)) id with
    | Some sn => bind (do_step a (if skip then PushSkip id sn else PushBlock id sn) 57 id) flush_all
    | None => Rej 58 id
    end.

  Definition on_patch (a : acc) (id st : Z) : res :=
    match st with
    | 0 => Ok a
    | 2 => let '(r, sn) := ensure_queued a id in
           bind r (fun a1 => match sn with SInit | SContinue => do_step a1 (StartWrite id) 40 id | _ => Rej 59 id end)
    | 1 => let '(r, sn) := ensure_queued a id in
           bind r (fun a1 => match sn with
                             | SRetrying => bind (do_step a1 (StartWrite id) 41 id) (fun a2 => finish a2 id)
                             | _ => Rej 59 id end)
    | 3 => do_step a (MainOk id) 42 id
    | 4 => match runs (a_ec a) id with
           | REnding => bind (do_step a (AfterOk id) 43 id) (fun a1 => finish a1 id)
           | _ => let '(r, sn) := ensure_queued a id in
                  bind r (fun a1 => match sn with
                                    | SEnding => bind (do_step a1 (StartWrite id) 44 id) (fun a2 => bind (do_step a2 (AfterOk id) 45 id) (fun a3 => finish a3 id))
                                    | _ => Rej 59 id end)
           end
    | 5 => let fail_from (a0 : acc) : res :=
             match runs (a_ec a0) id with
             | RInMain => do_step a0 (MainErr id) 46 id
             | REnding => do_step a0 (AfterErr id) 47 id
             | RQueued SInit | RQueued SContinue => do_step a0 (BeforeErr id) 48 id
             | RQueued SRetrying => do_step a0 (RetryErr id) 49 id
             | RQueued SEnding => bind (do_step a0 (StartWrite id) 50 id) (fun a1 => do_step a1 (AfterErr id) 51 id)
             | _ => Rej 55 id
             end in
           bind (match runs (a_ec a) id with
                 | RNone => let '(r, _) := ensure_queued a id in bind r fail_from
                 | _ => fail_from a
                 end) (fun a1 => finish a1 id)
    | _ => Rej (80 + st) id      (* canceled: outside the model *)
    end.

  (** the harness found the real engine quiescent: deliveries the executor refused are dropped; nothing else
      may be in flight in the model *)
  Fixpoint drop_refused (fuel : nat) (a : acc) : res :=
    match fuel with
    | O => Ok a
    | S f =>
        match pend (a_ec a) with
        | [] => Ok a
        | (t, sn) :: _ => bind (do_step a (Drop t sn) 75 t) (drop_refused f)
        end
    end.

  Fixpoint push_all (fuel : nat) (a : acc) : res :=
    match fuel with
    | O => Ok a
    | S f =>
        match pushq (a_ec a) with
        | [] => Ok a
        | (t, sn) :: _ => bind (do_step a (PushRun t sn) 65 t) (push_all f)
        end
    end.

  Definition on_quiescent (a : acc) : res :=
    bind (flush_all (restart_idle_if_needed a)) (fun a0 =>
    bind (push_all (S (length (pushq (a_ec a0)))) a0) (fun a1 =>
    bind (drop_refused (S (length (pend (a_ec a1)))) a1) (fun a2 =>
      match evq (a_ec a2) with
      | (t, _) :: _ => Rej 77 t
      | [] => match filter (fun t => negb (is_none (runs (a_ec a2) t))) tasks with
              | t :: _ => Rej 76 t
              | [] => Ok a2
              end
      end))).

  Definition on_event (a : acc) (ev : sx) : res :=
    match ev with
    | L [I 1; I now; op; reply; I origin; I fault] =>
        if negb (Z.eqb fault 0) then Rej 90 fault else
        match sop_of_sx op with
        | Some (OPatchTask id st _ _) =>
            if Z.eqb st 10 then on_verdict a id true
            else if Z.eqb st 8 then on_verdict a id false
            else if Z.eqb origin 0 then on_patch a id st
            else if Z.eqb origin 3 && Z.eqb st 5 then do_step a (WdFail id) 92 id
            else Rej 91 origin
        | Some (OUpdateTask r) =>
            if Z.eqb (t_status r) 7 then do_step a (Rearm (t_id r)) 30 (t_id r)
            else if Z.eqb (t_status r) 9 then do_step a (ContArm (t_id r)) 30 (t_id r) else Rej 31 (t_id r)
        | Some (OPatchIns id _ st cmd must_cmd _ _ _) =>
            match cmd with
            | Some _ => if Z.eqb origin 6 then do_step a CmdIssue 33 id else Rej 34 origin
            | None =>
                if Z.eqb origin 2 && must_cmd then do_step a CmdPatch 35 id
                else if Z.eqb origin 1 && Z.eqb st 3 then Ok {| a_ec := a_ec a; a_stale := a_stale a; a_started := true; a_defer := a_defer a |}
                else if a_defer a then
                  bind (do_step a (Rebuild (Z.eqb st 4)) 38 origin) (fun a1 =>
                    if Z.eqb (ins_code (ins (a_ec a1))) st then Ok {| a_ec := a_ec a1; a_stale := a_stale a1; a_started := false; a_defer := false |}
                    else Rej 39 origin)
                else if Z.eqb st 0 then Ok a
                else if Z.eqb origin 0 then deliver_verdict a st
                else if Z.eqb origin 3 then Ok a   (* the watchdog marks the instance failed, then the task: one step of the model, taken at the task write *)
                else (* the verdict of an initialisation that found nothing executable: the model has already written it *)
                  if Z.eqb (ins_code (ins (a_ec a))) st then Ok a else Rej 36 origin
            end
        | Some (OListTasks f) =>
            match tf_ids f, tf_status f with
            | [], [] =>
                if negb (tf_expired f) && negb (Z.eqb (tf_ins f) 0) && zin origin [1; 2; 7]
                then match reply with
                     | L [I 6; L []] => Ok a
                     | _ => if Z.eqb origin 1 && negb (a_started a) then Ok a
                            else
                              let st0 := store (a_ec a) in
                              let ambiguous := match filter (pushable deps st0) tasks with
                                               | [] => negb (Z.eqb (ins_code (ist_of (verdict_of tasks deps false st0)))
                                                                   (ins_code (ist_of (verdict_of tasks deps true st0))))
                                               | _ => false end in
                              if ambiguous then Ok {| a_ec := a_ec a; a_stale := a_stale a; a_started := a_started a; a_defer := true |}
                              else bind (do_step a (Rebuild false) 32 origin) (fun a1 =>
                                   Ok {| a_ec := a_ec a1; a_stale := a_stale a1; a_started := false; a_defer := false |})
                     end
                else Ok a
            | ids, [] =>
                if Z.eqb origin 0 && Z.eqb (tf_ins f) 0 then deliver_push a ids else Ok a
            | _, _ =>
                if Z.eqb origin 2 then do_step (restart_idle_if_needed a) CmdBegin 37 0 else Ok a
            end
        | _ => Ok a
        end
    | L [I 2; I tid; I _; I ph; I _; I _; I _] =>
        if Z.eqb ph 1 then do_step a (MainStart tid) 20 tid else Ok a
    | L [I 20] => do_step a Crash 21 0
    | L [I 23] => on_quiescent a
    | _ => Ok a
    end.

  Fixpoint run_events (a : acc) (evs : list sx) (idx : Z) : res * Z :=
    match evs with
    | [] => (Ok a, idx)
    | ev :: r => match on_event a ev with
                 | Ok a' => run_events a' r (idx + 1)
                 | Rej c s => (Rej c s, idx)
                 end
    end.
End A.

Definition is_core (evs : list sx) : bool :=
  existsb (fun e => match e with L [I 38] => true | _ => false end) evs.

Definition core_run (evs : list sx) : res * Z :=
  let recs := created evs in
  let tasks := map t_id recs in
  run_events tasks (deps_of recs) {| a_ec := boot; a_stale := []; a_started := false; a_defer := false |} evs 0.

(** correspondence: the journal is a history of Engine (code as it is) *)
Definition check_core (c : sx) : verdict :=
  match c with
  | L [_; L evs] =>
      if is_core evs then
        match core_run evs with
        | (Ok _, _) => OkCase
        | (Rej code subj, idx) => Mismatch code (L [I idx; I subj])
        end
      else OkCase
  | _ => BadCase 1
  end.

(** the hypothesis of the safety theorems: no delivery was accepted with a stale snapshot *)
Definition monitor_core (c : sx) : option bool :=
  match c with
  | L [_; L evs] =>
      if is_core evs then
        match core_run evs with
        | (Ok a, _) => Some (match a_stale a with [] => true | _ => false end)
        | (Rej _ _, _) => None
        end
      else Some true
  | _ => None
  end.

Definition explain_core (c : sx) : sx :=
  match c with
  | L [_; L evs] =>
      match core_run evs with
      | (Ok a, _) => L (map (fun t => L [I 1; I 0; I 21; I t]) (a_stale a))
      | (Rej code subj, idx) => L [L [I 0; I idx; I code; I subj]]
      end
  | _ => L []
  end.
