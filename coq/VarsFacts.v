From Coq Require Import List ZArith Bool Arith Lia.
From FF Require Import Sx StoreModel StoreCheck PreCheck Vars.
Import ListNotations.
Local Open Scope Z_scope.

(** variables: exactly the declared names, each with the caller's non-empty value or the default *)
Theorem run_vars_names decl spec : map fst (dag_run_vars decl spec) = map fst decl.
Proof. unfold dag_run_vars. rewrite map_map. reflexivity. Qed.

Theorem run_vars_value decl spec n dflt :
  In (n, dflt) decl ->
  In (n, match kv_lookup spec n with Some v => if Z.eqb v 0 then dflt else v | None => dflt end)
     (dag_run_vars decl spec).
Proof. intros H. unfold dag_run_vars. apply in_map_iff. exists (n, dflt). split; [reflexivity|exact H]. Qed.

(** undeclared caller keys are ignored: the result does not depend on them *)
Theorem run_vars_ignores_undeclared decl spec k v :
  ~ In k (map fst decl) -> dag_run_vars decl ((k, v) :: spec) = dag_run_vars decl spec.
Proof.
  intros Hk. unfold dag_run_vars. apply map_ext_in. intros [n d] Hin. simpl.
  unfold kv_lookup. simpl. destruct (Z.eqb_spec k n) as [E|E]; [|reflexivity].
  exfalso. apply Hk. subst k. apply in_map_iff. exists (n, d). auto.
Qed.

(** strong induction principle for parameter trees *)
Section PvInd.
  Variable P : pv -> Prop.
  Hypothesis Hstr : forall t, P (PStr t).
  Hypothesis Hint : forall z, P (PInt z).
  Hypothesis Hbool : forall b, P (PBool b).
  Hypothesis Hnil : P PNil.
  Hypothesis Hmap : forall l, Forall (fun kv => P (snd kv)) l -> P (PMap l).
  Hypothesis Hlist : forall l, Forall P l -> P (PList l).
  Fixpoint pv_ind' (p : pv) : P p :=
    match p with
    | PStr t => Hstr t | PInt z => Hint z | PBool b => Hbool b | PNil => Hnil
    | PMap l => Hmap l ((fix go (l : list (Z * pv)) : Forall (fun kv => P (snd kv)) l :=
                           match l with
                           | [] => Forall_nil _
                           | (k, v) :: r => Forall_cons (k, v) (pv_ind' v) (go r)
                           end) l)
    | PList l => Hlist l ((fix go (l : list pv) : Forall P l :=
                             match l with
                             | [] => Forall_nil _
                             | v :: r => Forall_cons v (pv_ind' v) (go r)
                             end) l)
    end.
End PvInd.

(** after rendering, no placeholder of a declared variable is left anywhere in the tree:
    in every string at every depth, under maps and lists *)
Theorem render_closes_all_holes vs p : open_holes vs (render vs p) = [].
Proof.
  induction p as [t|z|b| |l IH|l IH] using pv_ind'; simpl; try reflexivity.
  - induction t as [|x r IHr]; simpl; [reflexivity|]. rewrite IHr, app_nil_r.
    destruct x as [z|v|z]; simpl; try reflexivity. destruct (kv_lookup vs v) eqn:E; simpl; [reflexivity|rewrite E; reflexivity].
  - induction l as [|[k v] r IHr]; simpl; [reflexivity|].
    inversion IH as [|? ? Hv Hr]; subst. simpl in Hv. rewrite Hv. simpl. apply IHr. exact Hr.
  - induction l as [|v r IHr]; simpl; [reflexivity|].
    inversion IH as [|? ? Hv Hr]; subst. rewrite Hv. simpl. apply IHr. exact Hr.
Qed.

(** non-string values are untouched *)
Theorem render_scalars vs : (forall z, render vs (PInt z) = PInt z) /\ (forall b, render vs (PBool b) = PBool b) /\ render vs PNil = PNil.
Proof. repeat split. Qed.

(** literals and placeholders of undeclared names are untouched *)
Theorem render_keeps_other_tokens vs t :
  match t with THole v => kv_lookup vs v = None | TVal _ => True | TLit _ => True end -> subst_tok vs t = t.
Proof. destruct t as [z|v|z]; simpl; auto. intros E. rewrite E. reflexivity. Qed.

Theorem render_replaces_declared vs v x : kv_lookup vs v = Some x -> subst_tok vs (THole v) = TVal x.
Proof. intros E. simpl. rewrite E. reflexivity. Qed.

Example render_example :
  render [(1, 9)] (PMap [(5, PList [PStr [TLit 3; THole 1]; PInt 4]); (6, PStr [THole 2])])
  = PMap [(5, PList [PStr [TLit 3; TVal 9]; PInt 4]); (6, PStr [THole 2])].
Proof. reflexivity. Qed.
