(** Facts about Engine, part 2: the instance settles, and its verdict agrees with its tasks (C03, C04).

    Hypotheses on the histories: [cmdquiet] (a command is issued and picked up only while nothing is in
    flight for the instance) and [nonoop] (an executed command re-armed at least one task); [validate] is
    NOT assumed - under [cmdquiet] no stale delivery can arise (part of the invariant).  Each hypothesis is
    necessary: EngineRefute.v has a history of the unrestricted system for each that ends quiescent with the
    instance running for ever, or failed with no failed task.

    The invariant is a token discipline: every task that the parser's tree shows as reachable and active has
    exactly one token - a valid delivery under way, a registered run, or a queued completion event - or is
    recorded running with no run (awaiting the watchdog). *)
From Coq Require Import List ZArith Bool Lia Permutation.
From FF Require Import Engine EngineFacts.
Import ListNotations.
Local Open Scope Z_scope.

Definition evfor (s : eng) (t : Z) : Prop := exists st, In (t, st) (evq s).
(** deliveries not yet accepted by the executor: still with the pusher, or on their way *)
Definition dl (s : eng) : list (Z * est) := pushq s ++ pend s.
Definition inpend (s : eng) (t : Z) : Prop := exists sn, In (t, sn) (dl s).

Lemma exec_active s : exec s = true -> active s = true.
Proof. destruct s; cbn; congruence. Qed.

Lemma in_map_fst {A B} (l : list (A * B)) a b : In (a, b) l -> In a (map fst l).
Proof. intros H. apply in_map_iff. exists (a, b). split; [reflexivity|exact H]. Qed.

Lemma remove1_other p l l' x : remove1 p l = Some l' -> In x l -> fst x <> fst p -> In x l'.
Proof.
  revert l'. induction l as [|y r IH]; cbn; intros l' H Hin Hne; [contradiction|].
  destruct (Z.eqb (fst y) (fst p) && est_eqb (snd y) (snd p)) eqn:E.
  - inv H. destruct Hin as [->|Hin]; [|exact Hin].
    apply andb_true_iff in E. destruct E as (E & _). apply Z.eqb_eq in E. contradiction.
  - destruct (remove1 p r) as [r'|] eqn:E'; [|discriminate]. inv H.
    destruct Hin as [->|Hin]; [left; reflexivity|right; apply IH; auto].
Qed.

Lemma remove1_nodup p l l' : remove1 p l = Some l' -> NoDup (map fst l) -> NoDup (map fst l') /\ ~ In (fst p) (map fst l').
Proof.
  revert l'. induction l as [|y r IH]; cbn; intros l' H Hnd; [discriminate|].
  inversion Hnd as [|a b Hni Hnd']; subst.
  destruct (Z.eqb (fst y) (fst p) && est_eqb (snd y) (snd p)) eqn:E.
  - inv H. apply andb_true_iff in E. destruct E as (E & _). apply Z.eqb_eq in E. rewrite <- E. split; assumption.
  - destruct (remove1 p r) as [r'|] eqn:E'; [|discriminate]. inv H.
    destruct (IH r' eq_refl Hnd') as (A & B). cbn. split.
    + constructor; [|exact A]. intros Hin. apply Hni. apply in_map_iff in Hin. destruct Hin as (x & Hx & Hin).
      apply in_map_iff. exists x. split; [exact Hx|]. eapply remove1_in; eassumption.
    + intros [Hy|Hin]; [|contradiction].
      apply Hni. rewrite Hy. pose proof (remove1_mem p r r' E') as Hm. apply in_map_iff. exists p. split; [reflexivity|exact Hm].
Qed.

Lemma NoDup_app_one {A} (l : list A) a : NoDup l -> ~ In a l -> NoDup (l ++ [a]).
Proof.
  induction l as [|x r IH]; cbn; intros Hn Hni; [constructor; [intros []|constructor]|].
  inversion Hn as [|y z Hy Hz]; subst. constructor.
  - intros Hin. apply in_app_or in Hin. destruct Hin as [Hin|[Hin|[]]]; [contradiction|]. apply Hni. left. symmetry. exact Hin.
  - apply IH; [exact Hz|]. intros Hin. apply Hni. right. exact Hin.
Qed.

Lemma NoDup_app_disj {A} (l1 l2 : list A) : NoDup l1 -> NoDup l2 -> (forall x, In x l1 -> In x l2 -> False) -> NoDup (l1 ++ l2).
Proof.
  induction l1 as [|x r IH]; cbn; intros H1 H2 Hd; [exact H2|].
  inversion H1 as [|y z Hy Hz]; subst. constructor.
  - intros Hin. apply in_app_or in Hin. destruct Hin as [Hin|Hin]; [contradiction|]. apply (Hd x); [left; reflexivity|exact Hin].
  - apply IH; [exact Hz|exact H2|]. intros a Ha1 Ha2. apply (Hd a); [right; exact Ha1|exact Ha2].
Qed.

Lemma remove1_perm p l l' : remove1 p l = Some l' -> Permutation l (p :: l').
Proof.
  revert l'. induction l as [|y r IH]; cbn; intros l' H; [discriminate|].
  destruct (Z.eqb (fst y) (fst p) && est_eqb (snd y) (snd p)) eqn:E.
  - inv H. apply andb_true_iff in E. destruct E as (E1 & E2). apply Z.eqb_eq in E1. apply est_eqb_eq in E2.
    destruct y, p; cbn in *; subst. apply Permutation_refl.
  - destruct (remove1 p r) as [r'|] eqn:E'; [|discriminate]. inv H.
    eapply Permutation_trans; [apply perm_skip; apply IH; reflexivity|apply perm_swap].
Qed.

Section Settle.
  Variable tasks : list Z.
  Variable deps : Z -> list Z.
  Variable validate : bool.
  Variable rank : Z -> nat.
  Hypothesis Hnd : NoDup tasks.
  Hypothesis Hrank : forall t d, In d (deps t) -> (rank d < rank t)%nat.
  Hypothesis Hclosed : forall t d, In t tasks -> In d (deps t) -> In d tasks.

  Notation pdone := (parents_done deps).
  Notation stepq := (step tasks deps validate true true).

  Lemma pdone_upd_notdone f k v x : done (f k) = false -> pdone f x = true -> pdone (upd f k v) x = true.
  Proof.
    unfold parents_done. intros Hk Hp. rewrite forallb_forall in *. intros d Hd. specialize (Hp d Hd).
    destruct (Z.eq_dec d k) as [->|Hne]; [congruence|]. rewrite upd_other by exact Hne. exact Hp.
  Qed.

  Lemma pdone_upd_inv f k v x : pdone (upd f k v) x = true -> pdone f x = true \/ (In k (deps x) /\ done v = true).
  Proof.
    unfold parents_done. intros Hp. destruct (in_dec Z.eq_dec k (deps x)) as [Hin|Hni].
    - rewrite forallb_forall in Hp. pose proof (Hp k Hin) as H. rewrite upd_same in H. right. split; assumption.
    - left. rewrite forallb_forall in *. intros d Hd. specialize (Hp d Hd). rewrite upd_other in Hp; [exact Hp|].
      intros ->. contradiction.
  Qed.

  Lemma not_self_dep t : ~ In t (deps t).
  Proof. intros H. pose proof (Hrank t t H). lia. Qed.

  Lemma verdict_running pb f : verdict_of tasks deps pb f = VRunning <-> exists t, In t tasks /\ pdone f t = true /\ active (f t) = true.
  Proof.
    unfold verdict_of. split.
    - destruct (existsb (fun t => pdone f t && active (f t)) tasks) eqn:E.
      + intros _. apply existsb_exists in E. destruct E as (t & Hin & Ht). apply andb_true_iff in Ht. exists t. tauto.
      + cbv zeta. destruct (existsb (fun t => pdone f t && est_eqb (f t) SFailed) tasks);
          destruct (existsb (fun t => pdone f t && est_eqb (f t) SBlocked) tasks); destruct pb; cbn; intros H; discriminate H.
    - intros (t & Hin & Hp & Ha).
      assert (E : existsb (fun t => pdone f t && active (f t)) tasks = true).
      { apply existsb_exists. exists t. split; [exact Hin|]. rewrite Hp, Ha. reflexivity. }
      rewrite E. reflexivity.
  Qed.

  Lemma verdict_failed pb f : verdict_of tasks deps pb f = VFailed -> exists t, In t tasks /\ pdone f t = true /\ f t = SFailed.
  Proof.
    unfold verdict_of. destruct (existsb (fun t => pdone f t && active (f t)) tasks); [discriminate|]. cbv zeta.
    destruct (existsb (fun t => pdone f t && est_eqb (f t) SFailed) tasks) eqn:E.
    - intros _. apply existsb_exists in E. destruct E as (t & Hin & Ht). apply andb_true_iff in Ht. destruct Ht as (A & B).
      apply est_eqb_eq in B. exists t. tauto.
    - destruct (existsb (fun t => pdone f t && est_eqb (f t) SBlocked) tasks); destruct pb; cbn; intros H; discriminate H.
  Qed.

  Lemma verdict_blocked pb f : verdict_of tasks deps pb f = VBlocked -> exists t, In t tasks /\ pdone f t = true /\ f t = SBlocked.
  Proof.
    unfold verdict_of. destruct (existsb (fun t => pdone f t && active (f t)) tasks); [discriminate|]. cbv zeta.
    destruct (existsb (fun t => pdone f t && est_eqb (f t) SBlocked) tasks) eqn:E.
    - intros _. apply existsb_exists in E. destruct E as (t & Hin & Ht). apply andb_true_iff in Ht. destruct Ht as (A & B).
      apply est_eqb_eq in B. exists t. tauto.
    - destruct (existsb (fun t => pdone f t && est_eqb (f t) SFailed) tasks); destruct pb; cbn; intros H; discriminate H.
  Qed.

  Lemma verdict_success pb f : verdict_of tasks deps pb f = VSuccess -> forall t, In t tasks -> done (f t) = true.
  Proof.
    unfold verdict_of. destruct (existsb (fun t => pdone f t && active (f t)) tasks) eqn:E1; [discriminate|]. cbv zeta.
    destruct (existsb (fun t => pdone f t && est_eqb (f t) SFailed) tasks) eqn:E2;
      destruct (existsb (fun t => pdone f t && est_eqb (f t) SBlocked) tasks) eqn:E3; destruct pb; cbn; try discriminate; intros _.
    all: assert (H : forall t, In t tasks -> pdone f t = true -> done (f t) = true);
      [intros t Hin Hp;
       assert (A : active (f t) = false);
       [destruct (active (f t)) eqn:Ea; [|reflexivity]; exfalso;
        assert (existsb (fun t => pdone f t && active (f t)) tasks = true); [|congruence];
        apply existsb_exists; exists t; rewrite Hp, Ea; auto|];
       assert (B : f t <> SFailed);
       [intros Hf; assert (existsb (fun t => pdone f t && est_eqb (f t) SFailed) tasks = true); [|congruence];
        apply existsb_exists; exists t; rewrite Hp, Hf; auto|];
       assert (C : f t <> SBlocked);
       [intros Hf; assert (existsb (fun t => pdone f t && est_eqb (f t) SBlocked) tasks = true); [|congruence];
        apply existsb_exists; exists t; rewrite Hp, Hf; auto|];
       destruct (f t); cbn in A |- *; congruence|];
      assert (G : forall n t, (rank t < n)%nat -> In t tasks -> done (f t) = true);
      [induction n as [|n IH]; intros t Hr Hin; [lia|];
       apply H; [exact Hin|]; unfold parents_done; apply forallb_forall; intros d Hd;
       apply IH; [pose proof (Hrank t d Hd); lia|eapply Hclosed; eassumption]|];
      intros t Hin; apply (G (S (rank t))); [lia|exact Hin].
  Qed.


  Definition rearmed (st : est) : Prop := st = SRetrying \/ st = SContinue.
  Definition ev_st (st : est) : Prop := st = SInit \/ st = SSuccess \/ st = SFailed \/ st = SSkipped \/ st = SBlocked.

  Record InvQ (s : eng) : Prop := {
    q1 : forall c sn, In (c, sn) (dl s) ->
           sn = store s c /\ exec sn = true /\ runs s c = RNone /\ ~ evfor s c /\ In c tasks;
    q2 : NoDup (map fst (dl s));
    q3 : forall t st, In (t, st) (evq s) -> store s t = st /\ runs s t = RNone /\ ev_st st /\ In t tasks;
    q4 : NoDup (map fst (evq s));
    q5 : forall t, match runs s t with
                   | RNone => True
                   | RQueued sn => store s t = sn /\ exec sn = true /\ In t tasks
                   | RRunning | RInMain => store s t = SRunning /\ In t tasks
                   | REnding => store s t = SEnding /\ In t tasks
                   | RDone ev => store s t = ev /\ (ev = SInit \/ ev = SSuccess \/ ev = SFailed) /\ In t tasks
                   end;
    q6 : forall t, runs s t <> RNone \/ evfor s t \/ inpend s t ->
           tree s = true /\ pdone (know s) t = true /\ exec (know s t) = true;
    q7 : tree s = true -> forall t, In t tasks ->
           know s t = store s t \/ runs s t <> RNone \/ evfor s t \/ (know s t = SRunning /\ store s t = SFailed)
           \/ (rearmed (store s t) /\ ph s <> PIdle);
    q8 : tree s = true -> forall t, In t tasks -> pdone (know s) t = true -> exec (know s t) = true ->
           know s t = store s t -> runs s t = RNone -> ~ evfor s t -> In (t, store s t) (dl s);
    q9 : tree s = true -> exists t, In t tasks /\ pdone (know s) t = true /\ active (know s t) = true;
    q10 : ph s <> PIdle -> evq s = [] /\ dl s = [] /\ (forall t, runs s t = RNone);
    q10b : ph s = PDown -> tree s = false;
    q10c : ph s = PInit -> armed s = true;
    q10d : ph s = PArm \/ ph s = PInit -> armed s = true ->
           exists t, In t tasks /\ rearmed (store s t) /\ pdone (store s) t = true;
    q11 : tree s = false -> ph s = PIdle -> ins s = IRunning ->
          exists t, In t tasks /\ store s t = SRunning /\ runs s t = RNone;
    q12 : tree s = true -> ph s = PIdle -> forall t, In t tasks -> know s t = SRunning -> store s t = SFailed -> ins s = IFailed;
    qK : forall t, done (know s t) = true -> store s t = know s t;
    qF : forall t, store s t <> SInit -> In t tasks /\ pdone (store s) t = true;
    g1 : ins s = ISuccess -> forall t, In t tasks -> done (store s t) = true;
    g2 : ins s = IFailed -> cmd s = false -> exists t, In t tasks /\ store s t = SFailed;
    g2b : ins s = IBlocked -> cmd s = false -> exists t, In t tasks /\ store s t = SBlocked;
    g3 : ph s = PArm -> cmd s = true
  }.

  Lemma invq_boot : InvQ (boot).
  Proof.
    constructor; cbn; intros; try discriminate; try contradiction; try congruence; auto.
    - constructor.
    - constructor.
    - exfalso. destruct H as [H|[(st & H)|(sn & H)]]; [congruence|exact H|exact H].
  Qed.

  Lemma dl_nil s : dl s = [] -> pushq s = [] /\ pend s = [].
  Proof. unfold dl. intros H. apply app_eq_nil in H. exact H. Qed.

  (** parents done in the parser's tree are done in the store *)
  Lemma pdone_know_store s t : InvQ s -> pdone (know s) t = true -> pdone (store s) t = true.
  Proof. intros HI. apply pdone_mono. intros d Hd. rewrite (qK s HI d Hd). exact Hd. Qed.

  Lemma inflight_pdone_store s t : InvQ s -> runs s t <> RNone \/ evfor s t \/ inpend s t -> pdone (store s) t = true.
  Proof. intros HI H. apply (pdone_know_store s t HI). apply (q6 s HI t H). Qed.

  Lemma writing_store s t : InvQ s -> writing (runs s t) ->
    done (store s t) = false /\ store s t <> SFailed /\ store s t <> SBlocked /\ In t tasks.
  Proof.
    intros HI Hw. pose proof (q5 s HI t) as H. destruct (runs s t) as [|sn| | | |ev]; cbn in Hw; try contradiction.
    - destruct H as (H1 & H2 & H3). subst sn. repeat split; try exact H3; try (intros E; rewrite E in H2; discriminate).
      destruct (store s t); cbn in H2 |- *; congruence.
    - destruct H as (H1 & H3). rewrite H1. repeat split; try discriminate; exact H3.
    - destruct H as (H1 & H3). rewrite H1. repeat split; try discriminate; exact H3.
    - destruct H as (H1 & H3). rewrite H1. repeat split; try discriminate; exact H3.
  Qed.

  (** a registered run of [t] that has not yet written its last status stores [v] and moves on to [r'] *)
  Lemma invq_write s t v r' :
    InvQ s -> writing (runs s t) -> r' <> RNone ->
    match r' with
    | RNone => True
    | RQueued sn => v = sn /\ exec sn = true
    | RRunning | RInMain => v = SRunning
    | REnding => v = SEnding
    | RDone ev => v = ev /\ (ev = SInit \/ ev = SSuccess \/ ev = SFailed)
    end ->
    InvQ (set_runs (set_store s (upd (store s) t v)) (upd (runs s) t r')).
  Proof.
    intros HI Hw Hr' Hv.
    destruct (writing_store s t HI Hw) as (Hns & Hnf & Hnb & Hin).
    assert (Hlive : runs s t <> RNone) by (destruct (runs s t); cbn in Hw; try contradiction; discriminate).
    pose proof (q6 s HI t (or_introl Hlive)) as (Htree & Hpk & Hek).
    assert (Hq10 : ph s = PIdle).
    { destruct (ph s) eqn:E; [reflexivity| | |]; exfalso; apply Hlive; apply (q10 s HI); congruence. }
    constructor; cbn.
    - intros c sn Hc. destruct (q1 s HI c sn Hc) as (A & B & C & D & E).
      assert (c <> t) by (intros ->; congruence). rewrite !upd_other by assumption. repeat split; assumption.
    - apply (q2 s HI).
    - intros x st Hx. destruct (q3 s HI x st Hx) as (A & B & C & D).
      assert (x <> t) by (intros ->; congruence). rewrite !upd_other by assumption. repeat split; assumption.
    - apply (q4 s HI).
    - intros x. destruct (Z.eq_dec x t) as [->|Hne].
      + rewrite !upd_same. destruct r' as [|sn| | | |ev]; try congruence;
          repeat match goal with H : _ /\ _ |- _ => destruct H end; repeat split; auto.
      + rewrite !upd_other by exact Hne. apply (q5 s HI x).
    - intros x Hx. apply (q6 s HI x). destruct Hx as [Hx|Hx]; [|right; exact Hx].
      destruct (Z.eq_dec x t) as [->|Hne]; [left; exact Hlive|]. rewrite upd_other in Hx by exact Hne. left. exact Hx.
    - intros _ x Hx. destruct (Z.eq_dec x t) as [->|Hne].
      + right. left. rewrite upd_same. exact Hr'.
      + rewrite !upd_other by exact Hne. apply (q7 s HI Htree x Hx).
    - intros _ x Hx A B C D E. destruct (Z.eq_dec x t) as [->|Hne]; [rewrite upd_same in D; contradiction|].
      rewrite upd_other in C by exact Hne. rewrite upd_other in D by exact Hne. rewrite upd_other by exact Hne.
      apply (q8 s HI Htree x Hx A B C D E).
    - apply (q9 s HI).
    - intros Hp. congruence.
    - intros Hp. congruence.
    - intros Hp. congruence.
    - intros [Hp|Hp]; congruence.
    - intros Ht. congruence.
    - intros _ _ x Hx A B. destruct (Z.eq_dec x t) as [->|Hne].
      + rewrite A in Hek. discriminate.
      + rewrite upd_other in B by exact Hne. apply (q12 s HI Htree Hq10 x Hx A B).
    - intros x Hx. destruct (Z.eq_dec x t) as [->|Hne].
      + exfalso. destruct (know s t); cbn in Hx, Hek; congruence.
      + rewrite upd_other by exact Hne. apply (qK s HI x Hx).
    - intros x Hx. destruct (Z.eq_dec x t) as [->|Hne].
      + split; [exact Hin|]. apply pdone_upd; [exact Hns|]. apply (inflight_pdone_store s t HI). left. exact Hlive.
      + rewrite upd_other in Hx by exact Hne. destruct (qF s HI x Hx) as (A & B). split; [exact A|].
        apply pdone_upd; assumption.
    - intros Hi x Hx. exfalso. rewrite (g1 s HI Hi t Hin) in Hns. discriminate.
    - intros Hi Hc. destruct (g2 s HI Hi Hc) as (x & A & B). exists x. split; [exact A|].
      assert (x <> t) by (intros ->; congruence). rewrite upd_other by assumption. exact B.
    - intros Hi Hc. destruct (g2b s HI Hi Hc) as (x & A & B). exists x. split; [exact A|].
      assert (x <> t) by (intros ->; congruence). rewrite upd_other by assumption. exact B.
    - apply (g3 s HI).
  Qed.

  Lemma invq_set_started s v : InvQ s -> InvQ (set_started s v).
  Proof. intros HI. constructor; cbn; apply HI. Qed.

  (** a registered run moves on without writing *)
  Lemma invq_setruns s t r' :
    InvQ s -> runs s t <> RNone -> r' <> RNone ->
    match r' with
    | RNone => True
    | RQueued sn => store s t = sn /\ exec sn = true
    | RRunning | RInMain => store s t = SRunning
    | REnding => store s t = SEnding
    | RDone ev => store s t = ev /\ (ev = SInit \/ ev = SSuccess \/ ev = SFailed)
    end ->
    InvQ (set_runs s (upd (runs s) t r')).
  Proof.
    intros HI Hlive Hr' Hv.
    pose proof (q6 s HI t (or_introl Hlive)) as (Htree & Hpk & Hek).
    assert (Hin : In t tasks).
    { pose proof (q5 s HI t) as H. destruct (runs s t); try congruence; tauto. }
    constructor; cbn; try apply HI.
    - intros c sn Hc. destruct (q1 s HI c sn Hc) as (A & B & C & D & E).
      assert (c <> t) by (intros ->; congruence). rewrite !upd_other by assumption. repeat split; assumption.
    - intros x st Hx. destruct (q3 s HI x st Hx) as (A & B & C & D).
      assert (x <> t) by (intros ->; congruence). rewrite !upd_other by assumption. repeat split; assumption.
    - intros x. destruct (Z.eq_dec x t) as [->|Hne].
      + rewrite !upd_same. destruct r' as [|sn| | | |ev]; try congruence;
          repeat match goal with H : _ /\ _ |- _ => destruct H end; repeat split; auto.
      + rewrite !upd_other by exact Hne. apply (q5 s HI x).
    - intros x Hx. apply (q6 s HI x). destruct Hx as [Hx|Hx]; [|right; exact Hx].
      destruct (Z.eq_dec x t) as [->|Hne]; [left; exact Hlive|]. rewrite upd_other in Hx by exact Hne. left. exact Hx.
    - intros _ x Hx. destruct (Z.eq_dec x t) as [->|Hne].
      + right. left. rewrite upd_same. exact Hr'.
      + rewrite !upd_other by exact Hne. apply (q7 s HI Htree x Hx).
    - intros _ x Hx A B C D E. destruct (Z.eq_dec x t) as [->|Hne]; [rewrite upd_same in D; contradiction|].
      rewrite upd_other in D by exact Hne. apply (q8 s HI Htree x Hx A B C D E).
    - intros Hp. destruct (q10 s HI Hp) as (A & B & C). repeat split; try assumption. exfalso. apply Hlive. apply C.
    - intros Ht. congruence.
  Qed.

  Lemma evfor_app s t x ev : evfor (set_evq s (evq s ++ [(x, ev)])) t <-> evfor s t \/ t = x.
  Proof.
    unfold evfor. cbn. split.
    - intros (st & H). apply in_app_or in H. destruct H as [H|[H|[]]]; [left; exists st; exact H|right; congruence].
    - intros [(st & H)| ->]; [exists st; apply in_or_app; left; exact H|exists ev; apply in_or_app; right; left; reflexivity].
  Qed.

  Lemma nodup_fst_perm (l l' : list (Z * est)) : Permutation l l' -> NoDup (map fst l) -> NoDup (map fst l').
  Proof. intros Hp. apply Permutation_NoDup. apply Permutation_map. exact Hp. Qed.

  Lemma nodup_fst_cons_inv (p : Z * est) l : NoDup (map fst (p :: l)) -> NoDup (map fst l) /\ ~ In (fst p) (map fst l).
  Proof. cbn. intros H. inversion H; subst. split; assumption. Qed.

  (** the executor accepts a delivery *)
  Lemma invq_accept s t sn p' :
    InvQ s -> remove1 (t, sn) (pend s) = Some p' -> InvQ (set_pend (set_runs s (upd (runs s) t (RQueued sn))) p').
  Proof.
    intros HI Hr.
    pose proof (remove1_mem _ _ _ Hr) as Hmem.
    assert (Hmem' : In (t, sn) (dl s)) by (unfold dl; apply in_or_app; right; exact Hmem).
    destruct (q1 s HI t sn Hmem') as (Hsn & Hex & Hrn & Hnev & Hin).
    assert (Hfl : inpend s t) by (exists sn; exact Hmem').
    pose proof (q6 s HI t (or_intror (or_intror Hfl))) as (Htree & Hpk & Hek).
    assert (Hperm : Permutation (dl s) ((t, sn) :: (pushq s ++ p'))).
    { unfold dl. eapply Permutation_trans; [apply Permutation_app_head; apply (remove1_perm _ _ _ Hr)|].
      apply Permutation_sym. apply Permutation_middle. }
    destruct (nodup_fst_cons_inv _ _ (nodup_fst_perm _ _ Hperm (q2 s HI))) as (Hnd' & Hni'). cbn in Hni'.
    assert (Hsub : forall x, In x (pushq s ++ p') -> In x (dl s)).
    { intros x Hx. eapply Permutation_in; [apply Permutation_sym; exact Hperm|right; exact Hx]. }
    assert (Hq10 : ph s = PIdle).
    { destruct (ph s) eqn:E; [reflexivity| | |]; exfalso; destruct (q10 s HI) as (_ & B & _); try congruence;
        rewrite B in Hmem'; contradiction. }
    constructor; cbn; unfold dl; cbn.
    - intros c sn' Hc. destruct (q1 s HI c sn' (Hsub _ Hc)) as (A & B & C & D & E).
      assert (c <> t). { intros ->. apply Hni'. eapply in_map_fst. exact Hc. }
      rewrite upd_other by assumption. repeat split; assumption.
    - exact Hnd'.
    - intros x st Hx. destruct (q3 s HI x st Hx) as (A & B & C & D).
      assert (x <> t). { intros ->. apply Hnev. exists st. exact Hx. }
      rewrite upd_other by assumption. repeat split; assumption.
    - apply (q4 s HI).
    - intros x. destruct (Z.eq_dec x t) as [->|Hne].
      + rewrite upd_same. repeat split; auto.
      + rewrite upd_other by exact Hne. apply (q5 s HI x).
    - intros x Hx. apply (q6 s HI x). destruct Hx as [Hx|[Hx|Hx]].
      + destruct (Z.eq_dec x t) as [->|Hne]; [right; right; exact Hfl|]. rewrite upd_other in Hx by exact Hne. left. exact Hx.
      + right. left. exact Hx.
      + right. right. destruct Hx as (sn' & Hx). exists sn'. apply Hsub. exact Hx.
    - intros _ x Hx. destruct (Z.eq_dec x t) as [->|Hne].
      + right. left. rewrite upd_same. discriminate.
      + rewrite upd_other by exact Hne. apply (q7 s HI Htree x Hx).
    - intros _ x Hx A B C D E. destruct (Z.eq_dec x t) as [->|Hne]; [rewrite upd_same in D; discriminate|].
      rewrite upd_other in D by exact Hne. pose proof (q8 s HI Htree x Hx A B C D E) as H.
      pose proof (Permutation_in _ Hperm H) as H'. destruct H' as [H'|H']; [inv H'; congruence|exact H'].
    - apply (q9 s HI).
    - intros Hp. congruence.
    - intros Hp. congruence.
    - intros Hp. congruence.
    - intros [Hp|Hp]; congruence.
    - intros Ht. congruence.
    - apply (q12 s HI).
    - apply (qK s HI).
    - apply (qF s HI).
    - apply (g1 s HI).
    - apply (g2 s HI).
    - apply (g2b s HI).
    - apply (g3 s HI).
  Qed.

  (** Push hands a task to the executor *)
  Lemma invq_pushrun s t sn q' :
    InvQ s -> remove1 (t, sn) (pushq s) = Some q' -> InvQ (set_pend (set_pushq s q') (pend s ++ [(t, sn)])).
  Proof.
    intros HI Hr.
    assert (Hperm : Permutation (dl s) (q' ++ pend s ++ [(t, sn)])).
    { unfold dl. eapply Permutation_trans; [apply Permutation_app_tail; apply (remove1_perm _ _ _ Hr)|].
      cbn. eapply Permutation_trans; [apply Permutation_cons_append|]. rewrite <- app_assoc. apply Permutation_refl. }
    assert (Hiff : forall x, In x (q' ++ pend s ++ [(t, sn)]) <-> In x (dl s)).
    { intros x. split; intros H; [eapply Permutation_in; [apply Permutation_sym; exact Hperm|exact H]|eapply Permutation_in; [exact Hperm|exact H]]. }
    constructor; cbn; unfold dl; cbn; try apply HI.
    - intros c sn' Hc. apply (q1 s HI c sn'). apply Hiff. exact Hc.
    - apply (nodup_fst_perm _ _ Hperm (q2 s HI)).
    - intros x Hx. apply (q6 s HI x). destruct Hx as [Hx|[Hx|(sn' & Hx)]]; [left; exact Hx|right; left; exact Hx|].
      right. right. exists sn'. apply Hiff. exact Hx.
    - intros Htree x Hx A B C D E. apply Hiff. apply (q8 s HI Htree x Hx A B C D E).
    - intros Hp. destruct (q10 s HI Hp) as (_ & B & _). exfalso. pose proof (remove1_mem _ _ _ Hr) as Hm.
      destruct (dl_nil s B) as (B1 & _). rewrite B1 in Hm. exact Hm.
  Qed.

  Lemma invq_finish s t ev :
    InvQ s -> runs s t = RDone ev -> InvQ (set_evq (set_runs s (upd (runs s) t RNone)) (evq s ++ [(t, ev)])).
  Proof.
    intros HI Hr.
    assert (Hlive : runs s t <> RNone) by congruence.
    pose proof (q6 s HI t (or_introl Hlive)) as (Htree & Hpk & Hek).
    pose proof (q5 s HI t) as H5. rewrite Hr in H5. destruct H5 as (Hst & Hev & Hin).
    assert (Hnoev : ~ evfor s t). { intros (st & Hx). destruct (q3 s HI t st Hx) as (_ & B & _). congruence. }
    assert (Hq10 : ph s = PIdle).
    { destruct (ph s) eqn:E; [reflexivity| | |]; exfalso; apply Hlive; apply (q10 s HI); congruence. }
    constructor; cbn.
    - intros c sn Hc. destruct (q1 s HI c sn Hc) as (A & B & C & D & E).
      assert (c <> t) by (intros ->; congruence). rewrite upd_other by assumption. repeat split; try assumption.
      intros Hx. apply (evfor_app s c t ev) in Hx. destruct Hx as [Hx|Hx]; [exact (D Hx)|contradiction].
    - apply (q2 s HI).
    - intros x st Hx. apply in_app_or in Hx. destruct Hx as [Hx|[Hx|[]]].
      + destruct (q3 s HI x st Hx) as (A & B & C & D).
        assert (x <> t) by (intros ->; congruence). rewrite upd_other by assumption. repeat split; assumption.
      + inv Hx. rewrite upd_same. repeat split; auto. unfold ev_st. tauto.
    - rewrite map_app. cbn. apply NoDup_app_one; [apply (q4 s HI)|].
      intros Hx. apply in_map_iff in Hx. destruct Hx as ((x, st) & Hx1 & Hx2). cbn in Hx1. subst x. apply Hnoev. exists st. exact Hx2.
    - intros x. destruct (Z.eq_dec x t) as [->|Hne]; [rewrite upd_same; exact Logic.I|].
      rewrite upd_other by exact Hne. apply (q5 s HI x).
    - intros x Hx. apply (q6 s HI x). destruct Hx as [Hx|[Hx|Hx]].
      + destruct (Z.eq_dec x t) as [->|Hne]; [rewrite upd_same in Hx; congruence|]. rewrite upd_other in Hx by exact Hne. left. exact Hx.
      + apply (evfor_app s x t ev) in Hx. destruct Hx as [Hx| ->]; [right; left; exact Hx|left; exact Hlive].
      + right. right. exact Hx.
    - intros _ x Hx. destruct (Z.eq_dec x t) as [->|Hne].
      + right. right. left. apply (evfor_app s t t ev). right. reflexivity.
      + rewrite upd_other by exact Hne. destruct (q7 s HI Htree x Hx) as [A|[A|[A|A]]]; auto.
        right. right. left. apply (evfor_app s x t ev). left. exact A.
    - intros _ x Hx A B C D E. destruct (Z.eq_dec x t) as [->|Hne].
      + exfalso. apply E. apply (evfor_app s t t ev). right. reflexivity.
      + rewrite upd_other in D by exact Hne. apply (q8 s HI Htree x Hx A B C D).
        intros Hx'. apply E. apply (evfor_app s x t ev). left. exact Hx'.
    - apply (q9 s HI).
    - intros Hp. congruence.
    - intros Hp. congruence.
    - intros Hp. congruence.
    - intros [Hp|Hp]; congruence.
    - intros Ht. congruence.
    - apply (q12 s HI).
    - apply (qK s HI).
    - apply (qF s HI).
    - apply (g1 s HI).
    - apply (g2 s HI).
    - apply (g2b s HI).
    - apply (g3 s HI).
  Qed.

  (** Push writes a pre-check verdict (skipped / blocked) and tells the parser *)
  Lemma invq_push_verdict s t sn v q' :
    InvQ s -> remove1 (t, sn) (pushq s) = Some q' -> (v = SSkipped \/ v = SBlocked) -> InvQ (push_verdict s t v q').
  Proof.
    intros HI Hr Hv.
    pose proof (remove1_mem _ _ _ Hr) as Hmem.
    assert (Hmem' : In (t, sn) (dl s)) by (unfold dl; apply in_or_app; left; exact Hmem).
    destruct (q1 s HI t sn Hmem') as (Hsn & Hex & Hrn & Hnev & Hin).
    assert (Hfl : inpend s t) by (exists sn; exact Hmem').
    pose proof (q6 s HI t (or_intror (or_intror Hfl))) as (Htree & Hpk & Hek).
    assert (Hns : done (store s t) = false) by (rewrite <- Hsn; destruct sn; cbn in Hex |- *; congruence).
    assert (Hperm : Permutation (dl s) ((t, sn) :: (q' ++ pend s))).
    { unfold dl. apply (Permutation_app_tail (pend s) (remove1_perm _ _ _ Hr)). }
    destruct (nodup_fst_cons_inv _ _ (nodup_fst_perm _ _ Hperm (q2 s HI))) as (Hnd' & Hni'). cbn in Hni'.
    assert (Hsub : forall x, In x (q' ++ pend s) -> In x (dl s)).
    { intros x Hx. eapply Permutation_in; [apply Permutation_sym; exact Hperm|right; exact Hx]. }
    assert (Hq10 : ph s = PIdle).
    { destruct (ph s) eqn:E; [reflexivity| | |]; exfalso; destruct (q10 s HI) as (_ & B & _); try congruence;
        rewrite B in Hmem'; contradiction. }
    assert (Hvd : v <> SInit /\ v <> SFailed /\ v <> SRunning /\ exec v = false) by (destruct Hv; subst v; repeat split; discriminate).
    destruct Hvd as (Hv1 & Hv2 & Hv3 & Hv4).
    unfold push_verdict.
    constructor; cbn; unfold dl; cbn.
    - intros c sn' Hc. destruct (q1 s HI c sn' (Hsub _ Hc)) as (A & B & C & D & E).
      assert (c <> t). { intros ->. apply Hni'. eapply in_map_fst. exact Hc. }
      rewrite upd_other by assumption. repeat split; try assumption.
      intros Hx. apply (evfor_app (set_pushq (set_store s (upd (store s) t v)) q') c t v) in Hx.
      destruct Hx as [Hx|Hx]; [exact (D Hx)|contradiction].
    - exact Hnd'.
    - intros x st Hx. apply in_app_or in Hx. destruct Hx as [Hx|[Hx|[]]].
      + destruct (q3 s HI x st Hx) as (A & B & C & D).
        assert (x <> t). { intros ->. apply Hnev. exists st. exact Hx. }
        rewrite upd_other by assumption. repeat split; assumption.
      + inv Hx. rewrite upd_same. repeat split; auto. unfold ev_st. destruct Hv; tauto.
    - rewrite map_app. cbn. apply NoDup_app_one; [apply (q4 s HI)|].
      intros Hx. apply in_map_iff in Hx. destruct Hx as ((x, st) & Hx1 & Hx2). cbn in Hx1. subst x. apply Hnev. exists st. exact Hx2.
    - intros x. pose proof (q5 s HI x) as H5. destruct (Z.eq_dec x t) as [->|Hne]; [rewrite Hrn; exact Logic.I|].
      rewrite upd_other by exact Hne. exact H5.
    - intros x Hx. apply (q6 s HI x). destruct Hx as [Hx|[Hx|(sn' & Hx)]].
      + left. exact Hx.
      + apply (evfor_app (set_pushq (set_store s (upd (store s) t v)) q') x t v) in Hx.
        destruct Hx as [Hx| ->]; [right; left; exact Hx|right; right; exact Hfl].
      + right. right. exists sn'. apply Hsub. exact Hx.
    - intros _ x Hx. destruct (Z.eq_dec x t) as [->|Hne].
      + right. right. left. apply (evfor_app (set_pushq (set_store s (upd (store s) t v)) q') t t v). right. reflexivity.
      + rewrite upd_other by exact Hne. destruct (q7 s HI Htree x Hx) as [A|[A|[A|A]]]; auto.
        right. right. left. apply (evfor_app (set_pushq (set_store s (upd (store s) t v)) q') x t v). left. exact A.
    - intros _ x Hx A B C D E. destruct (Z.eq_dec x t) as [->|Hne].
      + exfalso. apply E. apply (evfor_app (set_pushq (set_store s (upd (store s) t v)) q') t t v). right. reflexivity.
      + rewrite upd_other in C by exact Hne. rewrite upd_other by exact Hne.
        assert (E' : ~ evfor s x).
        { intros Hx'. apply E. apply (evfor_app (set_pushq (set_store s (upd (store s) t v)) q') x t v). left. exact Hx'. }
        pose proof (q8 s HI Htree x Hx A B C D E') as H.
        pose proof (Permutation_in _ Hperm H) as H'. destruct H' as [H'|H']; [inv H'; congruence|exact H'].
    - apply (q9 s HI).
    - intros Hp. congruence.
    - intros Hp. congruence.
    - intros Hp. congruence.
    - intros [Hp|Hp]; congruence.
    - intros Ht. congruence.
    - intros _ _ x Hx A B. destruct (Z.eq_dec x t) as [->|Hne].
      + rewrite upd_same in B. congruence.
      + rewrite upd_other in B by exact Hne. apply (q12 s HI Htree Hq10 x Hx A B).
    - intros x Hx. destruct (Z.eq_dec x t) as [->|Hne].
      + exfalso. destruct (know s t); cbn in Hx, Hek; congruence.
      + rewrite upd_other by exact Hne. apply (qK s HI x Hx).
    - intros x Hx. destruct (Z.eq_dec x t) as [->|Hne].
      + split; [exact Hin|]. apply pdone_upd; [exact Hns|]. apply (inflight_pdone_store s t HI). right. right. exact Hfl.
      + rewrite upd_other in Hx by exact Hne. destruct (qF s HI x Hx) as (A & B). split; [exact A|]. apply pdone_upd; assumption.
    - intros Hi x Hx. exfalso. rewrite (g1 s HI Hi t Hin) in Hns. discriminate.
    - intros Hi Hc. destruct (g2 s HI Hi Hc) as (x & A & B). exists x. split; [exact A|].
      assert (x <> t). { intros ->. rewrite B in Hsn. subst sn. discriminate. }
      rewrite upd_other by assumption. exact B.
    - intros Hi Hc. destruct (g2b s HI Hi Hc) as (x & A & B). exists x. split; [exact A|].
      assert (x <> t). { intros ->. rewrite B in Hsn. subst sn. discriminate. }
      rewrite upd_other by assumption. exact B.
    - apply (g3 s HI).
  Qed.

  Lemma quiet_all s : InvQ s -> quiet tasks s = true -> evq s = [] /\ dl s = [] /\ (forall t, runs s t = RNone).
  Proof.
    intros HI Hq. unfold quiet in Hq. unfold dl. destruct (evq s); [|discriminate]. destruct (pend s); [|discriminate].
    destruct (pushq s); [|discriminate].
    repeat split. intros t. rewrite forallb_forall in Hq.
    pose proof (q5 s HI t) as H5. destruct (runs s t) eqn:E; [reflexivity| | | | |];
      (assert (Hin : In t tasks) by tauto; specialize (Hq t Hin); rewrite E in Hq; discriminate).
  Qed.

  Lemma invq_crash s :
    InvQ s -> InvQ (set_armed (set_ph (set_tree (set_pushq (set_pend (set_evq (set_runs s (fun _ => RNone)) []) []) []) false) PDown) false).
  Proof.
    intros HI. constructor; cbn; unfold dl; cbn; try (intros; discriminate); try (intros; contradiction); try apply HI.
    - constructor.
    - constructor.
    - intros t. exact Logic.I.
    - intros t [H|[(st & H)|(sn & H)]]; [congruence|contradiction|contradiction].
    - intros _. repeat split.
    - intros _. reflexivity.
  Qed.

  Lemma invq_wdfail s t :
    InvQ s -> store s t = SRunning -> runs s t = RNone -> InvQ (set_ins (set_store s (upd (store s) t SFailed)) IFailed).
  Proof.
    intros HI Hst Hr.
    assert (Hns : done (store s t) = false) by (rewrite Hst; reflexivity).
    assert (Hin : In t tasks). { apply (qF s HI t). congruence. }
    assert (Hnoev : ~ evfor s t).
    { intros (st & Hx). destruct (q3 s HI t st Hx) as (A & _ & C & _). unfold ev_st in C. destruct C as [C|[C|[C|[C|C]]]]; congruence. }
    constructor; cbn.
    - intros c sn Hc. destruct (q1 s HI c sn Hc) as (A & B & C & D & E).
      assert (c <> t). { intros ->. rewrite Hst in A. subst sn. discriminate. }
      rewrite upd_other by assumption. repeat split; assumption.
    - apply (q2 s HI).
    - intros x st Hx. destruct (q3 s HI x st Hx) as (A & B & C & D).
      assert (x <> t). { intros ->. apply Hnoev. exists st. exact Hx. }
      rewrite upd_other by assumption. repeat split; assumption.
    - apply (q4 s HI).
    - intros x. pose proof (q5 s HI x) as H5. destruct (Z.eq_dec x t) as [->|Hne]; [rewrite Hr; exact Logic.I|].
      rewrite upd_other by exact Hne. exact H5.
    - apply (q6 s HI).
    - intros Htree x Hx. destruct (Z.eq_dec x t) as [->|Hne].
      + rewrite upd_same. destruct (q7 s HI Htree t Hx) as [A|[A|[A|[A|A]]]].
        * right. right. right. left. split; congruence.
        * congruence.
        * contradiction.
        * destruct A; congruence.
        * destruct A as ([A|A] & _); congruence.
      + rewrite upd_other by exact Hne. apply (q7 s HI Htree x Hx).
    - intros Htree x Hx A B C D E. destruct (Z.eq_dec x t) as [->|Hne].
      + rewrite upd_same in C. rewrite C in B. discriminate.
      + rewrite upd_other in C by exact Hne. rewrite upd_other by exact Hne. apply (q8 s HI Htree x Hx A B C D E).
    - apply (q9 s HI).
    - apply (q10 s HI).
    - apply (q10b s HI).
    - apply (q10c s HI).
    - intros Hp Ha. destruct (q10d s HI Hp Ha) as (x & A & B & C). exists x.
      assert (x <> t) by (intros ->; destruct B; congruence). rewrite upd_other by assumption. repeat split; try assumption.
      apply pdone_upd; assumption.
    - intros _ _ Hi. discriminate.
    - intros _ _ x Hx A B. reflexivity.
    - intros x Hx. destruct (Z.eq_dec x t) as [->|Hne]; [pose proof (qK s HI t Hx) as H; rewrite <- H in Hx; rewrite Hst in Hx; discriminate|].
      rewrite upd_other by exact Hne. apply (qK s HI x Hx).
    - intros x Hx. destruct (Z.eq_dec x t) as [->|Hne].
      + split; [exact Hin|]. apply pdone_upd; [exact Hns|]. apply (qF s HI t). congruence.
      + rewrite upd_other in Hx by exact Hne. destruct (qF s HI x Hx) as (A & B). split; [exact A|]. apply pdone_upd; assumption.
    - intros Hi. discriminate.
    - intros _ _. exists t. split; [exact Hin|apply upd_same].
    - intros Hi. discriminate.
    - apply (g3 s HI).
  Qed.

  Lemma invq_cmdissue s : InvQ s -> InvQ (set_cmd s true).
  Proof. intros HI. constructor; cbn; try apply HI; try (intros _ H; discriminate). intros _. reflexivity. Qed.

  Lemma invq_cmdbegin s :
    InvQ s -> ph s = PIdle -> cmd s = true -> quiet tasks s = true -> InvQ (set_armed (set_ph s PArm) false).
  Proof.
    intros HI Hp Hc Hq. destruct (quiet_all s HI Hq) as (A & B & C).
    constructor; cbn; try apply HI; try (intros; discriminate).
    - intros Htree x Hx. destruct (q7 s HI Htree x Hx) as [H|[H|[H|[H|H]]]]; auto.
      destruct H as (H1 & H2). congruence.
    - intros _. repeat split; assumption.
    - intros _. exact Hc.
  Qed.

  (** the command watcher re-arms a target: failed -> retrying (retry), blocked -> continue (continue) *)
  Lemma invq_arm s t v :
    InvQ s -> ph s = PArm -> (store s t = SFailed /\ v = SRetrying) \/ (store s t = SBlocked /\ v = SContinue) -> In t tasks ->
    InvQ (set_armed (set_store s (upd (store s) t v)) true).
  Proof.
    intros HI Hp Hsv Hin.
    assert (Hns : done (store s t) = false) by (destruct Hsv as [(H & _)|(H & _)]; rewrite H; reflexivity).
    assert (Hrv : rearmed v) by (destruct Hsv as [(_ & H)|(_ & H)]; subst v; [left|right]; reflexivity).
    assert (Hnk : store s t <> SInit /\ store s t <> SRunning /\ exec (store s t) = false).
    { destruct Hsv as [(H & _)|(H & _)]; rewrite H; repeat split; discriminate. }
    destruct Hnk as (Hni & Hnr & Hnex).
    assert (Hq : ph s <> PIdle) by congruence.
    destruct (q10 s HI Hq) as (Qe & Qp & Qr).
    assert (Hpd : pdone (store s) t = true). { apply (qF s HI t). exact Hni. }
    constructor; cbn.
    - unfold dl in *. cbn. rewrite Qp. intros c sn [].
    - apply (q2 s HI).
    - rewrite Qe. intros x st [].
    - apply (q4 s HI).
    - intros x. rewrite Qr. exact Logic.I.
    - intros x [H|[(st & H)|(sn & H)]]; [rewrite Qr in H; congruence|cbn in H; rewrite Qe in H; contradiction|].
      unfold dl in *. cbn in H. rewrite Qp in H. contradiction.
    - intros Htree x Hx. destruct (Z.eq_dec x t) as [->|Hne].
      + right. right. right. right. rewrite upd_same. split; [exact Hrv|exact Hq].
      + rewrite upd_other by exact Hne. apply (q7 s HI Htree x Hx).
    - intros Htree x Hx A B C D E. exfalso. destruct (Z.eq_dec x t) as [->|Hne].
      + rewrite upd_same in C. destruct (q7 s HI Htree t Hx) as [H|[H|[H|[H|H]]]].
        * rewrite H in B. rewrite B in Hnex. discriminate.
        * apply H. apply Qr.
        * destruct H as (st & H). rewrite Qe in H. contradiction.
        * destruct H as (H & _). rewrite H in B. discriminate.
        * destruct H as (H & _). destruct Hsv as [(H1 & _)|(H1 & _)]; destruct H as [H|H]; congruence.
      + rewrite upd_other in C by exact Hne. pose proof (q8 s HI Htree x Hx A B C D) as H.
        unfold dl in *. rewrite Qp in H. apply H. intros (st & H'). rewrite Qe in H'. contradiction.
    - apply (q9 s HI).
    - intros _. repeat split; assumption.
    - apply (q10b s HI).
    - intros _. reflexivity.
    - intros _ _. exists t. rewrite upd_same. repeat split; [exact Hin|exact Hrv|]. apply pdone_upd; assumption.
    - intros _ H. congruence.
    - intros _ H. congruence.
    - intros x Hx. destruct (Z.eq_dec x t) as [->|Hne].
      + exfalso. rewrite <- (qK s HI t Hx) in Hx. rewrite Hx in Hns. discriminate.
      + rewrite upd_other by exact Hne. apply (qK s HI x Hx).
    - intros x Hx. destruct (Z.eq_dec x t) as [->|Hne].
      + split; [exact Hin|]. apply pdone_upd; assumption.
      + rewrite upd_other in Hx by exact Hne. destruct (qF s HI x Hx) as (A & B). split; [exact A|]. apply pdone_upd; assumption.
    - intros Hi x Hx. exfalso. rewrite (g1 s HI Hi t Hin) in Hns. discriminate.
    - intros _ Hc. pose proof (g3 s HI Hp). congruence.
    - intros _ Hc. pose proof (g3 s HI Hp). congruence.
    - apply (g3 s HI).
  Qed.

  Lemma invq_cmdpatch s :
    InvQ s -> ph s = PArm -> armed s = true -> InvQ (set_ph (set_cmd (set_ins s IRunning) false) PInit).
  Proof.
    intros HI Hp Ha.
    assert (Hq : ph s <> PIdle) by congruence.
    constructor; cbn; try apply HI; try (intros; discriminate).
    - intros Htree x Hx. destruct (q7 s HI Htree x Hx) as [H|[H|[H|[H|H]]]]; auto.
      right. right. right. right. split; [apply H|discriminate].
    - intros _. apply (q10 s HI Hq).
    - intros _. exact Ha.
    - intros _ _. apply (q10d s HI); [left; exact Hp|exact Ha].
  Qed.

  Lemma invq_restartidle s : InvQ s -> ph s = PDown -> ins s <> IRunning -> InvQ (set_ph s PIdle).
  Proof.
    intros HI Hp Hi.
    constructor; cbn; try apply HI; try (intros; congruence).
    - intros Htree. pose proof (q10b s HI Hp). congruence.
    - intros [H|H]; discriminate.
    - intros Htree. pose proof (q10b s HI Hp). congruence.
  Qed.

  Lemma map_fst_snap f l : map fst (snap f l) = l.
  Proof. unfold snap. rewrite map_map. cbn. apply map_id. Qed.

  Lemma in_snap f l c sn : In (c, sn) (snap f l) <-> In c l /\ sn = f c.
  Proof.
    unfold snap. rewrite in_map_iff. split.
    - intros (x & Hx & Hin). inv Hx. split; [exact Hin|reflexivity].
    - intros (Hin & ->). exists c. split; [reflexivity|exact Hin].
  Qed.

  Lemma active_not_exec st : active st = true -> exec st = false -> st = SRunning.
  Proof. destruct st; cbn; congruence. Qed.

  Lemma invq_initial pb s :
    InvQ s -> ph s = PInit \/ (ph s = PDown /\ ins s = IRunning) -> InvQ (set_ph (initial tasks deps pb s) PIdle).
  Proof.
    intros HI Hph.
    assert (Hq : ph s <> PIdle) by (destruct Hph as [H|(H & _)]; congruence).
    destruct (q10 s HI Hq) as (Qe & Qd & Qr). destruct (dl_nil s Qd) as (Qq & Qp).
    unfold initial. destruct (filter (pushable deps (store s)) tasks) as [|e ex] eqn:EL.
    - (* nothing is executable *)
      assert (Hnp : forall t, In t tasks -> pushable deps (store s) t = false).
      { intros t Hin. destruct (pushable deps (store s) t) eqn:E; [|reflexivity].
        assert (In t []) as []. rewrite <- EL. apply filter_In. split; assumption. }
      destruct Hph as [Hp|(Hp & Hi)].
      { exfalso. destruct (q10d s HI (or_intror Hp) (q10c s HI Hp)) as (t & A & B & C).
        specialize (Hnp t A). unfold pushable in Hnp. rewrite C in Hnp. destruct B as [B|B]; rewrite B in Hnp; discriminate. }
      pose proof (q10b s HI Hp) as Htree.
      destruct (verdict_of tasks deps pb (store s)) eqn:EV.
      + constructor; cbn; try apply HI; try (intros; congruence).
        * intros [H|H]; congruence.
        * intros _ _ _. apply verdict_running in EV. destruct EV as (t & A & B & C). exists t.
          specialize (Hnp t A). unfold pushable in Hnp. rewrite B, andb_true_r in Hnp.
          repeat split; [exact A|apply active_not_exec; assumption|apply Qr].
      + constructor; cbn; try apply HI; try (intros; congruence).
        * intros [H|H]; congruence.
        * intros _. apply (verdict_success pb). exact EV.
      + constructor; cbn; try apply HI; try (intros; congruence).
        * intros [H|H]; congruence.
        * intros _ _. apply verdict_failed in EV. destruct EV as (t & A & B & C). exists t. split; assumption.
      + constructor; cbn; try apply HI; try (intros; congruence).
        * intros [H|H]; congruence.
        * intros _ _. apply verdict_blocked in EV. destruct EV as (t & A & B & C). exists t. split; assumption.
    - (* the tree is stored, everything executable is pushed *)
      assert (HL : forall x, In x (e :: ex) <-> In x tasks /\ pushable deps (store s) x = true).
      { intros x. rewrite <- EL. apply filter_In. }
      assert (HLnd : NoDup (e :: ex)). { rewrite <- EL. apply NoDup_filter. exact Hnd. }
      remember (e :: ex) as L. clear EL.
      assert (Hpush : forall x, In x L -> exec (store s x) = true /\ pdone (store s) x = true /\ In x tasks).
      { intros x Hx. apply HL in Hx. destruct Hx as (A & B). unfold pushable in B. apply andb_true_iff in B. tauto. }
      constructor; cbn; unfold dl; cbn; rewrite ?Qq, ?Qp, ?app_nil_r; cbn.
      + intros c sn Hc. apply in_snap in Hc. destruct Hc as (Hc & ->).
        destruct (Hpush c Hc) as (A & B & C). repeat split; try assumption; [apply Qr|].
        intros (st & Hx). cbn in Hx. rewrite Qe in Hx. contradiction.
      + rewrite map_fst_snap. exact HLnd.
      + rewrite Qe. intros x st [].
      + apply (q4 s HI).
      + intros x. rewrite Qr. exact Logic.I.
      + intros x [H|[(st & H)|(sn & H)]]; [rewrite Qr in H; congruence|cbn in H; rewrite Qe in H; contradiction|].
        unfold dl in H. cbn in H. rewrite ?Qq, ?Qp, ?app_nil_r in H. cbn in H. apply in_snap in H. destruct H as (H & _).
        destruct (Hpush x H) as (A & B & C). repeat split; assumption.
      + intros _ x Hx. left. reflexivity.
      + intros _ x Hx A B _ _ _. apply in_snap. split; [|reflexivity].
        apply HL. split; [exact Hx|]. unfold pushable. rewrite A, B. reflexivity.
      + intros _. subst L. exists e. destruct (Hpush e (or_introl eq_refl)) as (A & B & C).
        repeat split; try assumption. apply exec_active. exact A.
      + intros H. congruence.
      + intros H. discriminate.
      + intros H. discriminate.
      + intros [H|H]; discriminate.
      + intros H. discriminate.
      + intros _ _ x Hx A B. congruence.
      + intros x Hx. reflexivity.
      + apply (qF s HI).
      + apply (g1 s HI).
      + apply (g2 s HI).
      + apply (g2b s HI).
      + intros H. discriminate.
  Qed.
  Lemma invq_eta_pushq s : InvQ (set_pushq s (pushq s)) -> InvQ s.
  Proof.
    intros H. constructor.
    - exact (q1 _ H). - exact (q2 _ H). - exact (q3 _ H). - exact (q4 _ H). - exact (q5 _ H). - exact (q6 _ H).
    - exact (q7 _ H). - exact (q8 _ H). - exact (q9 _ H). - exact (q10 _ H). - exact (q10b _ H). - exact (q10c _ H).
    - exact (q10d _ H). - exact (q11 _ H). - exact (q12 _ H). - exact (qK _ H). - exact (qF _ H). - exact (g1 _ H).
    - exact (g2 _ H). - exact (g2b _ H). - exact (g3 _ H).
  Qed.

  Section Deliver.
    Variables (s : eng) (t0 : Z) (st : est) (r : list (Z * est)).
    Hypothesis HI : InvQ s.
    Hypothesis Heq : evq s = (t0, st) :: r.

    Let k' := upd (know s) t0 st.
    Let s1 := set_know (set_evq s r) k'.

    Lemma dl_head : store s t0 = st /\ runs s t0 = RNone /\ ev_st st /\ In t0 tasks.
    Proof. apply (q3 s HI). rewrite Heq. left. reflexivity. Qed.

    Lemma dl_evfor0 : evfor s t0.
    Proof. exists st. rewrite Heq. left. reflexivity. Qed.

    Lemma dl_tree : tree s = true /\ pdone (know s) t0 = true /\ exec (know s t0) = true.
    Proof. apply (q6 s HI). right. left. exact dl_evfor0. Qed.

    Lemma dl_ph : ph s = PIdle.
    Proof.
      destruct (ph s) eqn:E; [reflexivity| | |]; exfalso; destruct (q10 s HI) as (A & _); try congruence; rewrite A in Heq; discriminate.
    Qed.

    Lemma dl_notdone : done (know s t0) = false.
    Proof. destruct dl_tree as (_ & _ & H). destruct (know s t0); cbn in *; congruence. Qed.

    Lemma dl_r_not0 : forall st', ~ In (t0, st') r.
    Proof.
      intros st' Hin. pose proof (q4 s HI) as H. rewrite Heq in H. cbn in H. inversion H as [|a b Hni Hn]; subst.
      apply Hni. eapply in_map_fst. exact Hin.
    Qed.

    Lemma dl_evfor_r x : x <> t0 -> (evfor s x <-> exists st', In (x, st') r).
    Proof.
      intros Hne. unfold evfor. rewrite Heq. split.
      - intros (st' & [H|H]); [inv H; congruence|exists st'; exact H].
      - intros (st' & H). exists st'. right. exact H.
    Qed.

    Lemma dl_pend_not0 : forall sn, ~ In (t0, sn) (dl s).
    Proof. intros sn Hin. destruct (q1 s HI t0 sn Hin) as (_ & _ & _ & H & _). apply H. exact dl_evfor0. Qed.

    (** whatever is still in flight after the event was taken is another task, reachable and executable in the updated tree *)
    Lemma dl_inflight x :
      runs s x <> RNone \/ (exists st', In (x, st') r) \/ inpend s x ->
      x <> t0 /\ In x tasks /\ pdone k' x = true /\ exec (k' x) = true /\ k' x = know s x.
    Proof.
      intros H.
      assert (Hne : x <> t0).
      { intros ->. destruct H as [H|[(st' & H)|(sn & H)]].
        - destruct dl_head as (_ & B & _). congruence.
        - exact (dl_r_not0 st' H).
        - exact (dl_pend_not0 sn H). }
      assert (Hin : In x tasks).
      { destruct H as [H|[(st' & H)|(sn & H)]].
        - pose proof (q5 s HI x) as H5. destruct (runs s x); try congruence; tauto.
        - apply (q3 s HI x st'). rewrite Heq. right. exact H.
        - apply (q1 s HI x sn H). }
      assert (H' : runs s x <> RNone \/ evfor s x \/ inpend s x).
      { destruct H as [H|[H|H]]; [left; exact H|right; left; apply dl_evfor_r; assumption|right; right; exact H]. }
      destruct (q6 s HI x H') as (_ & B & C).
      unfold k'. rewrite upd_other by exact Hne. repeat split; try assumption.
      apply pdone_upd_notdone; [exact dl_notdone|exact B].
    Qed.

    Lemma dl_K x : done (k' x) = true -> store s x = k' x.
    Proof.
      unfold k'. intros Hx. destruct (Z.eq_dec x t0) as [->|Hne].
      - rewrite upd_same in Hx |- *. destruct dl_head as (A & _). congruence.
      - rewrite upd_other in Hx |- * by exact Hne. apply (qK s HI x Hx).
    Qed.

    (** a task the updated tree shows failed / blocked is recorded so *)
    Lemma dl_failed x v : In x tasks -> v = SFailed \/ v = SBlocked -> k' x = v -> store s x = v.
    Proof.
      unfold k'. intros Hin Hv Hx. destruct (Z.eq_dec x t0) as [->|Hne].
      - rewrite upd_same in Hx. destruct dl_head as (A & _). congruence.
      - rewrite upd_other in Hx by exact Hne. destruct dl_tree as (Htree & _).
        destruct (q7 s HI Htree x Hin) as [H|[H|[H|[H|H]]]].
        + congruence.
        + exfalso. destruct (q6 s HI x (or_introl H)) as (_ & _ & C). rewrite Hx in C. destruct Hv; subst v; discriminate.
        + exfalso. destruct (q6 s HI x (or_intror (or_introl H))) as (_ & _ & C). rewrite Hx in C. destruct Hv; subst v; discriminate.
        + destruct H as (H & _). destruct Hv; congruence.
        + destruct H as (_ & H). exfalso. apply H. exact dl_ph.
    Qed.

    (** no push and a verdict: the tree is dropped, the instance settled *)
    Lemma invq_deliver_settle pb v :
      verdict_of tasks deps pb k' = v -> v <> VRunning -> InvQ (set_tree (set_ins s1 (ist_of v)) false).
    Proof.
      intros Hv Hnr.
      assert (Hnone : forall x, ~ (runs s x <> RNone \/ (exists st', In (x, st') r) \/ inpend s x)).
      { intros x H. destruct (dl_inflight x H) as (_ & A & B & C & _). apply Hnr. rewrite <- Hv. apply verdict_running.
        exists x. repeat split; try assumption. apply exec_active. exact C. }
      assert (Hr : r = []). { destruct r as [|(x, st') r']; [reflexivity|]. exfalso. apply (Hnone x). right. left. exists st'. left. reflexivity. }
      assert (Hp : dl s = []). { destruct (dl s) as [|(x, sn) p'] eqn:E; [reflexivity|]. exfalso. apply (Hnone x). right. right. exists sn. rewrite E. left. reflexivity. }
      assert (Hrn : forall x, runs s x = RNone). { intros x. destruct (runs s x) eqn:E; [reflexivity| | | | |]; exfalso; apply (Hnone x); left; congruence. }
      pose proof dl_ph as Hph.
      constructor; cbn; try (intros; discriminate).
      - unfold dl in Hp |- *. cbn. rewrite Hp. intros c sn [].
      - apply (q2 s HI).
      - rewrite Hr. intros x st' [].
      - rewrite Hr. constructor.
      - intros x. rewrite Hrn. exact Logic.I.
      - intros x [H|[(st' & H)|(sn & H)]]; exfalso; [apply H; apply Hrn|cbn in H; rewrite Hr in H; exact H|].
        unfold dl in Hp, H. cbn in H. rewrite Hp in H. exact H.
      - intros H. congruence.
      - intros H. congruence.
      - intros H. congruence.
      - intros [H|H]; congruence.
      - intros _ _ Hi. destruct v; cbn in Hi; congruence.
      - intros x Hx. apply (dl_K x Hx).
      - apply (qF s HI).
      - intros Hi x Hx. destruct v; cbn in Hi; try discriminate. pose proof (verdict_success pb k' Hv x Hx) as Hd.
        rewrite (dl_K x Hd). exact Hd.
      - intros Hi _. destruct v; cbn in Hi; try discriminate. destruct (verdict_failed pb k' Hv) as (x & A & B & C).
        exists x. split; [exact A|]. apply (dl_failed x SFailed); auto.
      - intros Hi _. destruct v; cbn in Hi; try discriminate. destruct (verdict_blocked pb k' Hv) as (x & A & B & C).
        exists x. split; [exact A|]. apply (dl_failed x SBlocked); auto.
      - intros H. congruence.
    Qed.

    (** the tasks [N] are pushed (possibly none) and the updated tree still shows a reachable active task *)
    Lemma invq_deliver_push N :
      N = (if done st then filter (pushable deps k') (children tasks deps t0) else if est_eqb st SInit then [t0] else []) ->
      (exists t, In t tasks /\ pdone k' t = true /\ active (k' t) = true) ->
      InvQ (set_pushq s1 (pushq s ++ snap (store s) N)).
    Proof.
      intros HN Hwit.
      destruct dl_head as (H0st & H0r & H0ev & H0in).
      destruct dl_tree as (Htree & H0pd & H0ex).
      pose proof dl_ph as Hph.
      (* what is pushed: valid, new, reachable and executable in the updated tree *)
      assert (HNspec : forall c, In c N ->
                In c tasks /\ pdone k' c = true /\ exec (k' c) = true /\ k' c = store s c /\ runs s c = RNone /\
                (forall st', ~ In (c, st') r) /\ ~ inpend s c).
      { intros c Hc. subst N. destruct (done st) eqn:Ed.
        - apply filter_In in Hc. destruct Hc as (Hch & Hpu). unfold children in Hch. apply filter_In in Hch. destruct Hch as (Hct & Hdep).
          apply existsb_exists in Hdep. destruct Hdep as (d & Hd & Hdt). apply Z.eqb_eq in Hdt. subst d.
          unfold pushable in Hpu. apply andb_true_iff in Hpu. destruct Hpu as (Hex & Hpd).
          assert (Hne : c <> t0). { intros ->. exact (not_self_dep t0 Hd). }
          assert (Hnf : ~ (runs s c <> RNone \/ evfor s c \/ inpend s c)).
          { intros H. destruct (q6 s HI c H) as (_ & B & _). unfold parents_done in B. rewrite forallb_forall in B.
            specialize (B t0 Hd). rewrite dl_notdone in B. discriminate. }
          assert (Hkc : k' c = know s c) by (unfold k'; apply upd_other; exact Hne).
          assert (Hks : know s c = store s c).
          { destruct (q7 s HI Htree c Hct) as [H|[H|[H|[H|H]]]].
            - exact H.
            - exfalso. apply Hnf. left. exact H.
            - exfalso. apply Hnf. right. left. exact H.
            - destruct H as (H & _). rewrite Hkc, H in Hex. discriminate.
            - destruct H as (_ & H). exfalso. apply H. exact Hph. }
          repeat split; try assumption.
          + congruence.
          + destruct (runs s c) eqn:E; [reflexivity| | | | |]; exfalso; apply Hnf; left; congruence.
          + intros st' Hin. apply Hnf. right. left. apply dl_evfor_r; [exact Hne|exists st'; exact Hin].
          + intros H. apply Hnf. right. right. exact H.
        - destruct (est_eqb st SInit) eqn:Ei; [|destruct Hc]. apply est_eqb_eq in Ei. destruct Hc as [<-|[]].
          assert (Hk0 : k' t0 = st) by (unfold k'; apply upd_same).
          repeat split; try assumption.
          + apply pdone_upd_notdone; [exact dl_notdone|exact H0pd].
          + rewrite Hk0, Ei. reflexivity.
          + congruence.
          + exact dl_r_not0.
          + intros (sn & H). exact (dl_pend_not0 sn H). }
      assert (Hperm : Permutation ((pushq s ++ snap (store s) N) ++ pend s) (dl s ++ snap (store s) N)).
      { unfold dl. rewrite <- !app_assoc. apply Permutation_app_head. apply Permutation_app_comm. }
      assert (Hiff : forall x, In x ((pushq s ++ snap (store s) N) ++ pend s) <-> In x (dl s) \/ In x (snap (store s) N)).
      { intros x. split.
        - intros H. apply (Permutation_in _ Hperm) in H. apply in_app_or in H. exact H.
        - intros H. apply (Permutation_in _ (Permutation_sym Hperm)). apply in_or_app. exact H. }
      assert (HNnd : NoDup N).
      { subst N. destruct (done st); [apply NoDup_filter; unfold children; apply NoDup_filter; exact Hnd|].
        destruct (est_eqb st SInit); [constructor; [intros []|constructor]|constructor]. }
      constructor; cbn; unfold dl; cbn.
      - intros c sn Hc. apply Hiff in Hc. destruct Hc as [Hc|Hc].
        + destruct (q1 s HI c sn Hc) as (A & B & C & D & E). repeat split; try assumption.
          intros (st' & Hx). cbn in Hx. apply D. exists st'. rewrite Heq. right. exact Hx.
        + apply in_snap in Hc. destruct Hc as (Hc & ->). destruct (HNspec c Hc) as (A & B & C & D & E & F & G).
          repeat split; try assumption; [rewrite <- D; exact C|]. intros (st' & Hx). cbn in Hx. exact (F st' Hx).
      - apply (nodup_fst_perm _ _ (Permutation_sym Hperm)).
        rewrite map_app, map_fst_snap. apply NoDup_app_disj; [apply (q2 s HI)|exact HNnd|].
        intros c Hc1 Hc2. destruct (HNspec c Hc2) as (_ & _ & _ & _ & _ & _ & G). apply G.
        apply in_map_iff in Hc1. destruct Hc1 as ((c', sn) & Hf & Hin). cbn in Hf. subst c'. exists sn. exact Hin.
      - intros x st' Hx. destruct (q3 s HI x st') as (A & B & C & D); [rewrite Heq; right; exact Hx|]. repeat split; assumption.
      - pose proof (q4 s HI) as H. rewrite Heq in H. cbn in H. inversion H; assumption.
      - apply (q5 s HI).
      - intros x Hx.
        assert (Hcase : (runs s x <> RNone \/ (exists st', In (x, st') r) \/ inpend s x) \/ In x N).
        { destruct Hx as [H|[(st' & H)|(sn & H)]]; [left; left; exact H|left; right; left; exists st'; exact H|].
          unfold dl in H. cbn in H. apply Hiff in H. destruct H as [H|H]; [left; right; right; exists sn; exact H|].
          apply in_snap in H. right. apply H. }
        destruct Hcase as [H|H].
        + destruct (dl_inflight x H) as (_ & _ & B & C & _). repeat split; assumption.
        + destruct (HNspec x H) as (_ & B & C & _). repeat split; assumption.
      - intros _ x Hx. destruct (Z.eq_dec x t0) as [->|Hne].
        + left. unfold k'. rewrite upd_same. congruence.
        + unfold k'. rewrite upd_other by exact Hne. destruct (q7 s HI Htree x Hx) as [H|[H|[H|[H|H]]]]; auto.
          right. right. left. apply dl_evfor_r in H; [|exact Hne]. destruct H as (st' & H). exists st'. exact H.
      - intros _ x Hx A B C D E. apply Hiff.
        destruct (in_dec Z.eq_dec x N) as [HxN|HxN]; [right; apply in_snap; split; [exact HxN|reflexivity]|]. left.
        destruct (Z.eq_dec x t0) as [->|Hne].
        + (* t0 itself: executable again only as init, and then it is pushed *)
          exfalso. apply HxN. subst N. assert (Hk0 : k' t0 = st) by (unfold k'; apply upd_same). rewrite Hk0 in B.
          unfold ev_st in H0ev. destruct H0ev as [E1|[E1|[E1|[E1|E1]]]]; rewrite E1 in B |- *; cbn in B; try discriminate. cbn. left. reflexivity.
        + assert (Hkx : k' x = know s x) by (unfold k'; apply upd_other; exact Hne).
          rewrite Hkx in B, C.
          assert (E' : ~ evfor s x). { intros H. apply E. apply dl_evfor_r in H; [|exact Hne]. destruct H as (st' & H). exists st'. exact H. }
          destruct (pdone_upd_inv _ _ _ _ A) as [A'|(Hdep & Hdone)].
          * apply (q8 s HI Htree x Hx A' B C D E').
          * exfalso. apply HxN. subst N. rewrite Hdone. apply filter_In. split.
            -- unfold children. apply filter_In. split; [exact Hx|]. apply existsb_exists. exists t0. split; [exact Hdep|apply Z.eqb_refl].
            -- unfold pushable. rewrite Hkx, B. exact A.
      - intros _. exact Hwit.
      - intros H. congruence.
      - apply (q10b s HI).
      - apply (q10c s HI).
      - intros [H|H]; congruence.
      - intros H. congruence.
      - intros _ _ x Hx A B. destruct (Z.eq_dec x t0) as [->|Hne].
        + unfold k' in A. rewrite upd_same in A. unfold ev_st in H0ev. destruct H0ev as [H|[H|[H|[H|H]]]]; congruence.
        + unfold k' in A. rewrite upd_other in A by exact Hne. apply (q12 s HI Htree Hph x Hx A B).
      - intros x Hx. apply (dl_K x Hx).
      - apply (qF s HI).
      - apply (g1 s HI).
      - apply (g2 s HI).
      - apply (g2b s HI).
      - apply (g3 s HI).
    Qed.
  End Deliver.


  Lemma invq_arm_started s f : InvQ (set_armed s true) -> InvQ (set_armed (set_started s f) true).
  Proof.
    intros H. constructor.
    - exact (q1 _ H). - exact (q2 _ H). - exact (q3 _ H). - exact (q4 _ H). - exact (q5 _ H). - exact (q6 _ H).
    - exact (q7 _ H). - exact (q8 _ H). - exact (q9 _ H). - exact (q10 _ H). - exact (q10b _ H). - exact (q10c _ H).
    - exact (q10d _ H). - exact (q11 _ H). - exact (q12 _ H). - exact (qK _ H). - exact (qF _ H). - exact (g1 _ H).
    - exact (g2 _ H). - exact (g2b _ H). - exact (g3 _ H).
  Qed.

  Lemma guard_of_q1 s t sn : InvQ s -> In (t, sn) (pend s) -> guard_ok validate s t sn = true.
  Proof.
    intros HI Hin. assert (Hin' : In (t, sn) (dl s)) by (unfold dl; apply in_or_app; right; exact Hin).
    destruct (q1 s HI t sn Hin') as (A & B & C & _). unfold guard_ok. rewrite C, B. cbn.
    subst sn. destruct validate; cbn; [|reflexivity]. apply est_eqb_eq. reflexivity.
  Qed.

  Lemma invq_step s l s' : InvQ s -> stepq s l = Some s' -> InvQ s'.
  Proof.
    intros HI HS. destruct l; cbn in HS.
    - (* Accept *)
      destruct (remove1 (t, s0) (pend s)) as [p'|] eqn:Er; [|discriminate].
      destruct (guard_ok validate s t s0); [|discriminate]. inv HS. apply invq_accept; assumption.
    - (* Drop: under the invariant every delivery under way is valid, none is refused *)
      destruct (remove1 (t, s0) (pend s)) as [p'|] eqn:Er; [|discriminate].
      rewrite (guard_of_q1 s t s0 HI (remove1_mem _ _ _ Er)) in HS. discriminate.
    - (* StartWrite *)
      pose proof (q5 s HI t) as H5.
      destruct (runs s t) as [|sn| | | |ev] eqn:Er; try discriminate.
      destruct sn; try discriminate; inv HS.
      + apply invq_write; [exact HI|rewrite Er; exact Logic.I|discriminate|reflexivity].
      + apply invq_setruns; [exact HI|congruence|discriminate|apply H5].
      + unfold end_run. apply invq_write; [exact HI|rewrite Er; exact Logic.I|discriminate|auto].
      + apply invq_write; [exact HI|rewrite Er; exact Logic.I|discriminate|reflexivity].
    - (* MainStart *)
      pose proof (q5 s HI t) as H5.
      destruct (runs s t) eqn:Er; try discriminate. inv HS.
      apply invq_set_started. apply invq_setruns; [exact HI|congruence|discriminate|apply H5].
    - (* MainOk *)
      destruct (runs s t) eqn:Er; try discriminate. inv HS.
      apply invq_write; [exact HI|rewrite Er; exact Logic.I|discriminate|reflexivity].
    - (* MainErr *)
      destruct (runs s t) eqn:Er; try discriminate. inv HS.
      unfold end_run. apply invq_write; [exact HI|rewrite Er; exact Logic.I|discriminate|auto].
    - (* AfterOk *)
      destruct (runs s t) eqn:Er; try discriminate. inv HS.
      unfold end_run. apply invq_write; [exact HI|rewrite Er; exact Logic.I|discriminate|auto].
    - (* AfterErr *)
      destruct (runs s t) eqn:Er; try discriminate. inv HS.
      unfold end_run. apply invq_write; [exact HI|rewrite Er; exact Logic.I|discriminate|auto].
    - (* BeforeErr *)
      destruct (runs s t) as [|sn| | | |ev] eqn:Er; try discriminate. destruct sn; try discriminate; inv HS;
        (unfold end_run; apply invq_write; [exact HI|rewrite Er; exact Logic.I|discriminate|auto]).
    - (* RetryErr *)
      destruct (runs s t) as [|sn| | | |ev] eqn:Er; try discriminate. destruct sn; try discriminate. inv HS.
      unfold end_run. apply invq_write; [exact HI|rewrite Er; exact Logic.I|discriminate|auto].
    - (* Finish *)
      destruct (runs s t) as [|sn| | | |ev] eqn:Er; try discriminate. inv HS. apply invq_finish; assumption.
    - (* Deliver *)
      destruct (evq s) as [|(t0, st) r] eqn:Eq; [discriminate|].
      destruct (dl_tree s t0 st r HI Eq) as (Htree & Hpd & _). rewrite Htree, Hpd in HS. cbn in HS.
      match type of HS with (match ?nx with _ => _ end) = _ => remember nx as N eqn:EN end.
      destruct N as [|n0 N'].
      + destruct (verdict_of tasks deps pb (upd (know s) t0 st)) eqn:EV; inv HS.
        * apply invq_eta_pushq. cbn.
          pose proof (invq_deliver_push s t0 st r HI Eq [] EN) as H. cbn in H. rewrite app_nil_r in H. apply H.
          apply (verdict_running pb). exact EV.
        * apply (invq_deliver_settle s t0 st r HI Eq pb VSuccess EV). discriminate.
        * apply (invq_deliver_settle s t0 st r HI Eq pb VFailed EV). discriminate.
        * apply (invq_deliver_settle s t0 st r HI Eq pb VBlocked EV). discriminate.
      + inv HS. apply (invq_deliver_push s t0 st r HI Eq (n0 :: N') EN).
        assert (Hn0 : In n0 (n0 :: N')) by (left; reflexivity). rewrite EN in Hn0.
        destruct (dl_head s t0 st r HI Eq) as (_ & _ & _ & Hin0).
        destruct (done st) eqn:Ed.
        * apply filter_In in Hn0. destruct Hn0 as (Hch & Hpu). unfold children in Hch. apply filter_In in Hch.
          unfold pushable in Hpu. apply andb_true_iff in Hpu. exists n0. repeat split; [apply Hch|apply Hpu|apply exec_active; apply Hpu].
        * destruct (est_eqb st SInit) eqn:Ei; [|destruct Hn0]. apply est_eqb_eq in Ei. destruct Hn0 as [<-|[]].
          exists t0. rewrite upd_same. subst st. repeat split; [exact Hin0|apply pdone_upd_notdone; [apply (dl_notdone s t0 SInit r HI Eq)|exact Hpd]].
    - (* PushRun *)
      destruct (remove1 (t, s0) (pushq s)) as [q'|] eqn:Er; [|discriminate]. inv HS. apply invq_pushrun; assumption.
    - (* PushSkip *)
      destruct (remove1 (t, s0) (pushq s)) as [q'|] eqn:Er; [|discriminate].
      match type of HS with (if ?b then _ else _) = _ => destruct b; [|discriminate] end. inv HS.
      eapply invq_push_verdict; [exact HI|exact Er|left; reflexivity].
    - (* PushBlock *)
      destruct (remove1 (t, s0) (pushq s)) as [q'|] eqn:Er; [|discriminate].
      match type of HS with (if ?b then _ else _) = _ => destruct b; [|discriminate] end. inv HS.
      eapply invq_push_verdict; [exact HI|exact Er|right; reflexivity].
    - (* CmdIssue *)
      match type of HS with (if ?b then _ else _) = _ => destruct b; [|discriminate] end. inv HS. apply invq_cmdissue. exact HI.
    - (* CmdBegin *)
      destruct (ph s) eqn:Ep; try discriminate.
      destruct (cmd s) eqn:Ec; [|discriminate]. cbn in HS. destruct (quiet tasks s) eqn:Eq; [|discriminate]. inv HS.
      apply invq_cmdbegin; assumption.
    - (* Rearm *)
      destruct (ph s) eqn:Ep; try discriminate. destruct (store s t) eqn:Est; try discriminate.
      destruct (existsb (Z.eqb t) tasks) eqn:Ex; [|discriminate]. inv HS.
      apply invq_arm_started. apply invq_arm; try assumption; [left; split; [exact Est|reflexivity]|].
      apply existsb_exists in Ex. destruct Ex as (x & Hx & Hxe). apply Z.eqb_eq in Hxe. subst x. exact Hx.
    - (* ContArm *)
      destruct (ph s) eqn:Ep; try discriminate. destruct (store s t) eqn:Est; try discriminate.
      destruct (existsb (Z.eqb t) tasks) eqn:Ex; [|discriminate]. inv HS.
      apply invq_arm; try assumption; [right; split; [exact Est|reflexivity]|].
      apply existsb_exists in Ex. destruct Ex as (x & Hx & Hxe). apply Z.eqb_eq in Hxe. subst x. exact Hx.
    - (* CmdPatch *)
      destruct (ph s) eqn:Ep; try discriminate. destruct (armed s) eqn:Ea; [|discriminate]. inv HS.
      apply invq_cmdpatch; assumption.
    - (* Rebuild *)
      destruct (ph s) eqn:Ep; try discriminate.
      + inv HS. apply invq_initial; [exact HI|left; exact Ep].
      + destruct (ins s) eqn:Ei; try discriminate. inv HS. apply invq_initial; [exact HI|right; split; assumption].
    - (* RestartIdle *)
      destruct (ph s) eqn:Ep; try discriminate. destruct (ins s) eqn:Ei; try discriminate; inv HS; apply invq_restartidle; congruence.
    - (* WdFail *)
      destruct (store s t) eqn:Est; try discriminate. destruct (runs s t) eqn:Er; try discriminate. inv HS.
      apply invq_wdfail; assumption.
    - (* Crash *)
      inv HS. apply invq_crash. exact HI.
  Qed.

  Theorem invq_reach ls : forall s s', InvQ s -> run tasks deps validate true true s ls = Some s' -> InvQ s'.
  Proof.
    induction ls as [|l ls IH]; cbn; intros s s' HI HR.
    - inv HR. exact HI.
    - destruct (stepq s l) as [s1|] eqn:E; [|discriminate]. eapply IH; [eapply invq_step; eassumption|exact HR].
  Qed.

  (** the owning worker has nothing in flight for the instance, no command is stored or being executed, and
      no task is recorded running (a task recorded running with no run is what the watchdog's timeout settles) *)
  Definition Quiescent (s : eng) : Prop :=
    quiet tasks s = true /\ ph s = PIdle /\ cmd s = false /\ (forall t, In t tasks -> store s t <> SRunning).

  (** C03 / C04: at every quiescent point the instance is settled and the verdict agrees with the tasks *)
  Theorem settled s :
    InvQ s -> Quiescent s ->
    ins s <> IRunning /\
    (ins s = ISuccess <-> forall t, In t tasks -> done (store s t) = true) /\
    (ins s = IFailed -> exists t, In t tasks /\ store s t = SFailed) /\
    (ins s = IBlocked -> exists t, In t tasks /\ store s t = SBlocked).
  Proof.
    intros HI (Hq & Hp & Hc & Hnr). destruct (quiet_all s HI Hq) as (Qe & Qp & Qr).
    assert (Hset : ins s <> IRunning).
    { intros Hi. destruct (tree s) eqn:Et.
      - destruct (q9 s HI Et) as (t & A & B & C).
        destruct (q7 s HI Et t A) as [H|[H|[H|[H|H]]]].
        + destruct (exec (know s t)) eqn:Ex.
          * pose proof (q8 s HI Et t A B Ex H (Qr t)) as H8. rewrite Qp in H8. apply H8.
            intros (st & Hx). rewrite Qe in Hx. exact Hx.
          * apply (Hnr t A). rewrite <- H. apply active_not_exec; assumption.
        + apply H. apply Qr.
        + destruct H as (st & Hx). rewrite Qe in Hx. exact Hx.
        + destruct H as (H1 & H2). pose proof (q12 s HI Et Hp t A H1 H2). congruence.
        + destruct H as (_ & H). apply H. exact Hp.
      - destruct (q11 s HI Et Hp Hi) as (t & A & B & _). exact (Hnr t A B). }
    split; [exact Hset|]. split; [|split].
    - split; [apply (g1 s HI)|]. intros Hall. destruct (ins s) eqn:Ei; [congruence|reflexivity| |].
      + destruct (g2 s HI Ei Hc) as (t & A & B). specialize (Hall t A). rewrite B in Hall. discriminate.
      + destruct (g2b s HI Ei Hc) as (t & A & B). specialize (Hall t A). rewrite B in Hall. discriminate.
    - intros Hi. apply (g2 s HI Hi Hc).
    - intros Hi. apply (g2b s HI Hi Hc).
  Qed.

  (** and a task that is recorded running with no run can always be failed by the watchdog, which settles the instance *)
  Theorem orphan_settled_by_watchdog s t :
    InvQ s -> store s t = SRunning -> runs s t = RNone ->
    exists s', stepq s (WdFail t) = Some s' /\ ins s' = IFailed /\ store s' t = SFailed.
  Proof.
    intros HI Hst Hr. eexists. cbn. rewrite Hst, Hr. split; [reflexivity|]. cbn. split; [reflexivity|apply upd_same].
  Qed.

  (** C13 at engine level, for the histories of the settle theorem: a task recorded skipped or blocked holds no
      token - no delivery of it is under way, no run of it is registered - and no completion event of it is
      queued other than the one that announces that verdict *)
  Theorem verdict_task_has_no_run s t :
    InvQ s -> store s t = SSkipped \/ store s t = SBlocked -> runs s t = RNone /\ ~ inpend s t.
  Proof.
    intros HI Hst. split.
    - pose proof (q5 s HI t) as H. destruct (runs s t) as [|sn| | | |ev]; [reflexivity| | | | |]; exfalso.
      + destruct H as (H1 & H2 & _). subst sn. destruct Hst as [E|E]; rewrite E in H2; discriminate.
      + destruct H as (H1 & _). destruct Hst; congruence.
      + destruct H as (H1 & _). destruct Hst; congruence.
      + destruct H as (H1 & _). destruct Hst; congruence.
      + destruct H as (H1 & [H2|[H2|H2]] & _); subst ev; destruct Hst; congruence.
    - intros (sn & Hin). destruct (q1 s HI t sn Hin) as (A & B & _). subst sn. destruct Hst as [E|E]; rewrite E in B; discriminate.
  Qed.
  (** steps driven by the environment: the operator's command and its execution by the command watcher, the
      watchdog, the worker's death.  Everything else is a step of the engine itself. *)
  Definition operator (l : label) : bool :=
    match l with CmdIssue | CmdBegin | Rearm _ | ContArm _ | CmdPatch | WdFail _ | Crash => true | _ => false end.

  Lemma remove1_head (p : Z * est) l : exists l', remove1 p (p :: l) = Some l'.
  Proof. cbn. rewrite Z.eqb_refl. assert (est_eqb (snd p) (snd p) = true) as -> by (apply est_eqb_eq; reflexivity). cbn. eexists. reflexivity. Qed.

  (** the engine never hangs with work in flight: in every state of the restricted system that is not quiet - or in
      which a re-initialisation is due - a step of the engine itself is enabled (no help from the operator, the
      watchdog or a crash is needed).  Together with [settled]: the engine can only stop in settled states. *)
  Theorem engine_not_stuck s :
    InvQ s -> quiet tasks s = false \/ ph s = PInit \/ ph s = PDown ->
    exists l s', operator l = false /\ stepq s l = Some s'.
  Proof.
    intros HI H.
    destruct (evq s) as [|(t0, st) r] eqn:Eq.
    2:{ exists (Deliver false). cbn. rewrite Eq.
        destruct (tree s && parents_done deps (know s) t0); [|eexists; split; reflexivity].
        match goal with |- context [match ?nx with _ => _ end] => destruct nx end;
          [destruct (verdict_of tasks deps false (upd (know s) t0 st))|]; eexists; split; reflexivity. }
    destruct (pushq s) as [|(t1, sn1) q] eqn:Ep.
    2:{ exists (PushRun t1 sn1). cbn. rewrite Ep. destruct (remove1_head (t1, sn1) q) as (l' & ->). eexists. split; reflexivity. }
    destruct (pend s) as [|(t2, sn2) p] eqn:Epd.
    2:{ exists (Accept t2 sn2). cbn. rewrite Epd. destruct (remove1_head (t2, sn2) p) as (l' & El). rewrite El.
        assert (Hin : In (t2, sn2) (pend s)) by (rewrite Epd; left; reflexivity).
        rewrite (guard_of_q1 s t2 sn2 HI Hin). eexists. split; reflexivity. }
    destruct H as [H|[H|H]].
    - (* a registered run *)
      unfold quiet in H. rewrite Eq, Epd, Ep in H.
      assert (Hex : exists t, In t tasks /\ runs s t <> RNone).
      { clear -H. induction tasks as [|x xs IH]; cbn in H; [discriminate|].
        destruct (runs s x) eqn:E; cbn in H; try (exists x; split; [left; reflexivity|congruence]).
        destruct (IH H) as (t & A & B). exists t. split; [right; exact A|exact B]. }
      destruct Hex as (t & Hin & Hr). pose proof (q5 s HI t) as H5.
      destruct (runs s t) as [|sn| | | |ev] eqn:Er; [congruence| | | | |].
      + exists (StartWrite t). cbn. rewrite Er. destruct H5 as (_ & Hex & _).
        destruct sn; cbn in Hex; try discriminate; eexists; split; reflexivity.
      + exists (MainStart t). cbn. rewrite Er. eexists. split; reflexivity.
      + exists (MainOk t). cbn. rewrite Er. eexists. split; reflexivity.
      + exists (AfterOk t). cbn. rewrite Er. eexists. split; reflexivity.
      + exists (Finish t). cbn. rewrite Er. eexists. split; reflexivity.
    - exists (Rebuild false). cbn. rewrite H. eexists. split; reflexivity.
    - destruct (ins s) eqn:Ei.
      + exists (Rebuild false). cbn. rewrite H, Ei. eexists. split; reflexivity.
      + exists RestartIdle. cbn. rewrite H, Ei. eexists. split; reflexivity.
      + exists RestartIdle. cbn. rewrite H, Ei. eexists. split; reflexivity.
      + exists RestartIdle. cbn. rewrite H, Ei. eexists. split; reflexivity.
  Qed.
End Settle.
