(** Sx: integer S-expressions, the wire format between the Go harness and the
    Coq models.  Every case the harness records from the implementation is one
    [sx]; the decoders below are total Gallina functions, so the very same case
    can be evaluated by the extracted OCaml and by [vm_compute] inside Coq. *)
From Coq Require Import List ZArith Bool.
Import ListNotations.
Local Open Scope Z_scope.

Inductive sx := I (z : Z) | L (l : list sx).

Definition sx_int (s : sx) : option Z := match s with I z => Some z | L _ => None end.
Definition sx_list (s : sx) : option (list sx) := match s with L l => Some l | I _ => None end.

Fixpoint opt_map {A B} (f : A -> option B) (l : list A) : option (list B) :=
  match l with
  | [] => Some []
  | x :: t => match f x, opt_map f t with
              | Some y, Some r => Some (y :: r)
              | _, _ => None
              end
  end.

Definition sx_ints (s : sx) : option (list Z) :=
  match s with L l => opt_map sx_int l | I _ => None end.

Definition sx_nat (s : sx) : option nat :=
  match s with I z => if 0 <=? z then Some (Z.to_nat z) else None | L _ => None end.

Definition sx_bool (s : sx) : option bool :=
  match s with I 0 => Some false | I 1 => Some true | _ => None end.

Definition of_bool (b : bool) : sx := I (if b then 1 else 0).
Definition of_ints (l : list Z) : sx := L (map I l).
Definition of_nat (n : nat) : sx := I (Z.of_nat n).

Fixpoint list_eqb {A} (eqb : A -> A -> bool) (a b : list A) : bool :=
  match a, b with
  | [], [] => true
  | x :: a', y :: b' => eqb x y && list_eqb eqb a' b'
  | _, _ => false
  end.

Lemma list_eqb_eq {A} (eqb : A -> A -> bool) :
  (forall x y, eqb x y = true <-> x = y) ->
  forall a b, list_eqb eqb a b = true <-> a = b.
Proof.
  intros H a; induction a as [|x a IH]; intros [|y b]; simpl; split; intro E;
    try reflexivity; try discriminate.
  - apply andb_true_iff in E as [E1 E2]. apply H in E1. apply IH in E2. congruence.
  - inversion E; subst. apply andb_true_iff; split; [apply H | apply IH]; reflexivity.
Qed.

(** Result of checking one case: [OkCase] or a diagnostic (what the model expected). *)
Inductive verdict := OkCase | Mismatch (code : Z) (expected : sx) | BadCase (code : Z).
