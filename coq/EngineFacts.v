(** Facts about Engine, part 1: safety under [validate] alone (commands may be issued while the instance is
    busy, no-op commands allowed).  For every history in which each accepted delivery carries the task's
    current persisted status: the invariant and, from it, dependency order (C01), at most one main-action
    start per attempt also across crashes (C02, C04), finality of success (C15).  For the code as it is
    ([validate = false]): witnesses that violate each of them (the stale second delivery after a retry
    command re-initialised the instance). *)
From Coq Require Import List ZArith Bool Lia.
From FF Require Import Engine.
Import ListNotations.
Local Open Scope Z_scope.

Ltac inv H := inversion H; subst; clear H.

Lemma upd_same {A} (f : Z -> A) k v : upd f k v k = v.
Proof. unfold upd. rewrite Z.eqb_refl. reflexivity. Qed.
Lemma upd_other {A} (f : Z -> A) k v x : x <> k -> upd f k v x = f x.
Proof. unfold upd. intros H. destruct (Z.eqb_spec x k); [contradiction|reflexivity]. Qed.

Lemma remove1_in p l l' x : remove1 p l = Some l' -> In x l' -> In x l.
Proof.
  revert l'. induction l as [|y r IH]; cbn; intros l' H Hin; [discriminate|].
  destruct (Z.eqb (fst y) (fst p) && est_eqb (snd y) (snd p)).
  - inv H. right. exact Hin.
  - destruct (remove1 p r) as [r'|] eqn:E; [|discriminate]. inv H.
    destruct Hin as [->|Hin]; [left; reflexivity|right; eapply IH; [reflexivity|exact Hin]].
Qed.

Lemma remove1_mem p l l' : remove1 p l = Some l' -> In p l.
Proof.
  revert l'. induction l as [|y r IH]; cbn; intros l' H; [discriminate|].
  destruct (Z.eqb (fst y) (fst p) && est_eqb (snd y) (snd p)) eqn:E.
  - apply andb_true_iff in E. destruct E as (E1 & E2). apply Z.eqb_eq in E1. apply est_eqb_eq in E2.
    left. destruct y, p; cbn in *; subst; reflexivity.
  - destruct (remove1 p r) as [r'|] eqn:E'; [|discriminate]. right. eapply IH. reflexivity.
Qed.

Section Facts.
  Variable tasks : list Z.
  Variable deps : Z -> list Z.
  Variable cmdquiet nonoop : bool.

  Notation pdone := (parents_done deps).

  Lemma pdone_mono (f g : Z -> est) t :
    (forall d, done (f d) = true -> done (g d) = true) -> pdone f t = true -> pdone g t = true.
  Proof.
    unfold parents_done. intros H Hp. rewrite forallb_forall in *. intros d Hd. specialize (Hp d Hd). apply H. exact Hp.
  Qed.

  Lemma pdone_upd f t k v : done (f k) = false -> pdone f t = true -> pdone (upd f k v) t = true.
  Proof.
    intros Hk. apply pdone_mono. intros d Hd. destruct (Z.eq_dec d k) as [->|Hne]; [congruence|].
    rewrite upd_other by exact Hne. exact Hd.
  Qed.

  (** a run that can still write: registered and not past its last write *)
  Definition writing (r : rpc) : Prop := match r with RNone | RDone _ => False | _ => True end.

  (** statuses of a task whose main action has not started in the current attempt *)
  Definition unstarted_st (st : est) : bool := match st with SInit | SRetrying | SContinue | SBlocked => true | _ => false end.

  Record Inv (s : eng) : Prop := {
    iR : forall t, match runs s t with
                   | RQueued sn => store s t = sn /\ exec sn = true
                   | RRunning => store s t = SRunning /\ started s t = false
                   | RInMain => store s t = SRunning
                   | REnding => store s t = SEnding
                   | RDone _ | RNone => True
                   end;
    iK : forall t, done (know s t) = true -> store s t = know s t;
    iE : forall t st, In (t, st) (evq s) -> done st = true -> store s t = st;
    iD : forall t ev, runs s t = RDone ev -> done ev = true -> store s t = ev;
    iE2 : forall t, In (t, SInit) (evq s) -> pdone (store s) t = true;
    iP : forall c sn, In (c, sn) (pend s) -> pdone (store s) c = true;
    iPQ : forall c sn, In (c, sn) (pushq s) -> pdone (store s) c = true;
    iQ : forall t, runs s t <> RNone -> pdone (store s) t = true;
    iS : forall t, started s t = true -> unstarted_st (store s t) = false
  }.

  Lemma inv_boot : Inv boot.
  Proof. constructor; cbn; intros; try discriminate; try contradiction; auto. Qed.

  Lemma writing_not_done s t : Inv s -> writing (runs s t) -> done (store s t) = false.
  Proof.
    intros HI Hr. pose proof (iR s HI t) as H. destruct (runs s t) as [|sn| | | |ev]; cbn in Hr; try contradiction.
    - destruct H as (H1 & H2). rewrite H1. destruct sn; cbn in H2 |- *; congruence.
    - destruct H as (H1 & _). rewrite H1. reflexivity.
    - rewrite H. reflexivity.
    - rewrite H. reflexivity.
  Qed.

  (** what survives a write to a task that is not recorded finished *)
  Lemma frame s t v : Inv s -> done (store s t) = false ->
    (forall x, done (know s x) = true -> upd (store s) t v x = know s x) /\
    (forall x st, In (x, st) (evq s) -> done st = true -> upd (store s) t v x = st) /\
    (forall x ev, runs s x = RDone ev -> done ev = true -> upd (store s) t v x = ev) /\
    (forall x, In (x, SInit) (evq s) -> pdone (upd (store s) t v) x = true) /\
    (forall c sn, In (c, sn) (pend s) -> pdone (upd (store s) t v) c = true) /\
    (forall c sn, In (c, sn) (pushq s) -> pdone (upd (store s) t v) c = true) /\
    (forall x, runs s x <> RNone -> pdone (upd (store s) t v) x = true).
  Proof.
    intros HI Hns. repeat split.
    - intros x Hk. destruct (Z.eq_dec x t) as [->|Hne]; [exfalso; rewrite (iK s HI t Hk) in Hns; congruence|].
      rewrite upd_other by exact Hne. apply (iK s HI x Hk).
    - intros x st Hin Hs. destruct (Z.eq_dec x t) as [->|Hne]; [exfalso; rewrite (iE s HI t st Hin Hs) in Hns; congruence|].
      rewrite upd_other by exact Hne. apply (iE s HI x st Hin Hs).
    - intros x ev Hx Hd. destruct (Z.eq_dec x t) as [->|Hne]; [exfalso; rewrite (iD s HI t ev Hx Hd) in Hns; congruence|].
      rewrite upd_other by exact Hne. apply (iD s HI x ev Hx Hd).
    - intros x Hin. apply pdone_upd; [exact Hns|apply (iE2 s HI x Hin)].
    - intros c sn Hin. apply pdone_upd; [exact Hns|apply (iP s HI c sn Hin)].
    - intros c sn Hin. apply pdone_upd; [exact Hns|apply (iPQ s HI c sn Hin)].
    - intros x Hx. apply pdone_upd; [exact Hns|apply (iQ s HI x Hx)].
  Qed.

  Notation stepv := (step tasks deps true cmdquiet nonoop).

  (** a run of [t] writes its last status [v] (never retrying / continue; init only from the retry hook) *)
  Lemma inv_end_run s t v :
    Inv s -> writing (runs s t) -> (unstarted_st v = true -> started s t = false) -> Inv (end_run s t v).
  Proof.
    intros HI Hr Hv1. pose proof (writing_not_done s t HI Hr) as Hns.
    assert (Hlive : runs s t <> RNone) by (destruct (runs s t); cbn in Hr; try contradiction; discriminate).
    destruct (frame s t v HI Hns) as (FK & FE & FD & FE2 & FP & FPQ & FQ).
    constructor; cbn.
    - intros x. destruct (Z.eq_dec x t) as [->|Hne]; [rewrite !upd_same; exact Logic.I|rewrite !upd_other by exact Hne; apply (iR s HI)].
    - exact FK.
    - exact FE.
    - intros x ev Hx Hd. destruct (Z.eq_dec x t) as [->|Hne].
      + rewrite upd_same in Hx. inv Hx. rewrite upd_same. reflexivity.
      + rewrite upd_other in Hx by exact Hne. apply (FD x ev Hx Hd).
    - exact FE2.
    - exact FP.
    - exact FPQ.
    - intros x Hx. destruct (Z.eq_dec x t) as [->|Hne]; [apply FQ; exact Hlive|].
      rewrite upd_other in Hx by exact Hne. apply (FQ x Hx).
    - intros x Hx. destruct (Z.eq_dec x t) as [->|Hne].
      + rewrite upd_same. destruct (unstarted_st v) eqn:Eu; [|reflexivity]. rewrite (Hv1 eq_refl) in Hx. discriminate.
      + rewrite upd_other by exact Hne. apply (iS s HI x Hx).
  Qed.

  Lemma inv_initial pb s : Inv s -> Inv (initial tasks deps pb s).
  Proof.
    intros HI. unfold initial. destruct (filter (pushable deps (store s)) tasks) as [|e ex] eqn:Ef.
    - destruct (verdict_of tasks deps pb (store s)); [exact HI| | |]; constructor; cbn; apply HI.
    - assert (Hex : forall x, In x (e :: ex) -> pushable deps (store s) x = true).
      { intros x Hx. rewrite <- Ef in Hx. apply filter_In in Hx. apply Hx. }
      remember (e :: ex) as L. clear HeqL Ef.
      constructor; cbn; try apply HI.
      + intros x Hx. reflexivity.
      + intros c sn Hin. apply in_app_or in Hin. destruct Hin as [Hin|Hin]; [apply (iPQ s HI c sn Hin)|].
        unfold snap in Hin. apply in_map_iff in Hin. destruct Hin as (x & Hx & Hin). inv Hx.
        specialize (Hex c Hin). unfold pushable in Hex. apply andb_true_iff in Hex. apply Hex.
  Qed.

  Lemma inv_set_ph s p : Inv s -> Inv (set_ph s p).
  Proof. intros HI. constructor; cbn; apply HI. Qed.

  (** a push writes a pre-check verdict: the snapshot is current and the executor holds nothing for the task *)
  Lemma inv_push_verdict s t sn v q' :
    Inv s -> remove1 (t, sn) (pushq s) = Some q' -> can_skip sn = true -> store s t = sn -> runs s t = RNone ->
    (v = SSkipped \/ v = SBlocked) -> Inv (push_verdict s t v q').
  Proof.
    intros HI Hr Hcs Hst Hrn Hv.
    assert (Hns : done (store s t) = false) by (rewrite Hst; destruct sn; cbn in Hcs |- *; congruence).
    destruct (frame s t v HI Hns) as (FK & FE & FD & FE2 & FP & FPQ & FQ).
    constructor; cbn.
    - intros x. pose proof (iR s HI x) as H. destruct (Z.eq_dec x t) as [->|Hne]; [rewrite Hrn; exact Logic.I|].
      rewrite upd_other by exact Hne. exact H.
    - exact FK.
    - intros x st Hin Hs. apply in_app_or in Hin. destruct Hin as [Hin|[Hin|[]]]; [apply (FE x st Hin Hs)|].
      inv Hin. apply upd_same.
    - exact FD.
    - intros x Hin. apply in_app_or in Hin. destruct Hin as [Hin|[Hin|[]]]; [apply (FE2 x Hin)|]. inv Hin. destruct Hv; discriminate.
    - exact FP.
    - intros c sn' Hin. apply (FPQ c sn'). eapply remove1_in; eassumption.
    - exact FQ.
    - intros x Hx. destruct (Z.eq_dec x t) as [->|Hne].
      + exfalso. pose proof (iS s HI t Hx) as H. rewrite Hst in H. destruct sn; cbn in Hcs, H; congruence.
      + rewrite upd_other by exact Hne. apply (iS s HI x Hx).
  Qed.

  Lemma inv_step s l s' : Inv s -> stepv s l = Some s' -> Inv s'.
  Proof.
    intros HI HS. destruct l; cbn in HS.
    - (* Accept *)
      destruct (remove1 (t, s0) (pend s)) as [p'|] eqn:Er; [|discriminate].
      destruct (guard_ok true s t s0) eqn:Eg; [|discriminate].
      inv HS. unfold guard_ok in Eg. apply andb_true_iff in Eg. destruct Eg as (Eg & Ev). apply andb_true_iff in Eg. destruct Eg as (En & Ex).
      cbn in Ev. apply est_eqb_eq in Ev.
      constructor; cbn.
      + intros x. destruct (Z.eq_dec x t) as [->|Hne]; [rewrite upd_same; auto|rewrite upd_other by exact Hne; apply (iR s HI)].
      + apply (iK s HI).
      + apply (iE s HI).
      + intros x ev Hx. destruct (Z.eq_dec x t) as [->|Hne]; [rewrite upd_same in Hx; discriminate|].
        rewrite upd_other in Hx by exact Hne. apply (iD s HI x ev Hx).
      + apply (iE2 s HI).
      + intros c sn Hin. apply (iP s HI c sn). eapply remove1_in; eassumption.
      + apply (iPQ s HI).
      + intros x Hx. destruct (Z.eq_dec x t) as [->|Hne].
        * apply (iP s HI t s0). eapply remove1_mem; eassumption.
        * rewrite upd_other in Hx by exact Hne. apply (iQ s HI x Hx).
      + apply (iS s HI).
    - (* Drop *)
      destruct (remove1 (t, s0) (pend s)) as [p'|] eqn:Er; [|discriminate].
      destruct (guard_ok true s t s0); [discriminate|].
      inv HS. constructor; cbn; try apply HI.
      intros c sn Hin. apply (iP s HI c sn). eapply remove1_in; eassumption.
    - (* StartWrite *)
      pose proof (iR s HI t) as HRt.
      destruct (runs s t) as [|sn| | | |ev] eqn:Er; try discriminate.
      destruct HRt as (Hst & Hex).
      assert (Hw : writing (runs s t)) by (rewrite Er; exact Logic.I).
      assert (Hlive : runs s t <> RNone) by congruence.
      pose proof (writing_not_done s t HI Hw) as Hns.
      assert (Hrun : forall s1, s1 = set_runs (set_store s (upd (store s) t SRunning)) (upd (runs s) t RRunning) ->
                      (sn = SInit \/ sn = SContinue) -> Inv s1).
      { intros s1 -> Hsn.
        destruct (frame s t SRunning HI Hns) as (FK & FE & FD & FE2 & FP & FPQ & FQ).
        constructor; cbn; auto.
        * intros x. destruct (Z.eq_dec x t) as [->|Hne].
          -- rewrite !upd_same. split; [reflexivity|].
             destruct (started s t) eqn:Es; [|reflexivity]. pose proof (iS s HI t Es) as A. rewrite Hst in A. destruct Hsn as [E|E]; rewrite E in A; discriminate A.
          -- rewrite !upd_other by exact Hne. apply (iR s HI).
        * intros x ev Hx. destruct (Z.eq_dec x t) as [->|Hne]; [rewrite upd_same in Hx; discriminate|].
          rewrite upd_other in Hx by exact Hne. apply (FD x ev Hx).
        * intros x Hx. destruct (Z.eq_dec x t) as [->|Hne]; [apply FQ; exact Hlive|].
          rewrite upd_other in Hx by exact Hne. apply (FQ x Hx).
        * intros x Hx. destruct (Z.eq_dec x t) as [->|Hne]; [rewrite upd_same; reflexivity|].
          rewrite upd_other by exact Hne. apply (iS s HI x Hx). }
      destruct sn; try discriminate; inv HS.
      + apply (Hrun _ eq_refl). left. reflexivity.
      + (* resumed in ending: nothing is written *)
        constructor; cbn; try apply HI.
        * intros x. destruct (Z.eq_dec x t) as [->|Hne]; [rewrite upd_same; exact Hst|rewrite upd_other by exact Hne; apply (iR s HI)].
        * intros x ev Hx. destruct (Z.eq_dec x t) as [->|Hne]; [rewrite upd_same in Hx; discriminate|].
          rewrite upd_other in Hx by exact Hne. apply (iD s HI x ev Hx).
        * intros x Hx. destruct (Z.eq_dec x t) as [->|Hne]; [apply (iQ s HI t Hlive)|].
          rewrite upd_other in Hx by exact Hne. apply (iQ s HI x Hx).
      + (* from retrying: the hook ran, 'init' is stored *)
        apply inv_end_run; try assumption.
        intros _. destruct (started s t) eqn:Es; [|reflexivity]. pose proof (iS s HI t Es) as B. rewrite Hst in B. discriminate.
      + apply (Hrun _ eq_refl). right. reflexivity.
    - (* MainStart *)
      pose proof (iR s HI t) as HRt.
      destruct (runs s t) eqn:Er; try discriminate. inv HS. destruct HRt as (Hst & Hnst).
      assert (Hlive : runs s t <> RNone) by congruence.
      constructor; cbn; try apply HI.
      + intros x. destruct (Z.eq_dec x t) as [->|Hne]; [rewrite upd_same; exact Hst|].
        rewrite !upd_other by exact Hne. apply (iR s HI).
      + intros x ev Hx. destruct (Z.eq_dec x t) as [->|Hne]; [rewrite upd_same in Hx; discriminate|].
        rewrite upd_other in Hx by exact Hne. apply (iD s HI x ev Hx).
      + intros x Hx. destruct (Z.eq_dec x t) as [->|Hne]; [apply (iQ s HI t Hlive)|].
        rewrite upd_other in Hx by exact Hne. apply (iQ s HI x Hx).
      + intros x Hx. destruct (Z.eq_dec x t) as [->|Hne]; [rewrite Hst; reflexivity|].
        rewrite upd_other in Hx by exact Hne. apply (iS s HI x Hx).
    - (* MainOk *)
      pose proof (iR s HI t) as HRt.
      destruct (runs s t) eqn:Er; try discriminate. inv HS.
      assert (Hw : writing (runs s t)) by (rewrite Er; exact Logic.I).
      assert (Hlive : runs s t <> RNone) by congruence.
      pose proof (writing_not_done s t HI Hw) as Hns.
      destruct (frame s t SEnding HI Hns) as (FK & FE & FD & FE2 & FP & FPQ & FQ).
      constructor; cbn; auto.
      + intros x. destruct (Z.eq_dec x t) as [->|Hne]; [rewrite !upd_same; reflexivity|rewrite !upd_other by exact Hne; apply (iR s HI)].
      + intros x ev Hx. destruct (Z.eq_dec x t) as [->|Hne]; [rewrite upd_same in Hx; discriminate|].
        rewrite upd_other in Hx by exact Hne. apply (FD x ev Hx).
      + intros x Hx. destruct (Z.eq_dec x t) as [->|Hne]; [apply FQ; exact Hlive|].
        rewrite upd_other in Hx by exact Hne. apply (FQ x Hx).
      + intros x Hx. destruct (Z.eq_dec x t) as [->|Hne]; [rewrite upd_same; reflexivity|].
        rewrite upd_other by exact Hne. apply (iS s HI x Hx).
    - (* MainErr *)
      destruct (runs s t) eqn:Er; try discriminate. inv HS.
      apply inv_end_run; try assumption; [rewrite Er; exact Logic.I|cbn; discriminate].
    - (* AfterOk *)
      destruct (runs s t) eqn:Er; try discriminate. inv HS.
      apply inv_end_run; try assumption; [rewrite Er; exact Logic.I|cbn; discriminate].
    - (* AfterErr *)
      destruct (runs s t) eqn:Er; try discriminate. inv HS.
      apply inv_end_run; try assumption; [rewrite Er; exact Logic.I|cbn; discriminate].
    - (* BeforeErr *)
      destruct (runs s t) as [|sn| | | |ev] eqn:Er; try discriminate. destruct sn; try discriminate; inv HS;
        (apply inv_end_run; try assumption; [rewrite Er; exact Logic.I|cbn; discriminate]).
    - (* RetryErr *)
      destruct (runs s t) as [|sn| | | |ev] eqn:Er; try discriminate. destruct sn; try discriminate. inv HS.
      apply inv_end_run; try assumption; [rewrite Er; exact Logic.I|cbn; discriminate].
    - (* Finish *)
      destruct (runs s t) as [|sn| | | |ev] eqn:Er; try discriminate. inv HS.
      assert (Hlive : runs s t <> RNone) by congruence.
      constructor; cbn; try apply HI.
      + intros x. destruct (Z.eq_dec x t) as [->|Hne]; [rewrite upd_same; exact Logic.I|rewrite upd_other by exact Hne; apply (iR s HI)].
      + intros x st Hin Hs. apply in_app_or in Hin. destruct Hin as [Hin|[Hin|[]]]; [apply (iE s HI x st Hin Hs)|].
        inv Hin. apply (iD s HI x st Er Hs).
      + intros x ev' Hx. destruct (Z.eq_dec x t) as [->|Hne]; [rewrite upd_same in Hx; discriminate|].
        rewrite upd_other in Hx by exact Hne. apply (iD s HI x ev' Hx).
      + intros x Hin. apply in_app_or in Hin. destruct Hin as [Hin|[Hin|[]]]; [apply (iE2 s HI x Hin)|]. inv Hin.
        apply (iQ s HI x Hlive).
      + intros x Hx. destruct (Z.eq_dec x t) as [->|Hne]; [rewrite upd_same in Hx; congruence|].
        rewrite upd_other in Hx by exact Hne. apply (iQ s HI x Hx).
    - (* Deliver *)
      destruct (evq s) as [|(t, st) r] eqn:Eq; [discriminate|].
      assert (Hs0 : Inv (set_evq s r)).
      { constructor; cbn; try apply HI.
        - intros x st' Hin Hs. apply (iE s HI x st'); [rewrite Eq; right; exact Hin|exact Hs].
        - intros x Hin. apply (iE2 s HI x). rewrite Eq. right. exact Hin. }
      destruct (tree s && parents_done deps (know s) t); [|inv HS; exact Hs0].
      assert (HK' : forall x, done (upd (know s) t st x) = true -> store s x = upd (know s) t st x).
      { intros x Hx. destruct (Z.eq_dec x t) as [->|Hne].
        - rewrite upd_same in Hx |- *. apply (iE s HI t st); [rewrite Eq; left; reflexivity|exact Hx].
        - rewrite upd_other in Hx |- * by exact Hne. apply (iK s HI x Hx). }
      assert (Hs1 : Inv (set_know (set_evq s r) (upd (know s) t st))).
      { constructor; cbn; try apply Hs0. exact HK'. }
      match type of HS with (match ?nx with _ => _ end) = _ => remember nx as L eqn:EL end.
      assert (HL : forall c, In c L -> parents_done deps (store s) c = true).
      { intros c Hin. subst L. destruct (done st) eqn:Ed.
        * apply filter_In in Hin. destruct Hin as (_ & Hp). unfold pushable in Hp. apply andb_true_iff in Hp. destruct Hp as (_ & Hp).
          unfold parents_done in *. rewrite forallb_forall in *. intros d Hd. specialize (Hp d Hd).
          rewrite (HK' d Hp). exact Hp.
        * destruct (est_eqb st SInit) eqn:Ei; [|contradiction]. apply est_eqb_eq in Ei. subst st.
          destruct Hin as [<-|[]]. apply (iE2 s HI t). rewrite Eq. left. reflexivity. }
      clear EL. destruct L as [|n0 nx'].
      + destruct (verdict_of tasks deps pb (upd (know s) t st)); inv HS; [exact Hs1| | |]; constructor; cbn; apply Hs1.
      + inv HS. constructor; cbn; try apply Hs1.
        intros c sn Hin. apply in_app_or in Hin. destruct Hin as [Hin|Hin]; [apply (iPQ s HI c sn Hin)|].
        destruct Hin as [Hin|Hin]; [inv Hin; apply HL; left; reflexivity|].
        apply in_map_iff in Hin. destruct Hin as (x & Hx & Hin). inv Hx. apply HL. right. exact Hin.
    - (* PushRun *)
      destruct (remove1 (t, s0) (pushq s)) as [q'|] eqn:Er; [|discriminate]. inv HS.
      constructor; cbn; try apply HI.
      + intros c sn Hin. apply in_app_or in Hin. destruct Hin as [Hin|[Hin|[]]]; [apply (iP s HI c sn Hin)|].
        inv Hin. apply (iPQ s HI c sn). eapply remove1_mem; eassumption.
      + intros c sn Hin. apply (iPQ s HI c sn). eapply remove1_in; eassumption.
    - (* PushSkip *)
      destruct (remove1 (t, s0) (pushq s)) as [q'|] eqn:Er; [|discriminate].
      match type of HS with (if ?b then _ else _) = _ => destruct b eqn:Eok; [|discriminate] end. inv HS.
      apply andb_true_iff in Eok. destruct Eok as (Ecs & Eok). apply andb_true_iff in Eok. destruct Eok as (Eok & _).
      apply andb_true_iff in Eok. destruct Eok as (Est & Enr). apply est_eqb_eq in Est.
      assert (Hrn : runs s t = RNone) by (destruct (runs s t); cbn in Enr; congruence).
      eapply inv_push_verdict; try eassumption. left. reflexivity.
    - (* PushBlock *)
      destruct (remove1 (t, s0) (pushq s)) as [q'|] eqn:Er; [|discriminate].
      match type of HS with (if ?b then _ else _) = _ => destruct b eqn:Eok; [|discriminate] end. inv HS.
      apply andb_true_iff in Eok. destruct Eok as (Ecs & Eok). apply andb_true_iff in Eok. destruct Eok as (Eok & _).
      apply andb_true_iff in Eok. destruct Eok as (Est & Enr). apply est_eqb_eq in Est.
      assert (Hrn : runs s t = RNone) by (destruct (runs s t); cbn in Enr; congruence).
      eapply inv_push_verdict; try eassumption; [destruct s0; cbn in Ecs |- *; congruence|right; reflexivity].
    - (* CmdIssue *)
      match type of HS with (if ?b then _ else _) = _ => destruct b; [|discriminate] end. inv HS.
      constructor; cbn; apply HI.
    - (* CmdBegin *)
      destruct (ph s); try discriminate.
      match type of HS with (if ?b then _ else _) = _ => destruct b; [|discriminate] end. inv HS.
      constructor; cbn; apply HI.
    - (* Rearm *)
      destruct (ph s); try discriminate. destruct (store s t) eqn:Est; try discriminate.
      destruct (existsb (Z.eqb t) tasks); [|discriminate]. inv HS.
      assert (Hns : done (store s t) = false) by (rewrite Est; reflexivity).
      destruct (frame s t SRetrying HI Hns) as (FK & FE & FD & FE2 & FP & FPQ & FQ).
      constructor; cbn; auto.
      + intros x. pose proof (iR s HI x) as H. destruct (Z.eq_dec x t) as [->|Hne].
        * destruct (runs s t) as [|sn| | | |ev]; auto.
          -- destruct H as (H1 & H2). rewrite Est in H1. subst sn. discriminate.
          -- destruct H as (H1 & _). congruence.
          -- congruence.
          -- congruence.
        * rewrite !upd_other by exact Hne. exact H.
      + intros x Hx. destruct (Z.eq_dec x t) as [->|Hne]; [rewrite upd_same in Hx; discriminate|].
        rewrite upd_other in Hx by exact Hne. rewrite upd_other by exact Hne. apply (iS s HI x Hx).
    - (* ContArm *)
      destruct (ph s); try discriminate. destruct (store s t) eqn:Est; try discriminate.
      destruct (existsb (Z.eqb t) tasks); [|discriminate]. inv HS.
      assert (Hns : done (store s t) = false) by (rewrite Est; reflexivity).
      destruct (frame s t SContinue HI Hns) as (FK & FE & FD & FE2 & FP & FPQ & FQ).
      constructor; cbn; auto.
      + intros x. pose proof (iR s HI x) as H. destruct (Z.eq_dec x t) as [->|Hne].
        * destruct (runs s t) as [|sn| | | |ev]; auto.
          -- destruct H as (H1 & H2). rewrite Est in H1. subst sn. discriminate.
          -- destruct H as (H1 & _). congruence.
          -- congruence.
          -- congruence.
        * rewrite !upd_other by exact Hne. exact H.
      + intros x Hx. destruct (Z.eq_dec x t) as [->|Hne].
        * exfalso. pose proof (iS s HI t Hx) as A. rewrite Est in A. discriminate.
        * rewrite upd_other by exact Hne. apply (iS s HI x Hx).
    - (* CmdPatch *)
      destruct (ph s); try discriminate. destruct (armed s); [inv HS; constructor; cbn; apply HI|].
      destruct nonoop; [discriminate|]. inv HS. constructor; cbn; apply HI.
    - (* Rebuild *)
      destruct (ph s); try discriminate.
      + inv HS. apply inv_set_ph. apply inv_initial. exact HI.
      + destruct (ins s); try discriminate. inv HS. apply inv_set_ph. apply inv_initial. exact HI.
    - (* RestartIdle *)
      destruct (ph s); try discriminate. destruct (ins s); try discriminate; inv HS; apply inv_set_ph; exact HI.
    - (* WdFail *)
      destruct (store s t) eqn:Est; try discriminate. destruct (runs s t) eqn:Er; try discriminate. inv HS.
      assert (Hns : done (store s t) = false) by (rewrite Est; reflexivity).
      destruct (frame s t SFailed HI Hns) as (FK & FE & FD & FE2 & FP & FPQ & FQ).
      constructor; cbn; auto.
      + intros x. destruct (Z.eq_dec x t) as [->|Hne]; [rewrite Er; exact Logic.I|].
        rewrite !upd_other by exact Hne. apply (iR s HI).
      + intros x Hx. destruct (Z.eq_dec x t) as [->|Hne]; [rewrite upd_same; reflexivity|].
        rewrite upd_other by exact Hne. apply (iS s HI x Hx).
    - (* Crash *)
      inv HS. constructor; cbn; intros; try contradiction; try congruence; auto.
      + apply (iK s HI t H).
      + apply (iS s HI t H).
  Qed.

  Theorem inv_reach ls : forall s s', Inv s -> run tasks deps true cmdquiet nonoop s ls = Some s' -> Inv s'.
  Proof.
    induction ls as [|l ls IH]; cbn; intros s s' HI HR.
    - inv HR. exact HI.
    - destruct (stepv s l) as [s1|] eqn:E; [|discriminate]. eapply IH; [eapply inv_step; eassumption|exact HR].
  Qed.

  (** C01: a main action starts only when every dependency is recorded success or skipped *)
  Theorem main_start_parents_done s t s' : Inv s -> stepv s (MainStart t) = Some s' -> pdone (store s) t = true.
  Proof.
    intros HI HS. cbn in HS. destruct (runs s t) eqn:Er; try discriminate. apply (iQ s HI t). congruence.
  Qed.

  (** C02 / C04: at most one main-action start per attempt (an attempt ends with a retry command), crashes included *)
  Theorem main_start_once s t s' : Inv s -> stepv s (MainStart t) = Some s' -> started s t = false /\ started s' t = true.
  Proof.
    intros HI HS. cbn in HS. pose proof (iR s HI t) as H. destruct (runs s t) eqn:Er; try discriminate.
    inv HS. cbn. rewrite upd_same. destruct H as (_ & H). split; [exact H|reflexivity].
  Qed.

  (** ... and only right after 'running' was stored by this very run *)
  Theorem main_start_after_running s t s' : Inv s -> stepv s (MainStart t) = Some s' -> store s t = SRunning.
  Proof.
    intros HI HS. cbn in HS. pose proof (iR s HI t) as H. destruct (runs s t) eqn:Er; try discriminate. apply H.
  Qed.

  Lemma started_initial pb s t : started (initial tasks deps pb s) t = started s t.
  Proof.
    unfold initial. destruct (filter (pushable deps (store s)) tasks); [destruct (verdict_of tasks deps pb (store s))|]; reflexivity.
  Qed.

  Theorem started_kept s l s' t : stepv s l = Some s' -> started s t = true -> l <> Rearm t -> started s' t = true.
  Proof.
    intros HS Hst Hl. destruct l; cbn in HS;
      try (repeat match goal with
             | H : match ?x with _ => _ end = Some _ |- _ => destruct x eqn:?; try discriminate
             end; inv HS; cbn; rewrite ?started_initial; try exact Hst; fail).
    - (* MainStart *)
      destruct (runs s t0); try discriminate. inv HS. cbn.
      destruct (Z.eq_dec t t0) as [->|Hne]; [rewrite upd_same; reflexivity|rewrite upd_other by exact Hne; exact Hst].
    - (* Rearm *)
      destruct (ph s); try discriminate. destruct (store s t0); try discriminate.
      destruct (existsb (Z.eqb t0) tasks); [|discriminate]. inv HS. cbn.
      destruct (Z.eq_dec t t0) as [->|Hne]; [congruence|rewrite upd_other by exact Hne; exact Hst].
  Qed.

  Lemma store_initial pb s t : store (initial tasks deps pb s) t = store s t.
  Proof.
    unfold initial. destruct (filter (pushable deps (store s)) tasks); [destruct (verdict_of tasks deps pb (store s))|]; reflexivity.
  Qed.

  (** C15 / C13: a finished task (success or skipped) is never given another status *)
  Theorem done_final s l s' t : Inv s -> stepv s l = Some s' -> done (store s t) = true -> store s' t = store s t.
  Proof.
    intros HI HS Hst.
    assert (Hlive : forall x, writing (runs s x) -> x <> t).
    { intros x Hx ->. rewrite (writing_not_done s t HI Hx) in Hst. discriminate. }
    assert (Hw : forall x v, x <> t -> upd (store s) x v t = store s t).
    { intros x v Hx. apply upd_other. congruence. }
    destruct l; cbn in HS;
      try (repeat match goal with
             | H : match ?x with _ => _ end = Some _ |- _ => destruct x eqn:?; try discriminate
             end; inv HS; cbn; rewrite ?store_initial; try reflexivity;
           try (apply Hw; apply Hlive; match goal with H : runs s _ = _ |- _ => rewrite H; exact Logic.I end);
           try (apply Hw; intro; subst; match goal with H : store s _ = _ |- _ => rewrite H in Hst; discriminate end); fail).
    - (* PushSkip *)
      destruct (remove1 (t0, s0) (pushq s)); [|discriminate].
      match type of HS with (if ?b then _ else _) = _ => destruct b eqn:Eok; [|discriminate] end. inv HS. cbn. apply Hw. intros ->.
      apply andb_true_iff in Eok. destruct Eok as (Ec & Eok). apply andb_true_iff in Eok. destruct Eok as (Eok & _).
      apply andb_true_iff in Eok. destruct Eok as (Eok & _). apply est_eqb_eq in Eok. rewrite Eok in Hst. destruct s0; cbn in Ec, Hst; congruence.
    - (* PushBlock *)
      destruct (remove1 (t0, s0) (pushq s)); [|discriminate].
      match type of HS with (if ?b then _ else _) = _ => destruct b eqn:Eok; [|discriminate] end. inv HS. cbn. apply Hw. intros ->.
      apply andb_true_iff in Eok. destruct Eok as (Ec & Eok). apply andb_true_iff in Eok. destruct Eok as (Eok & _).
      apply andb_true_iff in Eok. destruct Eok as (Eok & _). apply est_eqb_eq in Eok. rewrite Eok in Hst. destruct s0; cbn in Ec, Hst; congruence.
  Qed.

  (** C13: a task recorded skipped or blocked has not started its main action in the current attempt, and a
      blocked one starts nothing until a continue command re-arms it *)
  Theorem blocked_not_started s t : Inv s -> store s t = SBlocked -> started s t = false.
  Proof.
    intros HI Hst. destruct (started s t) eqn:E; [|reflexivity]. pose proof (iS s HI t E) as H. rewrite Hst in H. discriminate.
  Qed.

  Theorem blocked_has_no_run s t : Inv s -> store s t = SBlocked -> ~ writing (runs s t).
  Proof.
    intros HI Hst Hw. pose proof (iR s HI t) as H. destruct (runs s t) as [|sn| | | |ev]; cbn in Hw; try contradiction.
    - destruct H as (H1 & H2). rewrite Hst in H1. subst sn. discriminate.
    - destruct H as (H1 & _). congruence.
    - congruence.
    - congruence.
  Qed.

  (** C13: a push whose skip (block) check fires records the verdict and runs nothing: no run of the task is
      registered, its main action has not started in this attempt, and none of that changes *)
  Theorem push_verdict_runs_nothing s t sn s' :
    Inv s -> stepv s (PushSkip t sn) = Some s' \/ stepv s (PushBlock t sn) = Some s' ->
    (store s' t = SSkipped \/ store s' t = SBlocked) /\ runs s' t = RNone /\ started s' t = false /\
    (forall x, runs s' x = runs s x) /\ (forall x, started s' x = started s x).
  Proof.
    intros HI HS.
    assert (G : forall v (b : bool), (if b then Some (push_verdict s t v (pushq s)) else None) = Some s' -> True) by (intros; exact Logic.I).
    clear G.
    destruct HS as [HS|HS]; cbn in HS;
      (destruct (remove1 (t, sn) (pushq s)) as [q'|]; [|discriminate]);
      (match type of HS with (if ?b then _ else _) = _ => destruct b eqn:Eok; [|discriminate] end); inv HS;
      apply andb_true_iff in Eok; destruct Eok as (Ec & Eok); apply andb_true_iff in Eok; destruct Eok as (Eok & _);
      apply andb_true_iff in Eok; destruct Eok as (Est & Enr); apply est_eqb_eq in Est;
      (assert (Hrn : runs s t = RNone) by (destruct (runs s t); cbn in Enr; congruence));
      (assert (Hns : started s t = false) by
         (destruct (started s t) eqn:Es; [|reflexivity]; pose proof (iS s HI t Es) as H; rewrite Est in H; destruct sn; cbn in Ec, H; congruence));
      cbn; rewrite upd_same; repeat split; auto.
  Qed.

  (** C13: after a continue command the block checks are bypassed (a continued task cannot be blocked by the
      push), while a skip check still applies *)
  Theorem continued_task_not_blocked s t : stepv s (PushBlock t SContinue) = None.
  Proof. cbn. destruct (remove1 (t, SContinue) (pushq s)); reflexivity. Qed.

  Theorem continued_task_can_be_skipped s t q' :
    remove1 (t, SContinue) (pushq s) = Some q' -> store s t = SContinue -> runs s t = RNone ->
    (forall sn, ~ In (t, sn) (pend s)) -> exists s', stepv s (PushSkip t SContinue) = Some s' /\ store s' t = SSkipped.
  Proof.
    intros Hr Hst Hrn Hnp. cbn. rewrite Hr, Hst, Hrn. cbn.
    assert (E : existsb (fun p => Z.eqb (fst p) t) (pend s) = false).
    { destruct (existsb (fun p => Z.eqb (fst p) t) (pend s)) eqn:E; [|reflexivity]. exfalso.
      apply existsb_exists in E. destruct E as ((x, sn) & Hin & He). cbn in He. apply Z.eqb_eq in He. subst x. exact (Hnp sn Hin). }
    rewrite E. cbn. eexists. split; [reflexivity|]. cbn. apply upd_same.
  Qed.
End Facts.

(** the code as it is: after a retry command re-initialised the instance while other deliveries were still
    queued, a task that was already delivered is delivered again with the snapshot 'init'; once its first
    run is over the second delivery is accepted *)
Definition deps3 (t : Z) : list Z := if Z.eqb t 3 then [2] else [].
Definition witness_dup : list label :=
  [Rebuild false; PushRun 1 SInit; PushRun 2 SInit; Accept 1 SInit; StartWrite 1; MainStart 1; MainErr 1; Finish 1; Deliver false;
   CmdIssue; CmdBegin; Rearm 1; CmdPatch; Rebuild false; PushRun 2 SInit;
   Accept 2 SInit; StartWrite 2; MainStart 2; MainOk 2; AfterOk 2; Finish 2; Deliver false; PushRun 3 SInit;
   Accept 2 SInit; StartWrite 2; Accept 3 SInit; StartWrite 3].

Theorem unvalidated_refuted :
  exists s, run [1; 2; 3] deps3 false false true boot witness_dup = Some s /\
            (* task 2 was success and is running again, its main action about to start a second time in the same attempt *)
            store s 2 = SRunning /\ started s 2 = true /\ (exists s', step [1; 2; 3] deps3 false false true s (MainStart 2) = Some s') /\
            (* task 3 is about to start its main action although its dependency is not success *)
            (exists s', step [1; 2; 3] deps3 false false true s (MainStart 3) = Some s') /\ parents_done deps3 (store s) 3 = false.
Proof.
  eexists. split; [vm_compute; reflexivity|]. cbn.
  repeat split; try reflexivity; eexists; reflexivity.
Qed.

(** ... and the recorded success of task 2 is overwritten *)
Theorem success_overwritten_refuted :
  exists s s', run [1; 2; 3] deps3 false false true boot (firstn 24 witness_dup) = Some s /\
               step [1; 2; 3] deps3 false false true s (StartWrite 2) = Some s' /\ store s 2 = SSuccess /\ store s' 2 = SRunning.
Proof.
  eexists. eexists. split; [vm_compute; reflexivity|]. split; [vm_compute; reflexivity|]. split; reflexivity.
Qed.

(** a pre-check verdict written by a duplicate push while the first delivery is already registered: the task
    is recorded skipped, its dependent starts, and the registered run then overwrites 'skipped' with 'running' *)
Definition witness_dup_skip : list label :=
  [Rebuild false; PushRun 1 SInit; PushRun 2 SInit; Accept 1 SInit; StartWrite 1; MainStart 1; MainErr 1; Finish 1; Deliver false;
   CmdIssue; CmdBegin; Rearm 1; CmdPatch; Accept 2 SInit; Rebuild false; PushSkip 2 SInit].

Theorem skipped_overwritten_refuted :
  exists s s', run [1; 2; 3] deps3 false false true boot witness_dup_skip = Some s /\
               step [1; 2; 3] deps3 false false true s (StartWrite 2) = Some s' /\ store s 2 = SSkipped /\ store s' 2 = SRunning.
Proof.
  eexists. eexists. split; [vm_compute; reflexivity|]. split; [vm_compute; reflexivity|]. split; reflexivity.
Qed.

(** the same history is not a history of the validated system: the stale delivery is refused *)
Example validated_refuses_witness :
  run [1; 2; 3] deps3 true false true boot witness_dup = None /\ run [1; 2; 3] deps3 true false true boot witness_dup_skip = None.
Proof. split; vm_compute; reflexivity. Qed.
