(** Shutdown: the synchronisation skeleton of DefParser (pkg/mod/parser.go: sendToChannel, goWorker,
    Close) and of DefExecutor (pkg/mod/executor.go: Push, watchInitQueue, subWorkerQueue, Close) as
    labelled transition systems over counters.  One worker queue of the parser is modelled (the queues
    only interact through the lock); the executor has any number of workers.

    [variant]: 0 = the pinned code (Close waits for the workers while holding the write lock, senders
    that wait for room hold the read lock), 1 = after fix 57f3a0c (write lock released before the
    wait), 2 = the current code (senders wait without the lock and give up on closeCh; the queues are
    closed when they are gone).  Go's RWMutex semantics: a pending writer blocks new readers. *)
From Coq Require Import List Arith Bool Lia.
Import ListNotations.

Inductive wphase := WIdle | WProc (k : nat) | WEntry (k : nat) | WExited.
Inductive cphase := CNot | CWantLock | CWaitSenders | CWaitWorkers | CRet.

Record pst := {
  rd : nat;        (* read-lock holders that are blocked in a send *)
  wr : bool;       (* write lock held *)
  ww : bool;       (* a writer waits *)
  closed : bool;   (* closeCh closed *)
  qclosed : bool;  (* worker queue closed *)
  q : nat;         (* queue length *)
  bs : nat;        (* goroutines blocked sending to the full queue *)
  bw : nat;        (* spawned goroutines still waiting for the read lock (variants 0, 1) *)
  wk : wphase;     (* the worker: idle, processing with k entries still to push, entering, exited *)
  cl : cphase;     (* Close *)
  ext : nat;       (* EntryTaskIns calls of other goroutines (executor workers, watchers) not yet entered *)
  panicked : bool  (* a send on a closed channel happened *)
}.

Definition pinit := {| rd := 0; wr := false; ww := false; closed := false; qclosed := false; q := 0; bs := 0;
                       bw := 0; wk := WIdle; cl := CNot; ext := 0; panicked := false |}.

Inductive plabel :=
| ExtArrive | ExtEnter
| WTake (k : nat) | WNeed | WEnter | WDone | WExit
| BLock | BSend | BAbort
| CCall | CLock | CSendersGone | CReturn.

Section P.
  Variable variant : nat.
  Variable cap : nat.   (* queue capacity (50 in the code) *)
  Variable fan : nat.   (* bound on the entries one processed event produces (the DAG's size) *)

  Definition can_read (s : pst) := negb (wr s) && negb (ww s).

  (** the body of sendToChannel once the read lock is held *)
  Definition enter (s : pst) : pst :=
    if closed s then s
    else if q s <? cap
         then {| rd := rd s; wr := wr s; ww := ww s; closed := closed s; qclosed := qclosed s; q := S (q s); bs := bs s;
                 bw := bw s; wk := wk s; cl := cl s; ext := ext s; panicked := panicked s |}
         else if variant =? 2
              then {| rd := rd s; wr := wr s; ww := ww s; closed := closed s; qclosed := qclosed s; q := q s; bs := S (bs s);
                      bw := bw s; wk := wk s; cl := cl s; ext := ext s; panicked := panicked s |}
              else {| rd := rd s; wr := wr s; ww := ww s; closed := closed s; qclosed := qclosed s; q := q s; bs := bs s;
                      bw := S (bw s); wk := wk s; cl := cl s; ext := ext s; panicked := panicked s |}.

  Definition set_wk (s : pst) (w : wphase) : pst :=
    {| rd := rd s; wr := wr s; ww := ww s; closed := closed s; qclosed := qclosed s; q := q s; bs := bs s;
       bw := bw s; wk := w; cl := cl s; ext := ext s; panicked := panicked s |}.

  Definition pstep (s : pst) (l : plabel) : option pst :=
    match l with
    | ExtArrive => Some {| rd := rd s; wr := wr s; ww := ww s; closed := closed s; qclosed := qclosed s; q := q s; bs := bs s;
                           bw := bw s; wk := wk s; cl := cl s; ext := S (ext s); panicked := panicked s |}
    | ExtEnter =>
        match ext s with
        | S e => if can_read s
                 then Some (enter {| rd := rd s; wr := wr s; ww := ww s; closed := closed s; qclosed := qclosed s; q := q s; bs := bs s;
                                     bw := bw s; wk := wk s; cl := cl s; ext := e; panicked := panicked s |})
                 else None
        | O => None
        end
    | WTake k =>
        match wk s, q s with
        | WIdle, S n => if k <=? fan
                        then Some {| rd := rd s; wr := wr s; ww := ww s; closed := closed s; qclosed := qclosed s; q := n; bs := bs s;
                                     bw := bw s; wk := WProc k; cl := cl s; ext := ext s; panicked := panicked s |}
                        else None
        | _, _ => None
        end
    | WNeed => match wk s with WProc (S k) => Some (set_wk s (WEntry k)) | _ => None end
    | WEnter => match wk s with
                | WEntry k => if can_read s then Some (enter (set_wk s (WProc k))) else None
                | _ => None
                end
    | WDone => match wk s with WProc O => Some (set_wk s WIdle) | _ => None end
    | WExit => match wk s, q s with
               | WIdle, O => if qclosed s then Some (set_wk s WExited) else None
               | _, _ => None
               end
    | BLock =>
        match bw s with
        | S b => if can_read s
                 then if closed s
                      then Some {| rd := rd s; wr := wr s; ww := ww s; closed := closed s; qclosed := qclosed s; q := q s; bs := bs s;
                                   bw := b; wk := wk s; cl := cl s; ext := ext s; panicked := panicked s |}
                      else Some {| rd := S (rd s); wr := wr s; ww := ww s; closed := closed s; qclosed := qclosed s; q := q s; bs := S (bs s);
                                   bw := b; wk := wk s; cl := cl s; ext := ext s; panicked := panicked s |}
                 else None
        | O => None
        end
    | BSend =>
        match bs s with
        | S b =>
            if qclosed s
            then Some {| rd := (if variant =? 2 then rd s else pred (rd s)); wr := wr s; ww := ww s; closed := closed s; qclosed := qclosed s;
                         q := q s; bs := b; bw := bw s; wk := wk s; cl := cl s; ext := ext s; panicked := true |}
            else if q s <? cap
                 then Some {| rd := (if variant =? 2 then rd s else pred (rd s)); wr := wr s; ww := ww s; closed := closed s; qclosed := qclosed s;
                              q := S (q s); bs := b; bw := bw s; wk := wk s; cl := cl s; ext := ext s; panicked := panicked s |}
                 else None
        | O => None
        end
    | BAbort =>
        match bs s with
        | S b => if (variant =? 2) && closed s
                 then Some {| rd := rd s; wr := wr s; ww := ww s; closed := closed s; qclosed := qclosed s; q := q s; bs := b;
                              bw := bw s; wk := wk s; cl := cl s; ext := ext s; panicked := panicked s |}
                 else None
        | O => None
        end
    | CCall =>
        match cl s with
        | CNot => Some {| rd := rd s; wr := wr s; ww := true; closed := closed s; qclosed := qclosed s; q := q s; bs := bs s;
                          bw := bw s; wk := wk s; cl := CWantLock; ext := ext s; panicked := panicked s |}
        | _ => None
        end
    | CLock =>
        match cl s with
        | CWantLock =>
            if (rd s =? 0) && negb (wr s)
            then Some (match variant with
                       | 0 => {| rd := rd s; wr := true; ww := false; closed := true; qclosed := true; q := q s; bs := bs s;
                                 bw := bw s; wk := wk s; cl := CWaitWorkers; ext := ext s; panicked := panicked s |}
                       | 1 => {| rd := rd s; wr := false; ww := false; closed := true; qclosed := true; q := q s; bs := bs s;
                                 bw := bw s; wk := wk s; cl := CWaitWorkers; ext := ext s; panicked := panicked s |}
                       | _ => {| rd := rd s; wr := false; ww := false; closed := true; qclosed := false; q := q s; bs := bs s;
                                 bw := bw s; wk := wk s; cl := CWaitSenders; ext := ext s; panicked := panicked s |}
                       end)
            else None
        | _ => None
        end
    | CSendersGone =>
        match cl s, bs s with
        | CWaitSenders, O => Some {| rd := rd s; wr := wr s; ww := ww s; closed := closed s; qclosed := true; q := q s; bs := bs s;
                                     bw := bw s; wk := wk s; cl := CWaitWorkers; ext := ext s; panicked := panicked s |}
        | _, _ => None
        end
    | CReturn =>
        match cl s, wk s with
        | CWaitWorkers, WExited => Some {| rd := rd s; wr := false; ww := ww s; closed := closed s; qclosed := qclosed s; q := q s; bs := bs s;
                                           bw := bw s; wk := wk s; cl := CRet; ext := ext s; panicked := panicked s |}
        | _, _ => None
        end
    end.

  Fixpoint prun (s : pst) (ls : list plabel) : option pst :=
    match ls with
    | [] => Some s
    | l :: t => match pstep s l with Some s' => prun s' t | None => None end
    end.

  (** every step except the environment's (a new call arrives, Close is called) *)
  Definition internal (l : plabel) : bool :=
    match l with ExtArrive | CCall => false | _ => true end.

  Definition closing (s : pst) : bool :=
    match cl s with CWantLock | CWaitSenders | CWaitWorkers => true | _ => false end.

  (** candidate labels, enough to decide whether any internal step is enabled ([WTake]'s argument does
      not matter for enabledness once it is within [fan]) *)
  Definition candidates : list plabel :=
    [ExtEnter; WTake 0; WNeed; WEnter; WDone; WExit; BLock; BSend; BAbort; CLock; CSendersGone; CReturn].

  Definition enabled (s : pst) : bool :=
    existsb (fun l => match pstep s l with Some _ => true | None => false end) candidates.

  Definition stuck (s : pst) : bool := closing s && negb (enabled s).

  Definition wkw (w : wphase) : nat :=
    match w with WExited => 0 | WIdle => 1 | WProc k => 2 * k + 2 | WEntry k => 2 * k + 3 end.
  Definition phw (c : cphase) : nat :=
    match c with CNot => 4 | CWantLock => 3 | CWaitSenders => 2 | CWaitWorkers => 1 | CRet => 0 end.

  (** the termination measure of Close in the current code *)
  Definition measure (s : pst) : nat :=
    phw (cl s) + (2 * fan + 4) * bs s + (2 * fan + 3) * q s + wkw (wk s) + ext s.
End P.

(** ------------------------------------------------------------------------------------------ *)
(** The executor. *)

Inductive iphase := IIdle | IHas | IExited.
Inductive ecphase := ENot | EWantLock | EWaitInit | EWaitWorkers | ERet.

Record est := {
  e_want : nat;       (* Push calls that have not taken the read lock yet *)
  e_hold : nat;       (* Push calls holding the read lock, blocked sending to initQueue *)
  e_wr : bool; e_ww : bool;
  e_closed : bool;    (* closeCh readable *)
  e_iqclosed : bool; e_wqclosed : bool;
  e_init : iphase;    (* watchInitQueue: idle, holding a payload for a worker, exited *)
  e_idle : nat; e_run : nat; e_gone : nat;   (* workers *)
  e_cl : ecphase;
  e_started : nat;    (* ghost: action runs started *)
  e_stored : nat;     (* ghost: action runs whose final status was stored (workerDo returned) *)
  e_panicked : bool
}.

Definition einit (workers : nat) :=
  {| e_want := 0; e_hold := 0; e_wr := false; e_ww := false; e_closed := false; e_iqclosed := false; e_wqclosed := false;
     e_init := IIdle; e_idle := workers; e_run := 0; e_gone := 0; e_cl := ENot; e_started := 0; e_stored := 0; e_panicked := false |}.

Inductive elabel :=
| PushArrive | PushLock | InitRecv | InitHandoff | InitDrop | RunEnd | InitExit | WorkerExit
| ECall | ELock | EInitGone | EReturn.

Definition estep (s : est) (l : elabel) : option est :=
  match l with
  | PushArrive => Some {| e_want := S (e_want s); e_hold := e_hold s; e_wr := e_wr s; e_ww := e_ww s; e_closed := e_closed s;
                          e_iqclosed := e_iqclosed s; e_wqclosed := e_wqclosed s; e_init := e_init s; e_idle := e_idle s; e_run := e_run s;
                          e_gone := e_gone s; e_cl := e_cl s; e_started := e_started s; e_stored := e_stored s; e_panicked := e_panicked s |}
  | PushLock =>
      match e_want s with
      | S w => if negb (e_wr s) && negb (e_ww s)
               then Some {| e_want := w; e_hold := (if e_closed s then e_hold s else S (e_hold s)); e_wr := e_wr s; e_ww := e_ww s;
                            e_closed := e_closed s; e_iqclosed := e_iqclosed s; e_wqclosed := e_wqclosed s; e_init := e_init s;
                            e_idle := e_idle s; e_run := e_run s; e_gone := e_gone s; e_cl := e_cl s; e_started := e_started s;
                            e_stored := e_stored s; e_panicked := e_panicked s |}
               else None
      | O => None
      end
  | InitRecv =>
      match e_hold s, e_init s with
      | S h, IIdle =>
          Some {| e_want := e_want s; e_hold := h; e_wr := e_wr s; e_ww := e_ww s; e_closed := e_closed s;
                  e_iqclosed := e_iqclosed s; e_wqclosed := e_wqclosed s; e_init := IHas; e_idle := e_idle s; e_run := e_run s;
                  e_gone := e_gone s; e_cl := e_cl s; e_started := e_started s; e_stored := e_stored s;
                  e_panicked := e_panicked s || e_iqclosed s |}
      | _, _ => None
      end
  | InitHandoff =>
      match e_init s, e_idle s with
      | IHas, S i =>
          Some {| e_want := e_want s; e_hold := e_hold s; e_wr := e_wr s; e_ww := e_ww s; e_closed := e_closed s;
                  e_iqclosed := e_iqclosed s; e_wqclosed := e_wqclosed s; e_init := IIdle; e_idle := i; e_run := S (e_run s);
                  e_gone := e_gone s; e_cl := e_cl s; e_started := S (e_started s); e_stored := e_stored s;
                  e_panicked := e_panicked s || e_wqclosed s |}
      | _, _ => None
      end
  | InitDrop =>   (* the task is already in the cancel map: not handed to a worker *)
      match e_init s with
      | IHas => Some {| e_want := e_want s; e_hold := e_hold s; e_wr := e_wr s; e_ww := e_ww s; e_closed := e_closed s;
                        e_iqclosed := e_iqclosed s; e_wqclosed := e_wqclosed s; e_init := IIdle; e_idle := e_idle s; e_run := e_run s;
                        e_gone := e_gone s; e_cl := e_cl s; e_started := e_started s; e_stored := e_stored s; e_panicked := e_panicked s |}
      | _ => None
      end
  | RunEnd =>
      match e_run s with
      | S r => Some {| e_want := e_want s; e_hold := e_hold s; e_wr := e_wr s; e_ww := e_ww s; e_closed := e_closed s;
                       e_iqclosed := e_iqclosed s; e_wqclosed := e_wqclosed s; e_init := e_init s; e_idle := S (e_idle s); e_run := r;
                       e_gone := e_gone s; e_cl := e_cl s; e_started := e_started s; e_stored := S (e_stored s); e_panicked := e_panicked s |}
      | O => None
      end
  | InitExit =>
      match e_init s with
      | IIdle => if e_iqclosed s
                 then Some {| e_want := e_want s; e_hold := e_hold s; e_wr := e_wr s; e_ww := e_ww s; e_closed := e_closed s;
                              e_iqclosed := e_iqclosed s; e_wqclosed := e_wqclosed s; e_init := IExited; e_idle := e_idle s; e_run := e_run s;
                              e_gone := e_gone s; e_cl := e_cl s; e_started := e_started s; e_stored := e_stored s; e_panicked := e_panicked s |}
                 else None
      | _ => None
      end
  | WorkerExit =>
      match e_idle s with
      | S i => if e_wqclosed s
               then Some {| e_want := e_want s; e_hold := e_hold s; e_wr := e_wr s; e_ww := e_ww s; e_closed := e_closed s;
                            e_iqclosed := e_iqclosed s; e_wqclosed := e_wqclosed s; e_init := e_init s; e_idle := i; e_run := e_run s;
                            e_gone := S (e_gone s); e_cl := e_cl s; e_started := e_started s; e_stored := e_stored s; e_panicked := e_panicked s |}
               else None
      | O => None
      end
  | ECall =>
      match e_cl s with
      | ENot => Some {| e_want := e_want s; e_hold := e_hold s; e_wr := e_wr s; e_ww := true; e_closed := e_closed s;
                        e_iqclosed := e_iqclosed s; e_wqclosed := e_wqclosed s; e_init := e_init s; e_idle := e_idle s; e_run := e_run s;
                        e_gone := e_gone s; e_cl := EWantLock; e_started := e_started s; e_stored := e_stored s; e_panicked := e_panicked s |}
      | _ => None
      end
  | ELock =>
      match e_cl s, e_hold s with
      | EWantLock, O =>
          if negb (e_wr s)
          then Some {| e_want := e_want s; e_hold := 0; e_wr := true; e_ww := false; e_closed := true;
                       e_iqclosed := true; e_wqclosed := e_wqclosed s; e_init := e_init s; e_idle := e_idle s; e_run := e_run s;
                       e_gone := e_gone s; e_cl := EWaitInit; e_started := e_started s; e_stored := e_stored s; e_panicked := e_panicked s |}
          else None
      | _, _ => None
      end
  | EInitGone =>
      match e_cl s, e_init s with
      | EWaitInit, IExited =>
          Some {| e_want := e_want s; e_hold := e_hold s; e_wr := e_wr s; e_ww := e_ww s; e_closed := e_closed s;
                  e_iqclosed := e_iqclosed s; e_wqclosed := true; e_init := e_init s; e_idle := e_idle s; e_run := e_run s;
                  e_gone := e_gone s; e_cl := EWaitWorkers; e_started := e_started s; e_stored := e_stored s; e_panicked := e_panicked s |}
      | _, _ => None
      end
  | EReturn =>
      match e_cl s, e_idle s, e_run s with
      | EWaitWorkers, O, O =>
          Some {| e_want := e_want s; e_hold := e_hold s; e_wr := false; e_ww := e_ww s; e_closed := e_closed s;
                  e_iqclosed := e_iqclosed s; e_wqclosed := e_wqclosed s; e_init := e_init s; e_idle := e_idle s; e_run := e_run s;
                  e_gone := e_gone s; e_cl := ERet; e_started := e_started s; e_stored := e_stored s; e_panicked := e_panicked s |}
      | _, _, _ => None
      end
  end.

Fixpoint erun (s : est) (ls : list elabel) : option est :=
  match ls with
  | [] => Some s
  | l :: t => match estep s l with Some s' => erun s' t | None => None end
  end.

Definition einternal (l : elabel) : bool :=
  match l with PushArrive | ECall => false | _ => true end.

Definition eclosing (s : est) : bool :=
  match e_cl s with EWantLock | EWaitInit | EWaitWorkers => true | _ => false end.

Definition ecandidates : list elabel :=
  [PushLock; InitRecv; InitHandoff; RunEnd; InitExit; WorkerExit; ELock; EInitGone; EReturn].

Definition eenabled (s : est) : bool :=
  existsb (fun l => match estep s l with Some _ => true | None => false end) ecandidates.

Definition iw (i : iphase) : nat := match i with IExited => 0 | IIdle => 1 | IHas => 3 end.
Definition ephw (c : ecphase) : nat :=
  match c with ENot => 4 | EWantLock => 3 | EWaitInit => 2 | EWaitWorkers => 1 | ERet => 0 end.

Definition emeasure (s : est) : nat :=
  ephw (e_cl s) + 3 * e_hold s + iw (e_init s) + 2 * e_run s + e_idle s + e_want s.
