(** C10: the lock invariant of the repaired MongoMutex and its consequences. *)
From Coq Require Import List ZArith Bool Lia Arith.
From FF Require Import Sx Mutex.
Import ListNotations.
Local Open Scope Z_scope.

Lemma hget_hset_same l k v : hget (hset l k v) k = v.
Proof. revert l; induction k as [|k IH]; intros [|x t]; simpl; auto. Qed.
Lemma hget_nil k : hget [] k = h0.
Proof. destruct k; reflexivity. Qed.
Lemma hget_hset_other l k k' v : k <> k' -> hget (hset l k v) k' = hget l k'.
Proof.
  revert l k'; induction k as [|k IH]; intros l k' Hne.
  - destruct l as [|x t]; destruct k' as [|k']; simpl; try congruence; auto using hget_nil.
  - destruct l as [|x t]; destruct k' as [|k']; simpl; auto;
      try (rewrite IH by congruence); rewrite ?hget_nil; auto.
Qed.
Lemma hget_map f l k : f h0 = h0 -> hget (map f l) k = f (hget l k).
Proof.
  intros Hf. revert k; induction l as [|x t IH]; intros [|k]; simpl; auto.
Qed.

Lemma H_setH s h v h' : H (setH s h v) h' = if Nat.eqb h h' then v else H s h'.
Proof.
  unfold H, setH; simpl. destruct (Nat.eqb_spec h h') as [->|Hne].
  - apply hget_hset_same.
  - apply hget_hset_other; assumption.
Qed.
Lemma H_setDoc s d h : H (setDoc s d) h = H s h.  Proof. reflexivity. Qed.

Definition rel1 (e : Z) (x : hst) : hst :=
  match h_detail x with
  | Some (e', _) => if Z.eqb e' e then {| h_detail := h_detail x; h_pc := h_pc x; h_holds := false; h_ident := h_ident x |} else x
  | None => x end.
Lemma H_release s e h : H (release_all s e) h = rel1 e (H s h).
Proof. unfold H, release_all; simpl. apply (hget_map (rel1 e)). reflexivity. Qed.

(** the invariant *)
Definition busy_clean (s : mst) (x : hst) : Prop :=
  match h_pc x with
  | MFindNext _ _ _ | MInsertNext _ _ _ _ | MWait _ _ => h_detail x = None /\ h_holds x = false
  | MCasNext old _ _ _ _ => h_detail x = None /\ h_holds x = false /\ old < m_now s
  | _ => True
  end.

Lemma busy_clean_now s s0 x : m_now s0 = m_now s -> busy_clean s x -> busy_clean s0 x.
Proof.
  intros Hn. unfold busy_clean. destruct (h_pc x); auto. intros (A & B & C). rewrite Hn. auto.
Qed.

Lemma busy_clean_release s s0 x e i :
  busy_clean s x -> h_detail x = Some (e, i) ->
  busy_clean s0 {| h_detail := Some (e, i); h_pc := h_pc x; h_holds := false; h_ident := h_ident x |}.
Proof.
  unfold busy_clean. simpl. destruct (h_pc x); auto; intros Hb Hd; destruct Hb as [A _]; congruence.
Qed.

Definition holder_ok (s : mst) (h : nat) (x : hst) : Prop :=
  h_holds x = true ->
  exists e i, h_detail x = Some (e, i) /\
    (m_now s < e -> exists d, m_doc s = Some d /\ d_exp d = e /\ d_id d = h_ident x /\ (d_owner d = h \/ h_ident x <> 0)).

Definition MInv (s : mst) : Prop := forall h, busy_clean s (H s h) /\ holder_ok s h (H s h).

Lemma MInv_init : MInv minit.
Proof. intros h. unfold H, minit; simpl. rewrite ?hget_nil. split; [exact Logic.I|intros X; discriminate]. Qed.

(** no unexpired holder exists when the document is absent or expired *)
Lemma no_holder_without_doc s h : MInv s -> m_doc s = None -> h_holds (H s h) = true ->
  exists e i, h_detail (H s h) = Some (e, i) /\ e <= m_now s.
Proof.
  intros HI Hd Hh. destruct (HI h) as [_ Ho]. destruct (Ho Hh) as (e & i & He & Hdoc).
  exists e, i. split; [exact He|]. destruct (Z.lt_ge_cases (m_now s) e) as [L|G]; [|lia].
  destruct (Hdoc L) as (d & Hd' & _). congruence.
Qed.

Lemma no_holder_on_expired_doc s h d : MInv s -> m_doc s = Some d -> d_exp d < m_now s -> h_holds (H s h) = true ->
  exists e i, h_detail (H s h) = Some (e, i) /\ e <= m_now s.
Proof.
  intros HI Hd Hx Hh. destruct (HI h) as [_ Ho]. destruct (Ho Hh) as (e & i & He & Hdoc).
  exists e, i. split; [exact He|]. destruct (Z.lt_ge_cases (m_now s) e) as [L|G]; [|lia].
  destruct (Hdoc L) as (d' & Hd' & He' & _). assert (d' = d) by congruence. subst d'. lia.
Qed.

(** other handles keep their invariant when the document is replaced, provided they are expired *)
Lemma others_ok_after_new_doc s s' h' x :
  m_now s' = m_now s -> holder_ok s h' x ->
  (h_holds x = true -> exists e i, h_detail x = Some (e, i) /\ e <= m_now s) ->
  holder_ok s' h' x.
Proof.
  intros Hn Ho Hexp Hh. destruct (Hexp Hh) as (e & i & He & Hle). exists e, i. split; [exact He|].
  intros L. rewrite Hn in L. lia.
Qed.

Ltac hcase h h' := rewrite ?H_setH, ?H_setDoc in *; destruct (Nat.eqb_spec h h'); subst; simpl in *.

Lemma MInv_step s l s' : MInv s -> mstep true s l = Some s' -> MInv s'.
Proof.
  intros HI Hst. destruct l; simpl in Hst.
  - (* MTick *)
    destruct (0 <=? d) eqn:Hd; [|discriminate]. injection Hst as <-. apply Z.leb_le in Hd.
    intros h. destruct (HI h) as [Hb Ho]. split.
    + unfold busy_clean, H in *; simpl in *. destruct (h_pc (hget (m_hs s) h)); auto. destruct Hb as (A & B & C). repeat split; auto; lia.
    + intros Hh. destruct (Ho Hh) as (e & i & He & Hdoc). exists e, i. split; [exact He|].
      intros L. simpl in L. apply Hdoc. lia.
  - (* MSweep *)
    destruct (m_doc s) as [d|] eqn:Hd; [|discriminate].
    destruct (d_exp d + 1000 <? m_now s) eqn:Hx; [|discriminate]. injection Hst as <-. apply Z.ltb_lt in Hx.
    intros h. destruct (HI h) as [Hb Ho]. split; [exact Hb|].
    eapply (others_ok_after_new_doc s); [reflexivity|exact Ho|].
    intros Hh. apply (no_holder_on_expired_doc s h d HI Hd); [lia|exact Hh].
  - (* LockCall *)
    destruct (h_pc (H s h)) eqn:Hpc; try discriminate. injection Hst as <-.
    intros h'. hcase h h'.
    + split; [split; reflexivity|intros X; discriminate].
    + apply HI.
  - (* FindOp *)
    destruct (h_pc (H s h)) eqn:Hpc; try discriminate.
    destruct (HI h) as [Hb _]. unfold busy_clean in Hb. rewrite Hpc in Hb. destruct Hb as [Hdn Hhf].
    destruct r.
    + destruct (m_doc s) as [d|] eqn:Hd.
      * destruct (d_exp d <? m_now s) eqn:Hx.
        -- injection Hst as <-. apply Z.ltb_lt in Hx. intros h'. hcase h h'.
           ++ split; [repeat split; auto|rewrite Hhf; intros X; discriminate].
           ++ apply HI.
        -- destruct (negb (ident =? 0) && (d_id d =? ident)) eqn:Hid.
           ++ injection Hst as <-. apply andb_true_iff in Hid as [Hi1 Hi2].
              apply negb_true_iff, Z.eqb_neq in Hi1. apply Z.eqb_eq in Hi2.
              unfold acquired. intros h'. hcase h h'.
              ** split; [exact Logic.I|]. intros _. exists (d_exp d), (d_id d). split; [reflexivity|].
                 intros _. exists d. repeat split; auto.
              ** apply HI.
           ++ injection Hst as <-. unfold after_spin_noacq. rewrite Hdn. intros h'. hcase h h'.
              ** split; [split; auto|rewrite Hhf; intros X; discriminate].
              ** apply HI.
      * injection Hst as <-. intros h'. hcase h h'.
        -- split; [split; auto|rewrite Hhf; intros X; discriminate].
        -- apply HI.
    + injection Hst as <-. unfold after_spin_err. rewrite orb_true_r. intros h'. hcase h h'.
      * split; [exact Logic.I|rewrite Hhf; intros X; discriminate].
      * apply HI.
    + injection Hst as <-. unfold after_spin_err. rewrite orb_true_r. intros h'. hcase h h'.
      * split; [exact Logic.I|rewrite Hhf; intros X; discriminate].
      * apply HI.
  - (* InsertOp *)
    destruct (h_pc (H s h)) eqn:Hpc; try discriminate.
    destruct (HI h) as [Hb _]. unfold busy_clean in Hb. rewrite Hpc in Hb. destruct Hb as [Hdn Hhf].
    assert (Herr : forall s0, m_now s0 = m_now s -> (forall h', H s0 h' = H s h') ->
                   (forall h', h' <> h -> holder_ok s0 h' (H s h')) ->
                   MInv (after_spin_err true s0 h first)).
    { intros s0 Hn HH Hoth. unfold after_spin_err. rewrite orb_true_r. intros h'.
      rewrite H_setH. destruct (Nat.eqb_spec h h') as [<-|Hne].
      - rewrite !HH. simpl. split; [exact Logic.I|rewrite Hhf; intros X; discriminate].
      - rewrite !HH. split.
        + destruct (HI h') as [Hb' _]. exact (busy_clean_now s _ (H s h') Hn Hb').
        + unfold holder_ok. intros Hh. destruct (Hoth h' (not_eq_sym Hne) Hh) as (e & i & He & Hdoc).
          exists e, i. split; [exact He|]. intros L. simpl in L. apply Hdoc. exact L. }
    destruct r.
    + (* ok *)
      destruct (m_doc s) as [d|] eqn:Hd.
      * injection Hst as <-. unfold after_spin_noacq. rewrite Hdn. intros h'. hcase h h'.
        -- split; [split; auto|rewrite Hhf; intros X; discriminate].
        -- apply HI.
      * injection Hst as <-. unfold acquired. intros h'. rewrite H_setH, H_setDoc.
        destruct (Nat.eqb_spec h h') as [<-|Hne]; simpl.
        -- split; [exact Logic.I|]. intros _. exists exp, ident. split; [reflexivity|].
           intros _. eexists. split; [reflexivity|]. simpl. auto.
        -- destruct (HI h') as [Hb' Ho']. split; [exact Hb'|].
           eapply (others_ok_after_new_doc s); [reflexivity|exact Ho'|].
           intros Hh. exact (no_holder_without_doc s h' HI Hd Hh).
    + (* fail *)
      injection Hst as <-. apply (Herr s eq_refl (fun _ => eq_refl)). intros h' _. apply HI.
    + (* lost *)
      destruct (m_doc s) as [d|] eqn:Hd.
      * injection Hst as <-. apply (Herr s eq_refl (fun _ => eq_refl)). intros h' _. apply HI.
      * injection Hst as <-. apply (Herr (setDoc s (Some {| d_exp := exp; d_id := ident; d_owner := h |})) eq_refl (fun _ => eq_refl)).
        intros h' _. destruct (HI h') as [_ Ho'].
        eapply (others_ok_after_new_doc s); [reflexivity|exact Ho'|].
        intros Hh. exact (no_holder_without_doc s h' HI Hd Hh).
  - (* CasOp *)
    destruct (h_pc (H s h)) eqn:Hpc; try discriminate.
    destruct (HI h) as [Hb _]. unfold busy_clean in Hb. rewrite Hpc in Hb. destruct Hb as (Hdn & Hhf & Hold).
    assert (Herr : forall s0, m_now s0 = m_now s -> (forall h', H s0 h' = H s h') ->
                   (forall h', h' <> h -> holder_ok s0 h' (H s h')) ->
                   MInv (after_spin_err true s0 h first)).
    { intros s0 Hn HH Hoth. unfold after_spin_err. rewrite orb_true_r. intros h'.
      rewrite H_setH. destruct (Nat.eqb_spec h h') as [<-|Hne].
      - rewrite !HH. simpl. split; [exact Logic.I|rewrite Hhf; intros X; discriminate].
      - rewrite !HH. split.
        + destruct (HI h') as [Hb' _]. exact (busy_clean_now s _ (H s h') Hn Hb').
        + unfold holder_ok. intros Hh. destruct (Hoth h' (not_eq_sym Hne) Hh) as (e & i & He & Hdoc).
          exists e, i. split; [exact He|]. intros L. simpl in L. apply Hdoc. exact L. }
    assert (Hnoacq : MInv (after_spin_noacq s h ttl ident)).
    { unfold after_spin_noacq. rewrite Hdn. intros h'. hcase h h'.
      - split; [split; auto|rewrite Hhf; intros X; discriminate].
      - apply HI. }
    destruct r.
    + destruct (m_doc s) as [d|] eqn:Hd; [|injection Hst as <-; exact Hnoacq].
      destruct (d_exp d =? old) eqn:Hm; [|injection Hst as <-; exact Hnoacq].
      injection Hst as <-. apply Z.eqb_eq in Hm. unfold acquired. intros h'. rewrite H_setH, H_setDoc.
      destruct (Nat.eqb_spec h h') as [<-|Hne]; simpl.
      * split; [exact Logic.I|]. intros _. exists exp1, (d_id d). split; [reflexivity|].
        intros _. eexists. split; [reflexivity|]. simpl. auto.
      * destruct (HI h') as [Hb' Ho']. split; [exact Hb'|].
        eapply (others_ok_after_new_doc s); [reflexivity|exact Ho'|].
        intros Hh. apply (no_holder_on_expired_doc s h' d HI Hd); [lia|exact Hh].
    + injection Hst as <-. apply (Herr s eq_refl (fun _ => eq_refl)). intros h' _. apply HI.
    + destruct (m_doc s) as [d|] eqn:Hd; [|injection Hst as <-; apply (Herr s eq_refl (fun _ => eq_refl)); intros h' _; apply HI].
      destruct (d_exp d =? old) eqn:Hm; [|injection Hst as <-; apply (Herr s eq_refl (fun _ => eq_refl)); intros h' _; apply HI].
      injection Hst as <-. apply Z.eqb_eq in Hm.
      apply (Herr (setDoc s (Some {| d_exp := exp1; d_id := ident; d_owner := h |})) eq_refl (fun _ => eq_refl)).
      intros h' _. destruct (HI h') as [_ Ho'].
      eapply (others_ok_after_new_doc s); [reflexivity|exact Ho'|].
      intros Hh. apply (no_holder_on_expired_doc s h' d HI Hd); [lia|exact Hh].
  - (* SpinTick *)
    destruct (h_pc (H s h)) eqn:Hpc; try discriminate. injection Hst as <-.
    destruct (HI h) as [Hb _]. unfold busy_clean in Hb. rewrite Hpc in Hb. destruct Hb as [Hdn Hhf].
    intros h'. hcase h h'.
    + split; [split; auto|rewrite Hhf; intros X; discriminate].
    + apply HI.
  - (* CtxDone *)
    destruct (h_pc (H s h)) eqn:Hpc; try discriminate. injection Hst as <-.
    destruct (HI h) as [Hb _]. unfold busy_clean in Hb. rewrite Hpc in Hb. destruct Hb as [Hdn Hhf].
    intros h'. hcase h h'.
    + split; [exact Logic.I|rewrite Hhf; intros X; discriminate].
    + apply HI.
  - (* LockRet *)
    destruct (h_pc (H s h)) eqn:Hpc; try discriminate.
    destruct (code0 =? code); [|discriminate]. injection Hst as <-.
    intros h'. hcase h h'.
    + destruct (HI h') as [_ Ho]. split; [exact Logic.I|exact Ho].
    + apply HI.
  - (* UnlockOp *)
    destruct (h_pc (H s h)) eqn:Hpc; try discriminate.
    destruct (h_detail (H s h)) as [[e i]|] eqn:Hdt; [|discriminate].
    assert (Hkeep : forall c, MInv (setH s h {| h_detail := Some (e, i); h_pc := MRet c; h_holds := h_holds (H s h); h_ident := h_ident (H s h) |})).
    { intros c h'. hcase h h'.
      - destruct (HI h') as [_ Ho]. split; [exact Logic.I|]. intros Hh. destruct (Ho Hh) as (e0 & i0 & He0 & Hdoc).
        rewrite Hdt in He0. injection He0 as <- <-. exists e, i. split; [reflexivity|exact Hdoc].
      - apply HI. }
    destruct r.
    + destruct (m_doc s) as [d|] eqn:Hd; [|injection Hst as <-; apply Hkeep].
      destruct (d_exp d =? e) eqn:Hm; [|injection Hst as <-; apply Hkeep].
      injection Hst as <-. apply Z.eqb_eq in Hm.
      intros h'. rewrite H_setH. destruct (Nat.eqb_spec h h') as [<-|Hne]; simpl.
      * split; [exact Logic.I|intros X; discriminate].
      * rewrite H_release. rewrite H_setDoc. destruct (HI h') as [Hb' Ho']. unfold rel1.
        destruct (h_detail (H s h')) as [[e' i']|] eqn:Hd'.
        -- destruct (e' =? e) eqn:He'.
           ++ split; [eapply busy_clean_release; eassumption|simpl; intros X; discriminate].
           ++ split; [exact Hb'|]. intros Hh. destruct (Ho' Hh) as (e0 & i0 & He0 & Hdoc).
              rewrite Hd' in He0. injection He0 as <- <-. exists e', i'. split; [first [reflexivity|exact Hd']|].
              intros L. destruct (Hdoc L) as (d0 & Hd0 & He0 & _). assert (d0 = d) by congruence. subst d0.
              apply Z.eqb_neq in He'. congruence.
        -- split; [exact Hb'|]. intros Hh. destruct (Ho' Hh) as (e0 & i0 & He0 & _). congruence.
    + injection Hst as <-. apply Hkeep.
    + discriminate.
  - (* UnlockRet *)
    destruct (h_pc (H s h)) eqn:Hpc; try discriminate.
    + destruct (h_detail (H s h)); [discriminate|]. destruct (code =? 4); [|discriminate]. injection Hst as <-. exact HI.
    + destruct (code0 =? code); [|discriminate]. injection Hst as <-.
      intros h'. hcase h h'.
      * destruct (HI h') as [_ Ho]. split; [exact Logic.I|exact Ho].
      * apply HI.
Qed.

Theorem MInv_reachable ls s : mrun true minit ls = Some s -> MInv s.
Proof.
  assert (G : forall ls s0, MInv s0 -> mrun true s0 ls = Some s -> MInv s).
  { induction ls0 as [|l t IH]; simpl; intros s0 H0 Hr.
    - injection Hr as <-. exact H0.
    - destruct (mstep true s0 l) eqn:Hs; [|discriminate]. eapply IH; [eapply MInv_step; eassumption|exact Hr]. }
  intros Hr. exact (G ls minit MInv_init Hr).
Qed.

(** a handle holds the key: Lock returned nil, the lock was not released since, and the expiry it
    remembers has not been reached *)
Definition holds_now (s : mst) (h : nat) : Prop :=
  h_holds (H s h) = true /\ exists e i, h_detail (H s h) = Some (e, i) /\ m_now s < e.

(** (1) mutual exclusion: in every reachable state two different handles hold the key at the same
    time only if they share the same non-empty reentrant identity *)
Theorem mutual_exclusion ls s h1 h2 :
  mrun true minit ls = Some s -> holds_now s h1 -> holds_now s h2 -> h1 <> h2 ->
  h_ident (H s h1) = h_ident (H s h2) /\ h_ident (H s h1) <> 0.
Proof.
  intros Hr [Hh1 (e1 & i1 & Hd1 & L1)] [Hh2 (e2 & i2 & Hd2 & L2)] Hne.
  pose proof (MInv_reachable ls s Hr) as HI.
  destruct (HI h1) as [_ Ho1]. destruct (HI h2) as [_ Ho2].
  destruct (Ho1 Hh1) as (e1' & i1' & Hd1' & Hdoc1). rewrite Hd1 in Hd1'. injection Hd1' as <- <-.
  destruct (Ho2 Hh2) as (e2' & i2' & Hd2' & Hdoc2). rewrite Hd2 in Hd2'. injection Hd2' as <- <-.
  destruct (Hdoc1 L1) as (d1 & Hm1 & _ & Hid1 & Hown1).
  destruct (Hdoc2 L2) as (d2 & Hm2 & _ & Hid2 & Hown2).
  assert (d2 = d1) by congruence. subst d2.
  split; [congruence|].
  destruct Hown1 as [O1|N1]; [|exact N1]. destruct Hown2 as [O2|N2]; [congruence|congruence].
Qed.

(** (2) honesty: when a Lock call reaches its successful return, the document names the caller's
    expiry (it wrote it, or adopted a lock of its own non-empty identity) *)
Theorem lock_success_is_honest ls s h :
  mrun true minit ls = Some s -> h_pc (H s h) = MRet 0 -> h_holds (H s h) = true ->
  exists e i, h_detail (H s h) = Some (e, i) /\
    (m_now s < e -> exists d, m_doc s = Some d /\ d_exp d = e /\ d_id d = h_ident (H s h)).
Proof.
  intros Hr _ Hh. destruct (MInv_reachable ls s Hr h) as [_ Ho]. destruct (Ho Hh) as (e & i & He & Hdoc).
  exists e, i. split; [exact He|]. intros L. destruct (Hdoc L) as (d & A & B & C & _). exists d. auto.
Qed.

(** a database failure during the spin loop never turns into a successful return *)
Theorem failed_operation_is_reported s h first :
  h_pc (H (after_spin_err true s h first) h) = MRet 1.
Proof. unfold after_spin_err. rewrite orb_true_r. rewrite H_setH, Nat.eqb_refl. reflexivity. Qed.

(** (3) a held lock is taken over only after its expiry: the compare-and-set is prepared only on a
    document whose expiry is in the past *)
Theorem takeover_only_after_expiry ls s h old e1 ident ttl first :
  mrun true minit ls = Some s -> h_pc (H s h) = MCasNext old e1 ident ttl first -> old < m_now s.
Proof.
  intros Hr Hpc. destruct (MInv_reachable ls s Hr h) as [Hb _]. unfold busy_clean in Hb. rewrite Hpc in Hb. tauto.
Qed.

(** (4) Unlock by a handle whose remembered expiry is the document's frees the key ... *)
Theorem unlock_by_holder s h e i d s' :
  h_pc (H s h) = MIdle -> h_detail (H s h) = Some (e, i) -> m_doc s = Some d -> d_exp d = e ->
  mstep true s (UnlockOp h MOk) = Some s' -> m_doc s' = None /\ h_pc (H s' h) = MRet 0.
Proof.
  intros Hpc Hd Hdoc He Hst. simpl in Hst. rewrite Hpc, Hd, Hdoc in Hst.
  apply Z.eqb_eq in He. rewrite He in Hst. injection Hst as <-. split; [reflexivity|].
  rewrite H_setH, Nat.eqb_refl. reflexivity.
Qed.

(** ... while Unlock by a handle whose lock expired and was taken over fails with
    "already unlocked" and leaves the new holder's document untouched *)
Theorem unlock_after_takeover s h e i d s' :
  h_pc (H s h) = MIdle -> h_detail (H s h) = Some (e, i) -> m_doc s = Some d -> d_exp d <> e ->
  mstep true s (UnlockOp h MOk) = Some s' -> m_doc s' = Some d /\ h_pc (H s' h) = MRet 3.
Proof.
  intros Hpc Hd Hdoc He Hst. simpl in Hst. rewrite Hpc, Hd, Hdoc in Hst.
  apply Z.eqb_neq in He. rewrite He in Hst. injection Hst as <-. split; [exact Hdoc|].
  rewrite H_setH, Nat.eqb_refl. reflexivity.
Qed.

(** (5) a waiting Lock returns the context's error when cancelled, and acquires with its next
    attempt once the key is free *)
Theorem cancel_returns_ctx_error s h ttl ident s' :
  h_pc (H s h) = MWait ttl ident -> mstep true s (CtxDone h) = Some s' -> h_pc (H s' h) = MRet 2.
Proof. intros Hpc Hst. simpl in Hst. rewrite Hpc in Hst. injection Hst as <-. rewrite H_setH, Nat.eqb_refl. reflexivity. Qed.

Theorem acquires_once_free s h ttl ident s1 s2 s3 :
  h_pc (H s h) = MWait ttl ident -> m_doc s = None ->
  mstep true s (SpinTick h) = Some s1 -> mstep true s1 (FindOp h MOk) = Some s2 -> mstep true s2 (InsertOp h MOk) = Some s3 ->
  h_pc (H s3 h) = MRet 0 /\ h_holds (H s3 h) = true /\ exists d, m_doc s3 = Some d /\ d_owner d = h /\ d_exp d = m_now s + ttl.
Proof.
  intros Hpc Hdoc H1 H2 H3. simpl in H1. rewrite Hpc in H1. injection H1 as <-.
  simpl in H2. rewrite H_setH, Nat.eqb_refl in H2. simpl in H2. rewrite Hdoc in H2. injection H2 as <-.
  simpl in H3. rewrite H_setH, Nat.eqb_refl in H3. simpl in H3. rewrite Hdoc in H3. injection H3 as <-.
  unfold acquired. rewrite H_setH, Nat.eqb_refl. simpl. repeat split. eexists. repeat split.
Qed.

(** the pinned code: (a) a failed read inside the retry loop makes Lock return nil; (b) the holder's
    own Unlock misses because the stored expiry differs from the remembered one *)
Theorem unfixed_refuted :
  (exists s, mrun false minit [LockCall 0 5000 0; FindOp 0 MOk; InsertOp 0 MOk; LockRet 0 0;
                               LockCall 1 5000 0; FindOp 1 MOk; SpinTick 1; FindOp 1 MFail; LockRet 1 0] = Some s
             /\ h_holds (H s 0) = true /\ h_holds (H s 1) = true /\ m_now s < 5000) /\
  (exists s, mrun false minit [LockCall 0 1000 0; FindOp 0 MOk; InsertOp 0 MOk; LockRet 0 0; MTick 2000;
                               LockCall 1 5000 0; FindOp 1 MOk; MTick 7; CasOp 1 MOk; LockRet 1 0;
                               UnlockOp 1 MOk; UnlockRet 1 3] = Some s /\ m_doc s <> None).
Proof. split; eexists; vm_compute; repeat split; try reflexivity; discriminate. Qed.

Example exclusion_premises_met :
  exists s, mrun true minit [LockCall 0 5000 7; FindOp 0 MOk; InsertOp 0 MOk; LockRet 0 0;
                             LockCall 1 5000 7; FindOp 1 MOk; LockRet 1 0] = Some s
            /\ h_holds (H s 0) = true /\ h_holds (H s 1) = true /\ h_ident (H s 0) = 7 /\ h_ident (H s 1) = 7.
Proof. eexists; vm_compute; repeat split; reflexivity. Qed.
