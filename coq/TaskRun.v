(** TaskRun: the phase machine of TaskInstance.Run + DefExecutor.handleTaskError
    (pkg/entity/task.go, pkg/mod/executor.go) as an acceptor of the per-task
    projection of a journal: action phase starts / ends and the status writes of
    the executor run, in the order they happened.

    [acc_step] is the program counter of one executor run; hooks may or may
    not exist, patches may fail, phases may return an error or panic.  The
    correspondence check projects every real journal onto every task and
    requires acceptance; the theorems below hold for every accepted stream. *)
From Coq Require Import List ZArith Bool Arith Lia.
From FF Require Import Sx StoreModel StoreCheck.
Import ListNotations.
Local Open Scope Z_scope.

(** phases: 0 before, 1 run, 2 after, 3 retry; outcome: 0 ok, 1 error, 2 panic;
    statuses as stored: 1 init 2 running 3 ending 4 success 5 failed 6 canceled 7 retrying *)
Inductive tev :=
| TS (ph : Z)                                  (* phase start *)
| TE (ph o : Z)                                (* phase end *)
| TP (st : Z) (reason : bool) (ok : bool)      (* status write of the run: status, has a reason, acknowledged *)
| TX                                           (* a write to the task by somebody else (pre-check, command, watchdog, parent cancel) *)
| TCrash.

Inductive pc :=
| Idle | InBefore | NeedRunning | NeedRunStart | InRun | NeedEnding | NeedAfterOrSuccess
| InAfter | NeedSuccess | InRetry | NeedInit | NeedFail.

Definition pc_eqb (a b : pc) : bool :=
  match a, b with
  | Idle, Idle | InBefore, InBefore | NeedRunning, NeedRunning | NeedRunStart, NeedRunStart
  | InRun, InRun | NeedEnding, NeedEnding | NeedAfterOrSuccess, NeedAfterOrSuccess
  | InAfter, InAfter | NeedSuccess, NeedSuccess | InRetry, InRetry | NeedInit, NeedInit
  | NeedFail, NeedFail => true
  | _, _ => false
  end.

Definition is_fail_st (st : Z) : bool := Z.eqb st 5 || Z.eqb st 6.

Definition acc_step (p : pc) (e : tev) : option pc :=
  match e with
  | TCrash => Some Idle
  | TX => match p with Idle => Some Idle | _ => Some p end
  | _ =>
  match p, e with
  | Idle, TS 0 => Some InBefore
  | Idle, TP 2 _ ok => Some (if ok then NeedRunStart else NeedFail)
  | Idle, TS 2 => Some InAfter                       (* resumed in 'ending' *)
  | Idle, TP 4 _ ok => Some (if ok then Idle else NeedFail)   (* 'ending', no after-hook *)
  | Idle, TS 3 => Some InRetry
  | Idle, TP 1 _ ok => Some (if ok then Idle else NeedFail)   (* 'retrying', no retry-hook *)
  | Idle, TP st true _ => if is_fail_st st then Some Idle else None   (* error before any phase *)
  | InBefore, TE 0 o => Some (if Z.eqb o 0 then NeedRunning else NeedFail)
  | NeedRunning, TP 2 _ ok => Some (if ok then NeedRunStart else NeedFail)
  | NeedRunStart, TS 1 => Some InRun
  | InRun, TE 1 o => Some (if Z.eqb o 0 then NeedEnding else NeedFail)
  | NeedEnding, TP 3 _ ok => Some (if ok then NeedAfterOrSuccess else NeedFail)
  | NeedAfterOrSuccess, TS 2 => Some InAfter
  | NeedAfterOrSuccess, TP 4 _ ok => Some (if ok then Idle else NeedFail)
  | InAfter, TE 2 o => Some (if Z.eqb o 0 then NeedSuccess else NeedFail)
  | NeedSuccess, TP 4 _ ok => Some (if ok then Idle else NeedFail)
  | InRetry, TE 3 o => Some (if Z.eqb o 0 then NeedInit else NeedFail)
  | NeedInit, TP 1 _ ok => Some (if ok then Idle else NeedFail)
  | NeedFail, TP st true _ => if is_fail_st st then Some Idle else None
  | _, _ => None
  end
  end.

Fixpoint run_acc (p : pc) (evs : list tev) : option pc :=
  match evs with
  | [] => Some p
  | e :: r => match acc_step p e with Some p' => run_acc p' r | None => None end
  end.

Definition accepts (evs : list tev) : bool := match run_acc Idle evs with Some _ => true | None => false end.

(* ------------------------------------------------------------------ projection of a journal onto one task *)
Definition project_event (tid : Z) (ev : sx) : list tev :=
  match ev with
  | L [I 1; I now; op; reply; I origin; I fault] =>
      match sop_of_sx op with
      | Some (OPatchTask id st rs tr) =>
          if negb (Z.eqb id tid) || Z.eqb st 0 then []
          else if negb (Z.eqb origin 0) then [TX]
          else if Z.eqb st 10 || Z.eqb st 8 then [TX]              (* pre-check outcome written by Push *)
          else if Z.eqb st 6 && Z.eqb rs 3 then [TX]               (* canceled because the parent was cancelled *)
          else [TP st (negb (Z.eqb rs 0)) (Z.eqb fault 0 && sx_eqb reply (L [I 0]))]
      | Some (OUpdateTask r) => if Z.eqb (t_id r) tid then [TX] else []
      | _ => []
      end
  | L [I 2; I t; I gid; I ph; I att; I dl; I ins] => if Z.eqb t tid then [TS ph] else []
  | L [I 3; I t; I gid; I ph; I o] => if Z.eqb t tid then [TE ph o] else []
  | L [I 20] => [TCrash]
  | _ => []
  end.

Definition project_task (tid : Z) (evs : list sx) : list tev := flat_map (project_event tid) evs.

Definition task_ids_of (evs : list sx) : list Z :=
  fold_left (fun acc ev =>
    match ev with
    | L [I 2; I t; _; _; _; _; _] => if zin t acc then acc else t :: acc
    | _ => acc
    end) evs [].

(** correspondence: every task's projected stream is accepted; result = first rejected task *)
Definition check_runs (c : sx) : verdict :=
  match c with
  | L [_; L evs] =>
      match find (fun t => negb (accepts (project_task t evs))) (task_ids_of evs) with
      | None => OkCase
      | Some t => Mismatch 77 (I t)
      end
  | _ => BadCase 1
  end.
