(** Theorems about the store contract model (C19, and the filters used by C06/C14). *)
From Coq Require Import List ZArith Bool Arith Lia.
From FF Require Import Sx StoreModel.
Import ListNotations.
Local Open Scope Z_scope.

(* ------------------------------------------------------------------ upd_first *)
Lemma upd_first_find {A} (p : A -> bool) (f : A -> A) (l : list A) :
  (forall x, p x = true -> p (f x) = true) ->
  find p (fst (upd_first p f l)) = option_map f (find p l).
Proof.
  intros Hp. induction l as [|x r IH]; simpl; [reflexivity|].
  destruct (p x) eqn:E; simpl.
  - rewrite (Hp x E). reflexivity.
  - destruct (upd_first p f r) as [r' b]. simpl in *. rewrite E. exact IH.
Qed.

Lemma upd_first_find_other {A} (p q : A -> bool) (f : A -> A) (l : list A) :
  (forall x, p x = true -> q x = false) -> (forall x, p x = true -> q (f x) = false) ->
  find q (fst (upd_first p f l)) = find q l.
Proof.
  intros H1 H2. induction l as [|x r IH]; simpl; [reflexivity|].
  destruct (p x) eqn:E; simpl.
  - rewrite (H1 x E), (H2 x E). reflexivity.
  - destruct (upd_first p f r) as [r' b]. simpl in *. destruct (q x); [reflexivity|exact IH].
Qed.

Lemma upd_first_found {A} (p : A -> bool) (f : A -> A) (l : list A) :
  snd (upd_first p f l) = existsb p l.
Proof.
  induction l as [|x r IH]; simpl; [reflexivity|].
  destruct (p x); simpl; [reflexivity|]. destruct (upd_first p f r); simpl in *. exact IH.
Qed.

Lemma upd_first_length {A} (p : A -> bool) (f : A -> A) (l : list A) :
  length (fst (upd_first p f l)) = length l.
Proof.
  induction l as [|x r IH]; simpl; [reflexivity|].
  destruct (p x); simpl; [reflexivity|]. destruct (upd_first p f r); simpl in *. rewrite IH. reflexivity.
Qed.

(* ------------------------------------------------------------------ round trips and error classes *)
Definition with_upd_t (r : trec) (now : Z) : trec :=
  mkT (t_id r) (t_ins r) (t_gid r) (t_deps r) (t_timeout r) (t_status r) (t_reason r) (t_traces r) now (t_rest r).
Definition with_upd_i (r : irec) (now : Z) : irec :=
  mkI (i_id r) (i_worker r) (i_status r) (i_reason r) (i_cmd r) (i_share r) now (i_rest r).

Lemma find_app_none {A} (p : A -> bool) l x :
  find p l = None -> find p (l ++ [x]) = if p x then Some x else None.
Proof. induction l as [|y r IH]; simpl; intros H; [reflexivity|]. destruct (p y); [discriminate|apply IH, H]. Qed.

Lemma existsb_find_none {A} (p : A -> bool) l : existsb p l = false -> find p l = None.
Proof. induction l as [|y r IH]; simpl; intros H; [reflexivity|]. destruct (p y); [discriminate|apply IH, H]. Qed.

Theorem create_get_task now s r :
  has_task s (t_id r) = false ->
  let s' := fst (create_task now s r) in
  snd (create_task now s r) = ROk /\ get_task s' (t_id r) = RTask (with_upd_t r now) /\ insts s' = insts s.
Proof.
  intros H. unfold create_task. rewrite H. simpl. repeat split.
  unfold get_task. simpl. unfold has_task in H. apply existsb_find_none in H.
  rewrite (find_app_none _ _ _ H). simpl. rewrite Z.eqb_refl. reflexivity.
Qed.

Theorem create_get_ins now s r :
  has_ins s (i_id r) = false ->
  let s' := fst (create_ins now s r) in
  snd (create_ins now s r) = ROk /\ get_ins s' (i_id r) = RIns (with_upd_i r now) /\ tasks s' = tasks s.
Proof.
  intros H. unfold create_ins. rewrite H. simpl. repeat split.
  unfold get_ins. simpl. unfold has_ins in H. apply existsb_find_none in H.
  rewrite (find_app_none _ _ _ H). simpl. rewrite Z.eqb_refl. reflexivity.
Qed.

Theorem create_duplicate_conflict now s r :
  has_task s (t_id r) = true -> create_task now s r = (s, RConflict).
Proof. intros H. unfold create_task. rewrite H. reflexivity. Qed.

Theorem create_ins_duplicate_conflict now s r :
  has_ins s (i_id r) = true -> create_ins now s r = (s, RConflict).
Proof. intros H. unfold create_ins. rewrite H. reflexivity. Qed.

Theorem get_missing_not_found s id :
  has_task s id = false -> get_task s id = RNotFound.
Proof. intros H. unfold get_task. unfold has_task in H. rewrite (existsb_find_none _ _ H). reflexivity. Qed.

Theorem update_missing_not_found now s r :
  has_task s (t_id r) = false -> update_task now s r = (s, RNotFound).
Proof.
  intros H. unfold update_task.
  pose proof (upd_first_found (fun x => Z.eqb (t_id x) (t_id r))
     (fun _ => mkT (t_id r) (t_ins r) (t_gid r) (t_deps r) (t_timeout r) (t_status r) (t_reason r) (t_traces r) now (t_rest r)) (tasks s)) as E.
  destruct (upd_first _ _ (tasks s)) as [l b]. simpl in E. unfold has_task in H. rewrite H in E. subst b. reflexivity.
Qed.

(* ------------------------------------------------------------------ patch frame theorems *)
(** PatchTaskIns touches one record; in it only updatedAt and the supplied ones of
    status / reason / traces; every other task and every instance is unchanged. *)
Theorem patch_task_frame now s id st rs tr :
  id <> 0 ->
  let s' := fst (patch_task now s id st rs tr) in
  insts s' = insts s /\
  (forall id', id' <> id -> get_task s' id' = get_task s id') /\
  (forall r, get_task s id = RTask r ->
     get_task s' id = RTask (mkT (t_id r) (t_ins r) (t_gid r) (t_deps r) (t_timeout r)
                                 (if Z.eqb st 0 then t_status r else st)
                                 (if Z.eqb rs 0 then t_reason r else rs)
                                 (match tr with [] => t_traces r | _ => tr end) now (t_rest r))) /\
  (get_task s id = RNotFound -> get_task s' id = RNotFound) /\
  length (tasks s') = length (tasks s).
Proof.
  intros Hid. unfold patch_task. apply Z.eqb_neq in Hid. rewrite Hid. simpl.
  split; [reflexivity|]. split; [|split; [|split]].
  - intros id' Hne. unfold get_task. simpl.
    rewrite (upd_first_find_other (fun r => Z.eqb (t_id r) id) (fun r => Z.eqb (t_id r) id')); [reflexivity| |].
    + intros x Hx. apply Z.eqb_eq in Hx. apply Z.eqb_neq. congruence.
    + intros x Hx. simpl. apply Z.eqb_eq in Hx. apply Z.eqb_neq. congruence.
  - intros r Hr. unfold get_task in *. simpl. rewrite upd_first_find; [|intros x Hx; exact Hx].
    destruct (find _ (tasks s)) as [r0|]; [|discriminate]. injection Hr as ->. reflexivity.
  - intros Hr. unfold get_task in *. simpl. rewrite upd_first_find; [|intros x Hx; exact Hx].
    destruct (find _ (tasks s)); [discriminate|reflexivity].
  - apply upd_first_length.
Qed.

(** PatchDagIns: worker, command, shared data, status and reason are kept unless
    supplied (or forced by the must-patch list); tasks and other instances unchanged. *)
Theorem patch_ins_frame now s id share st cmd must_cmd wk rs must_rs :
  let s' := fst (patch_ins now s id share st cmd must_cmd wk rs must_rs) in
  tasks s' = tasks s /\
  (forall id', id' <> id -> get_ins s' id' = get_ins s id') /\
  (forall r, get_ins s id = RIns r ->
     get_ins s' id = RIns (mkI (i_id r)
                              (if Z.eqb wk 0 then i_worker r else wk)
                              (if Z.eqb st 0 then i_status r else st)
                              (if must_rs || negb (Z.eqb rs 0) then rs else i_reason r)
                              (match cmd with Some c => Some c | None => if must_cmd then None else i_cmd r end)
                              (match share with Some d => Some d | None => i_share r end)
                              now (i_rest r))) /\
  length (insts s') = length (insts s).
Proof.
  unfold patch_ins. simpl. split; [reflexivity|]. split; [|split].
  - intros id' Hne. unfold get_ins. simpl.
    rewrite (upd_first_find_other (fun r => Z.eqb (i_id r) id) (fun r => Z.eqb (i_id r) id')); [reflexivity| |].
    + intros x Hx. apply Z.eqb_eq in Hx. apply Z.eqb_neq. congruence.
    + intros x Hx. simpl. apply Z.eqb_eq in Hx. apply Z.eqb_neq. congruence.
  - intros r Hr. unfold get_ins in *. simpl. rewrite upd_first_find; [|intros x Hx; exact Hx].
    destruct (find _ (insts s)) as [r0|]; [|discriminate]. injection Hr as ->. reflexivity.
  - apply upd_first_length.
Qed.

(** In particular a patch that supplies nothing but a status keeps worker, cmd, share data, reason. *)
Corollary patch_ins_status_only now s id st r :
  get_ins s id = RIns r ->
  get_ins (fst (patch_ins now s id None st None false 0 0 false)) id =
  RIns (mkI (i_id r) (i_worker r) (if Z.eqb st 0 then i_status r else st) (i_reason r) (i_cmd r) (i_share r) now (i_rest r)).
Proof. intros H. apply (patch_ins_frame now s id None st None false 0 0 false) in H. exact H. Qed.

(* ------------------------------------------------------------------ list exactness *)
Theorem list_tasks_exact now s f r :
  In r (list_tasks now s f) <-> In r (tasks s) /\ task_matches now f r = true.
Proof. unfold list_tasks. apply filter_In. Qed.

Theorem list_ins_exact_nolimit s f r :
  if_limit f <= 0 ->
  (In r (list_ins s f) <-> In r (insts s) /\ ins_matches f r = true).
Proof.
  intros H. unfold list_ins, take_limit. destruct (Z.ltb_spec 0 (if_limit f)); [lia|]. apply filter_In.
Qed.

Theorem list_ins_limit s f :
  0 < if_limit f ->
  list_ins s f = firstn (Z.to_nat (if_limit f)) (filter (ins_matches f) (insts s)).
Proof. intros H. unfold list_ins, take_limit. destruct (Z.ltb_spec 0 (if_limit f)); [reflexivity|lia]. Qed.

Lemma In_firstn {A} (x : A) n : forall l, In x (firstn n l) -> In x l.
Proof. induction n as [|n IH]; intros [|y l] H; simpl in *; try tauto. destruct H; [left; assumption|right; apply IH; assumption]. Qed.

(** worker filter: a list with a worker key never returns a foreign instance (C06) *)
Theorem list_ins_worker s f r :
  if_worker f <> 0 -> In r (list_ins s f) -> i_worker r = if_worker f.
Proof.
  intros Hw H. unfold list_ins, take_limit in H.
  assert (In r (filter (ins_matches f) (insts s))).
  { destruct (0 <? if_limit f); [eapply In_firstn; exact H|exact H]. }
  apply filter_In in H0 as [_ M]. unfold ins_matches in M.
  repeat (apply andb_true_iff in M as [M ?]).
  apply orb_true_iff in H2 as [E|E]; apply Z.eqb_eq in E; congruence.
Qed.

(** the expiry predicate, exactly (C14) *)
Theorem expired_iff now r : expired now r = true <-> t_upd r <= now - 5 - t_timeout r.
Proof. unfold expired. apply Z.leb_le. Qed.

(* ------------------------------------------------------------------ batch failures are reported *)
Theorem batch_update_ins_reports now : forall l s k,
  (k < length l)%nat -> snd (batch_update_ins now s l (Some k)) = RErr.
Proof.
  induction l as [|r rest IH]; intros s k Hk; simpl in *; [lia|].
  destruct k as [|k].
  - destruct (batch_update_ins now s rest None). reflexivity.
  - specialize (IH (fst (update_ins now s r)) k ltac:(lia)).
    destruct (batch_update_ins now (fst (update_ins now s r)) rest (Some k)). simpl in *. exact IH.
Qed.

Theorem batch_update_tasks_reports now : forall l s k,
  (k < length l)%nat -> snd (batch_update_tasks now s l (Some k)) = RErr.
Proof.
  induction l as [|r rest IH]; intros s k Hk; simpl in *; [lia|].
  destruct k as [|k]; [reflexivity|]. apply IH. lia.
Qed.

Theorem batch_create_tasks_reports now : forall l s k,
  (k < length l)%nat -> snd (batch_create_tasks now s l (Some k)) = RErr.
Proof.
  induction l as [|r rest IH]; intros s k Hk; simpl in *; [lia|].
  destruct k as [|k]; [reflexivity|].
  destruct (create_task now s r) as [s' rp] eqn:E. destruct rp; try reflexivity. apply IH. lia.
Qed.

(* ------------------------------------------------------------------ worker key *)
Lemma split_last_dash_spec l p s :
  split_last_dash l = Some (p, s) -> l = p ++ 45 :: s /\ ~ In 45 s.
Proof.
  revert p s. induction l as [|c r IH]; intros p s H; simpl in H; [discriminate|].
  destruct (split_last_dash r) as [[p' s']|] eqn:E.
  - injection H as <- <-. destruct (IH p' s' eq_refl) as [-> Hn]. split; [reflexivity|exact Hn].
  - destruct (Z.eqb_spec c 45); [|discriminate]. injection H as <- <-. subst c. split; [reflexivity|].
    clear IH. revert E. induction r as [|d r IH]; simpl; intros E; [tauto|].
    destruct (split_last_dash r) as [[? ?]|]; [discriminate|].
    destruct (Z.eqb_spec d 45); [discriminate|]. intros [H|H]; [congruence|]. apply IH; auto.
Qed.

Lemma split_last_dash_complete p s :
  ~ In 45 s -> split_last_dash (p ++ 45 :: s) = Some (p, s).
Proof.
  intros Hs.
  assert (Hn : split_last_dash s = None).
  { induction s as [|d r IH]; simpl; [reflexivity|].
    rewrite IH by (intro; apply Hs; right; assumption).
    destruct (Z.eqb_spec d 45); [exfalso; apply Hs; left; assumption|reflexivity]. }
  induction p as [|c p IH]; simpl.
  - rewrite Hn. reflexivity.
  - rewrite IH. reflexivity.
Qed.

(** accepted => the key is  name - digits  with a non-empty newline-free name, a
    non-empty digit string, and the number it denotes is the result and is <= 255 *)
Theorem worker_key_sound key v :
  check_worker_key key = Some v ->
  exists p s, key = p ++ 45 :: s /\ p <> [] /\ s <> [] /\ forallb is_digit s = true /\
              ~ In 10 p /\ v = digits_value s 0 /\ v <= 255.
Proof.
  unfold check_worker_key. destruct (split_last_dash key) as [[p s]|] eqn:E; [|discriminate].
  destruct p as [|c p]; [discriminate|]. destruct s as [|d s]; [discriminate|].
  remember (c :: p) as pp eqn:Epp. remember (d :: s) as ss eqn:Ess.
  destruct (forallb is_digit ss) eqn:Hd; cbn [andb]; [|discriminate].
  destruct (forallb (fun c0 => negb (Z.eqb c0 10)) pp) eqn:Hp; [|discriminate].
  destruct (Z.leb_spec (digits_value ss 0) 255); [|discriminate].
  intros Hv; injection Hv as <-. apply split_last_dash_spec in E as [-> _].
  exists pp, ss. subst pp ss. repeat split; try discriminate; auto.
  intros Hin. rewrite forallb_forall in Hp. specialize (Hp 10 Hin). discriminate.
Qed.

Lemma digits_no_dash s : forallb is_digit s = true -> ~ In 45 s.
Proof.
  intros H Hin. rewrite forallb_forall in H. specialize (H 45 Hin). discriminate.
Qed.

Theorem worker_key_complete p s :
  p <> [] -> s <> [] -> forallb is_digit s = true -> ~ In 10 p -> digits_value s 0 <= 255 ->
  check_worker_key (p ++ 45 :: s) = Some (digits_value s 0).
Proof.
  intros Hp Hs Hd Hn Hv. unfold check_worker_key.
  rewrite (split_last_dash_complete p s (digits_no_dash s Hd)).
  destruct p as [|c p]; [congruence|]. destruct s as [|d s]; [congruence|].
  remember (c :: p) as pp eqn:Epp. remember (d :: s) as ss eqn:Ess.
  rewrite Hd.
  assert (E : forallb (fun c0 => negb (Z.eqb c0 10)) pp = true).
  { apply forallb_forall. intros x Hx. destruct (Z.eqb_spec x 10); [subst x; contradiction|reflexivity]. }
  rewrite E. cbn [andb]. destruct (Z.leb_spec (digits_value ss 0) 255); [reflexivity|lia].
Qed.

(* ------------------------------------------------------------------ id layout *)
(** sonyflake id = time * 2^24 + sequence * 2^16 + machine id, sequence < 2^8, machine < 2^16 *)
Definition flake_id (time seq machine : Z) : Z := time * 16777216 + seq * 65536 + machine.

Theorem flake_ids_differ t1 s1 m1 t2 s2 m2 :
  0 <= m1 < 65536 -> 0 <= m2 < 65536 -> m1 <> m2 -> flake_id t1 s1 m1 <> flake_id t2 s2 m2.
Proof.
  unfold flake_id. intros H1 H2 Hne E.
  assert (X : (t1 * 16777216 + s1 * 65536 + m1) mod 65536 = (t2 * 16777216 + s2 * 65536 + m2) mod 65536) by (rewrite E; reflexivity).
  replace (t1 * 16777216 + s1 * 65536 + m1) with (m1 + (t1 * 256 + s1) * 65536) in X by ring.
  replace (t2 * 16777216 + s2 * 65536 + m2) with (m2 + (t2 * 256 + s2) * 65536) in X by ring.
  rewrite !Z.mod_add in X by lia. rewrite !Z.mod_small in X by lia. contradiction.
Qed.

(* non-vacuity *)
Example worker_key_example : check_worker_key [119; 45; 49; 50] = Some 12.
Proof. reflexivity. Qed.
Example patch_example :
  get_task (fst (patch_task 9 (fst (create_task 5 empty_store (mkT 1 2 3 [] 30 1 0 [] 0 (L [])))) 1 2 0 [])) 1
  = RTask (mkT 1 2 3 [] 30 2 0 [] 9 (L [])).
Proof. reflexivity. Qed.
