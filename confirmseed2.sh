#!/bin/sh
# usage: confirmseed2.sh <Cxx> [suite]
# In the sub-agent's scratch worktree /tmp/mut2/<Cxx> (change applied, uncommitted): the demonstration must FAIL
# with the change and PASS without it; with "suite" the existing test suite is run with the change.
id=$1
export GOFLAGS=-mod=mod GOPROXY=off GOSUMDB=off GOTOOLCHAIN=local
MUT=${MUT:-/tmp/mut2}; cd $MUT/$id || exit 2
eval $(python3 - <<PY
import json
m=json.load(open('_seed/meta.json'))
print('dir=%s; tf=%s; rx=%s' % (m['demo_pkg_dir'].rstrip('/'), m['demo_file'], "'"+m['demo_run_regex']+"'"))
PY
)
git diff > $MUT/$id.cur.diff
git apply --check -R _seed/patch.diff 2>/dev/null || echo "$id WARNING: patch.diff is not what is applied in the worktree"
cp _seed/$tf $dir/$tf
go test -vet=off -count=1 -run "$rx" ./$dir/ >$MUT/$id.with.log 2>&1; with=$?
rm -f $dir/$tf
suite=skipped
if [ "$2" = suite ]; then
  go build ./... >$MUT/$id.suite.log 2>&1 && go test -vet=off -count=1 ./... >>$MUT/$id.suite.log 2>&1; suite=$?
  if [ $suite != 0 ]; then   # the known flaky test: retry pkg/mod once
    grep -q "^FAIL" $MUT/$id.suite.log && grep "^--- FAIL\|^FAIL" $MUT/$id.suite.log | head -5
    go test -vet=off -count=1 ./... >$MUT/$id.suite2.log 2>&1; suite="$suite,retry=$?"
  fi
fi
git stash -q
cp _seed/$tf $dir/$tf
go test -vet=off -count=1 -run "$rx" ./$dir/ >$MUT/$id.without.log 2>&1; without=$?
rm -f $dir/$tf
git stash pop -q
echo "$id demo with-change rc=$with (want !=0), without rc=$without (want 0), suite-with-change rc=$suite"
