#!/bin/sh
# usage: confirmseed.sh <Cxx> <pkgdir> <testfile> <run-regex>
# In the agent's scratch worktree: demo must FAIL with the change and PASS without it; existing suite passes with change.
id=$1; dir=$2; tf=$3; rx=$4
export GOFLAGS=-mod=mod GOPROXY=off GOSUMDB=off GOTOOLCHAIN=local
cd /tmp/mut/$id || exit 2
cp _seed/$tf $dir/$tf
go test -vet=off -count=1 -run "$rx" ./$dir/ >/tmp/mut/$id.with.log 2>&1; with=$?
git stash -q
cp _seed/$tf $dir/$tf 2>/dev/null
go test -vet=off -count=1 -run "$rx" ./$dir/ >/tmp/mut/$id.without.log 2>&1; without=$?
rm -f $dir/$tf
git stash pop -q
rm -f $dir/$tf
echo "$id demo with-change rc=$with (want !=0), without rc=$without (want 0)"
