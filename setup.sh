#!/bin/sh
# Builds the framework from files on disk only (offline): Coq development, extracted model, Go harness.
set -e
cd "$(dirname "$0")"
export GOFLAGS=-mod=mod GOPROXY=off GOSUMDB=off GOTOOLCHAIN=local CGO_ENABLED=0
mkdir -p .work evidence replays
(cd coq && coq_makefile -f _CoqProject -o Makefile >/dev/null && timeout 3000 make -j16 >/dev/null)
(cd ocaml && ./build.sh)
cp /repo/go.sum harness/go.sum
(cd harness && go build -tags verif -o ../.work/ffh ./cmd/ffh)
echo setup ok
