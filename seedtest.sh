#!/bin/sh
# usage: seedtest.sh <property> <patch> [tier]  : applies the patch to /repo, runs the check, restores /repo
p=$1; patch=$2; tier=${3:-quick}
cd /repo || exit 2
git diff --quiet || { echo "/repo not clean"; exit 2; }
git apply "$patch" 2>/dev/null || { echo "PATCH DOES NOT APPLY"; git checkout -- .; exit 3; }
git reset -q
cd /verif && ./check $p --tier $tier; rc=$?
git -C /repo checkout -- . ; git -C /repo clean -fdq -- . 2>/dev/null
echo "check rc=$rc"
exit $rc
