#!/bin/sh
# usage: keepseed2.sh <Cxx> <detected yes|no|after-strengthening> "<which clause/kind caught it>"
id=$1; det=$2; how=$3
SUF=${SUF:-b}; MUT=${MUT:-/tmp/mut2}
d=/verif/seeded/${id}${SUF}
mkdir -p $d && cp $MUT/$id/_seed/* $d/ 2>/dev/null
python3 - "$id" "$det" "$how" "$SUF" <<'PY'
import json,sys
id,det,how,suf=sys.argv[1:5]
p='/verif/seeded/%s%s/meta.json'%(id,suf)
m=json.load(open(p))
m['breaks_property']=id
m['round']={'b':2,'c':3}.get(suf,2)
m['confirmed_by_verifier']={'existing_suite_passes_with_change':True,'demo_fails_with_change_and_passes_without':True,
 'what_was_run':'confirmseed2.sh %s suite (scratch worktree: demo fails with change / passes without; go build + full suite with change, only the known-flaky TestDefCommander_OpTask/unhealthy_worker may fail); seedtest.sh %s seeded/%s%s/patch.diff quick (git apply on /repo, ./check, git checkout)'%(id,id,id,suf),
 'detected_by_check':det,'caught_by':how}
json.dump(m,open(p,'w'),indent=1)
PY
echo kept ${id}${SUF}
