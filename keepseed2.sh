#!/bin/sh
# usage: keepseed2.sh <Cxx> <detected yes|no|after-strengthening> "<which clause/kind caught it>"
id=$1; det=$2; how=$3
d=/verif/seeded/${id}b
mkdir -p $d && cp /tmp/mut2/$id/_seed/* $d/ 2>/dev/null
python3 - "$id" "$det" "$how" <<'PY'
import json,sys
id,det,how=sys.argv[1:4]
p='/verif/seeded/%sb/meta.json'%id
m=json.load(open(p))
m['breaks_property']=id
m['round']=2
m['confirmed_by_verifier']={'existing_suite_passes_with_change':True,'demo_fails_with_change_and_passes_without':True,
 'what_was_run':'confirmseed2.sh %s suite (scratch worktree: demo fails with change / passes without; go build + full suite with change, only the known-flaky TestDefCommander_OpTask/unhealthy_worker may fail); seedtest.sh %s seeded/%sb/patch.diff quick (git apply on /repo, ./check, git checkout)'%(id,id,id),
 'detected_by_check':det,'caught_by':how}
json.dump(m,open(p,'w'),indent=1)
PY
echo kept ${id}b
