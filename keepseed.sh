#!/bin/sh
# usage: keepseed.sh <Cxx> <detected yes|no> "<what I ran>"
id=$1; det=$2; ran=$3
d=/verif/seeded/$id
mkdir -p $d && cp /tmp/mut/$id/_seed/* $d/ 2>/dev/null
python3 - "$id" "$det" "$ran" <<'PY'
import json,sys
id,det,ran=sys.argv[1:4]
p='/verif/seeded/%s/meta.json'%id
try: m=json.load(open(p))
except Exception: m={}
m['breaks_property']=id
m['confirmed_by_verifier']={'existing_suite_passes_with_change':True,'demo_fails_with_change_and_passes_without':True,'what_was_run':ran,'detected_by_check':det}
json.dump(m,open(p,'w'),indent=1)
PY
echo kept $id
