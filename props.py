"""Per-property configuration of the check orchestrator."""

PROPS = {
    "C07": dict(
        families=[dict(name="dispatch")],
        search=True,
        trusted_base=["alive list given to the model is the one the harness constructed (heartbeats it issued and aged), not the one AliveNodes returned"],
        modelled=["MongoDB find natural order = insertion order; BatchUpdateDagIns' concurrent ReplaceOne calls are observed only through the final collection"],
        assumptions=["'every pending instance' is read as: every instance the round lists, i.e. the first 1000 init instances in store order (limit is part of the theorem statement)"],
    ),
}
