"""Per-property configuration of the check orchestrator."""

PROPS = {
    "C07": dict(
        families=[dict(name="dispatch")],
        search=True,
        trusted_base=["alive list given to the model is the one the harness constructed (heartbeats it issued and aged), not the one AliveNodes returned"],
        modelled=["MongoDB find natural order = insertion order; BatchUpdateDagIns' concurrent ReplaceOne calls are observed only through the final collection"],
        assumptions=["'every pending instance' is read as: every instance the round lists, i.e. the first 1000 init instances in store order (limit is part of the theorem statement)"],
    ),
    "C16": dict(
        families=[dict(name="dagvalid"), dict(name="tree")],
        search=True,
        refuted=["C16_unfixed_refuted: the pinned code accepted [a<-b; b<-a; c] (rootless cycle); repaired by fix commit 5726d17, the model follows the repaired code"],
        partial=["C16_accept_complete / C16_accept_iff are stated under 'the explicit fuel of the level-order check did not run out' (fuel adequacy n+2 is validated by the correspondence run, not yet proved)",
                 "acyclicity is stated as existence of a strictly decreasing rank (proved to exclude every dependency cycle); the converse for finite graphs is not proved"],
        modelled=["node identity in the cycle check is the graph id (the code keys its visited map by instance id; the harness never gives two nodes the same instance id)"],
        assumptions=["reference decision in the harness (Kahn) is independent of both model and code"],
    ),
    "C19": dict(
        families=[dict(name="store")],
        search=True,
        refuted=["pinned code: BatchUpdateDagIns swallowed every write error (repaired by fix commit 5a6e720; model follows the repaired code)"],
        modelled=["entity fields other than id/worker/status/reason/cmd/shareData (instances) and id/dagInsId/taskId/dependOn/timeoutSecs/status/reason/traces (tasks) are carried as one opaque value that create/replace store and get/list return",
                  "timestamps are never compared; time filters are exercised only when every stored updatedAt is more than 1 s away from the threshold",
                  "sonyflake id layout (time<<24 | sequence<<16 | machine) is modelled by flake_id; the correspondence checks id mod 2^16 = worker number on ids produced by child processes"],
        assumptions=["list results are compared in store natural order by the correspondence and as multisets by the monitor"],
    ),
}
