"""Per-property configuration of the check orchestrator."""

PROPS = {
    "C07": dict(
        families=[dict(name="dispatch")],
        search=True,
        trusted_base=["alive list given to the model is the one the harness constructed (heartbeats it issued and aged), not the one AliveNodes returned"],
        modelled=["MongoDB find natural order = insertion order; BatchUpdateDagIns' concurrent ReplaceOne calls are observed only through the final collection"],
        assumptions=["'every pending instance' is read as: every instance the round lists, i.e. the first 1000 init instances in store order (limit is part of the theorem statement)"],
    ),
    "C16": dict(
        families=[dict(name="dagvalid"), dict(name="tree")],
        search=True,
        refuted=["C16_unfixed_refuted: the pinned code accepted [a<-b; b<-a; c] (rootless cycle); repaired by fix commit 5726d17, the model follows the repaired code"],
        partial=["C16_accept_complete / C16_accept_iff are stated under 'the explicit fuel of the level-order check did not run out' (fuel adequacy n+2 is validated by the correspondence run, not yet proved)",
                 "acyclicity is stated as existence of a strictly decreasing rank (proved to exclude every dependency cycle); the converse for finite graphs is not proved"],
        modelled=["node identity in the cycle check is the graph id (the code keys its visited map by instance id; the harness never gives two nodes the same instance id)"],
        assumptions=["reference decision in the harness (Kahn) is independent of both model and code"],
    ),
    "C19": dict(
        families=[dict(name="store")],
        search=True,
        refuted=["pinned code: BatchUpdateDagIns swallowed every write error (repaired by fix commit 5a6e720; model follows the repaired code)"],
        modelled=["entity fields other than id/worker/status/reason/cmd/shareData (instances) and id/dagInsId/taskId/dependOn/timeoutSecs/status/reason/traces (tasks) are carried as one opaque value that create/replace store and get/list return",
                  "timestamps are never compared; time filters are exercised only when every stored updatedAt is more than 1 s away from the threshold",
                  "sonyflake id layout (time<<24 | sequence<<16 | machine) is modelled by flake_id; the correspondence checks id mod 2^16 = worker number on ids produced by child processes"],
        assumptions=["list results are compared in store natural order by the correspondence and as multisets by the monitor"],
    ),
    "C01": dict(
        families=[dict(name="tree"), dict(name="engine", args=["-x", ",diamond,precheck,cmdrace,crash"], recode={"30": "101"})],
        search=True,
        partial=["theorems cover part A (tree walk hands out only tasks whose dependencies are done, for every tree and status assignment); the engine-level invariant (knowledge soundness + finality) is checked by the journal monitor, not proved"],
        modelled=['the engine LTS itself is not modelled in Coq yet: the engine-level statement is the Coq-defined journal monitor (EngineMon), evaluated on journals of the real parser/executor/commander run under a controlled scheduler; the persisted state at each journal position is reconstructed with StoreModel and every store reply in the journal is checked against StoreModel (correspondence)', 'Go scheduler and sync primitives, goroutine interleavings finer than store calls / action-phase boundaries'],
    ),
    "C03": dict(
        families=[dict(name="tree"), dict(name="engine", args=["-x", ",diamond,precheck,cancel,cmdrace"], recode={"30": "103"})],
        search=True,
        partial=["theorems: verdict witnesses of ComputeStatus for every tree; settling/containment judged by the journal monitor"],
        refuted=["pinned code: the cmd watcher's {status: running, cmd: nil} patch could overwrite the verdict (lost update) - repaired by fix commit fb3a28e",
                 "known finding: a retry/continue command that matches no eligible task re-marks the instance running and nothing settles it (pinned by the existing test TestDefParser_ParseCmd/retry_not_failed, so not repaired)"],
        modelled=['the engine LTS itself is not modelled in Coq yet: the engine-level statement is the Coq-defined journal monitor (EngineMon), evaluated on journals of the real parser/executor/commander run under a controlled scheduler; the persisted state at each journal position is reconstructed with StoreModel and every store reply in the journal is checked against StoreModel (correspondence)', 'Go scheduler and sync primitives, goroutine interleavings finer than store calls / action-phase boundaries'],
    ),
    "C13": dict(
        families=[dict(name="precheck"), dict(name="engine", args=["-x", "precheck,precheck,,cmdrace"], recode={"30": "113"})],
        search=True,
        partial=["theorems: skipped enables dependents like success, blocked enables nothing (tree level); 'no phase runs for a skipped/blocked task until continue' judged by the journal monitor"],
        modelled=['the engine LTS itself is not modelled in Coq yet: the engine-level statement is the Coq-defined journal monitor (EngineMon), evaluated on journals of the real parser/executor/commander run under a controlled scheduler; the persisted state at each journal position is reconstructed with StoreModel and every store reply in the journal is checked against StoreModel (correspondence)', 'Go scheduler and sync primitives, goroutine interleavings finer than store calls / action-phase boundaries'],
    ),
}
